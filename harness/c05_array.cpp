// C05 correspondence harness: momo::Array and ArrayIntCap<1..5> (see c05_array.h).
// -DC05_PART=1: std::string items, internal capacity 0..5;  -DC05_PART=2: the other item types and memory managers;
// -DC05_PART=3: the "not nothrow-movable but nothrow-swappable" item type
#include "c05_array.h"
using namespace c05;

template<size_t N, typename T, typename MM>
using Arr = momo::Array<T, MM, momo::ArrayItemTraits<T, MM>, momo::ArraySettings<N>>;

typedef LogMM<false, false> MM00;	// Allocate / Deallocate only
typedef LogMM<true, false> MM10;	// + Reallocate
typedef LogMM<false, true> MM01;	// + ReallocateInplace (answer chosen by the harness)
typedef LogMM<true, true> MM11;

// what the item types are meant to exercise (checked against the real traits)
static_assert(momo::ArrayItemTraits<Triv, MM10>::isTriviallyRelocatable, "Triv");
static_assert(momo::ArrayItemTraits<NM, MM00>::isNothrowMoveConstructible && !momo::ArrayItemTraits<NM, MM00>::isTriviallyRelocatable, "NM");
static_assert(!momo::ArrayItemTraits<TM, MM00>::isNothrowMoveConstructible && momo::ArrayItemTraits<TM, MM00>::isNothrowRelocatable, "TM");
static_assert(!momo::ArrayItemTraits<CO, MM00>::isNothrowRelocatable && !momo::ArrayItemTraits<CO, MM00>::isNothrowMoveConstructible, "CO");
static_assert(momo::ArrayItemTraits<std::string, MM00>::isNothrowMoveConstructible, "string");
// SW: for the arrays the category of CO (relocation = copy + destroy, plain assignment), for ObjectManager a swappable one
static_assert(!momo::ArrayItemTraits<SW, MM00>::isNothrowRelocatable && !momo::ArrayItemTraits<SW, MM00>::isNothrowMoveConstructible
	&& !momo::ArrayItemTraits<SW, MM00>::isTriviallyRelocatable, "SW");
static_assert(momo::internal::ObjectManager<SW, MM00>::isNothrowSwappable && momo::internal::ObjectManager<SW, MM00>::isNothrowShiftable
	&& momo::internal::ObjectManager<SW, MM00>::isNothrowAnywayAssignable && !std::is_nothrow_move_assignable<SW>::value
	&& !std::is_nothrow_move_constructible<SW>::value, "SW");

int main(int argc, char** argv)
{
	Ctx c = parseArgs(argc, argv);
	Rng rng(c.seed * 0x1000 + 5);
	Budget b = c.thorough ? Budget{ 1000, 220, 300 } : Budget{ 40, 200, 260 };
#if !defined(C05_PART) || C05_PART == 1
	runConfig<ArrayAdapter<Arr<0, std::string, MM00>>>(c, rng, "a0_string", "Allocate-only manager", b);
	runConfig<ArrayAdapter<Arr<1, std::string, MM00>>>(c, rng, "a1_string", "Allocate-only manager", b);
	runConfig<ArrayAdapter<Arr<2, std::string, MM00>>>(c, rng, "a2_string", "Allocate-only manager", b);
	runConfig<ArrayAdapter<Arr<3, std::string, MM00>>>(c, rng, "a3_string", "Allocate-only manager", b);
	runConfig<ArrayAdapter<Arr<4, std::string, MM00>>>(c, rng, "a4_string", "Allocate-only manager", b);
	runConfig<ArrayAdapter<Arr<5, std::string, MM00>>>(c, rng, "a5_string", "Allocate-only manager", b);
	runConfig<ArrayAdapter<Arr<0, std::string, MM01>>>(c, rng, "a0_string_inplace", "ReallocateInplace manager", b);
#endif
#if !defined(C05_PART) || C05_PART == 2
	runConfig<ArrayAdapter<Arr<0, Triv, MM10>>>(c, rng, "a0_triv_realloc", "Reallocate manager", b);
	runConfig<ArrayAdapter<Arr<3, Triv, MM10>>>(c, rng, "a3_triv_realloc", "Reallocate manager", b);
	runConfig<ArrayAdapter<Arr<0, Triv, MM01>>>(c, rng, "a0_triv_inplace", "ReallocateInplace manager", b);
	runConfig<ArrayAdapter<Arr<0, Triv, MM11>>>(c, rng, "a0_triv_both", "Reallocate+ReallocateInplace manager", b);
	runConfig<ArrayAdapter<Arr<2, Triv, MM00>>>(c, rng, "a2_triv", "Allocate-only manager", b);
	runConfig<ArrayAdapter<Arr<0, NM, MM00>>>(c, rng, "a0_nm", "Allocate-only manager", b);
	runConfig<ArrayAdapter<Arr<4, NM, MM10>>>(c, rng, "a4_nm", "Reallocate manager", b);
	runConfig<ArrayAdapter<Arr<0, TM, MM00>>>(c, rng, "a0_tm", "Allocate-only manager", b);
	runConfig<ArrayAdapter<Arr<2, TM, MM00>>>(c, rng, "a2_tm", "Allocate-only manager", b);
	runConfig<ArrayAdapter<Arr<0, CO, MM00>>>(c, rng, "a0_co", "Allocate-only manager", b);
#endif
#if !defined(C05_PART) || C05_PART == 3
	runConfig<ArrayAdapter<Arr<0, SW, MM00>>>(c, rng, "a0_sw", "Allocate-only manager", b);
	runConfig<ArrayAdapter<Arr<0, SW, MM01>>>(c, rng, "a0_sw_inplace", "ReallocateInplace manager", b);
#endif
	return c.finish();
}
