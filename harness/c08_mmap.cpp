// C08 correspondence harness: momo::HashMultiMap (native API) and momo::stdish::unordered_multimap
// against (a) reference containers (property level: std::map<key, std::vector<value>> for the native
// API, std::unordered_multimap for the wrapper) and (b) the Lean model `mmap` (model level: every
// result, key count, value count, the complete layout of the key table, and for every key in key
// traversal order its tag, the representation of its value array -- none / fast pool k with the raw
// state byte / heap array with its capacity, read with -fno-access-control -- and its values in order).
//   -DVF_PART=0  native API, LimP4 key buckets, maxFastCount 1, 2, 7, 15
//   -DVF_PART=1  native API, Open8 key buckets, maxFastCount 1, 2, 7, 15
//   -DVF_PART=2  stdish::unordered_multimap / unordered_multimap_open (default settings)
//   -DVF_PART=3  native API, further key buckets: LimP4<1>, LimP4<3>, Open2N2<1>, Open2N2<3>
#include "momo/HashMultiMap.h"
#include "momo/stdish/unordered_multimap.h"
#include "common/verif_elems.h"

#include <map>
#include <unordered_map>
#include <vector>
#include <algorithm>
#include <functional>

#ifndef VF_PART
#define VF_PART 0
#endif

using namespace vf;

// ---------------------------------------------------------------- key types
// the tag takes no part in hashing / equality: ResetKey(keyIter, {id, newTag}) is observable through it
struct KeyCtl { long assignCountdown = -1; bool fired = false; };
static KeyCtl& kc() { static KeyCtl k; return k; }

struct KeyP { uint32_t id; uint32_t tag; };	// trivially copyable

struct KeyA {	// copy assignment may throw when armed (roll-back of RemoveKey)
	uint32_t id; uint32_t tag;
	KeyA() noexcept : id(0), tag(0) {}
	KeyA(uint32_t i, uint32_t t) noexcept : id(i), tag(t) {}
	KeyA(const KeyA& o) noexcept : id(o.id), tag(o.tag) {}
	KeyA& operator=(const KeyA& o) {
		if (kc().assignCountdown == 0) { kc().assignCountdown = -1; kc().fired = true; throw std::domain_error("keyassign"); }
		if (kc().assignCountdown > 0) --kc().assignCountdown;
		id = o.id; tag = o.tag; return *this;
	}
};

template<typename Key> struct KeyOps {
	static Key make(uint32_t id, uint32_t tag) { Key k; k.id = id; k.tag = tag; return k; }
	static uint32_t tagOf(const Key& k) { return k.tag; }
};
template<> struct KeyOps<KeyA> {
	static KeyA make(uint32_t id, uint32_t tag) { return KeyA(id, tag); }
	static uint32_t tagOf(const KeyA& k) { return k.tag; }
};
template<> struct KeyOps<uint32_t> {
	static uint32_t make(uint32_t id, uint32_t) { return id; }
	static uint32_t tagOf(const uint32_t&) { return 0; }
};

template<typename Key, typename HashBucket, bool tFast, unsigned tLogStart>
struct FamTraits : public momo::HashTraits<Key, HashBucket>
{
	static const bool isFastNothrowHashable = tFast;
	template<typename ItemTraits>
	using Bucket = typename HashBucket::template Bucket<ItemTraits, !isFastNothrowHashable>;
	size_t GetLogStartBucketCount() const noexcept { return tLogStart; }
	size_t GetHashCode(const Key& key) const { return famHash(idOf(key)); }
	bool IsEqual(const Key& a, const Key& b) const { return idOf(a) == idOf(b); }
};

struct FamHasher { size_t operator()(uint32_t k) const { return famHash(k); } };
// transparent twins (wrapper part): the same hash / equality, also for a key of another type (heterogeneous lookup of the wrapper)
struct HKey { uint32_t k; };
struct FamHasherT { typedef void is_transparent; size_t operator()(uint32_t k) const { return famHash(k); } size_t operator()(HKey h) const { return famHash(h.k); } };
struct EqT {
	typedef void is_transparent;
	bool operator()(uint32_t a, uint32_t b) const { return a == b; }
	bool operator()(uint32_t a, HKey b) const { return a == b.k; }
	bool operator()(HKey a, uint32_t b) const { return a.k == b; }
};
template<typename W, typename = void> struct IsTransparentW : std::false_type {};
template<typename W> struct IsTransparentW<W, decltype((void)std::declval<const W&>().count(std::declval<const HKey&>()))> : std::true_type {};

template<size_t tMaxFast>
struct MMSettings : public momo::HashMultiMapSettings
{
	static const momo::ExtraCheckMode extraCheckMode = momo::ExtraCheckMode::nothing;
	static const size_t valueArrayMaxFastCount = tMaxFast;
};

static uint64_t mixh(uint64_t h, uint64_t x) { return h * 1000003ull + x + 1; }

// ---------------------------------------------------------------- reading the real object
struct RepInfo { int kind; size_t pool, count, state, cap; };	// kind 0 none, 1 fast, 2 heap

template<typename VA>
static RepInfo repOf(const VA& va)
{
	RepInfo r{0, 0, 0, 0, 0};
	if (va.mPtr == nullptr) return r;
	uint8_t st = *reinterpret_cast<const uint8_t*>(va.mPtr);
	r.state = st; r.pool = st >> 4; r.count = st & 15;
	if (r.pool > 0) { r.kind = 1; return r; }
	r.kind = 2; r.cap = va.pvGetArray().GetCapacity(); r.count = va.pvGetArray().GetCount();
	return r;
}
static uint64_t repCode(const RepInfo& r) { return r.kind == 0 ? 0 : r.kind == 1 ? 256 + r.state : 100000 + r.cap; }
static std::string repStr(const RepInfo& r)
{
	return r.kind == 0 ? std::string("n") : r.kind == 1 ? fmt("f%zu.%zus%zu", r.pool, r.count, r.state) : fmt("h%zu", r.cap);
}

template<typename MM>
struct Inspect {
	typedef typename MM::Key Key;
	typedef KeyOps<Key> KO;
	typedef decltype(MM::mHashMap) HMap;
	typedef decltype(HMap::mHashSet) HS;
	static HS& hs(MM& m) { return m.mHashMap.mHashSet; }

	// layout checksum of the key table: same function as c01_hash.cpp / Momo.HT.layoutSum (value := tag)
	static uint64_t layoutSum(MM& m, std::string* gensOut, size_t* genCount)
	{
		typedef typename HS::Bucket Bucket;
		HS& s = hs(m);
		uint64_t h = 0;
		Bucket fresh;
		size_t ng = 0;
		for (auto* bk = s.mBuckets; bk != nullptr; bk = bk->GetNextBuckets()) {
			size_t L = bk->GetLogCount(), n = bk->GetCount();
			h = mixh(mixh(h, 7777), L);
			if (gensOut) *gensOut += fmt(ng ? ",%zu" : "%zu", L);
			++ng;
			auto& params = bk->GetBucketParams();
			for (size_t i = 0; i < n; ++i) {
				Bucket& b = (*bk)[i];
				auto bounds = b.GetBounds(params);
				size_t c = bounds.GetCount();
				bool wf = b.WasFull();
				size_t mp = b.GetMaxProbe(L);
				if (c == 0 && wf == fresh.WasFull() && mp == fresh.GetMaxProbe(L)) continue;
				h = mixh(mixh(h, i), wf ? 1 : 0);
				h = mixh(h, mp);
				for (size_t j = 0; j < c; ++j) {
					const Key& key = *bounds[j].GetKeyPtr();
					h = mixh(mixh(h, idOf(key)), KO::tagOf(key));
				}
			}
		}
		if (genCount) *genCount = ng;
		return h;
	}
	static uint64_t arrSum(MM& m)
	{
		uint64_t h = 0;
		for (auto ref : m.mHashMap) {
			h = mixh(mixh(h, idOf(ref.key)), KO::tagOf(ref.key));
			h = mixh(h, repCode(repOf(ref.value)));
			auto b = ref.value.GetBounds();
			for (size_t i = 0; i < b.GetCount(); ++i) h = mixh(h, idOf(b[i]));
		}
		return h;
	}
	static std::string summary(MM& m)
	{
		if (m.mValueCrew.IsNull()) return "kc=0 vc=0 c=0 cap=0 g= s=0 as=0";
		std::string g; size_t ng = 0;
		uint64_t s = layoutSum(m, &g, &ng);
		return fmt("kc=%zu vc=%zu c=%zu cap=%zu g=%s s=%llu as=%llu", m.GetKeyCount(), m.GetCount(), hs(m).GetCount(), hs(m).GetCapacity(),
			g.c_str(), (unsigned long long)s, (unsigned long long)arrSum(m));
	}
	static std::string dump(MM& m)
	{
		std::string r; bool first = true;
		for (auto ref : m.mHashMap) {
			std::string vals; auto b = ref.value.GetBounds();
			for (size_t i = 0; i < b.GetCount(); ++i) vals += fmt(i ? ",%u" : "%u", idOf(b[i]));
			r += fmt("%s%u:%u[%s;%s]", first ? "" : " ", idOf(ref.key), KO::tagOf(ref.key), repStr(repOf(ref.value)).c_str(), vals.c_str());
			first = false;
		}
		return r;
	}
	static size_t generations(MM& m) { size_t ng = 0; layoutSum(m, nullptr, &ng); return ng; }
	// representation of the value array of key k ({-1} when the key is absent)
	static RepInfo repOfKey(MM& m, uint32_t k)
	{
		auto pos = m.mHashMap.Find(KO::make(k, 0));
		if (!pos) return RepInfo{-1, 0, 0, 0, 0};
		return repOf(pos->value);
	}
};

typedef std::map<uint32_t, std::vector<uint32_t>> RefMap;

static size_t refTotal(const RefMap& r) { size_t n = 0; for (auto& kv : r) n += kv.second.size(); return n; }

// the order Remove(pairFilter) leaves behind: a removed value is replaced by the last one, which is examined next
template<typename Pred>
static size_t swapFilter(std::vector<uint32_t>& v, Pred p)
{
	size_t removed = 0;
	for (size_t i = 0; i < v.size();) { if (p(v[i])) { v[i] = v.back(); v.pop_back(); ++removed; } else ++i; }
	return removed;
}

static void countTransition(Ctx& c, const RepInfo& b, const RepInfo& a, const std::string& caseKey)
{
	if (b.kind < 0 || a.kind < 0) return;
	std::string t;
	if (b.kind == 0 && a.kind == 1) t = "rep.none_to_fast";
	else if (b.kind == 1 && a.kind == 1 && a.pool > b.pool) t = "rep.fast_pool_up";
	else if (b.kind == 1 && a.kind == 2) t = "rep.fast_to_heap";
	else if (b.kind == 2 && a.kind == 2 && a.cap > b.cap) t = "rep.heap_grow";
	else if (b.kind == 2 && a.kind == 2 && a.cap < b.cap) t = "rep.heap_shrink";
	else if (b.kind == 2 && a.kind == 0) t = "rep.heap_to_none";
	else if (b.kind == 1 && a.kind == 0) t = "rep.fast_to_none";
	else if (b.kind == 2 && a.kind == 1) t = "rep.heap_to_fast(copy)";
	if (!t.empty()) { c.stats.count(t); c.stats.nontrivial(caseKey); }
}

// ================================================================= native API
#if VF_PART != 2
template<typename MM>
static void checkAgainstRef(Ctx& c, MM& A, const RefMap& ref, const std::map<uint32_t, uint32_t>& refTag, unsigned keyRange,
	const std::string& suite, const char* when, size_t maxFast)
{
	typedef typename MM::Key Key; typedef KeyOps<Key> KO;
	size_t total = refTotal(ref);
	if (A.GetCount() != total) c.fail("C08 total: %s %s: GetCount=%zu but the reference holds %zu values", suite.c_str(), when, A.GetCount(), total);
	if (A.GetKeyCount() != ref.size()) c.fail("C08 keycount: %s %s: GetKeyCount=%zu expected %zu", suite.c_str(), when, A.GetKeyCount(), ref.size());
	for (auto& kv : ref) {
		auto kit = A.Find(KO::make(kv.first, 0));
		if (!kit) { c.fail("C08 key-lost: %s %s: key %u (with %zu values) not found", suite.c_str(), when, kv.first, kv.second.size()); continue; }
		if (kit->GetCount() != kv.second.size()) { c.fail("C08 per-key count: %s %s: key %u has %zu values expected %zu", suite.c_str(), when, kv.first, kit->GetCount(), kv.second.size()); continue; }
		for (size_t i = 0; i < kv.second.size(); ++i)
			if (idOf((*kit)[i]) != kv.second[i]) { c.fail("C08 per-key order: %s %s: key %u value #%zu is %u expected %u", suite.c_str(), when, kv.first, i, idOf((*kit)[i]), kv.second[i]); break; }
		if (KO::tagOf(kit->key) != refTag.at(kv.first)) c.fail("C08 key-tag: %s %s: key %u tag %u expected %u", suite.c_str(), when, kv.first, KO::tagOf(kit->key), refTag.at(kv.first));
		// histogram of value counts reached
		size_t n = kv.second.size();
		c.stats.count(n == 0 ? "keys.with_0_values" : n == 1 ? "keys.with_1_value" : n <= maxFast ? "keys.with_few_values(<=maxFast)" :
			n <= 2 * maxFast ? "keys.with_values(maxFast,2maxFast]" : n <= 100 ? "keys.with_many_values(>2maxFast)" : "keys.with_over_100_values");
	}
	for (uint32_t k = 0; k < keyRange + 3; ++k)
		if (!ref.count(k) && A.ContainsKey(KO::make(k, 0))) { c.fail("C08 phantom-key: %s %s: absent key %u found", suite.c_str(), when, k); break; }
	// traversal visits every (key, value) pair exactly once
	std::vector<std::pair<uint32_t, uint32_t>> seen, expect;
	for (auto ref2 : A) seen.push_back({ idOf(ref2.key), idOf(ref2.value) });
	for (auto& kv : ref) for (uint32_t v : kv.second) expect.push_back({ kv.first, v });
	std::sort(seen.begin(), seen.end()); std::sort(expect.begin(), expect.end());
	if (seen != expect) c.fail("C08 traversal: %s %s: pair traversal visits %zu pairs, reference has %zu (or a pair is visited twice / missed)", suite.c_str(), when, seen.size(), expect.size());
	std::vector<uint32_t> keysSeen;
	for (auto kref : A.GetKeyBounds()) keysSeen.push_back(idOf(kref.key));
	std::sort(keysSeen.begin(), keysSeen.end());
	std::vector<uint32_t> keysExp; for (auto& kv : ref) keysExp.push_back(kv.first);
	if (keysSeen != keysExp) c.fail("C08 key-traversal: %s %s: key traversal visits %zu keys, reference has %zu", suite.c_str(), when, keysSeen.size(), keysExp.size());
}

template<typename Key, typename Value, typename HashBucket, size_t tMaxFast, unsigned tLogStart>
static void runNative(Ctx& c, Rng& rng, const char* kind, unsigned n, const char* keyName, unsigned fam, unsigned runNo)
{
	typedef FamTraits<Key, HashBucket, true, tLogStart> Traits;
	typedef momo::HashMultiMap<Key, Value, Traits, FaultMM, momo::HashMultiMapKeyValueTraits<Key, Value, FaultMM>, MMSettings<tMaxFast>> MM;
	typedef Inspect<MM> In;
	typedef KeyOps<Key> KO;
	typedef typename In::HS HS;
	hc().fam = fam; hc().throwCountdown = -1; hc().fired = false;
	mm().disarm(); ec().copyCountdown = -1; kc().assignCountdown = -1; kc().fired = false;
	const bool relocatable = HS::ItemTraits::isNothrowRelocatable;
	const size_t maxFast = tMaxFast;
	std::string suite = fmt("%s%u_%s_mf%zu_h%u_r%u", kind, n, keyName, maxFast, fam, runNo);
	Suite s(c, suite, fmt("model mmap kind=%s n=%u isz=%zu ial=%zu part=0 fast=1 reloc=%d logstart=%u hash=%u maxfast=%zu",
		kind, n, sizeof(typename HS::Item), (size_t)HS::ItemTraits::alignment, relocatable ? 1 : 0, tLogStart, fam, maxFast));
	static const unsigned ranges[] = { 5, 12, 40, 150 };
	const unsigned keyRange = ranges[rng.below(4)];
	const unsigned nOps = c.thorough ? 4000 : 700;
	{
		MM A, B;
		RefMap refA, refB; std::map<uint32_t, uint32_t> tagA, tagB;
		uint32_t serial = 1;
		std::string history;
		uint32_t heavy = (uint32_t)rng.below(keyRange);	// the key that receives bursts
		unsigned burst = 0; bool drain = false; unsigned drainLeft = 0;
		auto tail = [&]() { return " | A " + In::summary(A) + " | B " + In::summary(B); };
		auto derefStr = [&](typename MM::Iterator it) { return !!it ? fmt("%u:%u", idOf(it->key), idOf(it->value)) : std::string("end"); };
		auto pickPresentKey = [&](bool needValues, uint32_t& out) {
			std::vector<uint32_t> cand;
			for (auto& kv : refA) if (!needValues || !kv.second.empty()) cand.push_back(kv.first);
			if (cand.empty()) return false;
			out = (refA.count(heavy) && (!needValues || !refA[heavy].empty()) && rng.chance(1, 2)) ? heavy : cand[rng.below(cand.size())];
			return true;
		};
		// key iterator of key k: through Find (cannot move) or by walking the key traversal (can move)
		auto keyIterOf = [&](uint32_t k, bool movable) {
			if (!movable) return A.Find(KO::make(k, 0));
			auto kit = A.GetKeyBounds().GetBegin();
			for (; !!kit; ++kit) if (idOf(kit->key) == k) break;
			return kit;
		};
		for (unsigned step = 0; step < nOps; ++step) {
			unsigned r = (unsigned)rng.below(100);
			uint32_t k = (uint32_t)rng.below(keyRange);
			std::string op, res;
			std::string caseKey = fmt("%s#%u", suite.c_str(), step);
			// phases: bursts of additions to one key (reach > 2*maxFast and > 100 values), then drains that remove them again
			if (burst > 0) { --burst; r = 0; k = heavy; }
			else if (drain && drainLeft > 0) { --drainLeft; r = 40; }
			else if (rng.chance(1, 45)) { burst = (unsigned)rng.range(2 * maxFast + 2, rng.chance(1, 3) ? 130 : 3 * maxFast + 12); heavy = (uint32_t)rng.below(keyRange); drain = rng.chance(2, 3); drainLeft = burst + (unsigned)rng.below(8); }
			else drain = false;
			RepInfo repBefore = In::repOfKey(A, k);
			if (r < 30) {
				// ---- Add(key, value) or Add(keyIter, value)
				uint32_t v = serial++;
				bool present = refA.count(k) != 0;
				bool byPos = present && rng.chance(1, 3);
				uint32_t tg = (uint32_t)rng.below(1000);
				std::string ftoks, out;
				size_t gens = In::generations(A);
				bool calm = gens == 1 && In::hs(A).GetCount() < In::hs(A).GetCapacity();	// no growth, no migration: a refused allocation makes the addition fail as a whole
				bool arm = rng.chance(1, 6) && (present || calm);
				if (arm) mm().refuseAfter = present ? 0 : (long)rng.below(3);
				try {
					typename MM::Iterator it = byPos ? A.Add(typename MM::ConstKeyIterator(A.Find(KO::make(k, 0))), Value(v)) : A.Add(KO::make(k, tg), Value(v));
					out = "1";
					if (!it || idOf(it->key) != k || idOf(it->value) != v) c.fail("C08 add-result: %s Add(%u,%u) returned an iterator to another pair", suite.c_str(), k, v);
				}
				catch (const std::bad_alloc&) { out = "E:bad_alloc"; }
				catch (const std::runtime_error&) { out = "E:runtime"; }
				bool fired = mm().firedAfter;
				mm().disarm();
				if (out == "1") { refA[k].push_back(v); if (!present) tagA[k] = tg; }
				if (out == "E:bad_alloc") { ftoks = present ? " fv" : " fa"; c.stats.count(present ? "fault.value_array_alloc_refused" : "fault.new_key_alloc_refused"); if (!fired) c.fail("C08 harness: %s bad_alloc without an injected fault", suite.c_str()); }
				else if (fired) c.stats.count("fault.refused_but_swallowed");
				op = byPos ? fmt("addp %u %u%s", k, v, ftoks.c_str()) : fmt("add %u %u %u%s", k, tg, v, ftoks.c_str()); res = out;
				c.stats.count(byPos ? "op.add_by_key_position" : present ? "op.add_existing_key" : "op.add_new_key");
			}
			else if (r < 36) {
				// ---- InsertKey / AddKeyCrt
				uint32_t tg = (uint32_t)rng.below(1000);
				bool present = refA.count(k) != 0;
				bool viaCrt = !present && rng.chance(1, 2);
				std::string out;
				try {
					typename MM::KeyIterator kit;
					if (viaCrt) { Key nk = KO::make(k, tg); kit = A.AddKeyCrt(typename MM::ConstKeyIterator(A.Find(nk)), [&nk](Key* p) { ::new(static_cast<void*>(p)) Key(nk); }); }
					else kit = A.InsertKey(KO::make(k, tg));
					out = fmt("%d %zu", present ? 0 : 1, kit->GetCount());
					if (idOf(kit->key) != k) c.fail("C08 insertkey-result: %s InsertKey(%u) returned key %u", suite.c_str(), k, idOf(kit->key));
				}
				catch (const std::bad_alloc&) { out = "E:bad_alloc"; }
				catch (const std::runtime_error&) { out = "E:runtime"; }
				if (out[0] != 'E' && !present) { refA[k]; tagA[k] = tg; }
				op = fmt("inskey %u %u", k, tg); res = out;
				c.stats.count(viaCrt ? "op.add_key_crt" : "op.insert_key");
			}
			else if (r < 56) {
				// ---- Remove(keyIter, valueIndex)
				if (!pickPresentKey(true, k)) { op = "keys"; }
				else {
					repBefore = In::repOfKey(A, k);
					std::vector<uint32_t>& vs = refA[k];
					size_t i = rng.chance(1, 4) ? vs.size() - 1 : rng.chance(1, 5) ? 0 : (size_t)rng.below(vs.size());
					bool movable = rng.chance(1, 3);
					bool arm = repBefore.kind == 2 && rng.chance(1, 3);
					if (arm) mm().refuseAfter = 0;
					typename MM::Iterator it = A.Remove(typename MM::ConstKeyIterator(keyIterOf(k, movable)), i);
					bool fired = mm().firedAfter; mm().disarm();
					vs[i] = vs.back(); vs.pop_back();
					if (fired) c.stats.count("fault.shrink_refused_swallowed");
					op = fmt("remv %u %zu%s%s", k, i, fired ? " fs" : "", movable ? " mv" : ""); res = derefStr(it);
					c.stats.count("op.remove_value_by_position");
					if (vs.empty()) c.stats.count("state.key_left_with_zero_values");
				}
			}
			else if (r < 60) {
				uint32_t m = (uint32_t)rng.range(2, 5), rr = (uint32_t)rng.below(m); unsigned pk = (unsigned)rng.below(2);
				size_t removed = A.Remove([m, rr, pk](const Key& key, const Value& v) { return pk ? (idOf(key) + idOf(v)) % m == rr : idOf(v) % m == rr; });
				size_t e = 0;
				for (auto& kv : refA) { uint32_t key = kv.first; e += swapFilter(kv.second, [&](uint32_t v) { return pk ? (key + v) % m == rr : v % m == rr; }); }
				if (removed != e) c.fail("C08 remove-if: %s Remove(pred v%%%u==%u) removed %zu values expected %zu", suite.c_str(), m, rr, removed, e);
				op = fmt("rempred %u %u %u", m, rr, pk); res = fmt("%zu", removed);
				c.stats.count("op.remove_by_predicate");
			}
			else if (r < 64) {
				if (!pickPresentKey(false, k)) op = "keys";
				else {
					repBefore = In::repOfKey(A, k);
					bool movable = rng.chance(1, 2);
					typename MM::Iterator it = A.RemoveValues(typename MM::ConstKeyIterator(keyIterOf(k, movable)));
					refA[k].clear();
					op = fmt("remvals %u%s", k, movable ? " mv" : ""); res = derefStr(it);
					c.stats.count("op.remove_values_of_key");
				}
			}
			else if (r < 69) {
				bool present = refA.count(k) != 0;
				size_t cnt = present ? refA[k].size() : 0;
				size_t got = A.RemoveKey(KO::make(k, 0));
				if (got != cnt) c.fail("C08 remove-key: %s RemoveKey(%u) returned %zu expected %zu", suite.c_str(), k, got, cnt);
				refA.erase(k); tagA.erase(k);
				op = fmt("remkey %u", k); res = fmt("%d %zu", present ? 1 : 0, got);
				c.stats.count("op.remove_key_by_key");
			}
			else if (r < 73) {
				if (!pickPresentKey(false, k)) op = "keys";
				else {
					repBefore = In::repOfKey(A, k);
					bool movable = rng.chance(1, 2);
					bool arm = std::is_same<Key, KeyA>::value && rng.chance(1, 3);
					if (arm) kc().assignCountdown = 0;
					std::string out;
					try {
						typename MM::KeyIterator kit = A.RemoveKey(typename MM::ConstKeyIterator(keyIterOf(k, movable)));
						out = !!kit ? fmt("%u", idOf(kit->key)) : std::string("end");
						refA.erase(k); tagA.erase(k);
					}
					catch (const std::domain_error&) { out = "E:user"; c.stats.count("fault.key_assign_threw(RemoveKey rolled back)"); }
					bool fired = kc().fired; kc().assignCountdown = -1; kc().fired = false;
					op = fmt("remkeyi %u%s%s", k, fired ? " fk" : "", movable ? " mv" : ""); res = out;
					c.stats.count("op.remove_key_by_position");
				}
			}
			else if (r < 76) {
				if (!pickPresentKey(false, k)) op = "keys";
				else {
					uint32_t tg = (uint32_t)rng.below(1000);
					A.ResetKey(typename MM::ConstKeyIterator(A.Find(KO::make(k, 0))), KO::make(k, tg));
					tagA[k] = tg;
					op = fmt("reset %u %u", k, tg); res = "ok";
					c.stats.count("op.reset_key");
				}
			}
			else if (r < 77 && rng.chance(1, 3)) { A.Clear(); refA.clear(); tagA.clear(); op = "clear"; res = "ok"; c.stats.count("op.clear"); }
			else if (r < 82) {
				auto kit = A.Find(KO::make(k, 0));
				op = fmt("find %u", k);
				res = !!kit ? fmt("1 %zu %u %s", kit->GetCount(), KO::tagOf(kit->key), repStr(In::repOfKey(A, k)).c_str()) : std::string("0");
				if ((refA.count(k) != 0) != !!kit) c.fail("C08 find: %s key %u is %s but Find says %s", suite.c_str(), k, refA.count(k) ? "present" : "absent", !!kit ? "found" : "not found");
			}
			else if (r < 85) {
				op = fmt("vals %u", k);
				auto kit = A.Find(KO::make(k, 0));
				if (!!kit) for (size_t i = 0; i < kit->GetCount(); ++i) res += fmt(i ? " %u" : "%u", idOf((*kit)[i]));
			}
			else if (r < 88) {
				op = "trav"; bool first = true;
				for (auto ref2 : A) { res += fmt(first ? "%u:%u" : " %u:%u", idOf(ref2.key), idOf(ref2.value)); first = false; }
				c.stats.count("op.pair_traversal");
			}
			else if (r < 90) op = "keys";
			else if (r < 93) { op = "dump"; res = In::dump(A); }
			else if (r < 95) {
				B = A; refB = refA; tagB = tagA; op = "copyto"; res = "ok";
				for (auto& kv : refA) countTransition(c, In::repOfKey(A, kv.first), In::repOfKey(B, kv.first), caseKey);
				c.stats.count("op.copy");
			}
			else if (r < 96) { B = std::move(A); refB = refA; tagB = tagA; refA.clear(); tagA.clear(); A = MM(); op = "moveto"; res = "ok"; c.stats.count("op.move"); repBefore.kind = -1; }
			else if (r < 98) { A.Swap(B); std::swap(refA, refB); std::swap(tagA, tagB); op = "swap"; res = "ok"; c.stats.count("op.swap"); repBefore.kind = -1; }
			else { op = "dumpb"; res = In::dump(B); }
			if (op == "keys") { res.clear(); bool first = true; for (auto kref : A.GetKeyBounds()) { res += fmt(first ? "%u:%zu" : " %u:%zu", idOf(kref.key), kref.GetCount()); first = false; } }
			s.op(op); s.res(res + tail());
			c.stats.evaluations++;
			countTransition(c, repBefore, In::repOfKey(A, k), caseKey);
			if (history.size() < 200) history += op + "; ";
			if (step % 16 == 15 || step + 1 == nOps) checkAgainstRef(c, A, refA, tagA, keyRange, suite, op.c_str(), maxFast);
		}
		c.stats.sample(suite + ": " + history);
	}
	// C03 piggyback: everything given back
	if (!mm().live.empty()) c.fail("C03 leak: %s: %zu blocks outstanding after destruction", suite.c_str(), mm().live.size());
	if (mm().badDealloc) { c.fail("C03 dealloc: %s: %zu deallocations of unknown blocks / wrong size", suite.c_str(), mm().badDealloc); mm().badDealloc = 0; }
	if (ec().live != 0) { c.fail("C03 elements: %s: %ld value objects still alive", suite.c_str(), ec().live); ec().live = 0; }
	mm().live.clear();
}

template<typename Key, typename Value, typename HashBucket, size_t tMaxFast, unsigned tLogStart>
static void runNativeCfg(Ctx& c, Rng& rng, const char* kind, unsigned n, const char* keyName)
{
	unsigned runs = c.thorough ? 12 : 3;
	for (unsigned run = 0; run < runs; ++run)
		runNative<Key, Value, HashBucket, tMaxFast, tLogStart>(c, rng, kind, n, keyName, (unsigned)rng.below(8), run);
}
#endif

// ================================================================= stdish wrapper
#if VF_PART == 2
typedef std::unordered_multimap<uint32_t, uint32_t> StdMM;

template<typename W>
static std::vector<std::pair<uint32_t, uint32_t>> contents(const W& w)
{
	std::vector<std::pair<uint32_t, uint32_t>> v;
	for (auto it = w.begin(); it != w.end(); ++it) v.push_back({ it->first, it->second });
	return v;
}
template<typename V> static V sorted(V v) { std::sort(v.begin(), v.end()); return v; }
static std::string showPairs(const std::vector<std::pair<uint32_t, uint32_t>>& v)
{
	std::string r = "{";
	for (size_t i = 0; i < v.size() && i < 24; ++i) r += fmt(i ? ",%u:%u" : "%u:%u", v[i].first, v[i].second);
	return r + (v.size() > 24 ? ",...}" : "}");
}

template<typename W>
static void checkWrapper(Ctx& c, W& A, const StdMM& ref, unsigned keyRange, const std::string& suite, const char* when)
{
	if (A.size() != ref.size()) c.fail("C08 wrapper size: %s %s: size()=%zu std=%zu", suite.c_str(), when, A.size(), ref.size());
	if (A.empty() != ref.empty()) c.fail("C08 wrapper empty: %s %s", suite.c_str(), when);
	for (uint32_t k = 0; k < keyRange + 2; ++k) {
		if (A.count(k) != ref.count(k)) { c.fail("C08 wrapper count: %s %s: count(%u)=%zu std=%zu", suite.c_str(), when, k, A.count(k), ref.count(k)); break; }
		auto r = A.equal_range(k); auto q = ref.equal_range(k);
		std::vector<uint32_t> a, b;
		for (auto it = r.first; it != r.second; ++it) { a.push_back(it->second); if (it->first != k) c.fail("C08 wrapper equal_range: %s %s: equal_range(%u) yields key %u", suite.c_str(), when, k, it->first); }
		for (auto it = q.first; it != q.second; ++it) b.push_back(it->second);
		if (sorted(a) != sorted(b)) { c.fail("C08 wrapper equal_range: %s %s: equal_range(%u) yields %zu values, std %zu (or other values)", suite.c_str(), when, k, a.size(), b.size()); break; }
		if ((A.find(k) != A.end()) != (ref.find(k) != ref.end())) { c.fail("C08 wrapper find: %s %s: find(%u) %s end() but std says otherwise (value-less key exposed?)", suite.c_str(), when, k, A.find(k) != A.end() ? "!=" : "=="); break; }
		if (A.contains(k) != (ref.count(k) > 0)) { c.fail("C08 wrapper contains: %s %s: contains(%u)", suite.c_str(), when, k); break; }
		// the const overloads
		{
			const W& cA = A;
			auto cr = cA.equal_range(k);
			std::vector<uint32_t> ca; for (auto it = cr.first; it != cr.second; ++it) ca.push_back(it->second);
			if (sorted(ca) != sorted(b) || (cA.find(k) != cA.end()) != (ref.count(k) > 0)) { c.fail("C08 wrapper const lookups: %s %s: equal_range(%u) const yields %zu values, std %zu, or find(%u) const disagrees (value-less key exposed?)", suite.c_str(), when, k, ca.size(), b.size(), k); break; }
		}
		// the heterogeneous overloads (transparent hash / equality): the same answers, value-less keys stay hidden
		if constexpr (IsTransparentW<W>::value) {
			const W& cA = A; HKey hk{ k };
			auto hr = A.equal_range(hk); auto chr = cA.equal_range(hk);
			std::vector<uint32_t> ha, hca;
			for (auto it = hr.first; it != hr.second; ++it) { ha.push_back(it->second); if (it->first != k) c.fail("C08 wrapper heterogeneous equal_range: %s %s: yields key %u for %u", suite.c_str(), when, it->first, k); }
			for (auto it = chr.first; it != chr.second; ++it) hca.push_back(it->second);
			bool present = ref.count(k) > 0;
			if (sorted(ha) != sorted(b) || sorted(hca) != sorted(b) || cA.count(hk) != ref.count(k) || cA.contains(hk) != present || (A.find(hk) != A.end()) != present || (cA.find(hk) != cA.end()) != present) {
				c.fail("C08 wrapper heterogeneous lookups: %s %s: key %u: count=%zu contains=%d find=%d cfind=%d equal_range yields %zu / const %zu values; std count %zu (value-less key exposed?)", suite.c_str(), when, k,
					(size_t)cA.count(hk), (int)cA.contains(hk), (int)(A.find(hk) != A.end()), (int)(cA.find(hk) != cA.end()), ha.size(), hca.size(), ref.count(k));
				break;
			}
			c.stats.count(present ? "wop.hetero_lookup_present" : (A.get_nested_container().ContainsKey(k) ? "wop.hetero_lookup_value_less_key" : "wop.hetero_lookup_absent"));
		}
	}
	{
		// cbegin() .. cend(), the observers
		std::vector<std::pair<uint32_t, uint32_t>> cv; for (auto it = A.cbegin(); it != A.cend(); ++it) cv.push_back({ it->first, it->second });
		if (cv != contents(A)) c.fail("C08 wrapper cbegin/cend: %s %s: another sequence than begin()..end()", suite.c_str(), when);
		if (A.max_size() < A.size()) c.fail("C08 wrapper max_size: %s %s", suite.c_str(), when);
		if (!A.key_eq()(keyRange, keyRange) || A.key_eq()(keyRange, keyRange + 1)) c.fail("C08 wrapper key_eq: %s %s", suite.c_str(), when);
		typename W::hasher hf = A.hash_function(); typename W::hasher fresh;
		if (hf(keyRange) != fresh(keyRange)) c.fail("C08 wrapper hash_function: %s %s", suite.c_str(), when);
	}
	auto a = sorted(contents(A)); std::vector<std::pair<uint32_t, uint32_t>> b(ref.begin(), ref.end()); b = sorted(b);
	if (a != b) c.fail("C08 wrapper traversal: %s %s: iteration yields %zu pairs, std holds %zu (or different pairs)", suite.c_str(), when, a.size(), b.size());
}

// famHasher = false: the default hasher (std::hash<uint32_t> = identity = family 3; "fast" hash => real BucketOpen8 behind
// unordered_multimap_open); famHasher = true: FamHasher (not "fast" => hash-code-part getter, BucketOpen2N2<3> behind the open variant)
template<typename W, bool famHasher>
static void runWrapper(Ctx& c, Rng& rng, bool open, unsigned fam, unsigned runNo)
{
	typedef typename W::nested_container_type MM;
	typedef Inspect<MM> In;
	typedef typename In::HS HS;
	if (!famHasher) fam = 3;
	hc().fam = fam; hc().throwCountdown = -1; hc().fired = false;
	const size_t maxFast = MM::Settings::valueArrayMaxFastCount;
	const unsigned n = (unsigned)HS::bucketMaxItemCount;
	const char* kind = !open ? "LimP4" : n == 7 ? "Open8" : "Open2N2";
	std::string suite = fmt("std_%s%s_h%u_r%u", kind, famHasher ? "_part" : "", fam, runNo);
	W A, B;
	const bool relocatable = HS::ItemTraits::isNothrowRelocatable;
	const bool fast = MM::HashTraits::isFastNothrowHashable;
	Suite s(c, suite, fmt("model mmap kind=%s n=%u isz=%zu ial=%zu part=%d fast=%d reloc=%d logstart=%zu hash=%u maxfast=%zu",
		kind, n, sizeof(typename HS::Item), (size_t)HS::ItemTraits::alignment, fast ? 0 : 1, fast ? 1 : 0, relocatable ? 1 : 0,
		A.get_nested_container().GetHashTraits().GetLogStartBucketCount(), fam, maxFast));
	static const unsigned ranges[] = { 4, 10, 30, 90 };
	const unsigned keyRange = ranges[rng.below(4)];
	const unsigned nOps = c.thorough ? 3000 : 500;
	StdMM refA, refB;
	uint32_t serial = 1;
	std::string history;
	auto tail = [&]() { return " | A " + In::summary(A.get_nested_container()) + " | B " + In::summary(B.get_nested_container()); };
	auto derefStr = [&](typename W::iterator it) { return it != A.end() ? fmt("%u:%u", it->first, it->second) : std::string("end"); };
	auto stdEraseOne = [&](StdMM& ref, uint32_t k, uint32_t v) {
		auto q = ref.equal_range(k);
		for (auto it = q.first; it != q.second; ++it) if (it->second == v) { ref.erase(it); return true; }
		return false;
	};
	unsigned burst = 0; uint32_t heavy = 0;
	enum { A_COPYTO, A_CLEAR, A_ADD, A_ERIF_VALUE, A_WEQ };
	struct Act { int kind; uint32_t k, v; };
	std::vector<Act> script;	// pending scripted operations, last = next
	for (unsigned step = 0; step < nOps || !script.empty(); ++step) {
		unsigned r = (unsigned)rng.below(100);
		uint32_t k = (uint32_t)rng.below(keyRange);
		std::string op, res;
		std::string caseKey = fmt("%s#%u", suite.c_str(), step);
		if (!script.empty()) r = 1000;
		else if (burst > 0) { --burst; r = 0; k = heavy; }
		else if (rng.chance(1, 50)) { burst = (unsigned)rng.range(10, rng.chance(1, 3) ? 120 : 25); heavy = k; }
		else if (rng.chance(1, 40) && A.size() >= 1 && A.size() <= 80) {
			// equality scenario: B := A; A := the same pairs inserted in another order plus a key that loses its only value
			// through erase_if (stays behind as a value-less key); A == B must hold; one more pair and it must not
			auto all = contents(A);
			for (size_t i = all.size(); i > 1; --i) std::swap(all[i - 1], all[rng.below(i)]);
			uint32_t extraKey = keyRange + 1 + (uint32_t)rng.below(3), extraVal = serial++;
			std::vector<Act> sc;
			sc.push_back({ A_COPYTO, 0, 0 }); sc.push_back({ A_CLEAR, 0, 0 });
			size_t at = all.empty() ? 0 : (size_t)rng.below(all.size());
			for (size_t i = 0; i < all.size(); ++i) { if (i == at) sc.push_back({ A_ADD, extraKey, extraVal }); sc.push_back({ A_ADD, all[i].first, all[i].second }); }
			sc.push_back({ A_ERIF_VALUE, 0, extraVal }); sc.push_back({ A_WEQ, 1, 0 });
			sc.push_back({ A_ADD, all[0].first, serial++ }); sc.push_back({ A_WEQ, 0, 0 });
			script.assign(sc.rbegin(), sc.rend());
			r = 1000;
			c.stats.count("scenario.equal_despite_order_and_value_less_key");
		}
		RepInfo repBefore = In::repOfKey(A.get_nested_container(), k);
		if (r == 1000) {
			Act a = script.back(); script.pop_back();
			repBefore.kind = -1;
			if (a.kind == A_COPYTO) { B = A; refB = refA; op = "copyto"; res = "ok"; }
			else if (a.kind == A_CLEAR) { A.clear(); refA.clear(); op = "clear"; res = "ok"; }
			else if (a.kind == A_ADD) { A.insert(std::make_pair(a.k, a.v)); refA.emplace(a.k, a.v); op = fmt("add %u 0 %u", a.k, a.v); res = "1"; }
			else if (a.kind == A_ERIF_VALUE) {
				uint32_t target = a.v;
				size_t got = erase_if(A, [target](const typename W::const_reference& p) { return p.second % 1000003u == target; });
				for (auto it = refA.begin(); it != refA.end();) { if (it->second == target) it = refA.erase(it); else ++it; }
				if (got != 1) c.fail("C08 wrapper erase_if: %s erase_if(value == %u) removed %zu elements expected 1", suite.c_str(), target, got);
				op = fmt("werif 1000003 %u 0", target); res = fmt("%zu", got);
			}
			else {
				bool eq = (A == B);
				if (eq != (a.k == 1)) c.fail("C08 wrapper ==: %s A and B hold %s multisets of pairs (A %zu pairs in %zu keys, B %zu pairs in %zu keys) but operator== answers %d; A in iteration order = %s, B = %s",
					suite.c_str(), a.k == 1 ? "the same" : "different", A.size(), A.get_nested_container().GetKeyCount(), B.size(), B.get_nested_container().GetKeyCount(), eq ? 1 : 0,
					showPairs(contents(A)).c_str(), showPairs(contents(B)).c_str());
				op = "weq"; res = eq ? "1" : "0";
				c.stats.count(eq ? "wop.equal_true" : "wop.equal_false");
				if (a.k == 1) c.stats.nontrivial(caseKey);
			}
		}
		else if (r < 30) {
			uint32_t v = serial++;
			// one abstract call "add k v": every spelling of insert / emplace (hints are ignored by the wrapper)
			typename W::iterator it;
			unsigned sp = (unsigned)rng.below(12);
			switch (sp) {
			case 0: it = A.insert(std::make_pair(k, v)); break;
			case 1: it = A.emplace(k, v); break;
			case 2: { const typename W::value_type x(k, v); it = A.insert(x); break; }
			case 3: it = A.insert(A.cend(), typename W::value_type(k, v)); break;
			case 4: { const std::pair<uint32_t, uint32_t> x(k, v); it = A.insert(A.cbegin(), x); break; }
			case 5: it = A.emplace_hint(A.cbegin(), k, v); break;
			case 6: it = A.emplace(std::piecewise_construct, std::forward_as_tuple((uint64_t)k), std::forward_as_tuple((uint64_t)v)); break;	// key built in a buffer (pvInsert)
			case 7: it = A.emplace_hint(A.cend(), std::piecewise_construct, std::forward_as_tuple((uint64_t)k), std::forward_as_tuple(v)); break;
			case 8: it = A.emplace(std::piecewise_construct, std::forward_as_tuple(k), std::forward_as_tuple(v)); break;
			case 9: it = A.emplace(std::make_pair(k, v)); break;
			case 10: it = A.emplace_hint(A.cbegin(), std::make_pair(k, v)); break;
			default: { const uint32_t ck = k; it = A.emplace(ck, (uint16_t)0); it->second = v; break; }
			}
			c.stats.count(fmt("wop.insert_spelling_%u", sp));
			if (it == A.end() || it->first != k || it->second != v) c.fail("C08 wrapper insert: %s insert(%u,%u) returned another element", suite.c_str(), k, v);
			refA.emplace(k, v);
			op = fmt("add %u 0 %u", k, v); res = "1";
			c.stats.count("wop.insert");
		}
		else if (r < 36) { op = fmt("wcount %u", k); res = fmt("%zu", A.count(k)); if (A.count(k) != refA.count(k)) c.fail("C08 wrapper count: %s count(%u)=%zu std=%zu", suite.c_str(), k, A.count(k), refA.count(k)); c.stats.count("wop.count"); }
		else if (r < 42) {
			op = fmt("wrange %u", k);
			auto rg = A.equal_range(k); bool first = true;
			for (auto it = rg.first; it != rg.second; ++it) { res += fmt(first ? "%u" : " %u", it->second); first = false; }
			c.stats.count("wop.equal_range");
		}
		else if (r < 46) { op = fmt("wfind %u", k); auto it = A.find(k); res = it != A.end() ? fmt("1 %u", it->second) : std::string("0"); c.stats.count("wop.find"); }
		else if (r < 54) {
			size_t got = A.erase(k), e = refA.erase(k);
			if (got != e) c.fail("C08 wrapper erase(key): %s erase(%u) returned %zu std %zu", suite.c_str(), k, got, e);
			op = fmt("werasek %u", k); res = fmt("%zu", got);
			c.stats.count("wop.erase_key");
		}
		else if (r < 64) {
			// erase(iterator) with the iterator taken from equal_range / find (a lookup result)
			size_t cnt = A.count(k);
			if (cnt == 0) { op = fmt("wcount %u", k); res = "0"; }
			else {
				size_t i = (size_t)rng.below(cnt);
				auto it = A.equal_range(k).first; for (size_t t = 0; t < i; ++t) ++it;
				uint32_t v = it->second;
				bool range1 = rng.chance(1, 3);	// the single-element range form erase(it, std::next(it))
				typename W::const_iterator cit = it;
				typename W::iterator nx = range1 ? A.erase(it, std::next(it)) : (rng.chance(1, 2) ? A.erase(it) : A.erase(cit));
				if (!stdEraseOne(refA, k, v)) c.fail("C08 wrapper erase(it): %s element %u:%u unknown to std", suite.c_str(), k, v);
				if (A.count(k) != cnt - 1) c.fail("C08 wrapper erase(it): %s erase of %u:%u left count(%u)=%zu expected %zu", suite.c_str(), k, v, k, A.count(k), cnt - 1);
				op = fmt("werasei %u %zu", k, i); res = derefStr(nx);
				c.stats.count(range1 ? "wop.erase_single_element_range_from_lookup" : "wop.erase_iterator_from_lookup");
			}
		}
		else if (r < 70) {
			// erase(iterator) with a traversal iterator
			size_t n0 = A.size();
			if (n0 == 0) { op = fmt("wcount %u", k); res = "0"; }
			else {
				size_t i = (size_t)rng.below(n0);
				auto it = A.begin(); for (size_t t = 0; t < i; ++t) ++it;
				uint32_t kk = it->first, v = it->second;
				repBefore = In::repOfKey(A.get_nested_container(), kk); k = kk;
				typename W::iterator nx = A.erase(it);
				if (!stdEraseOne(refA, kk, v)) c.fail("C08 wrapper erase(it): %s element %u:%u unknown to std", suite.c_str(), kk, v);
				op = fmt("weraset %zu", i); res = derefStr(nx);
				c.stats.count("wop.erase_iterator_from_traversal");
			}
		}
		else if (r < 80) {
			// erase(first, last): both ends from the traversal, or both from one equal_range call
			auto all = contents(A);
			size_t n0 = all.size();
			bool byGroup = n0 > 0 && rng.chance(1, 2);
			size_t i, j; typename W::iterator fi, la;
			if (byGroup) {
				k = all[rng.below(n0)].first;
				size_t cnt = A.count(k);
				size_t a = rng.chance(1, 2) ? 0 : (size_t)rng.below(cnt + 1), b = rng.chance(1, 2) ? cnt : a + (size_t)rng.below(cnt - a + 1);
				auto rg = A.equal_range(k);
				fi = rg.first; for (size_t t = 0; t < a; ++t) ++fi;
				if (b == cnt) la = rg.second; else { la = rg.first; for (size_t t = 0; t < b; ++t) ++la; }
				size_t gs = 0; while (all[gs].first != k) ++gs;
				i = gs + a; j = gs + b;
			} else {
				i = (size_t)rng.below(n0 + 1);
				unsigned w = (unsigned)rng.below(6);
				if (w == 0) j = i; else if (w == 1) j = std::min(n0, i + 1); else if (w == 2) { i = 0; j = n0; }
				else if (w == 3 && n0 > 0) { size_t p = (size_t)rng.below(n0); uint32_t kk = all[p].first; i = 0; while (all[i].first != kk) ++i; j = i; while (j < n0 && all[j].first == kk) ++j; }
				else j = i + (size_t)rng.below(n0 - i + 1);
				fi = A.begin(); for (size_t t = 0; t < i; ++t) ++fi;
				la = A.begin(); for (size_t t = 0; t < j; ++t) ++la;
			}
			// legal ranges: empty | one element | exactly one whole key group | whole container
			bool wholeGroup = false;
			if (j > i) { uint32_t kk = all[i].first; size_t gs = 0; while (all[gs].first != kk) ++gs; size_t ge = gs; while (ge < n0 && all[ge].first == kk) ++ge; wholeGroup = (i == gs && j == ge); }
			bool legal = (i == j) || (j == i + 1) || wholeGroup || (i == 0 && j == n0);
			repBefore = RepInfo{-1, 0, 0, 0, 0};
			std::string out = "ok";
			try { A.erase(fi, la); } catch (const std::invalid_argument&) { out = "E:invalid_argument"; }
			if (legal && out != "ok") c.fail("C08 wrapper erase(range): %s range [%zu,%zu) of %zu elements (%s) was refused", suite.c_str(), i, j, n0, byGroup ? "equal_range based" : "traversal based");
			if (!legal && out == "ok") c.fail("C08 wrapper erase(range): %s unsupported range [%zu,%zu) of %zu elements (%s) was accepted", suite.c_str(), i, j, n0, byGroup ? "equal_range based" : "traversal based");
			if (out == "ok") for (size_t t = i; t < j; ++t) if (!stdEraseOne(refA, all[t].first, all[t].second)) c.fail("C08 wrapper erase(range): %s element unknown to std", suite.c_str());
			{
				auto now = sorted(contents(A)); std::vector<std::pair<uint32_t, uint32_t>> exp(refA.begin(), refA.end()); exp = sorted(exp);
				if (now != exp) c.fail("C08 wrapper erase(range): %s erase of [%zu,%zu) out of %zu elements (%s, answer %s) left %zu elements, expected %zu (over- or under-erase); container before, in iteration order = %s",
					suite.c_str(), i, j, n0, byGroup ? "equal_range based" : "traversal based", out.c_str(), now.size(), exp.size(), showPairs(all).c_str());
			}
			op = fmt("werange %zu %zu", i, j); res = out;
			c.stats.count(out == "ok" ? (i == j ? "wop.erase_range_empty" : j == i + 1 ? "wop.erase_range_single" : wholeGroup ? "wop.erase_range_whole_key" : "wop.erase_range_all") : "wop.erase_range_refused");
			if (j > i + 1) c.stats.nontrivial(caseKey);
		}
		else if (r < 84) {
			uint32_t m = (uint32_t)rng.range(2, 5), rr = (uint32_t)rng.below(m); unsigned pk = (unsigned)rng.below(2);
			size_t got = erase_if(A, [m, rr, pk](const typename W::const_reference& p) { return pk ? (p.first + p.second) % m == rr : p.second % m == rr; });
			size_t e = 0;
			for (auto it = refA.begin(); it != refA.end();) { if (pk ? (it->first + it->second) % m == rr : it->second % m == rr) { it = refA.erase(it); ++e; } else ++it; }
			if (got != e) c.fail("C08 wrapper erase_if: %s removed %zu std %zu", suite.c_str(), got, e);
			op = fmt("werif %u %u %u", m, rr, pk); res = fmt("%zu", got);
			c.stats.count("wop.erase_if");
			if (A.get_nested_container().GetKeyCount() > 0) { size_t empties = 0; for (auto kref : A.get_nested_container().GetKeyBounds()) if (kref.GetCount() == 0) ++empties; if (empties) { c.stats.count("state.value_less_keys_behind_wrapper", empties); c.stats.nontrivial(caseKey); } }
		}
		else if (r < 90) {
			bool eq = (A == B);
			bool e = sorted(contents(A)) == sorted(contents(B));
			std::vector<std::pair<uint32_t, uint32_t>> ra(refA.begin(), refA.end()), rb(refB.begin(), refB.end());
			if (eq != (sorted(ra) == sorted(rb)) || eq != e) c.fail("C08 wrapper ==: %s operator== answers %d but the multisets of pairs are %s (A %zu pairs, B %zu pairs); A in iteration order = %s, B = %s", suite.c_str(), eq ? 1 : 0, e ? "equal" : "different", A.size(), B.size(), showPairs(contents(A)).c_str(), showPairs(contents(B)).c_str());
			if ((A != B) == eq) c.fail("C08 wrapper !=: %s operator!= inconsistent", suite.c_str());
			op = "weq"; res = eq ? "1" : "0";
			c.stats.count(eq ? "wop.equal_true" : "wop.equal_false");
		}
		else if (r < 93) { B = A; refB = refA; op = "copyto"; res = "ok"; c.stats.count("wop.copy"); }
		else if (r < 96) { A.swap(B); std::swap(refA, refB); op = "swap"; res = "ok"; c.stats.count("wop.swap"); repBefore.kind = -1; }
		else if (r < 97) { B = std::move(A); refB = refA; refA.clear(); A = W(); op = "moveto"; res = "ok"; c.stats.count("wop.move"); repBefore.kind = -1; }
		else if (r < 98 && rng.chance(1, 3)) { A.clear(); refA.clear(); op = "clear"; res = "ok"; c.stats.count("wop.clear"); }
		else { op = "dump"; res = In::dump(A.get_nested_container()); }
		s.op(op); s.res(res + tail());
		c.stats.evaluations++;
		countTransition(c, repBefore, In::repOfKey(A.get_nested_container(), k), caseKey);
		if (history.size() < 200) history += op + "; ";
		if (step % 16 == 15 || step + 1 == nOps) checkWrapper(c, A, refA, keyRange, suite, op.c_str());
	}
	c.stats.sample(suite + ": " + history);
}
#endif

int main(int argc, char** argv)
{
	Ctx c = parseArgs(argc, argv);
	Rng rng(c.seed * 0x1000 + 8 + VF_PART * 100);
#if VF_PART == 0
	runNativeCfg<KeyP, uint32_t, momo::HashBucketLimP4<4>, 1, 2>(c, rng, "LimP4", 4, "kp");
	runNativeCfg<KeyA, uint32_t, momo::HashBucketLimP4<4>, 2, 1>(c, rng, "LimP4", 4, "ka");
	runNativeCfg<KeyA, ElemNM, momo::HashBucketLimP4<2>, 7, 2>(c, rng, "LimP4", 2, "ka_nm");
	runNativeCfg<KeyP, uint32_t, momo::HashBucketLimP4<4>, 15, 3>(c, rng, "LimP4", 4, "kp");
#elif VF_PART == 1
	runNativeCfg<KeyA, uint32_t, momo::HashBucketOpen8, 1, 1>(c, rng, "Open8", 7, "ka");
	runNativeCfg<KeyP, ElemNM, momo::HashBucketOpen8, 2, 2>(c, rng, "Open8", 7, "kp_nm");
	runNativeCfg<KeyP, uint32_t, momo::HashBucketOpen8, 7, 1>(c, rng, "Open8", 7, "kp");
	runNativeCfg<KeyA, uint32_t, momo::HashBucketOpen8, 15, 2>(c, rng, "Open8", 7, "ka");
#elif VF_PART == 3
	runNativeCfg<KeyP, uint32_t, momo::HashBucketLimP4<1>, 7, 1>(c, rng, "LimP4", 1, "kp");
	runNativeCfg<KeyA, ElemNM, momo::HashBucketLimP4<3>, 1, 2>(c, rng, "LimP4", 3, "ka_nm");
	runNativeCfg<KeyA, uint32_t, momo::HashBucketOpen2N2<1>, 2, 1>(c, rng, "Open2N2", 1, "ka");
	runNativeCfg<KeyP, uint32_t, momo::HashBucketOpen2N2<3>, 15, 2>(c, rng, "Open2N2", 3, "kp");
#else
	{
		typedef momo::stdish::unordered_multimap<uint32_t, uint32_t, FamHasherT, EqT> W1;	// transparent: heterogeneous lookups
		typedef momo::stdish::unordered_multimap_open<uint32_t, uint32_t, FamHasherT, EqT> W2;
		typedef momo::stdish::unordered_multimap<uint32_t, uint32_t> W3;
		typedef momo::stdish::unordered_multimap_open<uint32_t, uint32_t> W4;
		unsigned runs = c.thorough ? 10 : 3;
		for (unsigned run = 0; run < runs; ++run) {
			runWrapper<W1, true>(c, rng, false, (unsigned)rng.below(8), run);
			runWrapper<W2, true>(c, rng, true, (unsigned)rng.below(8), run);
			runWrapper<W3, false>(c, rng, false, 3, run);
			runWrapper<W4, false>(c, rng, true, 3, run);
		}
	}
#endif
	return c.finish();
}
