// C16 correspondence harness: SegmentedArray index arithmetic and address stability.
//   function level : the real static functions SegmentedArraySettings<func, L0>::GetSegItemIndexes / GetIndex /
//                    GetItemCount (L0 = 0..16, both sizings) and UIntMath<>::Log2 (8- and 4-byte variants) are
//                    called directly and compared with the Lean machine-level model (checksummed sweeps, single
//                    boundary points) and with the property's own oracle (in-order fill: walk a (segment, offset)
//                    cursor that advances by GetItemCount).
//   container level: real SegmentedArrays (tracking memory manager, counting element type) run random
//                    grow / shrink histories; element addresses are recorded when an element is created and
//                    re-checked after every operation; the segment list (allocation serial numbers) is compared
//                    with the Lean container model after every operation.
// The work is split over C16_PARTS executables (-DC16_PART=k) that verif.py compiles and runs in parallel; one more
// executable (-DC16_CONT_ONLY, built with ASan+UBSan) runs all container configurations and nothing else.
#include "momo/SegmentedArray.h"
#include "common/verif_common.h"

#include <algorithm>
#include <csignal>
#include <map>
#include <new>
#include <utility>
#include <unistd.h>

#ifndef C16_PART
#define C16_PART 0
#endif
#ifndef C16_PARTS
#define C16_PARTS 8
#endif

using namespace vf;
typedef unsigned long long ull;
typedef unsigned __int128 u128;

static const unsigned maxL0 = 16;
typedef momo::SegmentedArrayItemCountFunc Func;
template<Func f, size_t L0> using Sett = momo::SegmentedArraySettings<f, L0>;

static const char* fname(Func f) { return f == Func::sqrt ? "sqrt" : "cnst"; }

// ---------- checksum shared with lean/Driver/Seg.lean ----------
struct Chk {
	uint64_t a = 0, b = 0;
	static const uint64_t P1 = 2147483647ull, P2 = 2147483629ull, M1 = 1000003ull, M2 = 998244353ull;
	void add(uint64_t x) { a = (a * M1 + x % P1) % P1; b = (b * M2 + x % P2) % P2; }
	std::string str() const { return fmt("%llu %llu", (ull)a, (ull)b); }
};

// ---------- independent description of the two sizings (the property's oracle) ----------
// cnst: every segment has 2^L0 slots.  sqrt: one segment of 2^L0 slots (class 0), then for k = 1, 2, ...
// 3*2^(k-1) segments of 2^(k+L0) slots (class k).  base = number of slots in all earlier segments.
static unsigned specClass(Func f, uint64_t seg)
{
	if (f == Func::cnst || seg == 0) return 0;
	unsigned k = 1;
	while ((u128)seg >= (u128)3 * ((u128)1 << k) - 2) ++k;	// class k covers [3*2^(k-1)-2, 3*2^k-2)
	return k;
}
static u128 specCount(Func f, unsigned L0, uint64_t seg) { return (u128)1 << (specClass(f, seg) + L0); }
static u128 specBase(Func f, unsigned L0, uint64_t seg)
{
	if (f == Func::cnst) return (u128)seg << L0;
	unsigned k = specClass(f, seg);
	if (k == 0) return 0;
	u128 before = (((u128)1 << (2 * k - 1)) - 1) << L0;			// slots in classes 0..k-1
	u128 first = (u128)3 * ((u128)1 << (k - 1)) - 2;				// first segment of class k
	return before + (((u128)seg - first) << (k + L0));
}
// the 64-bit hypothesis of the theorems: (index >> L0) + 1 does not wrap
static bool fits(unsigned L0, uint64_t index) { return (index >> L0) != ~0ull; }

#ifndef C16_CONT_ONLY
// ---------- function-level sweeps ----------
template<typename S>
static void sweepOne(Ctx& c, Suite* s, Func f, unsigned L0, uint64_t lo, uint64_t hi)
{
	if (lo >= hi) return;
	size_t cs, co;
	S::GetSegItemIndexes((size_t)lo, cs, co);
	if (lo == 0 && (cs != 0 || co != 0))
		c.fail("C16 in-order fill: %s L0=%u index=0 maps to (%zu,%zu), expected (0,0)", fname(f), L0, cs, co);
	if (S::GetIndex(cs, 0) + co != lo)
		c.fail("C16 in-order fill: %s L0=%u index=%llu maps to (%zu,%zu) but GetIndex(%zu,0)=%zu", fname(f), L0, (ull)lo, cs, co, cs, S::GetIndex(cs, 0));
	size_t cnt = S::GetItemCount(cs);
	Chk chk;
	uint64_t bad = 0, segEnds = 0;
	for (uint64_t i = lo; i < hi; ++i) {
		size_t sg, it;
		S::GetSegItemIndexes((size_t)i, sg, it);
		size_t back = S::GetIndex(sg, it);
		if (sg != cs || it != co || back != i || it >= cnt) {
			if (bad++ < 3) {
				if (back != i) c.fail("C16 roundtrip: %s L0=%u index=%llu -> (%zu,%zu) -> %zu", fname(f), L0, (ull)i, sg, it, back);
				else if (it >= cnt) c.fail("C16 offset: %s L0=%u index=%llu -> (%zu,%zu) but GetItemCount=%zu", fname(f), L0, (ull)i, sg, it, cnt);
				else c.fail("C16 in-order fill: %s L0=%u index=%llu maps to (%zu,%zu), in-order position is (%zu,%zu)", fname(f), L0, (ull)i, sg, it, cs, co);
			}
			cs = sg; co = it; cnt = S::GetItemCount(cs);	// resynchronise
		}
		if (s) { chk.add(sg); chk.add(it); chk.add(back); chk.add(cnt); }
		if (++co >= cnt) { ++cs; co = 0; cnt = S::GetItemCount(cs); ++segEnds; }
	}
	c.stats.count("sweep.segment_ends", segEnds);
	// the first index of the next slice continues the chain
	size_t sg, it;
	S::GetSegItemIndexes((size_t)hi, sg, it);
	if (sg != cs || it != co)
		c.fail("C16 in-order fill: %s L0=%u index=%llu maps to (%zu,%zu), in-order position is (%zu,%zu)", fname(f), L0, (ull)hi, sg, it, cs, co);
	c.stats.evaluations += hi - lo;
	if (s) {
		s->op(fmt("sweep %s %u %llu %llu", fname(f), L0, (ull)lo, (ull)hi));
		s->res(chk.str());
		c.stats.count("sweep.model_indexes", hi - lo);
	} else
		c.stats.count("sweep.oracle_only_indexes", hi - lo);
}

template<Func f, size_t L0>
struct ForL0 {
	static void sweep(Ctx& c, Suite* s, uint64_t lo, uint64_t hi, uint64_t block)
	{
		for (uint64_t b = lo; b < hi; b += block)
			sweepOne<Sett<f, L0>>(c, s, f, (unsigned)L0, b, std::min(hi, b + block));
		c.stats.nontrivial(fmt("sweep %s L0=%zu %s [%llu,%llu)", fname(f), L0, s ? "model" : "oracle", (ull)lo, (ull)hi));
		ForL0<f, L0 + 1>::sweep(c, s, lo, hi, block);
	}
	static void point(unsigned l0, size_t index, size_t& sg, size_t& it, size_t& back, size_t& cnt)
	{
		if (l0 == L0) {
			typedef Sett<f, L0> S;
			S::GetSegItemIndexes(index, sg, it); back = S::GetIndex(sg, it); cnt = S::GetItemCount(sg);
		} else ForL0<f, L0 + 1>::point(l0, index, sg, it, back, cnt);
	}
	static void inverse(unsigned l0, size_t seg, size_t item, size_t& index, size_t& sg, size_t& it, size_t& cnt)
	{
		if (l0 == L0) {
			typedef Sett<f, L0> S;
			index = S::GetIndex(seg, item); S::GetSegItemIndexes(index, sg, it); cnt = S::GetItemCount(seg);
		} else ForL0<f, L0 + 1>::inverse(l0, seg, item, index, sg, it, cnt);
	}
};
template<Func f>
struct ForL0<f, maxL0 + 1> {
	static void sweep(Ctx&, Suite*, uint64_t, uint64_t, uint64_t) {}
	static void point(unsigned, size_t, size_t&, size_t&, size_t&, size_t&) {}
	static void inverse(unsigned, size_t, size_t, size_t&, size_t&, size_t&, size_t&) {}
};

static void runSweeps(Ctx& c)
{
	// model-level (checksummed) range [0, modelN), oracle-only range [modelN, oracleN); this part takes slice C16_PART
	const unsigned logModel = c.thorough ? 26 : 22, logOracle = c.thorough ? 32 : 26;
	const uint64_t modelN = 1ull << logModel, oracleN = 1ull << logOracle;
	{
		Suite s(c, "sweep", "model seg");
		uint64_t lo = modelN * C16_PART / C16_PARTS, hi = modelN * (C16_PART + 1) / C16_PARTS;
		ForL0<Func::sqrt, 0>::sweep(c, &s, lo, hi, 1ull << 18);
		ForL0<Func::cnst, 0>::sweep(c, &s, lo, hi, 1ull << 18);
	}
	uint64_t lo = modelN + (oracleN - modelN) / C16_PARTS * C16_PART;
	uint64_t hi = C16_PART + 1 == C16_PARTS ? oracleN : modelN + (oracleN - modelN) / C16_PARTS * (C16_PART + 1);
	ForL0<Func::sqrt, 0>::sweep(c, nullptr, lo, hi, hi - lo);
	ForL0<Func::cnst, 0>::sweep(c, nullptr, lo, hi, hi - lo);
	c.stats.count(fmt("sweep.parts_done.model_upto_2^%u.oracle_upto_2^%u", logModel, logOracle));
}

// ---------- boundary points ----------
static void mapPoint(Ctx& c, Suite& s, Func f, unsigned L0, uint64_t index)
{
	size_t sg = 0, it = 0, back = 0, cnt = 0;
	if (f == Func::sqrt) ForL0<Func::sqrt, 0>::point(L0, (size_t)index, sg, it, back, cnt);
	else ForL0<Func::cnst, 0>::point(L0, (size_t)index, sg, it, back, cnt);
	s.op(fmt("map %s %u %llu", fname(f), L0, (ull)index));
	s.res(fmt("%zu %zu %zu %zu", sg, it, back, cnt));
	c.stats.evaluations++;
	if (!fits(L0, index)) {
		// the one point excluded by the theorems (finding F14); cnst does not compute index1 and must still be exact
		c.stats.count("bnd.excluded_point");
		if (back != index) {
			if (f == Func::sqrt && L0 == 0 && index == ~0ull)
				c.fail("known-F14 index=18446744073709551615 sqrt L0=0 -> (%zu,%zu) -> %zu", sg, it, back);
			else
				c.fail("C16 roundtrip: %s L0=%u index=%llu -> (%zu,%zu) -> %zu", fname(f), L0, (ull)index, sg, it, back);
		}
		return;
	}
	if (back != index) c.fail("C16 roundtrip: %s L0=%u index=%llu -> (%zu,%zu) -> %zu", fname(f), L0, (ull)index, sg, it, back);
	if (it >= cnt) c.fail("C16 offset: %s L0=%u index=%llu -> (%zu,%zu) but GetItemCount=%zu", fname(f), L0, (ull)index, sg, it, cnt);
	{	// inside a segment consecutive offsets are consecutive indexes: GetIndex(seg, 0) + offset == index
		size_t i0 = 0, s0 = 0, t0 = 0, c0 = 0;
		if (f == Func::sqrt) ForL0<Func::sqrt, 0>::inverse(L0, sg, 0, i0, s0, t0, c0);
		else ForL0<Func::cnst, 0>::inverse(L0, sg, 0, i0, s0, t0, c0);
		if (i0 + it != index || s0 != sg || t0 != 0)
			c.fail("C16 in-order fill: %s L0=%u index=%llu maps to (%zu,%zu) but GetIndex(%zu,0)=%zu -> (%zu,%zu)", fname(f), L0, (ull)index, sg, it, sg, i0, s0, t0);
	}
	if (index != ~0ull && fits(L0, index + 1)) {	// successor: next offset, or offset 0 of the next segment iff full
		size_t s2 = 0, i2 = 0, b2 = 0, c2 = 0;
		if (f == Func::sqrt) ForL0<Func::sqrt, 0>::point(L0, (size_t)index + 1, s2, i2, b2, c2);
		else ForL0<Func::cnst, 0>::point(L0, (size_t)index + 1, s2, i2, b2, c2);
		bool full = it + 1 == cnt;
		if (full) c.stats.count("bnd.segment_end_points");
		if (full ? (s2 != sg + 1 || i2 != 0) : (s2 != sg || i2 != it + 1))
			c.fail("C16 in-order fill: %s L0=%u index=%llu -> (%zu,%zu) [segment size %zu] but index+1 -> (%zu,%zu)", fname(f), L0, (ull)index, sg, it, cnt, s2, i2);
	}
}

static void invPoint(Ctx& c, Suite& s, Func f, unsigned L0, uint64_t seg, uint64_t pick)
{
	// the independent description is used only to stay away from unrepresentable indexes (factor 4 head-room)
	if ((specBase(f, L0, seg) + specCount(f, L0, seg)) >> 62) return;
	size_t index = 0, sg = 0, it = 0, cnt = 0;
	if (f == Func::sqrt) ForL0<Func::sqrt, 0>::inverse(L0, (size_t)seg, 0, index, sg, it, cnt);
	else ForL0<Func::cnst, 0>::inverse(L0, (size_t)seg, 0, index, sg, it, cnt);
	if (cnt == 0 || cnt > (1ull << 60)) { c.fail("C16 segment size: %s L0=%u segment=%llu GetItemCount=%zu", fname(f), L0, (ull)seg, cnt); return; }
	size_t base = index;
	uint64_t item = pick == 0 ? 0 : pick == 1 ? std::min<uint64_t>(1, cnt - 1) : pick == 2 ? cnt - 1 : pick == 3 ? cnt / 2 : pick % cnt;
	if (f == Func::sqrt) ForL0<Func::sqrt, 0>::inverse(L0, (size_t)seg, (size_t)item, index, sg, it, cnt);
	else ForL0<Func::cnst, 0>::inverse(L0, (size_t)seg, (size_t)item, index, sg, it, cnt);
	s.op(fmt("inv %s %u %llu %llu", fname(f), L0, (ull)seg, (ull)item));
	s.res(fmt("%zu %zu %zu %zu", index, sg, it, cnt));
	c.stats.evaluations++;
	c.stats.count("bnd.inverse_points");
	if (sg != seg || it != item) c.fail("C16 inverse: %s L0=%u (%llu,%llu) -> index %zu -> (%zu,%zu)", fname(f), L0, (ull)seg, (ull)item, index, sg, it);
	if (index != base + item) c.fail("C16 in-order fill: %s L0=%u GetIndex(%llu,%llu)=%zu but GetIndex(%llu,0)=%zu", fname(f), L0, (ull)seg, (ull)item, index, (ull)seg, base);
	if (pick == 2) {	// the next segment starts where this one is full
		size_t nidx = 0, ns = 0, ni = 0, nc = 0;
		if (f == Func::sqrt) ForL0<Func::sqrt, 0>::inverse(L0, (size_t)seg + 1, 0, nidx, ns, ni, nc);
		else ForL0<Func::cnst, 0>::inverse(L0, (size_t)seg + 1, 0, nidx, ns, ni, nc);
		if (nidx != base + cnt)
			c.fail("C16 in-order fill: %s L0=%u segment %llu starts at %zu and has %zu slots but segment %llu starts at %zu", fname(f), L0, (ull)seg, base, cnt, (ull)seg + 1, nidx);
	}
}

static void runBoundaries(Ctx& c, Rng& rng)
{
	Suite s(c, "bnd", "model seg");
	for (unsigned L0 = 0; L0 <= maxL0; ++L0) {
		if (L0 % C16_PARTS != C16_PART) continue;
		for (Func f : { Func::sqrt, Func::cnst }) {
			std::vector<uint64_t> pts;
			for (unsigned k = 0; k <= 64; ++k) {
				uint64_t base = k == 64 ? 0 : (1ull << k);
				for (int d = -3; d <= 3; ++d) pts.push_back(base + (uint64_t)(int64_t)d);	// includes 2^64-1, -2, -3
				// class boundaries of the sqrt sizing: index1 = 2^k, i.e. index = (2^k - 1) << L0
				if (k + L0 <= 64 && k < 64) {
					u128 v = (((u128)1 << k) - 1) << L0;
					if (!(v >> 64)) for (int d = -2; d <= 2; ++d) pts.push_back((uint64_t)v + (uint64_t)(int64_t)d);
				}
			}
			for (unsigned i = 0; i < (c.thorough ? 2000u : 300u); ++i) pts.push_back(rng.biased(64));
			std::sort(pts.begin(), pts.end());
			pts.erase(std::unique(pts.begin(), pts.end()), pts.end());
			for (uint64_t p : pts) mapPoint(c, s, f, L0, p);
			c.stats.nontrivial(fmt("bnd %s L0=%u points=%zu", fname(f), L0, pts.size()));
			// slots -> index -> slots, around the first/last segment of every class
			std::vector<uint64_t> segs;
			for (unsigned k = 0; k <= 33; ++k) {
				u128 first = k == 0 ? 0 : (u128)3 * ((u128)1 << (k - 1)) - 2;
				for (int d = -2; d <= 2; ++d) { u128 v = first + (u128)(int64_t)d; if (!(v >> 63)) segs.push_back((uint64_t)v); }
			}
			for (unsigned k = 0; k <= 62; ++k) for (int d = -1; d <= 1; ++d) segs.push_back((1ull << k) + (uint64_t)(int64_t)d);
			for (unsigned i = 0; i < (c.thorough ? 1000u : 200u); ++i) segs.push_back(rng.biased(40));
			std::sort(segs.begin(), segs.end());
			segs.erase(std::unique(segs.begin(), segs.end()), segs.end());
			for (uint64_t sg : segs) {
				if (sg >> 62) continue;
				for (uint64_t pick = 0; pick < 5; ++pick) invPoint(c, s, f, L0, sg, pick < 4 ? pick : 4 + (rng.next() >> 4));
			}
			c.stats.sample(fmt("bnd %s L0=%u: %zu index points (every 2^k-3..2^k+3, class boundaries, random), %zu segments", fname(f), L0, pts.size(), segs.size()));
		}
	}
}

// ---------- UIntMath::Log2 ----------
static void runLog(Ctx& c, Rng& rng, bool wide)
{
	Suite s(c, wide ? "log64" : "log32", "model seg");
	const unsigned bits = wide ? 64 : 32;
	auto real = [wide](uint64_t v) -> uint64_t {
		return wide ? (uint64_t)momo::internal::UIntMath<uint64_t>::Log2(v) : (uint64_t)momo::internal::UIntMath<uint32_t>::Log2((uint32_t)v);
	};
	auto one = [&](uint64_t v) {
		uint64_t r = real(v);
		s.op(fmt("%s %llu", wide ? "log64" : "log32", (ull)v)); s.res(fmt("%llu", (ull)r));
		c.stats.evaluations++;
		if (v != 0 && r != (uint64_t)(63 - __builtin_clzll(v))) c.fail("C16 Log2(%u-bit): v=%llu -> %llu", bits, (ull)v, (ull)r);
	};
	one(0);
	for (unsigned k = 0; k < bits; ++k) {
		uint64_t p = 1ull << k, mask = (bits == 64) ? ~0ull : ((1ull << bits) - 1);
		one(p); one((p - 1) & mask); one((p + 1) & mask); one(p | (p - 1)); one(p | (rng.next() & (p - 1)));
		one(p | (p >> 1)); one(p | 1);
		c.stats.nontrivial(fmt("log%u top bit %u", bits, k));
	}
	for (unsigned i = 0; i < (c.thorough ? 20000u : 2000u); ++i) one(rng.biased(bits));
	// exhaustive small range, checksummed
	uint64_t lim = c.thorough ? (1ull << 22) : (1ull << 18);
	for (uint64_t lo = 0; lo < lim; lo += (1ull << 16)) {
		Chk chk;
		for (uint64_t v = lo; v < lo + (1ull << 16); ++v) {
			uint64_t r = real(v); chk.add(r);
			if (v != 0 && r != (uint64_t)(63 - __builtin_clzll(v))) c.fail("C16 Log2(%u-bit): v=%llu -> %llu", bits, (ull)v, (ull)r);
		}
		s.op(fmt("%s %llu %llu", wide ? "logsweep64" : "logsweep32", (ull)lo, (ull)(lo + (1ull << 16)))); s.res(chk.str());
		c.stats.evaluations += 1ull << 16;
	}
	c.stats.count(wide ? "log64.exhaustive_values" : "log32.exhaustive_values", lim);
	if (!wide && c.thorough) {	// every 32-bit value against the oracle (no model)
		for (uint64_t v = 1; v < (1ull << 32); ++v)
			if ((uint64_t)momo::internal::UIntMath<uint32_t>::Log2((uint32_t)v) != (uint64_t)(63 - __builtin_clzll(v))) { c.fail("C16 Log2(32-bit): v=%llu", (ull)v); break; }
		c.stats.count("log32.oracle_all_2^32");
		c.stats.evaluations += 1ull << 32;
	}
}

#endif // !C16_CONT_ONLY

// ---------- container level ----------
// the operation in progress, printed if momo aborts (assertion) or crashes inside it
static char g_cur[640] = "";
static void onCrash(int sig)
{
	static const char head[] = "\nFAIL C16 element access: crashed (assertion / signal) during: ";
	ssize_t w = write(1, head, sizeof head - 1); w = write(1, g_cur, strlen(g_cur)); w = write(1, "\n", 1); (void)w;
	signal(sig, SIG_DFL); raise(sig);
}
struct Tracker {
	std::map<char*, size_t> live;	// block -> size
	uint64_t allocs = 0, frees = 0;
	long failCountdown = -1;		// >= 0: the allocation that finds 0 here throws
	bool sizeMismatch = false;
};

class TrackMM {
public:
	explicit TrackMM(Tracker* t) noexcept : mT(t) {}
	TrackMM(TrackMM&& o) noexcept : mT(o.mT) {}
	TrackMM(const TrackMM& o) noexcept : mT(o.mT) {}
	~TrackMM() noexcept {}
	TrackMM& operator=(const TrackMM&) = delete;
	void* Allocate(size_t size)
	{
		if (mT->failCountdown >= 0 && mT->failCountdown-- == 0) throw std::bad_alloc();
		char* p = static_cast<char*>(operator new(size));
		mT->live[p] = size; ++mT->allocs;
		return p;
	}
	void Deallocate(void* ptr, size_t size) noexcept
	{
		auto it = mT->live.find(static_cast<char*>(ptr));
		if (it == mT->live.end() || it->second != size) mT->sizeMismatch = true; else mT->live.erase(it);
		++mT->frees;
		operator delete(ptr);
	}
	bool IsEqual(const TrackMM& o) const noexcept { return mT == o.mT; }
private:
	Tracker* mT;
};

struct Item {
	static uint64_t copies, moves, assigns, created, destroyed;
	uint64_t v;
	Item() : v(0) { ++created; }
	explicit Item(uint64_t x) : v(x) { ++created; }
	Item(const Item& o) : v(o.v) { ++copies; }
	Item(Item&& o) noexcept : v(o.v) { ++moves; }
	Item& operator=(const Item& o) { v = o.v; ++assigns; return *this; }
	Item& operator=(Item&& o) noexcept { v = o.v; ++assigns; return *this; }
	~Item() { ++destroyed; }
};
uint64_t Item::copies = 0, Item::moves = 0, Item::assigns = 0, Item::created = 0, Item::destroyed = 0;

static std::string idRanges(const std::vector<uint64_t>& ids)
{
	if (ids.empty()) return "-";
	std::string r;
	size_t i = 0;
	while (i < ids.size()) {
		size_t j = i;
		while (j + 1 < ids.size() && ids[j + 1] == ids[j] + 1) ++j;
		if (!r.empty()) r += ",";
		r += fmt("%llu-%llu", (ull)ids[i], (ull)ids[j]);
		i = j + 1;
	}
	return r;
}

template<Func f, size_t L0>
struct ContainerRun {
	typedef Sett<f, L0> Settings;
	typedef momo::SegmentedArray<Item, TrackMM, momo::SegmentedArrayItemTraits<Item, TrackMM>, Settings> Arr;

	Ctx& c; Rng& rng; Suite& s;
	Tracker tr;
	Arr arr;
	std::vector<uint64_t> ref;			// expected values
	std::vector<Item*> addrOf;			// address of element i, recorded when it was created
	std::vector<Item*> segPtr;			// mSegments as seen after the previous operation
	std::vector<uint64_t> segId;		// allocation serial numbers (same numbering as the model)
	uint64_t nextId = 0, nextVal = 1, opNo = 0;
	std::string cfg;
	bool broken = false;				// elements no longer lie in allocated segments: this array is abandoned
	std::string cur;					// the operation being executed and the state it started from (for failure texts)
	void begin(const std::string& op)
	{
		cur = fmt("%s op#%llu %s on {count=%zu, segments=%zu, capacity=%zu}", cfg.c_str(), (ull)opNo, op.c_str(), arr.GetCount(), arr.mSegments.GetCount(), arr.GetCapacity());
		snprintf(g_cur, sizeof g_cur, "%s", cur.c_str());
	}

	ContainerRun(Ctx& c_, Rng& r_, Suite& s_) : c(c_), rng(r_), s(s_), arr(TrackMM(&tr)), cfg(fmt("%s L0=%zu", fname(f), L0)) {}

	// observe the segment list; existing entries must be the same blocks as before
	void observe()
	{
		size_t n = arr.mSegments.GetCount();
		size_t keep = std::min(n, segPtr.size());
		for (size_t i = 0; i < keep; ++i)
			if (arr.mSegments[i] != segPtr[i]) {
				c.fail("C16 address stability: %s: segment %zu was reallocated (elements moved)", cur.c_str(), i);
				segPtr[i] = arr.mSegments[i]; segId[i] = nextId++;
			}
		segPtr.resize(keep); segId.resize(keep);
		for (size_t i = keep; i < n; ++i) { segPtr.push_back(arr.mSegments[i]); segId.push_back(nextId++); }
	}

	std::string state()
	{
		uint64_t slots = 0;
		for (Item* p : segPtr) {
			auto it = tr.live.find(reinterpret_cast<char*>(p));
			if (it == tr.live.end()) c.fail("C16 element access: %s: a segment pointer is not a live block", cur.c_str());
			else slots += it->second / sizeof(Item);
		}
		return fmt("n=%zu cap=%zu slots=%llu segs=%zu ids=%s", arr.GetCount(), arr.GetCapacity(), (ull)slots, segPtr.size(), idRanges(segId).c_str());
	}

	void checkElem(size_t i)
	{
		{	// element access must stay inside the allocated segments (checked before touching the element)
			size_t sg, it;
			Settings::GetSegItemIndexes(i, sg, it);
			if (sg >= arr.mSegments.GetCount()) {
				c.fail("C16 element access: %s: element %zu (count now %zu) lies in segment %zu but only %zu segments are allocated", cur.c_str(), i, arr.GetCount(), sg, arr.mSegments.GetCount());
				broken = true;
				return;
			}
		}
		Item* p = &arr[i];
		if (p != addrOf[i]) {
			c.fail("C16 address stability: %s: element %zu moved (count now %zu)", cur.c_str(), i, arr.GetCount());
			addrOf[i] = p;	// report once
		}
		if (p->v != ref[i])
			c.fail("C16 element access: %s: element %zu holds %llu, expected %llu", cur.c_str(), i, (ull)p->v, (ull)ref[i]);
		size_t sg, it;
		Settings::GetSegItemIndexes(i, sg, it);
		if (sg >= segPtr.size() || p != segPtr[sg] + it)
			c.fail("C16 element access: %s: element %zu is not at segment %zu offset %zu", cur.c_str(), i, sg, it);
	}

	// after an operation: new elements get their addresses recorded, old ones must still be where they were
	void after(bool full)
	{
		observe();
		size_t n = arr.GetCount();
		if (n != ref.size()) { c.fail("C16 element access: %s: count is %zu, expected %zu", cur.c_str(), n, ref.size()); ref.resize(n); }
		size_t old = std::min(addrOf.size(), n);
		addrOf.resize(n);
		for (size_t i = old; i < n; ++i) addrOf[i] = &arr[i];
		if (n > 0) {
			if (full || n <= 128) { for (size_t i = 0; i < n; ++i) checkElem(i); c.stats.count("cont.full_address_checks"); }
			else {
				checkElem(0); checkElem(n - 1); if (old > 0) checkElem(old - 1);
				for (int k = 0; k < 12; ++k) checkElem((size_t)rng.below(n));
			}
		}
		if (tr.sizeMismatch) { c.stats.count("cont.block_freed_with_wrong_size"); tr.sizeMismatch = false; }
		c.stats.evaluations++;
	}

	void emit(const std::string& op) { s.op(op); s.res(state()); }

	// growth must not copy / move / assign any element
	struct Counters { uint64_t cp, mv, as; };
	Counters snap() { return { Item::copies, Item::moves, Item::assigns }; }
	void noRelocation(const Counters& b, uint64_t allowedCopies)
	{
		if (Item::moves != b.mv || Item::assigns != b.as || Item::copies != b.cp + allowedCopies)
			c.fail("C16 address stability: %s: %llu moves, %llu assignments, %llu copies (%llu new elements are copies of the argument) during growth", cur.c_str(),
				(ull)(Item::moves - b.mv), (ull)(Item::assigns - b.as), (ull)(Item::copies - b.cp), (ull)allowedCopies);
	}

	void growthStats(size_t segsBefore, size_t countBefore, const char* what)
	{
		size_t now = arr.mSegments.GetCount();
		if (now > segsBefore) {
			c.stats.count("cont.new_segments", now - segsBefore);
			if (countBefore > 0) {
				c.stats.count(std::string("cont.grow_with_live_elements.") + what);
				c.stats.nontrivial(fmt("%s %s segs %zu->%zu count=%zu", cfg.c_str(), what, segsBefore, now, countBefore));
			}
		}
	}

	// boundary-biased size near `around`: the value itself +-1, the count +-1, the capacity +-1, starts of the
	// segments around it +-1, or a random value up to `limit`
	size_t pickSize(size_t around, size_t limit)
	{
		size_t n = arr.GetCount(), cap = arr.GetCapacity();
		size_t v;
		switch (rng.below(6)) {
		case 0: v = around + (size_t)rng.below(3); break;
		case 1: v = n + (size_t)rng.below(3); break;
		case 2: v = cap + (size_t)rng.below(3); break;
		case 3: case 4: {
			size_t sg, it;
			Settings::GetSegItemIndexes(around, sg, it);
			sg += (size_t)rng.below(3);
			v = Settings::GetIndex(sg > 0 && rng.chance(1, 3) ? sg - 1 : sg, 0) + (size_t)rng.below(3);
			break; }
		default: v = (size_t)rng.below(limit + 1); break;
		}
		v = v > 0 ? v - 1 : 0;		// the +0..2 above become -1..+1
		return std::min(v, limit);
	}

	void addOne()
	{
		size_t sb = arr.mSegments.GetCount(), nb = arr.GetCount();
		arr.AddBackVar(nextVal); ref.push_back(nextVal++);
		addrOf.push_back(&arr[nb]);		// recorded at creation time
		growthStats(sb, nb, "AddBack");
	}

	void run(unsigned steps, size_t maxCount)
	{
		cur = cfg + " new";
		s.op(fmt("new %s %zu", fname(f), L0)); s.res(state());
		const size_t unit = size_t{1} << L0;
		std::string sampleText = cfg + ":";
		for (unsigned st = 0; st < steps && !broken; ++st) {
			++opNo;
			size_t n = arr.GetCount(), segs = arr.mSegments.GetCount();
			unsigned r = (unsigned)rng.below(100);
			bool full = (opNo % 64) == 0;
			std::string desc;
			if (r < 34) {	// append a burst
				size_t k = (size_t)rng.range(1, rng.chance(1, 4) ? 3 * unit + 40 : 12);
				if (n + k > maxCount) k = n < maxCount ? maxCount - n : 0;
				desc = fmt("add*%zu", k);
				if (k <= 12) {
					for (size_t j = 0; j < k; ++j) {
						begin("AddBack");
						Counters b = snap();
						addOne();
						noRelocation(b, 0);
						after(false); emit("add"); c.stats.count("cont.op.add"); ++opNo;
					}
				} else {	// one model line for the whole burst
					begin(fmt("AddBack x %zu", k));
					Counters b = snap();
					for (size_t j = 0; j < k; ++j) addOne();
					noRelocation(b, 0);
					after(false); emit(fmt("addn %zu", k)); c.stats.count("cont.op.add", k);
				}
			} else if (r < 46) {	// reserve
				size_t cap = arr.GetCapacity();
				size_t want = rng.chance(1, 2) ? pickSize(cap + (size_t)rng.below(2 * unit + 8), maxCount + 8 * unit)
					: rng.chance(1, 5) ? (size_t)rng.below(cap + 1) : cap + (size_t)rng.range(1, 4 * unit + 64);
				if (want > maxCount + 8 * unit) want = maxCount;
				begin(fmt("Reserve(%zu)", want));
				Counters b = snap();
				arr.Reserve(want);
				noRelocation(b, 0); growthStats(segs, n, "Reserve");
				if (arr.GetCapacity() < want) c.fail("C16 capacity: %s left capacity %zu", cur.c_str(), arr.GetCapacity());
				after(full); emit(fmt("reserve %zu", want)); c.stats.count("cont.op.reserve"); desc = fmt("reserve(%zu)", want);
			} else if (r < 56) {	// resize upward (default construction or copies of a value)
				size_t to = n + (size_t)rng.range(1, 3 * unit + 50);
				if (rng.chance(1, 2)) to = std::max(n, pickSize(to, maxCount));	// land on / next to a segment boundary
				if (to > maxCount) to = std::max(n, maxCount);
				bool byValue = rng.chance(1, 2);
				begin(fmt(byValue ? "SetCount(%zu, item)" : "SetCount(%zu)", to));
				Counters b = snap();
				if (byValue) { Item proto(nextVal); b = snap(); arr.SetCount(to, proto); for (size_t i = n; i < to; ++i) ref.push_back(nextVal); ++nextVal; }
				else { arr.SetCount(to); for (size_t i = n; i < to; ++i) ref.push_back(0); }
				noRelocation(b, byValue ? to - n : 0); growthStats(segs, n, "SetCount");
				after(full); emit(fmt("setcount %zu", to)); c.stats.count("cont.op.setcount_up"); desc = fmt("setcount(%zu)", to);
			} else if (r < 63) {	// resize downward
				size_t to = (size_t)rng.below(n + 1);
				if (rng.chance(1, 2) && n > 0) to = n - (size_t)rng.below(std::min<size_t>(n, 2 * unit + 8) + 1);
				else if (rng.chance(1, 2)) to = std::min(n, pickSize(to, n));
				begin(fmt("SetCount(%zu)", to));
				arr.SetCount(to); ref.resize(to);
				after(full); emit(fmt("setcount %zu", to)); c.stats.count("cont.op.setcount_down"); desc = fmt("setcount(%zu)", to);
			} else if (r < 70) {	// remove from the back
				size_t k = (size_t)rng.below(std::min<size_t>(n, 2 * unit + 8) + 1);
				begin(fmt("RemoveBack(%zu)", k));
				arr.RemoveBack(k); ref.resize(n - k);
				after(full); emit(fmt("removeback %zu", k)); c.stats.count("cont.op.removeback"); desc = fmt("removeback(%zu)", k);
			} else if (r < 76) {	// shrink to fit
				begin("Shrink()");
				arr.Shrink();
				if (arr.mSegments.GetCount() < segs) c.stats.count("cont.segments_freed_by_shrink", segs - arr.mSegments.GetCount());
				after(true); emit("shrinkfit"); c.stats.count("cont.op.shrinkfit"); desc = "shrinkfit";
			} else if (r < 82) {	// shrink to a capacity (below, at, above the count)
				size_t cap = rng.chance(2, 3) ? pickSize(rng.chance(1, 2) ? n : (size_t)rng.below(arr.GetCapacity() + 1), arr.GetCapacity() + unit)
					: (size_t)rng.below(arr.GetCapacity() + unit + 1);
				begin(fmt("Shrink(%zu)", cap));
				arr.Shrink(cap);
				if (arr.mSegments.GetCount() < segs) c.stats.count("cont.segments_freed_by_shrink", segs - arr.mSegments.GetCount());
				if (cap < n) c.stats.count("cont.shrink_below_count");
				after(true); emit(fmt("shrink %zu", cap)); c.stats.count("cont.op.shrink"); desc = fmt("shrink(%zu)", cap);
			} else if (r < 85) {	// clear
				bool sh = rng.chance(1, 2);
				begin(sh ? "Clear(true)" : "Clear(false)");
				arr.Clear(sh); ref.clear();
				after(true); emit(fmt("clear %d", sh ? 1 : 0)); c.stats.count(sh ? "cont.op.clear_shrink" : "cont.op.clear"); desc = sh ? "clear(shrink)" : "clear";
			} else if (r < 91) {	// insert in the middle: values shift, slots of existing indexes stay
				if (n >= maxCount) continue;
				size_t at = (size_t)rng.below(n + 1);
				begin(fmt("Insert(%zu, item)", at));
				arr.Insert(at, Item(nextVal)); ref.insert(ref.begin() + (ptrdiff_t)at, nextVal++);
				growthStats(segs, n, "Insert");
				after(full); emit("insert"); c.stats.count("cont.op.insert"); desc = fmt("insert@%zu", at);
			} else {	// where is element i: (allocation serial number, offset) by pointer arithmetic on the real address
				if (n == 0) continue;
				begin("operator[]");
				for (int q = 0; q < 4; ++q) {
					size_t i = q == 0 ? n - 1 : (size_t)rng.below(n);
					char* p = reinterpret_cast<char*>(&arr[i]);
					auto it = tr.live.upper_bound(p);
					std::string ans = "none 0";
					if (it != tr.live.begin()) {
						--it;
						if (p < it->first + it->second) {
							size_t sg = (size_t)(std::find(segPtr.begin(), segPtr.end(), reinterpret_cast<Item*>(it->first)) - segPtr.begin());
							if (sg < segPtr.size()) ans = fmt("%llu %zu", (ull)segId[sg], (size_t)(p - it->first) / sizeof(Item));
						}
					}
					if (ans == "none 0") c.fail("C16 element access: %s: element %zu is outside every live segment", cur.c_str(), i);
					s.op(fmt("addr %zu", i)); s.res(ans); c.stats.count("cont.op.addr"); c.stats.evaluations++;
				}
				desc = "addr*4";
			}
			if (st < 14) sampleText += " " + desc;
		}
		c.stats.sample(sampleText);
		if (broken) arr.mCount = std::min(arr.mCount, arr.GetCapacity());	// let the destructor run on what is allocated
		// oracle only (no model): growth with injected allocation failures — whatever happens, elements that are
		// still there must not have moved
		for (unsigned round = 0; round < 40 && !broken; ++round) {
			size_t n = arr.GetCount();
			if (n > maxCount) break;
			++opNo;
			long countdown = (long)rng.below(4);
			size_t segsBefore = arr.mSegments.GetCount();
			bool threw = false;
			unsigned kind = (unsigned)rng.below(3);
			size_t arg = kind == 0 ? arr.GetCapacity() + (size_t)rng.range(1, 3 * unit + 8) : n + (size_t)rng.range(1, 2 * unit + 8);
			begin(fmt("%s with allocation #%ld failing", kind == 0 ? fmt("Reserve(%zu)", arg).c_str() : kind == 1 ? fmt("SetCount(%zu)", arg).c_str() : "AddBack", countdown + 1));
			tr.failCountdown = countdown;
			try {
				if (kind == 0) arr.Reserve(arg);
				else if (kind == 1) arr.SetCount(arg);
				else arr.AddBackVar(nextVal);
			} catch (const std::bad_alloc&) { threw = true; c.stats.count("cont.alloc_faults_fired"); }
			tr.failCountdown = -1;
			if (!threw && kind == 2) ++nextVal;
			// bring the reference in line with whatever count resulted (exception guarantees are C03/C04's business)
			size_t now = arr.GetCount();
			for (size_t i = ref.size(); i < now; ++i) ref.push_back(arr[i].v);
			ref.resize(now);
			size_t keep = std::min(segsBefore, arr.mSegments.GetCount());
			for (size_t i = 0; i < keep; ++i)
				if (arr.mSegments[i] != segPtr[i]) c.fail("C16 address stability: %s (threw=%d): segment %zu was reallocated", cur.c_str(), (int)threw, i);
			segPtr.assign(arr.mSegments.GetItems(), arr.mSegments.GetItems() + arr.mSegments.GetCount());
			segId.resize(segPtr.size());
			size_t old = std::min(addrOf.size(), now);
			addrOf.resize(now);
			for (size_t i = old; i < now; ++i) addrOf[i] = &arr[i];
			for (size_t i = 0; i < old; i += std::max<size_t>(1, old / 64)) checkElem(i);
			c.stats.evaluations++;
		}
	}
};

// configuration number Index is instantiated (compiled) only in the executable that runs it
template<Func f, size_t L0, unsigned Index>
static void contOne(Ctx& c, Rng& rng, Suite& s)
{
#ifdef C16_CONT_ONLY
	constexpr bool mine = Index % 2 == 0;	// sanitizer build: every second configuration (both sizings, 6 values of L0)
	const unsigned steps = c.thorough ? 1500 : 300;
#else
	constexpr bool mine = Index % C16_PARTS == C16_PART;
	const unsigned steps = c.thorough ? 2500 : 500;
#endif
	if constexpr (mine) {
		size_t maxCount = (size_t{1} << L0) * (f == Func::sqrt ? 24 : 12) + (c.thorough ? 20000 : 5000);
		uint64_t made0 = Item::created + Item::copies + Item::moves, gone0 = Item::destroyed;
		{
			ContainerRun<f, L0> r(c, rng, s);
			r.run(steps, maxCount);
			c.stats.count("cont.configs");
			c.stats.count("cont.blocks_allocated", r.tr.allocs);
		}
		if (Item::created + Item::copies + Item::moves - made0 != Item::destroyed - gone0)
			c.stats.count("cont.construct_destroy_imbalance");	// not C16's business; shown in the evidence only
	}
}

static void runContainers(Ctx& c, Rng& rng)
{
	Suite s(c, "cont", "model seg");
	const Func Q = Func::sqrt, K = Func::cnst;
	contOne<Q, 0, 0>(c, rng, s); contOne<K, 1, 1>(c, rng, s); contOne<K, 0, 2>(c, rng, s); contOne<Q, 2, 3>(c, rng, s);
	contOne<Q, 1, 4>(c, rng, s); contOne<K, 2, 5>(c, rng, s); contOne<K, 3, 6>(c, rng, s); contOne<Q, 4, 7>(c, rng, s);
	contOne<Q, 3, 8>(c, rng, s); contOne<K, 4, 9>(c, rng, s); contOne<K, 5, 10>(c, rng, s); contOne<Q, 6, 11>(c, rng, s);
	contOne<Q, 5, 12>(c, rng, s); contOne<K, 7, 13>(c, rng, s); contOne<K, 8, 14>(c, rng, s); contOne<Q, 8, 15>(c, rng, s);
	contOne<Q, 9, 16>(c, rng, s); contOne<K, 10, 17>(c, rng, s); contOne<K, 12, 18>(c, rng, s); contOne<Q, 12, 19>(c, rng, s);
	contOne<Q, 16, 20>(c, rng, s); contOne<K, 13, 21>(c, rng, s); contOne<K, 16, 22>(c, rng, s); contOne<Q, 14, 23>(c, rng, s);
}

int main(int argc, char** argv)
{
	Ctx c = parseArgs(argc, argv);
	signal(SIGABRT, onCrash); signal(SIGSEGV, onCrash);
	Rng rng(c.seed * 0x1000 + 16 + 0x100 * C16_PART);
#ifdef C16_CONT_ONLY
	runContainers(c, rng);	// every configuration, under ASan + UBSan
	c.stats.count("cont.sanitizer_build");
#else
	runContainers(c, rng);
	runBoundaries(c, rng);
	if (C16_PART == 0) runLog(c, rng, true);
	if (C16_PART == 1 % C16_PARTS) runLog(c, rng, false);
	runSweeps(c);
#endif
	return c.finish();
}
