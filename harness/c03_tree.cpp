// C03 harness, tree family: TreeSet / TreeMap with small and default node capacities, node pools of 1, 2, 3 and 8
// blocks per buffer, continuous and non-continuous nodes, nothrow-move / copy-only / trivially relocatable keys.
// Random histories over two containers with equal or unequal managers (in half of the histories the two containers use
// disjoint ordered key ranges, so that MergeTo between equal managers takes the fast path that concatenates the trees
// and merges the node pools); about one operation in three with an armed fault (k-th allocation refused, k-th element
// copy throws, k-th comparison throws; extraCheckMode = nothing, DESIGN.md O1). Compiled in parts (-DC03_PART=n).
#include <algorithm>
#include "momo/TreeSet.h"
#include "momo/TreeMap.h"
#include "c03_ledger.h"

using namespace c03;

struct NoExtraS : public momo::TreeSetSettings { static const momo::ExtraCheckMode extraCheckMode = momo::ExtraCheckMode::nothing; };
struct NoExtraM : public momo::TreeMapSettings { static const momo::ExtraCheckMode extraCheckMode = momo::ExtraCheckMode::nothing; };

// stateless (empty class): the fast merge path of TreeSet::MergeTo requires std::is_empty<TreeTraits>
template<typename Key, typename Node, bool tLinear>
struct LTraits : public momo::TreeTraits<Key, false, Node, tLinear>
{
	bool IsLess(const Key& a, const Key& b) const { rec().funcPoint(); useKey(a); useKey(b); return valOf(a) < valOf(b); }
};
template<typename E> static E mk(uint32_t v) { return E(v); }
template<bool isMap, typename Pos> static uint32_t keyValAt(const Pos& pos) { if constexpr (isMap) { useKey(pos->key); return valOf(pos->key); } else { useKey(*pos); return valOf(*pos); } }

template<typename C, typename MM, typename Tr, bool isMap> struct Api;
template<typename C, typename MM, typename Tr> struct Api<C, MM, Tr, false> {
	typedef typename C::Key E;
	static void insC(C& c, uint32_t v) { E e = mk<E>(v); c.Insert(e); }
	static void insM(C& c, uint32_t v) { c.Insert(mk<E>(v)); }
	static void insRange(C& c, uint32_t v, unsigned n) { std::vector<E> xs; xs.reserve(n); for (unsigned i = 0; i < n; ++i) xs.push_back(mk<E>(v + i * 3)); c.Insert(xs.begin(), xs.end()); }
	static void remFilter(C& c, uint32_t m) { c.Remove([m](const E& e) { return valOf(e) % m == 0; }); }
	static void assignValue(C&, uint32_t) {}
	static void ctorList(C& dst, uint32_t v, unsigned cls) { C t({ mk<E>(v), mk<E>(v + 1), mk<E>(v + 2), mk<E>(v + 1) }, Tr(), MM(cls)); dst = std::move(t); }
};
template<typename C, typename MM, typename Tr> struct Api<C, MM, Tr, true> {
	typedef typename C::Key E;
	typedef typename C::Value V;
	static void insC(C& c, uint32_t v) { E e = mk<E>(v); V w = mk<V>(v + 1000); c.Insert(e, w); }
	static void insM(C& c, uint32_t v) { c.Insert(mk<E>(v), mk<V>(v + 1000)); }
	static void insRange(C& c, uint32_t v, unsigned n) { std::vector<std::pair<E, V>> xs; xs.reserve(n); for (unsigned i = 0; i < n; ++i) xs.emplace_back(mk<E>(v + i * 3), mk<V>(i)); c.Insert(xs.begin(), xs.end()); }
	static void remFilter(C& c, uint32_t m) { c.Remove([m](const E& e, const V&) { return valOf(e) % m == 0; }); }
	static void assignValue(C& c, uint32_t v) { E e = mk<E>(v); V w = mk<V>(v + 2000); c[e] = w; c[mk<E>(v + 1)] = mk<V>(v + 2001); }
	static void ctorList(C& dst, uint32_t v, unsigned cls) { C t({ { mk<E>(v), mk<V>(1) }, { mk<E>(v + 1), mk<V>(2) }, { mk<E>(v), mk<V>(3) } }, Tr(), MM(cls)); dst = std::move(t); }
};

template<typename C, typename MM, typename Tr, bool isMap, bool functorFaults>
static void treeHistories(Ctx& c, Rng& rng, const std::string& name, unsigned histories, unsigned opsPerHist)
{
	typedef typename C::Key E;
	typedef Api<C, MM, Tr, isMap> A;
	Rec& r = rec();
	for (unsigned h = 0; h < histories; ++h) {
		bool twoManagers = rng.chance(1, 2);
		unsigned clsA = 1, clsB = twoManagers ? 2 : 1;
		uint32_t keyRange = rng.chance(1, 3) ? 24 : (rng.chance(1, 2) ? 300 : 4000);
		bool disjoint = rng.chance(1, 2);
		r.begin(name + fmt(" managers=1,%u keys<%u%s", clsB, keyRange, disjoint ? " (a: low half, b: high half)" : ""));
		{
			std::unique_ptr<C> a(new C(Tr(), MM(clsA)));
			size_t fixedBlocks = r.live.size();
			std::unique_ptr<C> b(new C(Tr(), MM(clsB)));
			for (unsigned i = 0; i < opsPerHist; ++i) {
				int fault; long k; pickFault(rng, functorFaults, fault, k);
				C& x = rng.chance(2, 3) ? *a : *b;
				C& y = (&x == a.get()) ? *b : *a;
				const char* xn = (&x == a.get()) ? "a" : "b";
				unsigned cls = (&x == a.get()) ? clsA : clsB;
				size_t n = x.GetCount();
				uint32_t v = (uint32_t)rng.below(keyRange);
				if (disjoint) v = (&x == a.get()) ? v / 2 : keyRange / 2 + 2 + v / 2;
				unsigned sel = (unsigned)rng.below(56);
				switch (sel < 30 ? (sel % 5 < 2 ? 0 : sel % 5 < 4 ? 1 : 2) : sel - 30 + 3) {
				case 0: runOp(fmt("%s.Insert(const& %u) n=%zu", xn, v, n), fault, k, [&] { A::insC(x, v); }); break;
				case 1: runOp(fmt("%s.Insert(&& %u) n=%zu", xn, v, n), fault, k, [&] { A::insM(x, v); }); break;
				case 2: runOp(fmt("%s.Remove(key %u) n=%zu", xn, v, n), fault, k, [&] { E e = mk<E>(v); x.Remove(e); }); break;
				case 3: runOp(fmt("%s.ContainsKey(%u) n=%zu", xn, v, n), fault, k, [&] { E e = mk<E>(v); (void)x.ContainsKey(e); }); break;
				case 4: if (n > 0) { size_t steps = rng.below(std::min<size_t>(n, 5)); runOp(fmt("%s.Remove(iterator begin+%zu) n=%zu", xn, steps, n), fault, k, [&] { auto it = x.GetBegin(); for (size_t j = 0; j < steps; ++j) ++it; x.Remove(it); }); } break;
				case 5: if (rng.chance(1, 3)) { uint32_t m = (uint32_t)rng.range(2, 4); runOp(fmt("%s.Remove(filter key%%%u==0) n=%zu", xn, m, n), fault, k, [&] { A::remFilter(x, m); }); } break;
				case 6: if (n > 0) { size_t from = rng.below(n), len = rng.below(std::min<size_t>(n - from, 9) + 1);
					runOp(fmt("%s.Remove(range begin+%zu, +%zu) n=%zu", xn, from, len, n), fault, k, [&] { auto it = x.GetBegin(); for (size_t j = 0; j < from; ++j) ++it; auto jt = it; for (size_t j = 0; j < len; ++j) ++jt; x.Remove(it, jt); }); } break;
				case 7: if (rng.chance(1, 3)) { runOp(fmt("%s.Clear() n=%zu", xn, n), fault, k, [&] { x.Clear(); }); c.stats.count("clear_with_shrink"); } break;
				case 8: { bool toOther = rng.chance(1, 2); bool drop = rng.chance(1, 4);
					runOp(fmt("%s.Extract(key %u) n=%zu, then %s", xn, v, n, drop ? "drop the extracted item" : toOther ? "insert it into the other container" : "insert it back"), fault, k, [&] {
						E e = mk<E>(v); auto pos = x.Find(e); if (pos == x.GetEnd()) return;
						auto ext = x.Extract(pos);
						if (drop) return;
						if (toOther) y.Insert(std::move(ext)); else x.Insert(std::move(ext)); });
					break; }
				case 9: runOp(fmt("%s.MergeTo(other) n=%zu other=%zu", xn, n, y.GetCount()), fault, k, [&] { x.MergeTo(y); }); c.stats.count("merge"); break;
				case 10: runOp(fmt("%s.MergeFrom(std::move(other)) n=%zu other=%zu", xn, n, y.GetCount()), fault, k, [&] { x.MergeFrom(std::move(y)); }); c.stats.count("merge"); break;
				case 11: runOp(fmt("copy-construct from %s n=%zu, destroy the copy", xn, n), fault, k, [&] { C t(x); (void)t; }); break;
				case 12: runOp(fmt("copy-construct from %s n=%zu with manager %u, destroy the copy", xn, n, clsB), fault, k, [&] { C t(x, MM(clsB)); (void)t; }); break;
				case 13: runOp(fmt("%s = copy of the other (n=%zu <- %zu)", xn, n, y.GetCount()), fault, k, [&] { x = y; }); break;
				case 14: { runOp(fmt("%s = std::move(other) (n=%zu <- %zu)", xn, n, y.GetCount()), fault, k, [&] { x = std::move(y); });
					// the moved-from container has a null crew: it may only be destroyed or assigned to (C14)
					bool yIsA = (&y == a.get()); unsigned clsY = yIsA ? clsA : clsB;
					runOp("destroy the moved-from container and construct an empty one in its place", F_NONE, 0, [&] { std::unique_ptr<C> t(new C(Tr(), MM(clsY))); if (yIsA) a = std::move(t); else b = std::move(t); });
					break; }
				case 15: runOp(fmt("%s.Swap(other)", xn), fault, k, [&] { x.Swap(y); }); break;
				case 16: runOp(fmt("move-construct from %s n=%zu and move back", xn, n), fault, k, [&] { C t(std::move(x)); x = std::move(t); }); break;
				case 17: { unsigned cnt = (unsigned)rng.range(2, 40); runOp(fmt("%s.Insert(range of %u keys from %u step 3) n=%zu", xn, cnt, v, n), fault, k, [&] { A::insRange(x, v, cnt); }); break; }
				case 18: if (rng.chance(1, 3)) { runOp(fmt("%s = container(init-list {%u,%u,%u,dup}, traits, manager %u) (old n=%zu)", xn, v, v + 1, v + 2, cls, n), fault, k, [&] { A::ctorList(x, v, cls); }); } break;
				case 19: if (isMap) { runOp(fmt("%s[%u] = value; %s[&& %u] = value n=%zu", xn, v, xn, v + 1, n), fault, k, [&] { A::assignValue(x, v); }); } break;
				case 20: runOp(fmt("%s.ResetKey(Find(%u), equal key) n=%zu", xn, v, n), fault, k, [&] { E e = mk<E>(v); auto pos = x.Find(e); if (pos == x.GetEnd()) return; x.ResetKey(pos, mk<E>(v)); }); break;
				case 21: if (rng.chance(1, 4)) { runOp(fmt("destroy %s (n=%zu) and construct an empty one with manager %u", xn, n, cls), fault, k, [&] {
						std::unique_ptr<C> t(new C(Tr(), MM(cls))); if (&x == a.get()) a = std::move(t); else b = std::move(t); }); } break;
				default: runOp(fmt("%s.Find(%u) n=%zu", xn, v, n), fault, k, [&] { E e = mk<E>(v); auto pos = x.Find(e); if (pos != x.GetEnd()) (void)keyValAt<isMap>(pos); }); break;
				}
				size_t na = a->GetCount();
				c.stats.count(std::string("count_ge_") + (na >= 64 ? "64" : na >= 16 ? "16" : "0"));
			}
			// directed (finding F27, repaired in 4f1864d): MergeTo into an EMPTY destination with an equal manager, the source destroyed
			// first, then the destination allocates and frees nodes - its node pools must not refer to the source's manager
			if (clsA == clsB && rng.chance(1, 2)) {
				runOp("a.Clear(); b.MergeTo(a) into the empty a", F_NONE, 0, [&] { a->Clear(); b->MergeTo(*a); });
				c.stats.count("merge_into_empty_then_source_destroyed");
				runOp("destroy b", F_NONE, 0, [&] { b.reset(); });
				runOp("a.Insert(3 new keys); a.Remove(begin)", F_NONE, 0, [&] { A::insM(*a, 100001); A::insM(*a, 100002); A::insM(*a, 100003); a->Remove(a->GetBegin()); });
			}
			else
				runOp("destroy b", F_NONE, 0, [&] { b.reset(); });
			runOp("a.Clear()", F_NONE, 0, [&] { a->Clear(); });
			c.stats.count("clear_with_shrink");
			if (r.live.size() != fixedBlocks || !r.liveElems.empty())
				r.violation(fmt("Clear() of the only remaining container left %zu block(s) (an empty container holds %zu) and %zu element(s) outstanding", r.live.size(), fixedBlocks, r.liveElems.size()));
			runOp("destroy a", F_NONE, 0, [&] { a.reset(); });
		}
		r.end();
		if (h < 1) c.stats.sample(r.histText().substr(0, 600));
	}
}

// Deterministic sweep: a tree grown key by key (ascending, descending, alternating around the middle), EVERY insertion first
// attempted with the k-th allocation failing for k = 0, 1, 2, … until it succeeds (likewise the k-th element copy and the k-th
// comparison). Growing key by key produces every cascade of splits up to a new root, i.e. insertions that create five and more
// nodes at once, and the sweep places the failure at each of their allocation points (the random histories above pair a deep
// cascade with one particular k only by luck). The ledger checks every event; the end of the history checks that nothing is
// outstanding. With nodes that are single blocks of the manager a node lost by a failed insertion can never be given back.
template<typename C, typename MM, typename Tr, bool isMap>
static void treeInsertSweep(Ctx& c, const std::string& name, unsigned maxN)
{
	typedef Api<C, MM, Tr, isMap> A;
	Rec& r = rec();
	for (int pattern = 0; pattern < 3; ++pattern) {
		r.begin(name + fmt(" insertion sweep, pattern %d", pattern));
		{
			std::unique_ptr<C> a(new C(Tr(), MM(1)));
			unsigned maxK = 0;
			for (unsigned i = 0; i < maxN; ++i) {
				uint32_t v = pattern == 0 ? 1000 + i * 2 : pattern == 1 ? 100000 - i * 2 : (i % 2 ? 50000 + i : 50000 - i);
				for (int fault : { (int)F_ALLOC, (int)F_COPY, (int)F_FUNC }) {
					for (long k = 0; k < 64; ++k) {
						size_t n = a->GetCount();
						bool threw = runOp(fmt("a.Insert(const& %u) n=%zu", v, n), fault, k, [&] { A::insC(*a, v); });
						if (threw && a->GetCount() != n) r.violation(fmt("a failed Insert changed the count from %zu to %zu", n, a->GetCount()));
						if (!threw) {		// succeeded (the fault point k lies behind the operation's last fallible step): take the key out again for the next fault kind
							if ((unsigned)k > maxK) maxK = (unsigned)k;
							if (fault != F_FUNC) runOp(fmt("a.Remove(key %u)", v), F_NONE, 0, [&] { typename C::Key e = mk<typename C::Key>(v); a->Remove(e); });
							break;
						}
					}
				}
			}
			c.stats.count(fmt("insert_sweep.max_fallible_points.%u", std::min(maxK, 12u)));
			runOp("destroy a", F_NONE, 0, [&] { a.reset(); });
		}
		r.end();
	}
}

int main(int argc, char** argv)
{
	Ctx c = parseArgs(argc, argv);
#ifndef C03_PART
# define C03_PART 0
#endif
	Rng rng(c.seed * 0x1000 + 0x03C + C03_PART);
	static const char* suiteName[] = { "c03_treeset", "c03_treemap", "c03_treesmall" };
	Suite s(c, suiteName[C03_PART], "model ledger");
	Rec& r = rec(); r.c = &c; r.s = &s; r.family = suiteName[C03_PART];
	unsigned H = c.thorough ? 200 : 30, N = c.thorough ? 120 : 80;
	using namespace momo;
	typedef TreeNode<32, 4, MemPoolParams<8>, true> Node32;
	typedef TreeNode<4, 2, MemPoolParams<3, 1>, false> Node4;
	typedef TreeNode<1, 1, MemPoolParams<2, 0>, true> Node1;
	typedef TreeNode<2, 1, MemPoolParams<1, 0>, true> Node2;
	typedef TreeNode<3, 1, MemPoolParams<2, 2>, true> Node3;
#define SET(E, Nd, lin) TreeSet<E, LTraits<E, Nd, lin>, LedgerMM, TreeSetItemTraits<E, LedgerMM>, NoExtraS>, LedgerMM, LTraits<E, Nd, lin>, false
#define MAP(K, V, Nd, lin) TreeMap<K, V, LTraits<K, Nd, lin>, LedgerMM, TreeMapKeyValueTraits<K, V, LedgerMM>, NoExtraM>, LedgerMM, LTraits<K, Nd, lin>, true
#if C03_PART == 0
	treeHistories<SET(ElemL, Node32, true), true>(c, rng, "TreeSet<node 32, pool 8, nothrow-move>", H, N);
	treeHistories<SET(ElemC, Node4, false), true>(c, rng, "TreeSet<node 4 non-continuous, pool 3 cache 1, copy-only>", H, N);
	treeHistories<SET(ElemT, Node4, true), true>(c, rng, "TreeSet<node 4 non-continuous, pool 3 cache 1, triv-reloc>", H, N);
#elif C03_PART == 1
	treeHistories<MAP(ElemL, ElemL, Node4, true), true>(c, rng, "TreeMap<node 4, nothrow-move -> nothrow-move>", H, N);
	treeHistories<MAP(ElemC, ElemL, Node32, false), true>(c, rng, "TreeMap<node 32, copy-only -> nothrow-move>", H, N);
	treeHistories<MAP(ElemL, ElemC, Node3, true), true>(c, rng, "TreeMap<node 3, pool 2 cache 2, nothrow-move -> copy-only>", H, N);
#else
	treeHistories<SET(ElemL, Node1, true), true>(c, rng, "TreeSet<node 1, pool 2, nothrow-move>", H, N);
	treeHistories<SET(ElemC, Node2, true), true>(c, rng, "TreeSet<node 2, pool 1 (single blocks), copy-only>", H, N);
	treeHistories<SET(ElemL, Node3, false), true>(c, rng, "TreeSet<node 3, pool 2 cache 2, nothrow-move>", H, N);
	treeInsertSweep<SET(ElemC, Node2, true)>(c, "TreeSet<node 2, pool 1 (single blocks), copy-only>", c.thorough ? 300 : 90);
	treeInsertSweep<SET(ElemL, Node1, true)>(c, "TreeSet<node 1, pool 2, nothrow-move>", c.thorough ? 200 : 60);
	typedef TreeNode<3, 1, MemPoolParams<1, 0>, false> Node3s;
	treeInsertSweep<MAP(ElemL, ElemC, Node3s, true)>(c, "TreeMap<node 3 non-continuous, pool 1 (single blocks), nothrow-move -> copy-only>", c.thorough ? 300 : 90);
#endif
	return c.finish();
}
