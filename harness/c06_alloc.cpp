// C06 correspondence harness, third part:
//  (1) momo::stdish::vector against std::vector and the Lean model `stdwrap kind=vec`;
//  (2) allocator matrix: every wrapper (vector, set, multiset, map, multimap, unordered_set,
//      unordered_map, unordered_multimap) with the stateful allocator SA<.,PCA,PMA,PS> for all 8
//      combinations of the propagation traits, against the libstdc++ container with the same allocator
//      type: contents and get_allocator() identity after copy/move construction (with and without
//      allocator), copy/move assignment, swap; every block returned through an equal allocator;
//  (3) the open finding F15 (assignment TO a moved-from wrapper whose allocator does not propagate on
//      that assignment) in a forked child; reported with the tag known-F15 only for that pattern.
// VF_KINDS = bit mask of wrapper kinds (vector=1, set=2, multiset=4, map=8, multimap=16, unordered_set=32,
// unordered_map=64, unordered_multimap=128) covered by this executable; the split only serves compile time
#include "momo/stdish/vector.h"
#include "momo/stdish/set.h"
#include "momo/stdish/map.h"
#include "momo/stdish/unordered_set.h"
#include "momo/stdish/unordered_map.h"
#include "momo/stdish/unordered_multimap.h"
#include "c06_common.h"

#include <set>
#include <map>
#include <unordered_set>
#include <unordered_map>
#include <vector>
#include <unistd.h>
#include <sys/wait.h>

#ifndef VF_KINDS
#define VF_KINDS 255
#endif

using namespace c06;

// ---------------------------------------------------------------- (1) vector
static std::string vecStr(const std::vector<int>& v) { std::string r = fmt("%zu:", v.size()); for (int x : v) r += fmt(" %d", x); return r; }
template<typename V> static std::vector<int> vecOf(const V& v) { return std::vector<int>(v.begin(), v.end()); }
template<typename V> static std::string vecCmp(const V& a, const V& b) {
	return fmt("%d %d %d %d %d %d", (int)(a == b), (int)(a != b), (int)(a < b), (int)(a <= b), (int)(a > b), (int)(a >= b));
}
template<typename V> static std::string vecAt(V& v, size_t i) {
	try { int x = v.at(i); const V& cv = v; int y = cv.at(i); return x == y ? fmt("%d", x) : std::string("const/non-const at differ"); }
	catch (const std::out_of_range&) { return "E:out_of_range"; }
}

static void runVector(Ctx& c, Rng& rng, unsigned runs, unsigned opsPerRun)
{
	typedef momo::stdish::vector<int> M; typedef std::vector<int> S;
	Suite s(c, "vec", "model stdwrap kind=vec");
	for (unsigned run = 0; run < runs; ++run) {
		Run R(c, s, "vec", "vec");
		s.comment(fmt("run %u", run)); s.op("reset"); s.res("ok");
		M ma, mb; S sa, sb;
		for (unsigned step = 0; step < opsPerRun && !R.diverged; ++step) {
			bool onA = rng.chance(3, 4);
			M& m = onA ? ma : mb; S& st = onA ? sa : sb; const char* cn = onA ? "a" : "b";
			size_t n = m.size();
			int v = (int)rng.below(50);
			unsigned op = (unsigned)rng.below(100);
			if (op < 20) { m.push_back(v); st.push_back(v); R.step(fmt("push %s %d", cn, v), fmt("%zu", m.size()), fmt("%zu", st.size())); }
			else if (op < 24) { if (n == 0) continue; m.pop_back(); st.pop_back(); R.step(fmt("pop %s", cn), fmt("%zu", m.size()), fmt("%zu", st.size())); }
			else if (op < 40) {
				size_t i = (size_t)rng.below(n + 1), cnt = (size_t)rng.below(4);
				size_t rm, rs;
				switch (rng.below(4)) {
				case 0: { cnt = 1; auto im = m.insert(m.begin() + (ptrdiff_t)i, v); auto is = st.insert(st.begin() + (ptrdiff_t)i, v); rm = (size_t)(im - m.begin()); rs = (size_t)(is - st.begin()); break; }
				case 1: { cnt = 1; auto im = m.emplace(m.begin() + (ptrdiff_t)i, v); auto is = st.emplace(st.begin() + (ptrdiff_t)i, v); rm = (size_t)(im - m.begin()); rs = (size_t)(is - st.begin()); break; }
				case 2: { auto im = m.insert(m.begin() + (ptrdiff_t)i, cnt, v); auto is = st.insert(st.begin() + (ptrdiff_t)i, cnt, v); rm = (size_t)(im - m.begin()); rs = (size_t)(is - st.begin()); break; }
				default: { std::vector<int> src(cnt, v); auto im = m.insert(m.begin() + (ptrdiff_t)i, src.begin(), src.end()); auto is = st.insert(st.begin() + (ptrdiff_t)i, src.begin(), src.end()); rm = (size_t)(im - m.begin()); rs = (size_t)(is - st.begin()); break; }
				}
				if (cnt == 0) c.stats.count("vec.insert_zero_length");
				R.step(fmt("ins %s %zu %zu %d", cn, i, cnt, v), fmt("%zu", rm), fmt("%zu", rs));
			}
			else if (op < 52) {
				size_t i = (size_t)rng.below(n + 1), j = i + (size_t)rng.below(std::min<size_t>(n - i, 4) + 1);
				if (rng.chance(1, 3) && i < n) j = i + 1;
				size_t rm, rs;
				if (j == i + 1 && rng.chance(1, 2)) { auto im = m.erase(m.begin() + (ptrdiff_t)i); auto is = st.erase(st.begin() + (ptrdiff_t)i); rm = (size_t)(im - m.begin()); rs = (size_t)(is - st.begin()); }
				else { auto im = m.erase(m.begin() + (ptrdiff_t)i, m.begin() + (ptrdiff_t)j); auto is = st.erase(st.begin() + (ptrdiff_t)i, st.begin() + (ptrdiff_t)j); rm = (size_t)(im - m.begin()); rs = (size_t)(is - st.begin()); }
				if (i == j) c.stats.count("vec.erase_zero_length");
				R.step(fmt("ers %s %zu %zu", cn, i, j), fmt("%zu", rm), fmt("%zu", rs));
			}
			else if (op < 62) { size_t i = (size_t)rng.below(n + 3); std::string a = vecAt(m, i); if (a == "E:out_of_range") c.stats.count("vec.at_out_of_range"); R.step(fmt("at %s %zu", cn, i), a, vecAt(st, i)); }
			else if (op < 68) { size_t k = (size_t)rng.below(n + 6); m.resize(k, v); st.resize(k, v); R.step(fmt("resize %s %zu %d", cn, k, v), fmt("%zu", m.size()), fmt("%zu", st.size())); }
			else if (op < 71) { size_t k = (size_t)rng.below(12); m.assign(k, v); st.assign(k, v); R.step(fmt("assign %s %zu %d", cn, k, v), fmt("%zu", m.size()), fmt("%zu", st.size())); }
			else if (op < 75) { size_t rm = erase(m, v); size_t before = st.size(); st.erase(std::remove(st.begin(), st.end(), v), st.end()); R.step(fmt("erval %s %d", cn, v), fmt("%zu", rm), fmt("%zu", before - st.size())); }
			else if (op < 77) { m.clear(); st.clear(); R.step(fmt("clear %s", cn), "ok", "ok"); }
			else if (op < 81) { ma.swap(mb); sa.swap(sb); R.step("swap", "ok", "ok"); }
			else if (op < 84) { ma = mb; sa = sb; R.step("copy", "ok", "ok"); }
			else if (op < 86) { ma = std::move(mb); sa = std::move(sb); mb = M(); sb = S(); R.step("move", "ok", "ok"); }
			else if (op < 94) R.step("cmp", vecCmp(ma, mb), vecCmp(sa, sb));
			else { if (rng.chance(1, 2)) { m.reserve(n + rng.below(20)); st.reserve(n + 1); } else { m.shrink_to_fit(); st.shrink_to_fit(); } R.step(fmt("size %s", cn), fmt("%zu", m.size()), fmt("%zu", st.size())); }
			R.contents("a", vecStr(vecOf(ma)), vecStr(vecOf(sa)));
			R.contents("b", vecStr(vecOf(mb)), vecStr(vecOf(sb)));
			if (!m.empty() && (m.front() != st.front() || m.back() != st.back() || m[m.size() / 2] != st[st.size() / 2] || m.data()[0] != st.data()[0]))
				{ c.fail("C06 vec front/back/operator[]/data differ at step %llu", (unsigned long long)R.steps); R.diverged = true; }
			if (step % 16 == 15) { R.step("dump a", vecStr(vecOf(ma)), vecStr(vecOf(sa))); R.step("dump b", vecStr(vecOf(mb)), vecStr(vecOf(sb))); }
		}
		if (R.diverged) { s.comment("run abandoned after a disagreement"); continue; }
		R.step("dump a", vecStr(vecOf(ma)), vecStr(vecOf(sa))); R.step("dump b", vecStr(vecOf(mb)), vecStr(vecOf(sb)));
		c.stats.nontrivial(fmt("vec run=%u", run));
	}
}

// ---------------------------------------------------------------- (2) allocator matrix
enum Kd { VEC, SET, MSET, MAP, MMAP, USET, UMAP, UMMAP };
static const char* kdName(Kd k) { static const char* n[] = { "vector", "set", "multiset", "map", "multimap", "unordered_set", "unordered_map", "unordered_multimap" }; return n[k]; }

template<Kd kd, bool PCA, bool PMA, bool PS> struct Types;
typedef std::pair<const int, int> CP;
template<bool PCA, bool PMA, bool PS> struct Types<VEC, PCA, PMA, PS> { typedef SA<int, PCA, PMA, PS> A; typedef momo::stdish::vector<int, A> M; typedef std::vector<int, A> S; };
template<bool PCA, bool PMA, bool PS> struct Types<SET, PCA, PMA, PS> { typedef SA<KV, PCA, PMA, PS> A; typedef momo::stdish::set<KV, LessK, A> M; typedef std::set<KV, LessK, A> S; };
template<bool PCA, bool PMA, bool PS> struct Types<MSET, PCA, PMA, PS> { typedef SA<KV, PCA, PMA, PS> A; typedef momo::stdish::multiset<KV, LessK, A> M; typedef std::multiset<KV, LessK, A> S; };
template<bool PCA, bool PMA, bool PS> struct Types<MAP, PCA, PMA, PS> { typedef SA<CP, PCA, PMA, PS> A; typedef momo::stdish::map<int, int, LessI, A> M; typedef std::map<int, int, LessI, A> S; };
template<bool PCA, bool PMA, bool PS> struct Types<MMAP, PCA, PMA, PS> { typedef SA<CP, PCA, PMA, PS> A; typedef momo::stdish::multimap<int, int, LessI, A> M; typedef std::multimap<int, int, LessI, A> S; };
template<bool PCA, bool PMA, bool PS> struct Types<USET, PCA, PMA, PS> { typedef SA<KV, PCA, PMA, PS> A; typedef momo::stdish::unordered_set<KV, HashK, EqK, A> M; typedef std::unordered_set<KV, HashK, EqK, A> S; };
template<bool PCA, bool PMA, bool PS> struct Types<UMAP, PCA, PMA, PS> { typedef SA<CP, PCA, PMA, PS> A; typedef momo::stdish::unordered_map<int, int, HashI, std::equal_to<int>, A> M; typedef std::unordered_map<int, int, HashI, std::equal_to<int>, A> S; };
template<bool PCA, bool PMA, bool PS> struct Types<UMMAP, PCA, PMA, PS> { typedef SA<CP, PCA, PMA, PS> A; typedef momo::stdish::unordered_multimap<int, int, HashI, std::equal_to<int>, A> M; typedef std::unordered_multimap<int, int, HashI, std::equal_to<int>, A> S; };

template<Kd kd, typename C> static void put(C& c, int k, int v) {
	if constexpr (kd == VEC) { (void)k; c.push_back(v); }
	else if constexpr (kd == SET || kd == MSET || kd == USET) c.insert(KV(k, v));
	else c.insert(std::pair<int, int>(k, v));
}
template<Kd kd, typename C> static void dropOne(C& c, int k) {
	if constexpr (kd == VEC) { if (!c.empty()) c.erase(c.begin() + (ptrdiff_t)((size_t)k % c.size())); }
	else if constexpr (kd == SET || kd == MSET || kd == USET) c.erase(KV(k, -1));
	else c.erase(k);
}
template<Kd kd, typename C> static std::string canon(const C& c) {
	std::vector<P> v;
	for (auto it = c.begin(); it != c.end(); ++it) {
		if constexpr (kd == VEC) v.push_back(P(0, *it));
		else if constexpr (kd == SET || kd == MSET || kd == USET) v.push_back(P(it->k, it->v));
		else v.push_back(P(it->first, it->second));
	}
	if (kd == USET || kd == UMAP || kd == UMMAP) std::sort(v.begin(), v.end());
	return seqStr(v);
}

template<Kd kd, bool PCA, bool PMA, bool PS>
static void allocMatrix(Ctx& c, Rng& rng, unsigned rounds)
{
	typedef Types<kd, PCA, PMA, PS> T;
	typedef typename T::A A; typedef typename T::M M; typedef typename T::S S;
	std::string tag = fmt("%s[pocca=%d pocma=%d pocs=%d]", kdName(kd), (int)PCA, (int)PMA, (int)PS);
	size_t live0 = ledger().live.size();
	for (unsigned round = 0; round < rounds; ++round) {
		// three objects per side with allocators 1, 2, 1
		std::optional<M> m[3]; std::optional<S> s[3];
		int ids[3] = { 1, 2, 1 };
		for (int i = 0; i < 3; ++i) { m[i].emplace(A(ids[i])); s[i].emplace(A(ids[i])); }
		int tagv = 1;
		std::string hist;
		auto same = [&](const char* what) {
			for (int i = 0; i < 3; ++i) {
				if (!m[i]) continue;
				std::string a = canon<kd>(*m[i]), b = canon<kd>(*s[i]);
				int ia = m[i]->get_allocator().id, ib = s[i]->get_allocator().id;
				if (a != b) c.fail("C06 alloc %s: after `%s` object %d holds [%s], libstdc++ [%s]; calls: %s", tag.c_str(), what, i, a.c_str(), b.c_str(), hist.c_str());
				if (ia != ib) c.fail("C06 alloc %s: after `%s` object %d has allocator %d, libstdc++ %d; calls: %s", tag.c_str(), what, i, ia, ib, hist.c_str());
			}
			c.stats.evaluations++;
		};
		unsigned steps = 30 + (unsigned)rng.below(30);
		for (unsigned st = 0; st < steps; ++st) {
			int i = (int)rng.below(3), j = (i + 1 + (int)rng.below(2)) % 3;
			unsigned op = (unsigned)rng.below(100);
			std::string what;
			if (op < 45) { int k = (int)rng.below(40), v = tagv++; what = fmt("o%d.insert(%d:%d)", i, k, v); put<kd>(*m[i], k, v); put<kd>(*s[i], k, v); }
			else if (op < 55) { int k = (int)rng.below(40); what = fmt("o%d.erase(%d)", i, k); dropOne<kd>(*m[i], k); dropOne<kd>(*s[i], k); }
			else if (op < 63) { what = fmt("o%d = o%d", i, j); *m[i] = *m[j]; *s[i] = *s[j]; c.stats.count("alloc.copy_assign"); }
			else if (op < 71) {
				// move assignment; the source is then destroyed and re-created (assigning to a moved-from wrapper is F15's pattern)
				what = fmt("o%d = move(o%d); o%d re-created", i, j, j);
				bool equal = m[i]->get_allocator() == m[j]->get_allocator();
				*m[i] = std::move(*m[j]); *s[i] = std::move(*s[j]);
				c.stats.count(PMA ? "alloc.move_assign_propagating" : (equal ? "alloc.move_assign_equal" : "alloc.move_assign_elementwise"));
				m[j].reset(); s[j].reset(); ids[j] = 1 + (int)rng.below(3); m[j].emplace(A(ids[j])); s[j].emplace(A(ids[j]));
			}
			else if (op < 77) { what = fmt("o%d re-created as copy of o%d", i, j); M t(*m[j]); S u(*s[j]); m[i].reset(); s[i].reset(); m[i].emplace(t); s[i].emplace(u); c.stats.count("alloc.copy_construct"); }
			else if (op < 82) { int id = 1 + (int)rng.below(3); what = fmt("o%d re-created as copy of o%d with allocator %d", i, j, id); m[i].reset(); s[i].reset(); m[i].emplace(*m[j], A(id)); s[i].emplace(*s[j], A(id)); c.stats.count("alloc.copy_construct_alloc"); }
			else if (op < 88) {
				int id = 1 + (int)rng.below(3);
				what = fmt("o%d re-created by move from o%d with allocator %d; o%d re-created", i, j, id, j);
				c.stats.count(m[j]->get_allocator().id == id ? "alloc.move_construct_alloc_equal" : "alloc.move_construct_alloc_unequal");
				m[i].reset(); s[i].reset(); m[i].emplace(std::move(*m[j]), A(id)); s[i].emplace(std::move(*s[j]), A(id));
				m[j].reset(); s[j].reset(); m[j].emplace(A(1)); s[j].emplace(A(1));
			}
			else if (op < 92) {
				what = fmt("o%d re-created by move from o%d; o%d re-created", i, j, j);
				m[i].reset(); s[i].reset(); m[i].emplace(std::move(*m[j])); s[i].emplace(std::move(*s[j]));
				m[j].reset(); s[j].reset(); m[j].emplace(A(2)); s[j].emplace(A(2));
				c.stats.count("alloc.move_construct");
			}
			else {
				if (!PS && !(m[i]->get_allocator() == m[j]->get_allocator())) continue;	// undefined for std, asserted by momo
				what = fmt("swap(o%d, o%d)", i, j); m[i]->swap(*m[j]); s[i]->swap(*s[j]); c.stats.count("alloc.swap");
			}
			hist += what; hist += "; ";
			same(what.c_str());
		}
		c.stats.nontrivial(fmt("alloc %s round %u", tag.c_str(), round));
	}
	if (ledger().live.size() != live0) c.fail("C06 alloc %s: %zu blocks still live after all objects were destroyed", tag.c_str(), ledger().live.size() - live0);
	if (ledger().bad) { c.fail("C06 alloc %s: %zu bad deallocations, first: %s", tag.c_str(), ledger().bad, ledger().firstBad.c_str()); ledger().bad = 0; ledger().firstBad.clear(); }
}

template<Kd kd>
static void allocAll(Ctx& c, Rng& rng, unsigned rounds)
{
	allocMatrix<kd, false, false, false>(c, rng, rounds); allocMatrix<kd, true, false, false>(c, rng, rounds);
	allocMatrix<kd, false, true, false>(c, rng, rounds); allocMatrix<kd, false, false, true>(c, rng, rounds);
	allocMatrix<kd, true, true, false>(c, rng, rounds); allocMatrix<kd, true, false, true>(c, rng, rounds);
	allocMatrix<kd, false, true, true>(c, rng, rounds); allocMatrix<kd, true, true, true>(c, rng, rounds);
}

// ---------------------------------------------------------------- (3) F15 in a child process
template<Kd kd, bool viaAssign>
static int f15Child()
{
	typedef Types<kd, false, true, false> T;	// copy assignment does not propagate, move assignment does
	typedef typename T::A A; typedef typename T::M M;
	M a((A(1))), b((A(2))), d((A(3)));
	for (int i = 0; i < 6; ++i) { put<kd>(b, i, 100 + i); put<kd>(d, 10 + i, 200 + i); }
	if (viaAssign) { a = std::move(d); }	// steals d's state together with its allocator
	else { M t(std::move(d)); (void)t; }
	d = b;									// reads d.get_allocator(): d has none left
	return canon<kd>(d) == canon<kd>(b) ? 0 : 3;
}

template<Kd kd>
static void f15Probe(Ctx& c)
{
	for (int via = 0; via < 2; ++via) {
		fflush(stdout); fflush(stderr);
		pid_t p = fork();
		if (p == 0) {
			if (!freopen("/dev/null", "w", stderr)) {}
			int rc = via ? f15Child<kd, true>() : f15Child<kd, false>();
			_exit(rc);
		}
		int st = 0; waitpid(p, &st, 0);
		bool ok = WIFEXITED(st) && WEXITSTATUS(st) == 0;
		c.stats.evaluations++;
		c.stats.count(ok ? "f15.pattern_survived" : "f15.pattern_crashed");
		if (!ok)
			c.fail("C06 known-F15 moved-from-assign-nonpropagating: %s with SA<pocca=0,pocma=1>: `%s d = b;` on the moved-from d %s",
				kdName(kd), via ? "a = std::move(d);" : "M t(std::move(d));",
				WIFSIGNALED(st) ? fmt("died with signal %d", WTERMSIG(st)).c_str() : (WEXITSTATUS(st) == 3 ? "left wrong contents" : "aborted"));
	}
}

int main(int argc, char** argv)
{
	Ctx c = parseArgs(argc, argv);
	Rng rng(c.seed * 0x1000 + 0xA06 + VF_KINDS * 0x10000);
	unsigned rounds = c.thorough ? 24 : 5;
	hc().fam = (unsigned)rng.below(8);
	// VF_KINDS: bit mask of the wrapper kinds this executable covers (split for compile time)
#if VF_KINDS & 1
	runVector(c, rng, c.thorough ? 60 : 12, c.thorough ? 700 : 400);
	allocAll<VEC>(c, rng, rounds);
#endif
#if VF_KINDS & 2
	allocAll<SET>(c, rng, rounds); f15Probe<SET>(c);
#endif
#if VF_KINDS & 4
	allocAll<MSET>(c, rng, rounds); f15Probe<MSET>(c);
#endif
#if VF_KINDS & 8
	allocAll<MAP>(c, rng, rounds); f15Probe<MAP>(c);
#endif
#if VF_KINDS & 16
	allocAll<MMAP>(c, rng, rounds); f15Probe<MMAP>(c);
#endif
#if VF_KINDS & 32
	allocAll<USET>(c, rng, rounds); f15Probe<USET>(c);
#endif
#if VF_KINDS & 64
	allocAll<UMAP>(c, rng, rounds); f15Probe<UMAP>(c);
#endif
#if VF_KINDS & 128
	allocAll<UMMAP>(c, rng, rounds); f15Probe<UMMAP>(c);
#endif
	c.stats.count("alloc.ledger_allocations", ledger().allocs);
	return c.finish();
}
