// Memory managers that declare fewer useful pointer bits (momo: `static const size_t ptrUsefulBitCount`), shared by the
// hash harnesses (C01 / C03 / C11 / C12):
//   * FaultMMBits<48>  the ledger / fault manager of verif_elems.h over malloc (every x86-64 user-space address fits 47 bits)
//   * FaultMMBits<32>  the same over an arena that is mmap'ed below 4 GB (MAP_32BIT), so that every address fits 32 bits
//   * Arena32 / RawMem<bits>  the raw allocators, for harnesses with their own manager classes
// BucketLimP4PtrState packs (items pointer, state) into 32 / 48 / 64 bits according to
// MemManagerProxy<MemManager>::ptrUsefulBitCount, which also decides hashCount (4 / 6 / 8 metadata bytes) of BucketLimP4.
//
// NOTE (observation O3; violates none of the properties - such a manager simply gets the 64-bit layout): momo's detection
// `PtrUsefulBitCount<MemManager, decltype(MemManager::ptrUsefulBitCount)>` (MemManager.h 376-380) never matches a `static const size_t`
// member (decltype is `const size_t`, the default argument of the primary template is `size_t`), so today the declaration below is
// ignored and the value comes from the global macro MOMO_MEM_MANAGER_PTR_USEFUL_BIT_COUNT only. Harness builds that want the
// 48- / 32-bit code therefore also pass -DMOMO_MEM_MANAGER_PTR_USEFUL_BIT_COUNT=<bits>; `ptrBitsDeclaredHonoured<MM>()` tells
// whether the declaration alone works.
#pragma once
#include "verif_elems.h"
#include "verif_arena32.h"
#include "momo/MemManager.h"

namespace vf {

// ---------------------------------------------------------------- FaultMM (same ledger `mm()`, same faults) with a declared pointer width
template<size_t tBits>
class FaultMMBits {
public:
	static const size_t ptrUsefulBitCount = tBits;
	explicit FaultMMBits() noexcept {}
	FaultMMBits(FaultMMBits&&) = default;
	FaultMMBits(const FaultMMBits&) = default;
	~FaultMMBits() = default;
	FaultMMBits& operator=(const FaultMMBits&) = delete;
	void* Allocate(size_t size) {
		MMState& s = mm();
		if (s.refuseSize != 0 && size == s.refuseSize) { s.refuseSize = 0; s.firedSize = true; s.refusedSizes.push_back(size); throw std::bad_alloc(); }
		if (s.refuseAfter >= 0 && size != s.refuseSize) {
			if (s.refuseAfter == 0) { s.refuseAfter = -1; s.firedAfter = true; s.refusedSizes.push_back(size); throw std::bad_alloc(); }
			--s.refuseAfter;
		}
		void* p = RawMem<tBits>::alloc(size);
		s.live[p] = size; ++s.allocs;
		return p;
	}
	void Deallocate(void* p, size_t size) noexcept {
		MMState& s = mm();
		auto it = s.live.find(p);
		if (it == s.live.end() || it->second != size) { ++s.badDealloc; return; }
		s.live.erase(it); ++s.deallocs;
		RawMem<tBits>::release(p, size);
	}
};

// does momo see the width a manager declares (without the global macro)?
template<typename MM>
inline bool ptrBitsDeclaredHonoured() { return momo::internal::MemManagerProxy<MM>::ptrUsefulBitCount == MM::ptrUsefulBitCount; }

// copy-only element (category of ElemCO: not nothrow relocatable, copy may throw when armed) of size 8 and alignment 8:
// eligible for the pointer+count packing of HashBucketLimP<5..8>
struct alignas(8) ElemCO8 {
	uint32_t id; uint32_t state;
	explicit ElemCO8(uint32_t i = 0) : id(i), state(0xA11CE) { ++ec().live; ++ec().constructed; }
	ElemCO8(const ElemCO8& o) : id((copyPoint(), o.id)), state(0xA11CE) { ++ec().live; ++ec().constructed; ++ec().copies; }
	ElemCO8& operator=(const ElemCO8& o) { id = o.id; state = 0xA11CE; return *this; }
	~ElemCO8() { state = 0xDEAD; --ec().live; ++ec().destroyed; }
};

} // namespace vf
