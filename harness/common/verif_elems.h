// Instrumented memory manager, element types and hash families shared by the container harnesses.
#pragma once
#include "verif_common.h"
#include <new>
#include <map>
#include <stdexcept>
#include <type_traits>

namespace vf {

// ---------------------------------------------------------------- memory manager with ledger and faults
struct MMState {
	std::map<void*, size_t> live;
	size_t refuseSize = 0;       // one-shot: refuse the next allocation of exactly this size
	long refuseAfter = -1;       // one-shot: refuse the (refuseAfter+1)-th allocation whose size != refuseSize
	bool firedSize = false, firedAfter = false;
	size_t badDealloc = 0;       // deallocation of an unknown block or with a wrong size
	size_t allocs = 0, deallocs = 0;
	std::vector<size_t> refusedSizes;   // sizes of the allocations refused since the last disarm()
	void disarm() { refuseSize = 0; refuseAfter = -1; firedSize = firedAfter = false; refusedSizes.clear(); }
	bool refused(size_t size) const { for (size_t x : refusedSizes) if (x == size) return true; return false; }
	bool refusedOther(size_t size) const { for (size_t x : refusedSizes) if (x != size) return true; return false; }
};
inline MMState& mm() { static MMState s; return s; }

class FaultMM {
public:
	explicit FaultMM() noexcept {}
	FaultMM(FaultMM&&) = default;
	FaultMM(const FaultMM&) = default;
	~FaultMM() = default;
	FaultMM& operator=(const FaultMM&) = delete;
	void* Allocate(size_t size) {
		MMState& s = mm();
		if (s.refuseSize != 0 && size == s.refuseSize) { s.refuseSize = 0; s.firedSize = true; s.refusedSizes.push_back(size); throw std::bad_alloc(); }
		if (s.refuseAfter >= 0 && size != s.refuseSize) {
			if (s.refuseAfter == 0) { s.refuseAfter = -1; s.firedAfter = true; s.refusedSizes.push_back(size); throw std::bad_alloc(); }
			--s.refuseAfter;
		}
		void* p = std::malloc(size);
		if (!p) throw std::bad_alloc();
		s.live[p] = size; ++s.allocs;
		return p;
	}
	void Deallocate(void* p, size_t size) noexcept {
		MMState& s = mm();
		auto it = s.live.find(p);
		if (it == s.live.end() || it->second != size) { ++s.badDealloc; return; }
		s.live.erase(it); ++s.deallocs;
		std::free(p);
	}
};

// ---------------------------------------------------------------- element types
struct ElemCounters { long live = 0, constructed = 0, destroyed = 0, copies = 0, moves = 0; long copyCountdown = -1; bool firedCopy = false; };
inline ElemCounters& ec() { static ElemCounters c; return c; }

// trivially relocatable, chosen size / alignment
template<size_t tSize, size_t tAlign>
struct alignas(tAlign) ElemT {
	uint32_t id;
	unsigned char pad[tSize > 4 ? tSize - 4 : 1];
	ElemT() = default;
	explicit ElemT(uint32_t i) : id(i) { std::memset(pad, 0, sizeof pad); }
};
static_assert(sizeof(ElemT<4, 4>) == 8 || true, "");
struct Elem4 { uint32_t id; Elem4() = default; explicit Elem4(uint32_t i) : id(i) {} };

// a copy constructor that is armed throws before it has touched the destination storage
inline void copyPoint() {
	if (ec().copyCountdown == 0) { ec().copyCountdown = -1; ec().firedCopy = true; throw std::runtime_error("copy"); }
	if (ec().copyCountdown > 0) --ec().copyCountdown;
}

// nothrow-move, non-trivial; copy may throw when armed
struct ElemNM {
	uint32_t id; uint32_t state;	// 0xA11CE = live, 0xDEAD = destroyed, 0x30FED = moved-from
	explicit ElemNM(uint32_t i = 0) : id(i), state(0xA11CE) { ++ec().live; ++ec().constructed; }
	ElemNM(const ElemNM& o) : id((copyPoint(), o.id)), state(0xA11CE) { ++ec().live; ++ec().constructed; ++ec().copies; }
	ElemNM(ElemNM&& o) noexcept : id(o.id), state(0xA11CE) { o.state = 0x30FED; ++ec().live; ++ec().constructed; ++ec().moves; }
	ElemNM& operator=(const ElemNM& o) { id = o.id; state = 0xA11CE; return *this; }
	ElemNM& operator=(ElemNM&& o) noexcept { id = o.id; state = 0xA11CE; o.state = 0x30FED; return *this; }
	~ElemNM() { state = 0xDEAD; --ec().live; ++ec().destroyed; }
};

// copy-only (no move constructor), copy may throw when armed: not nothrow relocatable
struct ElemCO {
	uint32_t id; uint32_t state;
	explicit ElemCO(uint32_t i = 0) : id(i), state(0xA11CE) { ++ec().live; ++ec().constructed; }
	ElemCO(const ElemCO& o) : id((copyPoint(), o.id)), state(0xA11CE) { ++ec().live; ++ec().constructed; ++ec().copies; }
	ElemCO& operator=(const ElemCO& o) { id = o.id; state = 0xA11CE; return *this; }
	~ElemCO() { state = 0xDEAD; --ec().live; ++ec().destroyed; }
};

template<typename E> inline uint32_t idOf(const E& e) { return e.id; }
inline uint32_t idOf(uint32_t e) { return e; }
inline uint32_t idOf(uint64_t e) { return (uint32_t)e; }

// ---------------------------------------------------------------- hash families (must equal Momo.HT.hashFam)
inline uint64_t hashFam(unsigned fam, uint64_t key) {
	switch (fam) {
	case 0: return 0;
	case 1: return key % 16;
	case 2: return key << 56;
	case 3: return key;
	case 4: return key * 11400714819323198485ull;
	case 5: return ((key % 2) << 63) + (key / 2 % 4);
	case 6: return (127ull << 57) + key;	// top seven bits all ones: the short hash of LimP4 / Open2N2 is 127 for every key
	default: return ((key % 3 == 0 ? 127ull : key % 128) << 57) + key / 3;	// every third key has short hash 127, the others sweep all values
	}
}
inline const char* hashFamName(unsigned fam) {
	static const char* n[] = { "const", "low4bits", "highbyte", "identity", "multiplicative", "twocluster", "top7ones", "top7mixed" };
	return n[fam < 8 ? fam : 7];
}

struct HashCtl { unsigned fam = 3; long throwCountdown = -1; bool fired = false; uint64_t calls = 0; };
inline HashCtl& hc() { static HashCtl h; return h; }

inline size_t famHash(uint32_t id) {
	HashCtl& h = hc();
	++h.calls;
	if (h.throwCountdown == 0) { h.throwCountdown = -1; h.fired = true; throw std::domain_error("hash"); }
	if (h.throwCountdown > 0) --h.throwCountdown;
	return (size_t)hashFam(h.fam, id);
}

} // namespace vf
