// Instrumented memory manager, element types and hash families shared by the container harnesses.
#pragma once
#include "verif_common.h"
#include <new>
#include <iterator>
#include <map>
#include <stdexcept>
#include <type_traits>

namespace vf {

// ---------------------------------------------------------------- memory manager with ledger and faults
struct MMState {
	std::map<void*, size_t> live;
	size_t refuseSize = 0;       // one-shot: refuse the next allocation of exactly this size
	long refuseAfter = -1;       // one-shot: refuse the (refuseAfter+1)-th allocation whose size != refuseSize
	bool firedSize = false, firedAfter = false;
	size_t badDealloc = 0;       // deallocation of an unknown block or with a wrong size
	size_t allocs = 0, deallocs = 0;
	std::vector<size_t> refusedSizes;   // sizes of the allocations refused since the last disarm()
	void disarm() { refuseSize = 0; refuseAfter = -1; firedSize = firedAfter = false; refusedSizes.clear(); }
	bool refused(size_t size) const { for (size_t x : refusedSizes) if (x == size) return true; return false; }
	bool refusedOther(size_t size) const { for (size_t x : refusedSizes) if (x != size) return true; return false; }
};
inline MMState& mm() { static MMState s; return s; }

class FaultMM {
public:
	explicit FaultMM() noexcept {}
	FaultMM(FaultMM&&) = default;
	FaultMM(const FaultMM&) = default;
	~FaultMM() = default;
	FaultMM& operator=(const FaultMM&) = delete;
	void* Allocate(size_t size) {
		MMState& s = mm();
		if (s.refuseSize != 0 && size == s.refuseSize) { s.refuseSize = 0; s.firedSize = true; s.refusedSizes.push_back(size); throw std::bad_alloc(); }
		if (s.refuseAfter >= 0 && size != s.refuseSize) {
			if (s.refuseAfter == 0) { s.refuseAfter = -1; s.firedAfter = true; s.refusedSizes.push_back(size); throw std::bad_alloc(); }
			--s.refuseAfter;
		}
		void* p = std::malloc(size);
		if (!p) throw std::bad_alloc();
		s.live[p] = size; ++s.allocs;
		return p;
	}
	void Deallocate(void* p, size_t size) noexcept {
		MMState& s = mm();
		auto it = s.live.find(p);
		if (it == s.live.end() || it->second != size) { ++s.badDealloc; return; }
		s.live.erase(it); ++s.deallocs;
		std::free(p);
	}
};

// ---------------------------------------------------------------- element types
struct ElemCounters { long live = 0, constructed = 0, destroyed = 0, copies = 0, moves = 0; long copyCountdown = -1; bool firedCopy = false;
	long assignCountdown = -1; bool firedAssign = false; long assigns = 0, swaps = 0; };
inline ElemCounters& ec() { static ElemCounters c; return c; }

// trivially relocatable, chosen size / alignment
template<size_t tSize, size_t tAlign>
struct alignas(tAlign) ElemT {
	uint32_t id;
	unsigned char pad[tSize > 4 ? tSize - 4 : 1];
	ElemT() = default;
	explicit ElemT(uint32_t i) : id(i) { std::memset(pad, 0, sizeof pad); }
};
static_assert(sizeof(ElemT<4, 4>) == 8 || true, "");
struct Elem4 { uint32_t id; Elem4() = default; explicit Elem4(uint32_t i) : id(i) {} };

// a copy constructor that is armed throws before it has touched the destination storage
inline void copyPoint() {
	if (ec().copyCountdown == 0) { ec().copyCountdown = -1; ec().firedCopy = true; throw std::runtime_error("copy"); }
	if (ec().copyCountdown > 0) --ec().copyCountdown;
}

// nothrow-move, non-trivial; copy may throw when armed
struct ElemNM {
	uint32_t id; uint32_t state;	// 0xA11CE = live, 0xDEAD = destroyed, 0x30FED = moved-from
	explicit ElemNM(uint32_t i = 0) : id(i), state(0xA11CE) { ++ec().live; ++ec().constructed; }
	ElemNM(const ElemNM& o) : id((copyPoint(), o.id)), state(0xA11CE) { ++ec().live; ++ec().constructed; ++ec().copies; }
	ElemNM(ElemNM&& o) noexcept : id(o.id), state(0xA11CE) { o.state = 0x30FED; ++ec().live; ++ec().constructed; ++ec().moves; }
	ElemNM& operator=(const ElemNM& o) { id = o.id; state = 0xA11CE; return *this; }
	ElemNM& operator=(ElemNM&& o) noexcept { id = o.id; state = 0xA11CE; o.state = 0x30FED; return *this; }
	~ElemNM() { state = 0xDEAD; --ec().live; ++ec().destroyed; }
};

// copy-only (no move constructor), copy may throw when armed: not nothrow relocatable
struct ElemCO {
	uint32_t id; uint32_t state;
	explicit ElemCO(uint32_t i = 0) : id(i), state(0xA11CE) { ++ec().live; ++ec().constructed; }
	ElemCO(const ElemCO& o) : id((copyPoint(), o.id)), state(0xA11CE) { ++ec().live; ++ec().constructed; ++ec().copies; }
	ElemCO& operator=(const ElemCO& o) { id = o.id; state = 0xA11CE; return *this; }
	~ElemCO() { state = 0xDEAD; --ec().live; ++ec().destroyed; }
};

// an assignment operator that is armed throws before it has touched the destination object
inline void assignPoint() {
	if (ec().assignCountdown == 0) { ec().assignCountdown = -1; ec().firedAssign = true; throw std::runtime_error("assign"); }
	if (ec().assignCountdown > 0) --ec().assignCountdown;
}

// "throwing move but noexcept swap" (copy-and-swap idiom): no move constructor, so that moving is the copy construction, which
// may throw when armed (copyPoint) - momo (gcc / clang, MOMO_IS_NOTHROW_RELOCATABLE_APPENDIX) treats every type that declares a move
// constructor as nothrow relocatable, noexcept or not. Assignment takes its argument by value (may throw while the argument is
// built), ADL swap is noexcept.
// momo: not nothrow relocatable, not nothrow move assignable, nothrow swappable => isNothrowAnywayAssignable and isNothrowShiftable
// (ObjectManager::pvAssignAnyway / pvShiftNothrow swap variants; contiguous tree nodes).
struct ElemSW {
	uint32_t id; uint32_t state;
	explicit ElemSW(uint32_t i = 0) : id(i), state(0xA11CE) { ++ec().live; ++ec().constructed; }
	ElemSW(const ElemSW& o) : id((copyPoint(), o.id)), state(0xA11CE) { ++ec().live; ++ec().constructed; ++ec().copies; }
	ElemSW& operator=(ElemSW o) { swap(*this, o); ++ec().assigns; return *this; }
	friend void swap(ElemSW& a, ElemSW& b) noexcept { uint32_t i = a.id; a.id = b.id; b.id = i; uint32_t s = a.state; a.state = b.state; b.state = s; ++ec().swaps; }
	~ElemSW() { state = 0xDEAD; --ec().live; ++ec().destroyed; }
};

// copy-only, copy construction may throw when armed, copy assignment is noexcept:
// not nothrow relocatable, but nothrow-anyway-assignable (through is_nothrow_move_assignable)
struct ElemCA {
	uint32_t id; uint32_t state;
	explicit ElemCA(uint32_t i = 0) : id(i), state(0xA11CE) { ++ec().live; ++ec().constructed; }
	ElemCA(const ElemCA& o) : id((copyPoint(), o.id)), state(0xA11CE) { ++ec().live; ++ec().constructed; ++ec().copies; }
	ElemCA& operator=(const ElemCA& o) noexcept { id = o.id; state = o.state; ++ec().assigns; return *this; }
	~ElemCA() { state = 0xDEAD; --ec().live; ++ec().destroyed; }
};

// copy-only, copy construction may throw when armed (copyPoint) AND copy assignment may throw when armed (assignPoint):
// not nothrow relocatable, not nothrow-anyway-assignable (the category of ElemCO, with an assignment that really throws)
struct ElemCT {
	uint32_t id; uint32_t state;
	explicit ElemCT(uint32_t i = 0) : id(i), state(0xA11CE) { ++ec().live; ++ec().constructed; }
	ElemCT(const ElemCT& o) : id((copyPoint(), o.id)), state(0xA11CE) { ++ec().live; ++ec().constructed; ++ec().copies; }
	ElemCT& operator=(const ElemCT& o) { assignPoint(); id = o.id; state = o.state; ++ec().assigns; return *this; }
	~ElemCT() { state = 0xDEAD; --ec().live; ++ec().destroyed; }
};

template<typename E> inline uint32_t idOf(const E& e) { return e.id; }
inline uint32_t idOf(uint32_t e) { return e; }
inline uint32_t idOf(uint64_t e) { return (uint32_t)e; }

// ---------------------------------------------------------------- hash families (must equal Momo.HT.hashFam)
inline uint64_t hashFam(unsigned fam, uint64_t key) {
	switch (fam) {
	case 0: return 0;
	case 1: return key % 16;
	case 2: return key << 56;
	case 3: return key;
	case 4: return key * 11400714819323198485ull;
	case 5: return ((key % 2) << 63) + (key / 2 % 4);
	case 6: return (127ull << 57) + key;	// top seven bits all ones: the short hash of LimP4 / Open2N2 is 127 for every key
	default: return ((key % 3 == 0 ? 127ull : key % 128) << 57) + key / 3;	// every third key has short hash 127, the others sweep all values
	}
}
inline const char* hashFamName(unsigned fam) {
	static const char* n[] = { "const", "low4bits", "highbyte", "identity", "multiplicative", "twocluster", "top7ones", "top7mixed" };
	return n[fam < 8 ? fam : 7];
}

struct HashCtl { unsigned fam = 3; long throwCountdown = -1; bool fired = false; uint64_t calls = 0; };
inline HashCtl& hc() { static HashCtl h; return h; }

inline size_t famHash(uint32_t id) {
	HashCtl& h = hc();
	++h.calls;
	if (h.throwCountdown == 0) { h.throwCountdown = -1; h.fired = true; throw std::domain_error("hash"); }
	if (h.throwCountdown > 0) --h.throwCountdown;
	return (size_t)hashFam(h.fam, id);
}

// ---------------------------------------------------------------- counted key / mapped types with several constructors
// (std-interface harnesses: piecewise and argument-less emplace, key_type&& overloads, heterogeneous lookup).
// CKey: explicit from int (so that an `int` argument is a genuinely heterogeneous key), from (hi, lo) = hi * 16 + lo, default = 0.
// A move leaves the value in place and flags the source (`moved`), so "not moved from when nothing is inserted" is observable.
// Every construction / destruction is counted: live objects must equal the number of stored elements.
struct CountedCtl { long liveKeys = 0, liveVals = 0; long keyMoves = 0, keyCopies = 0, valMoves = 0, valCopies = 0; };
inline CountedCtl& cc() { static CountedCtl c; return c; }
struct CKey {
	int k; int moved;
	CKey() : k(0), moved(0) { ++cc().liveKeys; }
	explicit CKey(int k_) : k(k_), moved(0) { ++cc().liveKeys; }
	CKey(int hi, int lo) : k(hi * 16 + lo), moved(0) { ++cc().liveKeys; }
	CKey(const CKey& o) : k(o.k), moved(0) { ++cc().liveKeys; ++cc().keyCopies; }
	CKey(CKey&& o) noexcept : k(o.k), moved(0) { o.moved = 1; ++cc().liveKeys; ++cc().keyMoves; }
	CKey& operator=(const CKey& o) { k = o.k; moved = 0; return *this; }
	CKey& operator=(CKey&& o) noexcept { k = o.k; moved = 0; o.moved = 1; return *this; }
	~CKey() { --cc().liveKeys; }
	friend bool operator==(const CKey& a, const CKey& b) { return a.k == b.k; }
	friend bool operator!=(const CKey& a, const CKey& b) { return a.k != b.k; }
	friend bool operator<(const CKey& a, const CKey& b) { return a.k < b.k; }
};
struct CVal {
	int v; int moved;
	CVal() : v(0), moved(0) { ++cc().liveVals; }
	explicit CVal(int v_) : v(v_), moved(0) { ++cc().liveVals; }
	// CVal(777, b) throws std::runtime_error before anything is counted: a mapped constructor that fails inside an emplace
	static int orThrow(int a) { if (a == 777) throw std::runtime_error("CVal(777, b)"); return 0; }
	CVal(int a, int b) : v(orThrow(a) + a * 1000 + b), moved(0) { ++cc().liveVals; }
	CVal(const CVal& o) : v(o.v), moved(0) { ++cc().liveVals; ++cc().valCopies; }
	CVal(CVal&& o) noexcept : v(o.v), moved(0) { o.moved = 1; ++cc().liveVals; ++cc().valMoves; }
	CVal& operator=(const CVal& o) { v = o.v; moved = 0; return *this; }
	CVal& operator=(CVal&& o) noexcept { v = o.v; moved = 0; o.moved = 1; return *this; }
	~CVal() { --cc().liveVals; }
	friend bool operator==(const CVal& a, const CVal& b) { return a.v == b.v; }
	friend bool operator!=(const CVal& a, const CVal& b) { return a.v != b.v; }
	friend bool operator<(const CVal& a, const CVal& b) { return a.v < b.v; }
};
// a heterogeneous key that is equivalent to SEVERAL CKeys: all keys k with k / 10 == d (a legal partition-point key for the
// ordered containers with a transparent comparator)
struct Decade { int d; };
// transparent, stateful comparator: ascending or (desc) descending by k; accepts CKey, int and Decade
struct LessCK {
	typedef void is_transparent;
	bool desc; int id;
	explicit LessCK(bool desc_ = false, int id_ = 0) : desc(desc_), id(id_) {}
	bool lt(int a, int b) const { return desc ? b < a : a < b; }
	bool operator()(const CKey& a, const CKey& b) const { return lt(a.k, b.k); }
	bool operator()(const CKey& a, int b) const { return lt(a.k, b); }
	bool operator()(int a, const CKey& b) const { return lt(a, b.k); }
	bool operator()(const CKey& a, Decade b) const { return lt(a.k / 10, b.d); }
	bool operator()(Decade a, const CKey& b) const { return lt(a.d, b.k / 10); }
};
// transparent, stateful hash / equality over CKey and int (hash family of hc(), xor a salt that is part of the functor's state)
struct HashCK {
	typedef void is_transparent;
	uint32_t salt;
	explicit HashCK(uint32_t salt_ = 0) : salt(salt_) {}
	size_t operator()(const CKey& a) const { return famHash((uint32_t)a.k ^ salt); }
	size_t operator()(int a) const { return famHash((uint32_t)a ^ salt); }
};
struct EqCK {
	typedef void is_transparent;
	int id;
	explicit EqCK(int id_ = 0) : id(id_) {}
	bool operator()(const CKey& a, const CKey& b) const { return a.k == b.k; }
	bool operator()(const CKey& a, int b) const { return a.k == b; }
	bool operator()(int a, const CKey& b) const { return a == b.k; }
};
// single-pass input iterator over a vector (iterator_category = input_iterator_tag): the range overloads must not rely on
// multi-pass / distance
// byValue: operator* returns a prvalue (a "generating" iterator: momo's range inserts then take their element-wise path)
template<typename T, bool byValue = false>
struct InputIt {
	typedef std::input_iterator_tag iterator_category;
	typedef T value_type; typedef ptrdiff_t difference_type; typedef const T* pointer;
	typedef typename std::conditional<byValue, T, const T&>::type reference;
	const std::vector<T>* v; size_t i;
	InputIt(const std::vector<T>& v_, size_t i_) : v(&v_), i(i_) {}
	reference operator*() const { return (*v)[i]; }
	pointer operator->() const { return &(*v)[i]; }
	InputIt& operator++() { ++i; return *this; }
	InputIt operator++(int) { InputIt t = *this; ++i; return t; }
	friend bool operator==(const InputIt& a, const InputIt& b) { return a.i == b.i; }
	friend bool operator!=(const InputIt& a, const InputIt& b) { return a.i != b.i; }
};

} // namespace vf
