// Raw allocators for memory managers with fewer useful pointer bits (see verif_ptrbits.h): an arena that is mmap'ed below
// 4 GB (MAP_32BIT), so that every address fits 32 bits, and malloc for 48 / 64 bits. No dependency on the element types.
#pragma once
#include "verif_common.h"
#include <new>
#include <map>
#include <vector>
#include <sys/mman.h>

namespace vf {

// ---------------------------------------------------------------- arena below 4 GB
struct Arena32 {
	char* base = nullptr; size_t used = 0, cap = size_t{512} << 20;
	std::map<size_t, std::vector<void*>> freeLists;	// by rounded size
	size_t outstanding = 0;
	bool failed = false;
	bool ok() {
		if (base) return true;
		if (failed) return false;
		void* p = mmap(nullptr, cap, PROT_READ | PROT_WRITE, MAP_PRIVATE | MAP_ANONYMOUS | MAP_NORESERVE | MAP_32BIT, -1, 0);
		if (p == MAP_FAILED || (uintptr_t)p + cap > (uintptr_t{1} << 32)) { failed = true; return false; }
		base = (char*)p;
		return true;
	}
	static size_t rounded(size_t size) { return size == 0 ? 16 : (size + 15) & ~size_t{15}; }
	void* alloc(size_t size) {
		size_t sz = rounded(size);
		auto it = freeLists.find(sz);
		if (it != freeLists.end() && !it->second.empty()) { void* p = it->second.back(); it->second.pop_back(); ++outstanding; return p; }
		if (!ok() || used + sz > cap) throw std::bad_alloc();
		void* p = base + used; used += sz; ++outstanding;
		return p;
	}
	void release(void* p, size_t size) { freeLists[rounded(size)].push_back(p); --outstanding; }
	bool owns(const void* p) const { return base && (const char*)p >= base && (const char*)p < base + cap; }
};
inline Arena32& arena32() { static Arena32 a; return a; }

template<size_t tBits> struct RawMem {
	static void* alloc(size_t size) { void* p = std::malloc(size); if (!p) throw std::bad_alloc(); return p; }
	static void release(void* p, size_t) noexcept { std::free(p); }
};
template<> struct RawMem<32> {
	static void* alloc(size_t size) { return arena32().alloc(size); }
	static void release(void* p, size_t size) noexcept { arena32().release(p, size); }
};

} // namespace vf
