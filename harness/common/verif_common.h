// Shared pieces of the correspondence harnesses (see DESIGN.md section 2).
//   * Rng            one PRNG (splitmix64-seeded xoshiro256**) - every random choice derives from VERIF_SEED
//   * Suite          writes <out>/<suite>.ops (lines for momo_model) and <out>/<suite>.impl (what the
//                    implementation answered, one line per op line)
//   * Stats          coverage counters / samples -> <out>/stats.json
//   * FAIL(...)      property-level failure (implementation contradicts the property's own oracle)
#pragma once
#include <cstdint>
#include <cstdio>
#include <cstdlib>
#include <cstdarg>
#include <cstring>
#include <string>
#include <vector>
#include <map>
#include <set>
#include <sstream>

namespace vf {

struct Rng {
	uint64_t s[4];
	explicit Rng(uint64_t seed) {
		uint64_t z = seed + 0x9E3779B97F4A7C15ull;
		for (int i = 0; i < 4; ++i) {
			z += 0x9E3779B97F4A7C15ull;
			uint64_t x = z;
			x = (x ^ (x >> 30)) * 0xBF58476D1CE4E5B9ull;
			x = (x ^ (x >> 27)) * 0x94D049BB133111EBull;
			s[i] = x ^ (x >> 31);
		}
	}
	static uint64_t rotl(uint64_t x, int k) { return (x << k) | (x >> (64 - k)); }
	uint64_t next() {
		uint64_t r = rotl(s[1] * 5, 7) * 9, t = s[1] << 17;
		s[2] ^= s[0]; s[3] ^= s[1]; s[1] ^= s[2]; s[0] ^= s[3]; s[2] ^= t; s[3] = rotl(s[3], 45);
		return r;
	}
	uint64_t below(uint64_t n) { return n == 0 ? 0 : next() % n; }
	uint64_t range(uint64_t lo, uint64_t hi) { return lo + below(hi - lo + 1); }	// inclusive
	bool chance(unsigned num, unsigned den) { return below(den) < num; }
	// boundary-biased 64-bit value below 2^maxBits: powers of two +-1, small numbers, random
	uint64_t biased(unsigned maxBits) {
		uint64_t lim = (maxBits >= 64) ? ~0ull : ((1ull << maxBits) - 1);
		uint64_t v;
		switch (below(5)) {
		case 0: v = below(300); break;
		case 1: { unsigned k = (unsigned)below(maxBits + 1); v = (k >= 64 ? 0 : (1ull << k)) + below(3) - 1; break; }
		case 2: { unsigned k = (unsigned)below(maxBits + 1); v = next() & ((k >= 64) ? ~0ull : ((1ull << k) - 1)); break; }
		case 3: { unsigned k = (unsigned)below(maxBits + 1); v = (k >= 64 ? 0 : (1ull << k)) * (1 + below(300)) + below(3) - 1; break; }
		default: v = next(); break;
		}
		return v & lim;
	}
};

struct Stats {
	std::map<std::string, uint64_t> counters;
	std::vector<std::string> samples;
	std::set<std::string> distinct;
	uint64_t evaluations = 0;
	void count(const std::string& k, uint64_t n = 1) { counters[k] += n; }
	void sample(const std::string& s, size_t maxSamples = 12) { if (samples.size() < maxSamples) samples.push_back(s); }
	void nontrivial(const std::string& key) { distinct.insert(key); }
	static std::string esc(const std::string& s) {
		std::string r;
		for (char c : s) { if (c == '"' || c == '\\') { r += '\\'; r += c; } else if (c == '\n') r += "\\n"; else r += c; }
		return r;
	}
	void dump(const std::string& path) const {
		FILE* f = fopen(path.c_str(), "w");
		if (!f) return;
		fprintf(f, "{\n \"evaluations\": %llu,\n \"distinct_nontrivial\": %llu,\n \"counters\": {", (unsigned long long)evaluations,
			(unsigned long long)distinct.size());
		bool first = true;
		for (auto& kv : counters) { fprintf(f, "%s\n  \"%s\": %llu", first ? "" : ",", esc(kv.first).c_str(), (unsigned long long)kv.second); first = false; }
		fprintf(f, "\n },\n \"samples\": [");
		first = true;
		for (auto& s : samples) { fprintf(f, "%s\n  \"%s\"", first ? "" : ",", esc(s).c_str()); first = false; }
		fprintf(f, "\n ]\n}\n");
		fclose(f);
	}
};

struct Ctx {
	std::string outDir;
	uint64_t seed = 0;
	bool thorough = false;
	Stats stats;
	FILE* failFile = nullptr;
	int failures = 0;
	void fail(const char* fmt, ...) {
		if (!failFile) failFile = fopen((outDir + "/fail.txt").c_str(), "w");
		va_list ap; va_start(ap, fmt);
		char buf[4096]; vsnprintf(buf, sizeof buf, fmt, ap); va_end(ap);
		if (failFile) { fprintf(failFile, "%s\n", buf); fflush(failFile); }
		if (failures < 20) { fprintf(stdout, "FAIL %s\n", buf); fflush(stdout); }
		++failures;
	}
	int finish() {
		stats.dump(outDir + "/stats.json");
		if (failFile) fclose(failFile);
		return failures ? 1 : 0;
	}
};

// one correspondence suite: op lines for the model, answer lines of the implementation
struct Suite {
	FILE* ops; FILE* impl; uint64_t lines = 0; std::string name;
	Suite(Ctx& c, const std::string& name_, const std::string& modelLine) : name(name_) {
		ops = fopen((c.outDir + "/" + name + ".ops").c_str(), "w");
		impl = fopen((c.outDir + "/" + name + ".impl").c_str(), "w");
		if (!ops || !impl) { fprintf(stderr, "cannot open suite files in %s\n", c.outDir.c_str()); exit(3); }
		fprintf(ops, "%s\n", modelLine.c_str());
	}
	~Suite() { fclose(ops); fclose(impl); }
	// both take complete lines without the trailing newline
	void op(const std::string& line) { fputs(line.c_str(), ops); fputc('\n', ops); ++lines; }
	void res(const std::string& line) { fputs(line.c_str(), impl); fputc('\n', impl); }
	void comment(const std::string& line) { op("# " + line); res("# " + line); }
};

inline std::string fmt(const char* f, ...) {
	va_list ap; va_start(ap, f);
	char buf[8192]; vsnprintf(buf, sizeof buf, f, ap); va_end(ap);
	return buf;
}

inline Ctx parseArgs(int argc, char** argv) {
	Ctx c;
	if (argc < 4) { fprintf(stderr, "usage: %s <seed> <quick|thorough> <outdir>\n", argv[0]); exit(3); }
	c.seed = strtoull(argv[1], nullptr, 10);
	c.thorough = std::string(argv[2]) == "thorough";
	c.outDir = argv[3];
	return c;
}

} // namespace vf
