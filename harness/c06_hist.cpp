// C06 correspondence harness for the whole-history refinement theorem (Props/C06.lean: C06_history_*):
// random LEGAL call histories over the complete call alphabet of lean/Momo/Model/StdSpec.lean are run on
//   momo::stdish::X     -> suite hist_<kind>_wrap : compared with the WRAPPER MODEL (engine `stdhist side=wrap`)
//   std::X (libstdc++)  -> suite hist_<kind>_spec : compared with the hand-written SPECIFICATION of the std container
//                                                   (engine `stdhist side=spec`)
// and, at property level, with each other (FAIL on the first call momo and libstdc++ answer differently).
// The two model-level comparisons are independent: the first ties the wrapper model to momo, the second validates the
// specification against libstdc++ (the part of C06 that no theorem covers).
// Observations are printed in the format of Driver/StdHist.lean `obsStr`; unordered results are canonicalised (sorted).
// VF_PART=1: set multiset map multimap vector, VF_PART=2: unordered_set unordered_map unordered_multimap (+ _open).
#include "momo/stdish/set.h"
#include "momo/stdish/map.h"
#include "momo/stdish/vector.h"
#include "momo/stdish/unordered_set.h"
#include "momo/stdish/unordered_map.h"
#include "momo/stdish/unordered_multimap.h"
#include "c06_common.h"

#include <set>
#include <map>
#include <unordered_set>
#include <unordered_map>
#include <vector>
#include <forward_list>
#include <tuple>

#ifndef VF_PART
#define VF_PART 1
#endif

using namespace c06;

// one history: the same op line goes to both suites, with momo's / libstdc++'s answer
struct Hist {
	Ctx& c; Suite& sw; Suite& ss; std::string kind;
	std::deque<std::string> hist;
	uint64_t steps = 0;
	bool diverged = false;
	Hist(Ctx& c_, Suite& sw_, Suite& ss_, const std::string& k) : c(c_), sw(sw_), ss(ss_), kind(k) {}
	std::string tail() const { std::string t; for (auto& h : hist) { t += h; t += " ; "; } return t; }
	void step(const std::string& op, const std::string& momo, const std::string& stdr) {
		sw.op(op); sw.res(momo);
		ss.op(op); ss.res(stdr);
		hist.push_back(op + " -> " + momo);
		if (hist.size() > 30) hist.pop_front();
		++steps; c.stats.evaluations++;
		size_t sp = op.find(' ');
		c.stats.count("hist." + kind + "." + op.substr(0, sp));
		if (momo != stdr) {
			diverged = true;
			c.fail("C06 hist/%s step %llu: `%s` momo answered [%s], libstdc++ answered [%s]; last calls: %s", kind.c_str(),
				(unsigned long long)steps, op.c_str(), momo.c_str(), stdr.c_str(), tail().c_str());
		}
	}
	void reset() { sw.op("reset"); sw.res("ok"); ss.op("reset"); ss.res("ok"); }
	void comment(const std::string& t) { sw.comment(t); ss.comment(t); }
};

static std::string itemsStr(const std::vector<P>& v) { std::string r = fmt("%zu:", v.size()); for (auto& p : v) r += fmt(" %d:%d", p.first, p.second); return r; }
static std::string listArg(const std::vector<P>& v) { std::string r; for (auto& p : v) r += fmt(" %d:%d", p.first, p.second); return r; }
template<typename C> static void recreateEmpty(C& c) { c.~C(); ::new (static_cast<void*>(&c)) C(); }
template<typename C> static void recreateCopy(C& c, const C& o) { c.~C(); ::new (static_cast<void*>(&c)) C(o); }
template<typename C> static void recreateMove(C& c, C& o) { c.~C(); ::new (static_cast<void*>(&c)) C(std::move(o)); recreateEmpty(o); }

// c is destroyed and constructed anew from a range (iterKind 0 random access, 1 single-pass by reference, 2 single-pass by value;
// form 0 (f, l), 1 with the second constructor argument, 2 with allocator, 3 both) or from an initializer list
template<typename C, typename V, typename Arg2>
static void constructRange(C& c, const std::vector<V>& src, unsigned iterKind, unsigned form, const Arg2& arg2)
{
	typedef typename C::allocator_type A;
	auto build = [&](auto f, auto l) {
		c.~C();
		void* p = static_cast<void*>(&c);
		switch (form % 4) {
		case 0: ::new (p) C(f, l); break;
		case 1: ::new (p) C(f, l, arg2); break;
		case 2: ::new (p) C(f, l, arg2, A()); break;
		default: ::new (p) C(f, l, arg2, A()); break;
		}
	};
	switch (iterKind % 3) {
	case 0: build(src.begin(), src.end()); break;
	case 1: build(InputIt<V>(src, 0), InputIt<V>(src, src.size())); break;
	default: build(InputIt<V, true>(src, 0), InputIt<V, true>(src, src.size())); break;
	}
}
template<typename C, typename V, typename Arg2>
static void constructList(C& c, const std::vector<V>& ys, unsigned form, const Arg2& arg2)
{
	typedef typename C::allocator_type A;
	c.~C();
	void* p = static_cast<void*>(&c);
#define VF_CL(IL) switch (form % 3) { case 0: ::new (p) C(std::initializer_list<V> IL); break; case 1: ::new (p) C(std::initializer_list<V> IL, arg2); break; default: ::new (p) C(std::initializer_list<V> IL, arg2, A()); break; }
	switch (ys.size()) {
	case 0: VF_CL({}) break;
	case 1: VF_CL({ ys[0] }) break;
	case 2: VF_CL(({ ys[0], ys[1] })) break;
	default: VF_CL(({ ys[0], ys[1], ys[2] })) break;
	}
#undef VF_CL
}

template<typename C, typename = void> struct HasContains : std::false_type {};
template<typename C> struct HasContains<C, decltype((void)std::declval<const C&>().contains(std::declval<const typename C::key_type&>()))> : std::true_type {};

#if VF_PART == 1
// ================================================================ ordered containers
template<bool isMap> struct OEl;
template<> struct OEl<false> {
	typedef KV value;
	template<typename It> static P get(It it) { return P(it->k, it->v); }
	static KV make(int k, int v) { return KV(k, v); }
	static KV key(int k) { return KV(k, -1); }
	template<typename Node> static P node(const Node& n) { return P(n.value().k, n.value().v); }
};
template<> struct OEl<true> {
	typedef std::pair<const int, int> value;
	template<typename It> static P get(It it) { return P(it->first, it->second); }
	static std::pair<const int, int> make(int k, int v) { return std::pair<const int, int>(k, v); }
	static int key(int k) { return k; }
	template<typename Node> static P node(const Node& n) { return P(n.key(), n.mapped()); }
};

template<typename C, bool isMap, bool isMulti, bool isMomo>
struct HO {
	typedef OEl<isMap> E;
	typedef typename C::node_type Node;
	typedef std::optional<Node> NodeSlot;
	static size_t rank(const C& c, typename C::const_iterator it) { return (size_t)std::distance(c.begin(), it); }
	static typename C::const_iterator at(const C& c, size_t r) { return std::next(c.begin(), (ptrdiff_t)r); }
	static std::string nodeStr(const NodeSlot& n) { if (!n || n->empty()) return "empty"; P p = E::node(*n); return fmt("%d:%d", p.first, p.second); }
	static std::vector<P> contents(const C& c) { std::vector<P> v; for (auto it = c.begin(); it != c.end(); ++it) v.push_back(E::get(it)); return v; }

	// `sp` selects the C++ spelling of one and the same abstract call (StdSpec.lean: insert = insert(const value_type&) /
	// insert(value_type&&) / insert(P&&); emplace = emplace(args...) in every form, incl. std::piecewise_construct)
	static std::string retI(const C& c, typename C::iterator it) { return fmt("p=%zu", rank(c, it)); }
	static std::string retI(const C& c, const std::pair<typename C::iterator, bool>& r) { return fmt("p=%zu %d", rank(c, r.first), (int)r.second); }
	static std::string ins(C& c, int k, int v, bool emplace, unsigned sp = 0) {
		if constexpr (isMap) {
			if (!emplace) {
				switch (sp % 4) {
				case 0: return retI(c, c.insert(E::make(k, v)));
				case 1: { const typename E::value x(k, v); return retI(c, c.insert(x)); }
				case 2: return retI(c, c.insert(std::pair<int, int>(k, v)));
				default: { const std::pair<int, int> x(k, v); return retI(c, c.insert(x)); }
				}
			}
			switch (sp % 5) {
			case 0: return retI(c, c.emplace(k, v));
			case 1: return retI(c, c.emplace(std::piecewise_construct, std::forward_as_tuple((long)k), std::forward_as_tuple((long)v)));	// key built in a buffer
			case 2: return retI(c, c.emplace(std::piecewise_construct, std::forward_as_tuple(k), std::forward_as_tuple(v)));
			case 3: return retI(c, c.emplace(std::pair<int, int>(k, v)));
			default: { const int key = k; return retI(c, c.emplace(key, (short)v)); }
			}
		} else {
			if (!emplace) {
				if (sp % 2) { const KV x(k, v); return retI(c, c.insert(x)); }
				return retI(c, c.insert(KV(k, v)));
			}
			switch (sp % 3) {
			case 0: return retI(c, c.emplace(KV(k, v)));
			case 1: return retI(c, c.emplace(k, v));	// constructor arguments: through an extracted item
			default: { const KV x(k, v); return retI(c, c.emplace(x)); }
			}
		}
	}
	static std::string insh(C& c, size_t h, int k, int v, bool emplace, unsigned sp = 0) {
		auto hint = at(c, h);
		typename C::iterator it;
		if constexpr (isMap) {
			if (!emplace) {
				switch (sp % 4) {
				case 0: it = c.insert(hint, E::make(k, v)); break;
				case 1: { const typename E::value x(k, v); it = c.insert(hint, x); break; }
				case 2: it = c.insert(hint, std::pair<int, int>(k, v)); break;
				default: { const std::pair<int, int> x(k, v); it = c.insert(hint, x); break; }
				}
			} else {
				switch (sp % 5) {
				case 0: it = c.emplace_hint(hint, k, v); break;
				case 1: it = c.emplace_hint(hint, std::piecewise_construct, std::forward_as_tuple((long)k), std::forward_as_tuple((long)v)); break;
				case 2: it = c.emplace_hint(hint, std::piecewise_construct, std::forward_as_tuple(k), std::forward_as_tuple(v)); break;
				case 3: it = c.emplace_hint(hint, std::pair<int, int>(k, v)); break;
				default: { const int key = k; it = c.emplace_hint(hint, key, (short)v); break; }
				}
			}
		} else {
			if (!emplace) {
				if (sp % 2) { const KV x(k, v); it = c.insert(hint, x); }
				else it = c.insert(hint, KV(k, v));
			} else {
				switch (sp % 3) {
				case 0: it = c.emplace_hint(hint, KV(k, v)); break;
				case 1: it = c.emplace_hint(hint, k, v); break;
				default: { const KV x(k, v); it = c.emplace_hint(hint, x); break; }
				}
			}
		}
		return fmt("p=%zu", rank(c, it));
	}
	static std::string insr(C& c, const std::vector<P>& ys) {
		std::vector<typename E::value> src; for (auto& p : ys) src.push_back(E::make(p.first, p.second));
		c.insert(src.begin(), src.end());
		return "ok";
	}
	static std::string insl(C& c, const std::vector<P>& ys) {
		switch (ys.size()) {
		case 0: c.insert(std::initializer_list<typename E::value>{}); break;
		case 1: c.insert({ E::make(ys[0].first, ys[0].second) }); break;
		case 2: c.insert({ E::make(ys[0].first, ys[0].second), E::make(ys[1].first, ys[1].second) }); break;
		default: c.insert({ E::make(ys[0].first, ys[0].second), E::make(ys[1].first, ys[1].second), E::make(ys[2].first, ys[2].second) }); break;
		}
		return "ok";
	}
	static std::string asl(C& c, const std::vector<P>& ys) {
		switch (ys.size()) {
		case 0: c = std::initializer_list<typename E::value>{}; break;
		case 1: c = { E::make(ys[0].first, ys[0].second) }; break;
		case 2: c = { E::make(ys[0].first, ys[0].second), E::make(ys[1].first, ys[1].second) }; break;
		default: c = { E::make(ys[0].first, ys[0].second), E::make(ys[1].first, ys[1].second), E::make(ys[2].first, ys[2].second) }; break;
		}
		return "ok";
	}
	// rk: the key_type&& overload (a prvalue int), else the const key_type& overload
	static std::string tryE(C& c, int k, int v, bool rk = false) { if constexpr (isMap && !isMulti) { const int ck = k; auto r = rk ? c.try_emplace(int(k), v) : c.try_emplace(ck, v); return fmt("p=%zu %d", rank(c, r.first), (int)r.second); } else return ""; }
	static std::string tryH(C& c, size_t h, int k, int v, bool rk = false) { if constexpr (isMap && !isMulti) { const int ck = k; auto it = rk ? c.try_emplace(at(c, h), int(k), v) : c.try_emplace(at(c, h), ck, v); return fmt("p=%zu", rank(c, it)); } else return ""; }
	static std::string ioa(C& c, int k, int v, bool rk = false) { if constexpr (isMap && !isMulti) { const int ck = k; auto r = rk ? c.insert_or_assign(int(k), v) : c.insert_or_assign(ck, v); return fmt("p=%zu %d", rank(c, r.first), (int)r.second); } else return ""; }
	static std::string ioaH(C& c, size_t h, int k, int v, bool rk = false) { if constexpr (isMap && !isMulti) { const int ck = k; auto it = rk ? c.insert_or_assign(at(c, h), int(k), v) : c.insert_or_assign(at(c, h), ck, v); return fmt("p=%zu", rank(c, it)); } else return ""; }
	static std::string idx(C& c, int k, bool rk = false) { if constexpr (isMap && !isMulti) { const int ck = k; int x = rk ? c[int(k)] : c[ck]; return fmt("v=%d", x); } else return ""; }
	static std::string idxw(C& c, int k, int v, bool rk = false) { if constexpr (isMap && !isMulti) { const int ck = k; if (rk) c[int(k)] = v; else c[ck] = v; return "ok"; } else return ""; }
	static std::string atKey(C& c, int k) {
		if constexpr (isMap && !isMulti) {
			try { int x = c.at(k); const C& cc = c; int y = cc.at(k); return x == y ? fmt("v=%d", x) : std::string("const/non-const at differ"); }
			catch (const std::out_of_range&) { return "E:out_of_range"; }
		} else return "";
	}
	static std::string find(const C& c, int k) { return fmt("p=%zu", rank(c, c.find(E::key(k)))); }
	// the non-const overloads (iterator results)
	static std::string findN(C& c, int k) { return fmt("p=%zu", rank(c, c.find(E::key(k)))); }
	static std::string lbN(C& c, int k) { return fmt("p=%zu", rank(c, c.lower_bound(E::key(k)))); }
	static std::string ubN(C& c, int k) { return fmt("p=%zu", rank(c, c.upper_bound(E::key(k)))); }
	static std::string eqrN(C& c, int k) { auto r = c.equal_range(E::key(k)); return fmt("r=%zu %zu", rank(c, r.first), rank(c, r.second)); }
	// erase(iterator) (for the maps a different overload than erase(const_iterator))
	static std::string erpN(C& c, size_t r) { typename C::iterator i = c.begin(); std::advance(i, (ptrdiff_t)r); auto it = c.erase(i); return fmt("p=%zu", rank(c, it)); }
	static std::string cnt(const C& c, int k) { return fmt("n=%zu", (size_t)c.count(E::key(k))); }
	static std::string has(const C& c, int k) {
		if constexpr (HasContains<C>::value) return fmt("f=%d", (int)c.contains(E::key(k)));
		else return fmt("f=%d", (int)(c.find(E::key(k)) != c.end()));
	}
	static std::string lb(const C& c, int k) { return fmt("p=%zu", rank(c, c.lower_bound(E::key(k)))); }
	static std::string ub(const C& c, int k) { return fmt("p=%zu", rank(c, c.upper_bound(E::key(k)))); }
	static std::string eqr(const C& c, int k) { auto r = c.equal_range(E::key(k)); return fmt("r=%zu %zu", rank(c, r.first), rank(c, r.second)); }
	static std::string erk(C& c, int k) { return fmt("n=%zu", (size_t)c.erase(E::key(k))); }
	static std::string erp(C& c, size_t r) { auto it = c.erase(at(c, r)); return fmt("p=%zu", rank(c, it)); }
	static std::string err(C& c, size_t r1, size_t r2) { auto it = c.erase(at(c, r1), at(c, r2)); return fmt("p=%zu", rank(c, it)); }
	static std::string erif(C& c, int m, int r) {
		size_t n = 0;
		if constexpr (isMomo) {
			if constexpr (isMap) n = erase_if(c, [m, r](typename C::const_reference ref) { return ref.first % m == r; });
			else n = erase_if(c, [m, r](const KV& x) { return x.k % m == r; });
		} else {
			for (auto it = c.begin(); it != c.end(); ) { if (E::get(it).first % m == r) { it = c.erase(it); ++n; } else ++it; }
		}
		return fmt("n=%zu", n);
	}
	static std::string exk(C& c, int k, NodeSlot& n) { n.reset(); n.emplace(c.extract(E::key(k))); return "node=" + nodeStr(n); }
	static std::string exp(C& c, size_t r, NodeSlot& n) { n.reset(); n.emplace(c.extract(at(c, r))); return "node=" + nodeStr(n); }
	static std::string insn(C& c, NodeSlot& n) {
		if (!n) n.emplace();
		if constexpr (isMulti) {
			bool was = !n->empty();
			auto it = c.insert(std::move(*n));
			std::string r = fmt("p=%zu %d node=", rank(c, it), (int)was);
			n.reset(); n.emplace();
			return r + "empty";
		} else {
			auto res = c.insert(std::move(*n));
			std::string r = fmt("p=%zu %d node=", rank(c, res.position), (int)res.inserted);
			n.reset(); n.emplace(std::move(res.node));
			return r + nodeStr(n);
		}
	}
	static std::string insnh(C& c, size_t h, NodeSlot& n) {
		if (!n) n.emplace();
		bool was = !n->empty();
		auto it = c.insert(at(c, h), std::move(*n));
		// the handle is inspected after the call: empty if inserted, unchanged if refused
		return fmt("p=%zu %d node=%s", rank(c, it), (int)(was && n->empty()), nodeStr(n).c_str());
	}
	static std::string cmp(const C& a, const C& b) {
		return fmt("c=%d %d %d %d %d %d", (int)(a == b), (int)(a != b), (int)(a < b), (int)(a <= b), (int)(a > b), (int)(a >= b));
	}
	// rbegin() … rend(), through the non-const / const / c-prefixed members
	static std::string rcontents(C& c, unsigned how) {
		const C& cc = c;
		std::vector<P> v;
		switch (how % 3) {
		case 0: for (auto it = c.rbegin(); it != c.rend(); ++it) v.push_back(E::get(it)); break;
		case 1: for (auto it = cc.rbegin(); it != cc.rend(); ++it) v.push_back(E::get(it)); break;
		default: for (auto it = c.crbegin(); it != c.crend(); ++it) v.push_back(E::get(it)); break;
		}
		return itemsStr(v);
	}
	static std::vector<typename E::value> values(const std::vector<P>& ys) { std::vector<typename E::value> src; for (auto& p : ys) src.push_back(E::make(p.first, p.second)); return src; }
	static std::string crange(C& c, const std::vector<P>& ys, unsigned ik, unsigned form) { constructRange(c, values(ys), ik, form, typename C::key_compare()); return "ok"; }
	static std::string clist(C& c, const std::vector<P>& ys, unsigned form) { constructList(c, values(ys), form, typename C::key_compare()); return "ok"; }
};

template<typename M, typename S, bool isMap, bool isMulti>
static void runOrderedHist(Ctx& c, Rng& rng, const char* kind, unsigned runs, unsigned opsPerRun)
{
	typedef HO<M, isMap, isMulti, true> OM;
	typedef HO<S, isMap, isMulti, false> OS;
	Suite sw(c, fmt("hist_%s_wrap", kind), fmt("model stdhist kind=%s side=wrap", kind));
	Suite ss(c, fmt("hist_%s_spec", kind), fmt("model stdhist kind=%s side=spec", kind));
	for (unsigned run = 0; run < runs; ++run) {
		Hist R(c, sw, ss, kind);
		unsigned mode = (unsigned)rng.below(5);
		static const int ranges[] = { 6, 24, 120, 700 };
		int range = ranges[rng.below(4)];
		if (mode == 3 && range < 12) range = 24;
		KeyGen kg(rng, mode, range);
		static const size_t targets[] = { 0, 8, 30, 90 };
		size_t target = targets[rng.below(4)];
		R.comment(fmt("run %u keys=%s range=%d target=%zu", run, keyModeName(mode), range, target));
		R.reset();
		M ma, mb; S sa, sb;
		typename OM::NodeSlot nm; typename OS::NodeSlot ns;
		int nextTag = 1;
		for (unsigned step = 0; step < opsPerRun && !R.diverged; ++step) {
			bool grow = ma.size() < target && rng.chance(2, 3);
			bool onA = grow || rng.chance(3, 4);
			M& m = onA ? ma : mb; S& st = onA ? sa : sb;
			M& mo = onA ? mb : ma; S& so = onA ? sb : sa;
			const char* cn = onA ? "a" : "b";
			size_t n = m.size();
			int k = kg.any();
			int v = nextTag++;
			auto hintFor = [&](int key) -> size_t {
				size_t lo = OS::rank(st, st.lower_bound(OS::E::key(key))), hi = OS::rank(st, st.upper_bound(OS::E::key(key)));
				switch (rng.below(8)) {
				case 0: return lo;
				case 1: return hi;
				case 2: return lo > 0 ? lo - 1 : 0;
				case 3: return hi < n ? hi + 1 : n;
				case 4: return 0;
				case 5: return n;
				case 6: return lo + (size_t)rng.below(hi - lo + 1);
				default: return (size_t)rng.below(n + 1);
				}
			};
			auto someItems = [&]() { std::vector<P> ys; size_t cnt = (size_t)rng.below(4); for (size_t i = 0; i < cnt; ++i) ys.push_back(P(kg.any(), nextTag++)); return ys; };
			unsigned op = (unsigned)rng.below(113);
			if (op >= 110) op = 108;	// reverse traversal / construction from a range or list
			if (grow) op = (unsigned)rng.below(34);
			else if (n > target + 30 && op < 40) op = 62 + op % 12;
			unsigned sp = (unsigned)rng.below(60); bool rk = rng.chance(1, 2), nc = rng.chance(1, 2);
			if (op < 12) { bool e = rng.chance(1, 2); c.stats.count(fmt("hist.spelling.%s.%s%u", kind, e ? "emp" : "ins", sp % (isMap ? (e ? 5 : 4) : (e ? 3 : 2)))); R.step(fmt("%s %s %d %d", e ? "emp" : "ins", cn, k, v), OM::ins(m, k, v, e, sp), OS::ins(st, k, v, e, sp)); }
			else if (op < 28) {
				bool e = rng.chance(1, 2); size_t h = hintFor(k);
				R.step(fmt("%s %s %zu %d %d", e ? "emph" : "insh", cn, h, k, v), OM::insh(m, h, k, v, e, sp), OS::insh(st, h, k, v, e, sp));
			}
			else if (op < 31) { auto ys = someItems(); R.step(fmt("insr %s%s", cn, listArg(ys).c_str()), OM::insr(m, ys), OS::insr(st, ys)); }
			else if (op < 34) { auto ys = someItems(); R.step(fmt("insl %s%s", cn, listArg(ys).c_str()), OM::insl(m, ys), OS::insl(st, ys)); }
			else if (op < 44 && isMap && !isMulti) {
				switch (rng.below(7)) {
				case 0: R.step(fmt("try %s %d %d", cn, k, v), OM::tryE(m, k, v, rk), OS::tryE(st, k, v, rk)); break;
				case 1: { size_t h = hintFor(k); R.step(fmt("tryh %s %zu %d %d", cn, h, k, v), OM::tryH(m, h, k, v, rk), OS::tryH(st, h, k, v, rk)); break; }
				case 2: R.step(fmt("ioa %s %d %d", cn, k, v), OM::ioa(m, k, v, rk), OS::ioa(st, k, v, rk)); break;
				case 3: { size_t h = hintFor(k); R.step(fmt("ioah %s %zu %d %d", cn, h, k, v), OM::ioaH(m, h, k, v, rk), OS::ioaH(st, h, k, v, rk)); break; }
				case 4: R.step(fmt("idx %s %d", cn, k), OM::idx(m, k, rk), OS::idx(st, k, rk)); break;
				case 5: R.step(fmt("idxw %s %d %d", cn, k, v), OM::idxw(m, k, v, rk), OS::idxw(st, k, v, rk)); break;
				default: R.step(fmt("at %s %d", cn, k), OM::atKey(m, k), OS::atKey(st, k)); break;
				}
				if (rk) c.stats.count("hist.spelling.rvalue_key");
			}
			else if (op < 62 && nc) {
				// the same lookups through the non-const overloads
				c.stats.count("hist.spelling.nonconst_lookup");
				if (op < 48) R.step(fmt("find %s %d", cn, k), OM::findN(m, k), OS::findN(st, k));
				else if (op < 51) R.step(fmt("cnt %s %d", cn, k), OM::cnt(m, k), OS::cnt(st, k));
				else if (op < 53) R.step(fmt("has %s %d", cn, k), OM::has(m, k), OS::has(st, k));
				else if (op < 56) R.step(fmt("lb %s %d", cn, k), OM::lbN(m, k), OS::lbN(st, k));
				else if (op < 59) R.step(fmt("ub %s %d", cn, k), OM::ubN(m, k), OS::ubN(st, k));
				else R.step(fmt("eqr %s %d", cn, k), OM::eqrN(m, k), OS::eqrN(st, k));
			}
			else if (op < 48) R.step(fmt("find %s %d", cn, k), OM::find(m, k), OS::find(st, k));
			else if (op < 51) R.step(fmt("cnt %s %d", cn, k), OM::cnt(m, k), OS::cnt(st, k));
			else if (op < 53) R.step(fmt("has %s %d", cn, k), OM::has(m, k), OS::has(st, k));
			else if (op < 56) R.step(fmt("lb %s %d", cn, k), OM::lb(m, k), OS::lb(st, k));
			else if (op < 59) R.step(fmt("ub %s %d", cn, k), OM::ub(m, k), OS::ub(st, k));
			else if (op < 62) R.step(fmt("eqr %s %d", cn, k), OM::eqr(m, k), OS::eqr(st, k));
			else if (op < 66) R.step(fmt("erk %s %d", cn, k), OM::erk(m, k), OS::erk(st, k));
			else if (op < 70) { if (n == 0) continue; size_t r = (size_t)rng.below(n); if (nc) R.step(fmt("erp %s %zu", cn, r), OM::erpN(m, r), OS::erpN(st, r)); else R.step(fmt("erp %s %zu", cn, r), OM::erp(m, r), OS::erp(st, r)); }
			else if (op < 75) {
				size_t r1 = (size_t)rng.below(n + 1), r2 = r1 + (size_t)rng.below(std::min<size_t>(n - r1, rng.chance(1, 8) ? n : 6) + 1);
				if (rng.chance(1, 10)) { r1 = 0; r2 = n; }
				c.stats.count(r1 == r2 ? "hist.err.empty" : (r1 == 0 && r2 == n ? "hist.err.whole" : "hist.err.part"));
				R.step(fmt("err %s %zu %zu", cn, r1, r2), OM::err(m, r1, r2), OS::err(st, r1, r2));
			}
			else if (op < 78) R.step(fmt("exk %s %d", cn, k), OM::exk(m, k, nm), OS::exk(st, k, ns));
			else if (op < 80) { if (n == 0) continue; size_t r = (size_t)rng.below(n); R.step(fmt("exp %s %zu", cn, r), OM::exp(m, r, nm), OS::exp(st, r, ns)); }
			else if (op < 84) { std::string a = OM::insn(m, nm); if (a.find(" 0 node=") != std::string::npos && a.find("empty") == std::string::npos) c.stats.count("hist.node.refused_kept"); R.step(fmt("insn %s", cn), a, OS::insn(st, ns)); }
			else if (op < 89) {
				if ((!nm || nm->empty()) && !mo.empty() && rng.chance(3, 4)) {
					const char* on = onA ? "b" : "a";
					size_t r = (size_t)rng.below(mo.size());
					R.step(fmt("exp %s %zu", on, r), OM::exp(mo, r, nm), OS::exp(so, r, ns));
				}
				int nk = (nm && !nm->empty()) ? OM::E::node(*nm).first : k;
				size_t h = hintFor(nk);
				std::string a = OM::insnh(m, h, nm);
				if (a.find(" 0 node=") != std::string::npos && a.find("empty") == std::string::npos) c.stats.count("hist.node.hinted_refused_kept");
				R.step(fmt("insnh %s %zu", cn, h), a, OS::insnh(st, h, ns));
			}
			else if (op < 90) { nm.reset(); ns.reset(); R.step("dropnode", "ok", "ok"); }
			else if (op < 93) { m.merge(mo); st.merge(so); R.step(fmt("merge %s", cn), "ok", "ok"); }
			else if (op < 95) { if (rng.chance(1, 2)) { ma.swap(mb); sa.swap(sb); } else { swap(ma, mb); swap(sa, sb); } R.step("swap", "ok", "ok"); }
			else if (op < 96) { m = mo; st = so; R.step(fmt("copy %s", cn), "ok", "ok"); }
			else if (op < 97) { m = std::move(mo); st = std::move(so); recreateEmpty(mo); recreateEmpty(so); R.step(fmt("move %s", cn), "ok", "ok"); }
			else if (op < 98) { recreateCopy(m, mo); recreateCopy(st, so); R.step(fmt("ccopy %s", cn), "ok", "ok"); }
			else if (op < 99) { recreateMove(m, mo); recreateMove(st, so); R.step(fmt("cmove %s", cn), "ok", "ok"); }
			else if (op < 100) { auto ys = someItems(); R.step(fmt("asl %s%s", cn, listArg(ys).c_str()), OM::asl(m, ys), OS::asl(st, ys)); }
			else if (op < 104) R.step("cmp", OM::cmp(ma, mb), OS::cmp(sa, sb));
			else if (op < 105) { int mm = 2 + (int)rng.below(4), rr = (int)rng.below((uint64_t)mm); R.step(fmt("erif %s %d %d", cn, mm, rr), OM::erif(m, mm, rr), OS::erif(st, mm, rr)); }
			else if (op < 106) { if (rng.chance(1, 3)) { m.clear(); st.clear(); R.step(fmt("clear %s", cn), "ok", "ok"); } }
			else if (op < 107) R.step(fmt("size %s", cn), fmt("n=%zu", m.size()), fmt("n=%zu", st.size()));
			else if (op < 108) R.step(fmt("empty %s", cn), fmt("f=%d", (int)m.empty()), fmt("f=%d", (int)st.empty()));
			else if (op < 109) {
				switch (rng.below(4)) {
				case 0: { unsigned how = (unsigned)rng.below(3); R.step(fmt("rdump %s", cn), OM::rcontents(m, how), OS::rcontents(st, how)); break; }
				case 1: { auto ys = someItems(); if (rng.chance(1, 3)) for (int i = 0; i < 20; ++i) ys.push_back(P(kg.any(), nextTag++)); unsigned ik = (unsigned)rng.below(3), form = (unsigned)rng.below(4); R.step(fmt("crange %s%s", cn, listArg(ys).c_str()), OM::crange(m, ys, ik, form), OS::crange(st, ys, ik, form)); break; }
				case 2: { auto ys = someItems(); unsigned form = (unsigned)rng.below(3); R.step(fmt("clist %s%s", cn, listArg(ys).c_str()), OM::clist(m, ys, form), OS::clist(st, ys, form)); break; }
				default: R.step(fmt("dump %s", cn), itemsStr(OM::contents(m)), itemsStr(OS::contents(st))); break;
				}
			}
			else R.step(fmt("dump %s", cn), itemsStr(OM::contents(m)), itemsStr(OS::contents(st)));
			if (step % 16 == 15 && !R.diverged) {
				R.step("dump a", itemsStr(OM::contents(ma)), itemsStr(OS::contents(sa)));
				R.step("dump b", itemsStr(OM::contents(mb)), itemsStr(OS::contents(sb)));
			}
		}
		if (R.diverged) { R.comment("run abandoned after a disagreement"); continue; }
		R.step("dump a", itemsStr(OM::contents(ma)), itemsStr(OS::contents(sa)));
		R.step("dump b", itemsStr(OM::contents(mb)), itemsStr(OS::contents(sb)));
		R.step("dropnode", "ok", "ok");
		c.stats.nontrivial(fmt("hist_%s run=%u keys=%s range=%d", kind, run, keyModeName(mode), range));
		if (run < 1) c.stats.sample(fmt("hist_%s: %s", kind, R.tail().substr(0, 300).c_str()));
	}
}

// ================================================================ vector
static std::string valsStr(const std::vector<int>& v) { std::string r = fmt("%zu:", v.size()); for (int x : v) r += fmt(" %d", x); return r; }
template<typename V> static std::string vecCmpStr(const V& a, const V& b) {
	return fmt("c=%d %d %d %d %d %d", (int)(a == b), (int)(a != b), (int)(a < b), (int)(a <= b), (int)(a > b), (int)(a >= b));
}
template<typename V> static std::string vecAtStr(V& v, size_t i) {
	try { int x = v.at(i); const V& cv = v; int y = cv.at(i); return x == y ? fmt("v=%d", x) : std::string("const/non-const at differ"); }
	catch (const std::out_of_range&) { return "E:out_of_range"; }
}
template<typename V, bool isMomo> static size_t vecEraseVal(V& v, int x) {
	if constexpr (isMomo) return erase(v, x);
	else { size_t n0 = v.size(); v.erase(std::remove(v.begin(), v.end(), x), v.end()); return n0 - v.size(); }
}

static void runVectorHist(Ctx& c, Rng& rng, unsigned runs, unsigned opsPerRun)
{
	typedef momo::stdish::vector<int> M; typedef std::vector<int> S;
	Suite sw(c, "hist_vec_wrap", "model stdhist kind=vec side=wrap");
	Suite ss(c, "hist_vec_spec", "model stdhist kind=vec side=spec");
	for (unsigned run = 0; run < runs; ++run) {
		Hist R(c, sw, ss, "vec");
		R.comment(fmt("run %u", run)); R.reset();
		M ma, mb; S sa, sb;
		for (unsigned step = 0; step < opsPerRun && !R.diverged; ++step) {
			bool onA = rng.chance(3, 4);
			M& m = onA ? ma : mb; S& st = onA ? sa : sb; M& mo = onA ? mb : ma; S& so = onA ? sb : sa;
			const char* cn = onA ? "a" : "b";
			size_t n = m.size();
			int v = (int)rng.below(50);
			auto idxOf = [&](auto& cont, auto it) { return (size_t)(it - cont.begin()); };
			unsigned op = (unsigned)rng.below(100);
			if (n > 60 && op < 36) op = 40;
			if (op < 16) { if (rng.chance(1, 2)) { m.push_back(v); st.push_back(v); } else { m.emplace_back(v); st.emplace_back(v); } R.step(fmt("push %s %d", cn, v), "ok", "ok"); }
			else if (op < 20) { if (n == 0) continue; m.pop_back(); st.pop_back(); R.step(fmt("pop %s", cn), "ok", "ok"); }
			else if (op < 26) {
				size_t i = (size_t)rng.below(n + 1);
				size_t rm, rs;
				if (rng.chance(1, 2)) { rm = idxOf(m, m.insert(m.begin() + (ptrdiff_t)i, v)); rs = idxOf(st, st.insert(st.begin() + (ptrdiff_t)i, v)); }
				else { rm = idxOf(m, m.emplace(m.begin() + (ptrdiff_t)i, v)); rs = idxOf(st, st.emplace(st.begin() + (ptrdiff_t)i, v)); }
				R.step(fmt("ins %s %zu %d", cn, i, v), fmt("p=%zu", rm), fmt("p=%zu", rs));
			}
			else if (op < 31) {
				size_t i = (size_t)rng.below(n + 1), cnt = (size_t)rng.below(4);
				size_t rm = idxOf(m, m.insert(m.begin() + (ptrdiff_t)i, cnt, v)), rs = idxOf(st, st.insert(st.begin() + (ptrdiff_t)i, cnt, v));
				if (cnt == 0) c.stats.count("hist.vec.insert_zero_length");
				R.step(fmt("insn %s %zu %zu %d", cn, i, cnt, v), fmt("p=%zu", rm), fmt("p=%zu", rs));
			}
			else if (op < 36) {
				size_t i = (size_t)rng.below(n + 1), cnt = (size_t)rng.below(4);
				std::vector<int> src; std::string arg; for (size_t j = 0; j < cnt; ++j) { src.push_back((int)rng.below(50)); arg += fmt(" %d", src.back()); }
				size_t rm, rs;
				if (cnt <= 2 && rng.chance(1, 2)) {
					if (cnt == 0) { rm = idxOf(m, m.insert(m.begin() + (ptrdiff_t)i, std::initializer_list<int>{})); rs = idxOf(st, st.insert(st.begin() + (ptrdiff_t)i, std::initializer_list<int>{})); }
					else if (cnt == 1) { rm = idxOf(m, m.insert(m.begin() + (ptrdiff_t)i, { src[0] })); rs = idxOf(st, st.insert(st.begin() + (ptrdiff_t)i, { src[0] })); }
					else { rm = idxOf(m, m.insert(m.begin() + (ptrdiff_t)i, { src[0], src[1] })); rs = idxOf(st, st.insert(st.begin() + (ptrdiff_t)i, { src[0], src[1] })); }
				} else {
					// iterator category: random access, forward, single-pass input (by reference / by value)
					switch (rng.below(4)) {
					case 0: rm = idxOf(m, m.insert(m.begin() + (ptrdiff_t)i, src.begin(), src.end())); rs = idxOf(st, st.insert(st.begin() + (ptrdiff_t)i, src.begin(), src.end())); break;
					case 1: { std::forward_list<int> fl(src.begin(), src.end()); rm = idxOf(m, m.insert(m.cbegin() + (ptrdiff_t)i, fl.begin(), fl.end())); rs = idxOf(st, st.insert(st.cbegin() + (ptrdiff_t)i, fl.begin(), fl.end())); c.stats.count("hist.vec.insert_forward_iterators"); break; }
					case 2: rm = idxOf(m, m.insert(m.cbegin() + (ptrdiff_t)i, InputIt<int>(src, 0), InputIt<int>(src, src.size()))); rs = idxOf(st, st.insert(st.cbegin() + (ptrdiff_t)i, InputIt<int>(src, 0), InputIt<int>(src, src.size()))); c.stats.count("hist.vec.insert_input_iterators"); break;
					default: rm = idxOf(m, m.insert(m.cbegin() + (ptrdiff_t)i, InputIt<int, true>(src, 0), InputIt<int, true>(src, src.size()))); rs = idxOf(st, st.insert(st.cbegin() + (ptrdiff_t)i, InputIt<int, true>(src, 0), InputIt<int, true>(src, src.size()))); c.stats.count("hist.vec.insert_input_iterators"); break;
					}
				}
				R.step(fmt("insr %s %zu%s", cn, i, arg.c_str()), fmt("p=%zu", rm), fmt("p=%zu", rs));
			}
			else if (op < 42) { if (n == 0) continue; size_t i = (size_t)rng.below(n); size_t rm = idxOf(m, m.erase(m.begin() + (ptrdiff_t)i)), rs = idxOf(st, st.erase(st.begin() + (ptrdiff_t)i)); R.step(fmt("erp %s %zu", cn, i), fmt("p=%zu", rm), fmt("p=%zu", rs)); }
			else if (op < 50) {
				size_t i = (size_t)rng.below(n + 1), j = i + (size_t)rng.below(std::min<size_t>(n - i, 4) + 1);
				size_t rm = idxOf(m, m.erase(m.begin() + (ptrdiff_t)i, m.begin() + (ptrdiff_t)j)), rs = idxOf(st, st.erase(st.begin() + (ptrdiff_t)i, st.begin() + (ptrdiff_t)j));
				if (i == j) c.stats.count("hist.vec.erase_zero_length");
				R.step(fmt("err %s %zu %zu", cn, i, j), fmt("p=%zu", rm), fmt("p=%zu", rs));
			}
			else if (op < 53) { size_t a = vecEraseVal<M, true>(m, v), b = vecEraseVal<S, false>(st, v); R.step(fmt("erval %s %d", cn, v), fmt("n=%zu", a), fmt("n=%zu", b)); }
			else if (op < 56) { size_t k = (size_t)rng.below(n + 6); m.resize(k); st.resize(k); R.step(fmt("resize %s %zu", cn, k), "ok", "ok"); }
			else if (op < 59) { size_t k = (size_t)rng.below(n + 6); m.resize(k, v); st.resize(k, v); R.step(fmt("resizev %s %zu %d", cn, k, v), "ok", "ok"); }
			else if (op < 61) { size_t k = (size_t)rng.below(8); m.assign(k, v); st.assign(k, v); R.step(fmt("assign %s %zu %d", cn, k, v), "ok", "ok"); }
			else if (op < 64) {
				size_t cnt = (size_t)rng.below(4);
				std::vector<int> src; std::string arg; for (size_t j = 0; j < cnt; ++j) { src.push_back((int)rng.below(50)); arg += fmt(" %d", src.back()); }
				switch (rng.below(5)) {
				case 3: { std::forward_list<int> fl(src.begin(), src.end()); m.assign(fl.begin(), fl.end()); st.assign(fl.begin(), fl.end()); break; }
				case 4: m.assign(InputIt<int>(src, 0), InputIt<int>(src, src.size())); st.assign(InputIt<int>(src, 0), InputIt<int>(src, src.size())); c.stats.count("hist.vec.assign_input_iterators"); break;
				case 0: m.assign(src.begin(), src.end()); st.assign(src.begin(), src.end()); break;
				case 1: if (cnt == 1) { m.assign({ src[0] }); st.assign({ src[0] }); } else { m.assign(src.begin(), src.end()); st.assign(src.begin(), src.end()); } break;
				default: if (cnt == 2) { m = { src[0], src[1] }; st = { src[0], src[1] }; } else { m.assign(src.begin(), src.end()); st.assign(src.begin(), src.end()); } break;
				}
				R.step(fmt("assignr %s%s", cn, arg.c_str()), "ok", "ok");
			}
			else if (op < 70) { size_t i = (size_t)rng.below(n + 3); R.step(fmt("at %s %zu", cn, i), vecAtStr(m, i), vecAtStr(st, i)); }
			else if (op < 74) {
				if (n == 0) continue;
				size_t i = (size_t)rng.below(n); const M& cm = m; const S& cs = st;
				// c[i] / const c[i] / data()[i] / const data()[i]: one abstract call
				switch (rng.below(4)) {
				case 0: R.step(fmt("idx %s %zu", cn, i), fmt("v=%d", m[i]), fmt("v=%d", st[i])); break;
				case 1: R.step(fmt("idx %s %zu", cn, i), fmt("v=%d", cm[i]), fmt("v=%d", cs[i])); break;
				case 2: R.step(fmt("idx %s %zu", cn, i), fmt("v=%d", m.data()[i]), fmt("v=%d", st.data()[i])); break;
				default: R.step(fmt("idx %s %zu", cn, i), fmt("v=%d", cm.data()[i]), fmt("v=%d", cs.data()[i])); break;
				}
			}
			else if (op < 76) { if (n == 0) continue; const M& cm = m; const S& cs = st; if (rng.chance(1, 2)) R.step(fmt("front %s", cn), fmt("v=%d", m.front()), fmt("v=%d", st.front())); else R.step(fmt("front %s", cn), fmt("v=%d", cm.front()), fmt("v=%d", cs.front())); }
			else if (op < 78) { if (n == 0) continue; const M& cm = m; const S& cs = st; if (rng.chance(1, 2)) R.step(fmt("back %s", cn), fmt("v=%d", m.back()), fmt("v=%d", st.back())); else R.step(fmt("back %s", cn), fmt("v=%d", cm.back()), fmt("v=%d", cs.back())); }
			else if (op < 79) { m.clear(); st.clear(); R.step(fmt("clear %s", cn), "ok", "ok"); }
			else if (op < 81) R.step(fmt("size %s", cn), fmt("n=%zu", m.size()), fmt("n=%zu", st.size()));
			else if (op < 82) R.step(fmt("empty %s", cn), fmt("f=%d", (int)m.empty()), fmt("f=%d", (int)st.empty()));
			else if (op < 84) { if (rng.chance(1, 2)) { ma.swap(mb); sa.swap(sb); } else { swap(ma, mb); swap(sa, sb); } R.step("swap", "ok", "ok"); }
			else if (op < 85) { m = mo; st = so; R.step(fmt("copy %s", cn), "ok", "ok"); }
			else if (op < 86) { m = std::move(mo); st = std::move(so); recreateEmpty(mo); recreateEmpty(so); R.step(fmt("move %s", cn), "ok", "ok"); }
			else if (op < 87) { recreateCopy(m, mo); recreateCopy(st, so); R.step(fmt("ccopy %s", cn), "ok", "ok"); }
			else if (op < 88) { recreateMove(m, mo); recreateMove(st, so); R.step(fmt("cmove %s", cn), "ok", "ok"); }
			else if (op < 92) R.step("cmp", vecCmpStr(ma, mb), vecCmpStr(sa, sb));
			else if (op < 96) {
				switch (rng.below(5)) {
				case 0: {
					const M& cm = m; const S& cs = st; std::vector<int> a, b;
					switch (rng.below(3)) {
					case 0: for (auto it = m.rbegin(); it != m.rend(); ++it) a.push_back(*it); for (auto it = st.rbegin(); it != st.rend(); ++it) b.push_back(*it); break;
					case 1: for (auto it = cm.rbegin(); it != cm.rend(); ++it) a.push_back(*it); for (auto it = cs.rbegin(); it != cs.rend(); ++it) b.push_back(*it); break;
					default: for (auto it = m.crbegin(); it != m.crend(); ++it) a.push_back(*it); for (auto it = st.crbegin(); it != st.crend(); ++it) b.push_back(*it); break;
					}
					R.step(fmt("rdump %s", cn), valsStr(a), valsStr(b)); break;
				}
				case 1: {
					size_t k = (size_t)rng.below(7);
					m.~M(); st.~S();
					if (v == 0 && rng.chance(1, 2)) { ::new (static_cast<void*>(&m)) M(k); ::new (static_cast<void*>(&st)) S(k); }
					else if (rng.chance(1, 2)) { ::new (static_cast<void*>(&m)) M(k, v); ::new (static_cast<void*>(&st)) S(k, v); }
					else { ::new (static_cast<void*>(&m)) M(k, v, std::allocator<int>()); ::new (static_cast<void*>(&st)) S(k, v, std::allocator<int>()); }
					R.step(fmt("cn %s %zu %d", cn, k, v), "ok", "ok"); break;
				}
				case 2: {
					size_t cnt = (size_t)rng.below(4); if (rng.chance(1, 4)) cnt += 20;
					std::vector<int> src; std::string arg; for (size_t j = 0; j < cnt; ++j) { src.push_back((int)rng.below(50)); arg += fmt(" %d", src.back()); }
					m.~M(); st.~S();
					void* pm = static_cast<void*>(&m); void* ps = static_cast<void*>(&st);
					switch (rng.below(cnt == 2 ? 5 : 4)) {
					case 0: ::new (pm) M(src.begin(), src.end()); ::new (ps) S(src.begin(), src.end()); break;
					case 1: { std::forward_list<int> fl(src.begin(), src.end()); ::new (pm) M(fl.begin(), fl.end()); ::new (ps) S(fl.begin(), fl.end()); break; }
					case 2: ::new (pm) M(InputIt<int>(src, 0), InputIt<int>(src, src.size())); ::new (ps) S(InputIt<int>(src, 0), InputIt<int>(src, src.size())); break;
					case 3: ::new (pm) M(InputIt<int, true>(src, 0), InputIt<int, true>(src, src.size()), std::allocator<int>()); ::new (ps) S(InputIt<int, true>(src, 0), InputIt<int, true>(src, src.size()), std::allocator<int>()); break;
					default: ::new (pm) M({ src[0], src[1] }); ::new (ps) S({ src[0], src[1] }); break;
					}
					R.step(fmt("crange %s%s", cn, arg.c_str()), "ok", "ok"); break;
				}
				case 3: { size_t k = (size_t)rng.below(n + 40); m.reserve(k); st.reserve(k); if (m.capacity() < k) c.fail("C06 hist/vec reserve(%zu): capacity() %zu", k, (size_t)m.capacity()); R.step(fmt("reserve %s %zu", cn, k), "ok", "ok"); break; }
				default: { m.shrink_to_fit(); st.shrink_to_fit(); if (m.capacity() < m.size()) c.fail("C06 hist/vec shrink_to_fit: capacity() < size()"); R.step(fmt("shrink %s", cn), "ok", "ok"); break; }
				}
			}
			else R.step(fmt("dump %s", cn), valsStr(std::vector<int>(m.begin(), m.end())), valsStr(st));
		}
		if (R.diverged) { R.comment("run abandoned after a disagreement"); continue; }
		R.step("dump a", valsStr(std::vector<int>(ma.begin(), ma.end())), valsStr(sa));
		R.step("dump b", valsStr(std::vector<int>(mb.begin(), mb.end())), valsStr(sb));
		c.stats.nontrivial(fmt("hist_vec run=%u", run));
	}
}
#endif // VF_PART == 1

#if VF_PART == 2
// ================================================================ unordered containers with unique keys
#ifndef VF_OPEN
#define VF_OPEN 0
#endif
enum UKind { USET, UMAP };

template<typename C, UKind kind, bool isMomo>
struct HU {
	typedef typename C::node_type Node;
	typedef std::optional<Node> NodeSlot;
	typedef typename C::const_iterator CIt;
	template<typename It> static P get(It it) { if constexpr (kind == USET) return P(it->k, it->v); else return P(it->first, it->second); }
	static auto K(int k) { if constexpr (kind == USET) return KV(k, -1); else return k; }
	static auto make(int k, int v) { if constexpr (kind == USET) return KV(k, v); else return std::pair<const int, int>(k, v); }
	typedef decltype(make(0, 0)) value;
	static P nodeP(const Node& n) { if constexpr (kind == USET) return P(n.value().k, n.value().v); else return P(n.key(), n.mapped()); }
	static std::string nodeStr(const NodeSlot& n) { if (!n || n->empty()) return "empty"; P p = nodeP(*n); return fmt("%d:%d", p.first, p.second); }
	static std::string el(const C& c, CIt it) { if (it == c.end()) return "none"; P p = get(it); return fmt("%d:%d", p.first, p.second); }
	static std::vector<P> sorted(const C& c) { std::vector<P> v; for (auto it = c.begin(); it != c.end(); ++it) v.push_back(get(it)); std::sort(v.begin(), v.end()); return v; }
	// an iterator at the element with key k: by traversal from begin(), or as a lookup result
	static CIt iterTo(const C& c, int k, bool traversal) {
		if (!traversal) return c.find(K(k));
		for (auto it = c.begin(); it != c.end(); ++it) if (get(it).first == k) return it;
		return c.end();
	}
	// `sp`: the C++ spelling of the abstract call (see HO::ins)
	static std::string ins(C& c, int k, int v, bool emplace, unsigned sp = 0) {
		std::pair<typename C::iterator, bool> r;
		if constexpr (kind == UMAP) {
			if (!emplace) {
				switch (sp % 4) {
				case 0: r = c.insert(make(k, v)); break;
				case 1: { const value x(k, v); r = c.insert(x); break; }
				case 2: r = c.insert(std::pair<int, int>(k, v)); break;
				default: { const std::pair<int, int> x(k, v); r = c.insert(x); break; }
				}
			} else {
				switch (sp % 5) {
				case 0: r = c.emplace(k, v); break;
				case 1: r = c.emplace(std::piecewise_construct, std::forward_as_tuple((long)k), std::forward_as_tuple((long)v)); break;	// key built in a buffer
				case 2: r = c.emplace(std::piecewise_construct, std::forward_as_tuple(k), std::forward_as_tuple(v)); break;
				case 3: r = c.emplace(std::pair<int, int>(k, v)); break;
				default: { const int key = k; r = c.emplace(key, (short)v); break; }
				}
			}
		} else {
			if (!emplace) { if (sp % 2) { const KV x(k, v); r = c.insert(x); } else r = c.insert(KV(k, v)); }
			else {
				switch (sp % 3) {
				case 0: r = c.emplace(KV(k, v)); break;
				case 1: r = c.emplace(k, v); break;
				default: { const KV x(k, v); r = c.emplace(x); break; }
				}
			}
		}
		return fmt("e=%s %d", el(c, r.first).c_str(), (int)r.second);
	}
	static std::string insh(C& c, int k, int v, bool emplace, bool hintEnd, unsigned sp = 0) {
		CIt hint = hintEnd ? c.cend() : c.cbegin();
		typename C::iterator it;
		if constexpr (kind == UMAP) {
			if (!emplace) {
				switch (sp % 4) {
				case 0: it = c.insert(hint, make(k, v)); break;
				case 1: { const value x(k, v); it = c.insert(hint, x); break; }
				case 2: it = c.insert(hint, std::pair<int, int>(k, v)); break;
				default: { const std::pair<int, int> x(k, v); it = c.insert(hint, x); break; }
				}
			} else {
				switch (sp % 5) {
				case 0: it = c.emplace_hint(hint, k, v); break;
				case 1: it = c.emplace_hint(hint, std::piecewise_construct, std::forward_as_tuple((long)k), std::forward_as_tuple((long)v)); break;
				case 2: it = c.emplace_hint(hint, std::piecewise_construct, std::forward_as_tuple(k), std::forward_as_tuple(v)); break;
				case 3: it = c.emplace_hint(hint, std::pair<int, int>(k, v)); break;
				default: { const int key = k; it = c.emplace_hint(hint, key, (short)v); break; }
				}
			}
		} else {
			if (!emplace) { if (sp % 2) { const KV x(k, v); it = c.insert(hint, x); } else it = c.insert(hint, KV(k, v)); }
			else {
				switch (sp % 3) {
				case 0: it = c.emplace_hint(hint, KV(k, v)); break;
				case 1: it = c.emplace_hint(hint, k, v); break;
				default: { const KV x(k, v); it = c.emplace_hint(hint, x); break; }
				}
			}
		}
		return fmt("e=%s", el(c, it).c_str());
	}
	static std::string insr(C& c, const std::vector<P>& ys) {
		std::vector<value> src; for (auto& p : ys) src.push_back(make(p.first, p.second));
		c.insert(src.begin(), src.end());
		return "ok";
	}
	static std::string insl(C& c, const std::vector<P>& ys) {
		switch (ys.size()) {
		case 0: c.insert(std::initializer_list<value>{}); break;
		case 1: c.insert({ make(ys[0].first, ys[0].second) }); break;
		case 2: c.insert({ make(ys[0].first, ys[0].second), make(ys[1].first, ys[1].second) }); break;
		default: c.insert({ make(ys[0].first, ys[0].second), make(ys[1].first, ys[1].second), make(ys[2].first, ys[2].second) }); break;
		}
		return "ok";
	}
	static std::string asl(C& c, const std::vector<P>& ys) {
		switch (ys.size()) {
		case 0: c = std::initializer_list<value>{}; break;
		case 1: c = { make(ys[0].first, ys[0].second) }; break;
		case 2: c = { make(ys[0].first, ys[0].second), make(ys[1].first, ys[1].second) }; break;
		default: c = { make(ys[0].first, ys[0].second), make(ys[1].first, ys[1].second), make(ys[2].first, ys[2].second) }; break;
		}
		return "ok";
	}
	// rk: the key_type&& overload (a prvalue int), else the const key_type& overload
	static std::string tryE(C& c, int k, int v, bool hinted, bool rk = false) {
		if constexpr (kind == UMAP) {
			const int ck = k;
			if (hinted) { auto it = rk ? c.try_emplace(c.cbegin(), int(k), v) : c.try_emplace(c.cbegin(), ck, v); return fmt("e=%s", el(c, it).c_str()); }
			auto r = rk ? c.try_emplace(int(k), v) : c.try_emplace(ck, v); return fmt("e=%s %d", el(c, r.first).c_str(), (int)r.second);
		} else return "";
	}
	static std::string ioa(C& c, int k, int v, bool hinted, bool rk = false) {
		if constexpr (kind == UMAP) {
			const int ck = k;
			if (hinted) { auto it = rk ? c.insert_or_assign(c.cend(), int(k), v) : c.insert_or_assign(c.cend(), ck, v); return fmt("e=%s", el(c, it).c_str()); }
			auto r = rk ? c.insert_or_assign(int(k), v) : c.insert_or_assign(ck, v); return fmt("e=%s %d", el(c, r.first).c_str(), (int)r.second);
		} else return "";
	}
	static std::string idx(C& c, int k, bool rk = false) { if constexpr (kind == UMAP) { const int ck = k; int x = rk ? c[int(k)] : c[ck]; return fmt("v=%d", x); } else return ""; }
	static std::string idxw(C& c, int k, int v, bool rk = false) { if constexpr (kind == UMAP) { const int ck = k; if (rk) c[int(k)] = v; else c[ck] = v; return "ok"; } else return ""; }
	static std::string atKey(C& c, int k) {
		if constexpr (kind == UMAP) {
			try { int x = c.at(k); const C& cc = c; int y = cc.at(k); return x == y ? fmt("v=%d", x) : std::string("const/non-const at differ"); }
			catch (const std::out_of_range&) { return "E:out_of_range"; }
		} else return "";
	}
	static std::string find(const C& c, int k) { return "e=" + el(c, c.find(K(k))); }
	static std::string findN(C& c, int k) { return "e=" + el(c, c.find(K(k))); }	// non-const overload
	static std::string cnt(const C& c, int k) { return fmt("n=%zu", (size_t)c.count(K(k))); }
	static std::string has(const C& c, int k) {
		if constexpr (HasContains<C>::value) return fmt("f=%d", (int)c.contains(K(k)));
		else return fmt("f=%d", (int)(c.find(K(k)) != c.end()));
	}
	// the elements of equal_range, read without traversing a lookup result (documented deviation): unique keys, so the
	// range is empty or [first]
	static std::string eqr(const C& c, int k) {
		auto r = c.equal_range(K(k));
		std::vector<P> v;
		if constexpr (isMomo) { if (r.first != c.end()) v.push_back(get(r.first)); }
		else { for (auto it = r.first; it != r.second; ++it) v.push_back(get(it)); }
		std::sort(v.begin(), v.end());
		return itemsStr(v);
	}
	static std::string eqrN(C& c, int k) {	// non-const overload
		auto r = c.equal_range(K(k));
		std::vector<P> v;
		if constexpr (isMomo) { if (r.first != c.end()) v.push_back(get(r.first)); }
		else { for (auto it = r.first; it != r.second; ++it) v.push_back(get(it)); }
		std::sort(v.begin(), v.end());
		return itemsStr(v);
	}
	static std::string erk(C& c, int k) { return fmt("n=%zu", (size_t)c.erase(K(k))); }
	static std::string ere(C& c, int k, bool traversal) { c.erase(iterTo(c, k, traversal)); return "ok"; }
	// erase(iterator): a non-const iterator (for the map a different overload than erase(const_iterator))
	static std::string ereN(C& c, int k, bool traversal) {
		typename C::iterator it = c.find(K(k));
		if (traversal) { it = c.begin(); while (get(it).first != k) ++it; }
		c.erase(it); return "ok";
	}
	// erase(first, last) for the three documented shapes. shape 0 empty, 1 single, 2 whole
	static std::string errange(C& c, int shape, int k, bool traversal, unsigned variant) {
		try {
			if (shape == 0) {
				CIt it = c.end();
				if (variant % 3 == 1) it = c.begin();
				else if (variant % 3 == 2 && !c.empty()) it = std::next(c.begin(), (ptrdiff_t)(variant % c.size()));
				c.erase(it, it);
			} else if (shape == 1) {
				CIt first = iterTo(c, k, traversal);
				if constexpr (isMomo) {
					// a lookup result is not traversed: `last` is end() (what ++ on it yields), or next(first) for a traversal iterator
					CIt last = traversal ? std::next(first) : c.end();
					c.erase(first, last);
				} else c.erase(first, std::next(first));
			} else c.erase(c.begin(), c.end());
			return "ok";
		}
		catch (const std::invalid_argument&) { return "E:invalid_argument"; }
	}
	static std::string erif(C& c, int m, int r) {
		size_t n = 0;
		if constexpr (isMomo) {
			if constexpr (kind == USET) n = erase_if(c, [m, r](const KV& x) { return x.k % m == r; });
			else n = erase_if(c, [m, r](typename C::const_reference ref) { return ref.first % m == r; });
		} else {
			for (auto it = c.begin(); it != c.end(); ) { if (get(it).first % m == r) { it = c.erase(it); ++n; } else ++it; }
		}
		return fmt("n=%zu", n);
	}
	static std::string exk(C& c, int k, NodeSlot& n) { n.reset(); n.emplace(c.extract(K(k))); return "node=" + nodeStr(n); }
	static std::string exe(C& c, int k, bool traversal, NodeSlot& n) { n.reset(); n.emplace(c.extract(iterTo(c, k, traversal))); return "node=" + nodeStr(n); }
	static std::string insn(C& c, NodeSlot& n) {
		if (!n) n.emplace();
		auto res = c.insert(std::move(*n));
		std::string r = fmt("e=%s %d node=", el(c, res.position).c_str(), (int)res.inserted);
		n.reset(); n.emplace(std::move(res.node));
		return r + nodeStr(n);
	}
	static std::string insnh(C& c, NodeSlot& n, bool hintEnd) {
		if (!n) n.emplace();
		size_t before = c.size();
		auto it = c.insert(hintEnd ? c.end() : c.begin(), std::move(*n));
		return fmt("e=%s %d node=%s", el(c, it).c_str(), (int)(c.size() != before), nodeStr(n).c_str());
	}
	static std::string cmp(const C& a, const C& b) { return fmt("c=%d %d", (int)(a == b), (int)(a != b)); }
	static std::vector<value> values(const std::vector<P>& ys) { std::vector<value> src; for (auto& p : ys) src.push_back(make(p.first, p.second)); return src; }
	// the second constructor argument of the unordered containers is the bucket count
	static std::string crange(C& c, const std::vector<P>& ys, unsigned ik, unsigned form, size_t bn) { constructRange(c, values(ys), ik, form, bn); return "ok"; }
	static std::string clist(C& c, const std::vector<P>& ys, unsigned form, size_t bn) { constructList(c, values(ys), form, bn); return "ok"; }
};

template<typename M, typename S, UKind kind>
static void runUnorderedHist(Ctx& c, Rng& rng, const char* kindName, unsigned runs, unsigned opsPerRun)
{
	typedef HU<M, kind, true> OM;
	typedef HU<S, kind, false> OS;
	std::string tag = std::string(kindName) + (VF_OPEN ? "_open" : "");
	Suite sw(c, fmt("hist_%s_wrap", tag.c_str()), fmt("model stdhist kind=%s side=wrap", kindName));
	Suite ss(c, fmt("hist_%s_spec", tag.c_str()), fmt("model stdhist kind=%s side=spec", kindName));
	for (unsigned run = 0; run < runs; ++run) {
		Hist R(c, sw, ss, tag);
		unsigned mode = (unsigned)rng.below(5);
		static const int ranges[] = { 5, 16, 90, 600 };
		int range = ranges[rng.below(4)];
		if (mode == 3 && range < 12) range = 16;
		KeyGen kg(rng, mode, range);
		hc().fam = (unsigned)rng.below(8);
		static const size_t targets[] = { 0, 6, 25, 80 };
		size_t target = targets[rng.below(4)];
		R.comment(fmt("run %u keys=%s range=%d hash=%s target=%zu", run, keyModeName(mode), range, hashFamName(hc().fam), target));
		R.reset();
		M ma, mb; S sa, sb;
		typename OM::NodeSlot nm; typename OS::NodeSlot ns;
		int nextTag = 1;
		for (unsigned step = 0; step < opsPerRun && !R.diverged; ++step) {
			bool grow = ma.size() < target && rng.chance(2, 3);
			bool onA = grow || rng.chance(3, 4);
			M& m = onA ? ma : mb; S& st = onA ? sa : sb;
			M& mo = onA ? mb : ma; S& so = onA ? sb : sa;
			const char* cn = onA ? "a" : "b";
			size_t n = m.size();
			int k = kg.any();
			int v = nextTag++;
			auto presentKey = [&](S& cont) -> int { auto lay = OS::sorted(cont); return lay[rng.below(lay.size())].first; };
			auto someItems = [&]() { std::vector<P> ys; size_t cnt = (size_t)rng.below(4); for (size_t i = 0; i < cnt; ++i) ys.push_back(P(kg.any(), nextTag++)); return ys; };
			unsigned op = (unsigned)rng.below(114);
			if (op >= 110) op = 108;	// construction from a range / list, reserve, rehash, max_load_factor
			if (grow) op = (unsigned)rng.below(26);
			else if (n > target + 30 && op < 36) op = 52 + op % 16;
			unsigned sp = (unsigned)rng.below(60); bool rk = rng.chance(1, 2), nc = rng.chance(1, 2);
			if (op < 12) { bool e = rng.chance(1, 2); c.stats.count(fmt("hist.spelling.%s.%s%u", tag.c_str(), e ? "emp" : "ins", sp % (kind == UMAP ? (e ? 5 : 4) : (e ? 3 : 2)))); R.step(fmt("%s %s %d %d", e ? "emp" : "ins", cn, k, v), OM::ins(m, k, v, e, sp), OS::ins(st, k, v, e, sp)); }
			else if (op < 20) { bool e = rng.chance(1, 2), he = rng.chance(1, 2); R.step(fmt("%s %s %d %d", e ? "emph" : "insh", cn, k, v), OM::insh(m, k, v, e, he, sp), OS::insh(st, k, v, e, he, sp)); }
			else if (op < 23) { auto ys = someItems(); R.step(fmt("insr %s%s", cn, listArg(ys).c_str()), OM::insr(m, ys), OS::insr(st, ys)); }
			else if (op < 26) { auto ys = someItems(); R.step(fmt("insl %s%s", cn, listArg(ys).c_str()), OM::insl(m, ys), OS::insl(st, ys)); }
			else if (op < 38 && kind == UMAP) {
				switch (rng.below(8)) {
				case 0: R.step(fmt("try %s %d %d", cn, k, v), OM::tryE(m, k, v, false, rk), OS::tryE(st, k, v, false, rk)); break;
				case 1: R.step(fmt("tryh %s %d %d", cn, k, v), OM::tryE(m, k, v, true, rk), OS::tryE(st, k, v, true, rk)); break;
				case 2: R.step(fmt("ioa %s %d %d", cn, k, v), OM::ioa(m, k, v, false, rk), OS::ioa(st, k, v, false, rk)); break;
				case 3: R.step(fmt("ioah %s %d %d", cn, k, v), OM::ioa(m, k, v, true, rk), OS::ioa(st, k, v, true, rk)); break;
				case 4: R.step(fmt("idx %s %d", cn, k), OM::idx(m, k, rk), OS::idx(st, k, rk)); break;
				case 5: R.step(fmt("idxw %s %d %d", cn, k, v), OM::idxw(m, k, v, rk), OS::idxw(st, k, v, rk)); break;
				default: R.step(fmt("at %s %d", cn, k), OM::atKey(m, k), OS::atKey(st, k)); break;
				}
				if (rk) c.stats.count("hist.spelling.rvalue_key");
			}
			else if (op < 43) { if (nc) R.step(fmt("find %s %d", cn, k), OM::findN(m, k), OS::findN(st, k)); else R.step(fmt("find %s %d", cn, k), OM::find(m, k), OS::find(st, k)); }
			else if (op < 46) R.step(fmt("cnt %s %d", cn, k), OM::cnt(m, k), OS::cnt(st, k));
			else if (op < 48) R.step(fmt("has %s %d", cn, k), OM::has(m, k), OS::has(st, k));
			else if (op < 52) { if (nc) R.step(fmt("eqr %s %d", cn, k), OM::eqrN(m, k), OS::eqrN(st, k)); else R.step(fmt("eqr %s %d", cn, k), OM::eqr(m, k), OS::eqr(st, k)); }
			else if (op < 56) R.step(fmt("erk %s %d", cn, k), OM::erk(m, k), OS::erk(st, k));
			else if (op < 60) {
				if (n == 0) continue;
				int pk = presentKey(st); bool tr = rng.chance(1, 2);
				if (nc) { c.stats.count("hist.spelling.erase_iterator"); R.step(fmt("ere %s %d", cn, pk), OM::ereN(m, pk, tr), OS::ereN(st, pk, tr)); }
				else R.step(fmt("ere %s %d", cn, pk), OM::ere(m, pk, tr), OS::ere(st, pk, tr));
			}
			else if (op < 72) {
				unsigned shape = (unsigned)rng.below(8);
				unsigned variant = (unsigned)rng.below(1000);
				if (shape < 2) { c.stats.count("hist.errange.empty"); R.step(fmt("errange %s empty", cn), OM::errange(m, 0, 0, true, variant), OS::errange(st, 0, 0, true, variant)); }
				else if (shape < 7) {
					if (n == 0) continue;
					int pk = presentKey(st); bool tr = rng.chance(1, 2);
					c.stats.count(tr ? "hist.errange.single_traversal" : "hist.errange.single_lookup");
					R.step(fmt("errange %s single %d %d", cn, pk, (int)tr), OM::errange(m, 1, pk, tr, variant), OS::errange(st, 1, pk, tr, variant));
				}
				else { c.stats.count(fmt("hist.errange.whole_size_%s", n == 0 ? "0" : (n == 1 ? "1" : "many"))); R.step(fmt("errange %s whole", cn), OM::errange(m, 2, 0, true, variant), OS::errange(st, 2, 0, true, variant)); }
			}
			else if (op < 76) R.step(fmt("exk %s %d", cn, k), OM::exk(m, k, nm), OS::exk(st, k, ns));
			else if (op < 78) { if (n == 0) continue; int pk = presentKey(st); bool tr = rng.chance(1, 2); R.step(fmt("exe %s %d", cn, pk), OM::exe(m, pk, tr, nm), OS::exe(st, pk, tr, ns)); }
			else if (op < 83) {
				if ((!nm || nm->empty()) && !mo.empty() && rng.chance(3, 4)) { const char* on = onA ? "b" : "a"; int pk = presentKey(so); R.step(fmt("exk %s %d", on, pk), OM::exk(mo, pk, nm), OS::exk(so, pk, ns)); }
				std::string a = OM::insn(m, nm);
				if (a.find(" 0 node=") != std::string::npos && a.find("node=empty") == std::string::npos) c.stats.count("hist.unode.refused_kept");
				R.step(fmt("insn %s", cn), a, OS::insn(st, ns));
			}
			else if (op < 87) {
				if ((!nm || nm->empty()) && !mo.empty() && rng.chance(3, 4)) { const char* on = onA ? "b" : "a"; int pk = presentKey(so); R.step(fmt("exk %s %d", on, pk), OM::exk(mo, pk, nm), OS::exk(so, pk, ns)); }
				bool he = rng.chance(1, 2);
				std::string a = OM::insnh(m, nm, he);
				if (a.find(" 0 node=") != std::string::npos && a.find("e=none") == std::string::npos) c.stats.count("hist.unode.hinted_refused_lost");
				R.step(fmt("insnh %s", cn), a, OS::insnh(st, ns, he));
			}
			else if (op < 88) { nm.reset(); ns.reset(); R.step("dropnode", "ok", "ok"); }
			else if (op < 91) { m.merge(mo); st.merge(so); R.step(fmt("merge %s", cn), "ok", "ok"); }
			else if (op < 93) { if (rng.chance(1, 2)) { ma.swap(mb); sa.swap(sb); } else { swap(ma, mb); swap(sa, sb); } R.step("swap", "ok", "ok"); }
			else if (op < 95) { m = mo; st = so; R.step(fmt("copy %s", cn), "ok", "ok"); }
			else if (op < 96) { m = std::move(mo); st = std::move(so); recreateEmpty(mo); recreateEmpty(so); R.step(fmt("move %s", cn), "ok", "ok"); }
			else if (op < 97) { recreateCopy(m, mo); recreateCopy(st, so); R.step(fmt("ccopy %s", cn), "ok", "ok"); }
			else if (op < 98) { recreateMove(m, mo); recreateMove(st, so); R.step(fmt("cmove %s", cn), "ok", "ok"); }
			else if (op < 99) { auto ys = someItems(); R.step(fmt("asl %s%s", cn, listArg(ys).c_str()), OM::asl(m, ys), OS::asl(st, ys)); }
			else if (op < 104) { std::string a = OM::cmp(ma, mb); c.stats.count("hist.ucmp." + a.substr(2, 1)); R.step("cmp", a, OS::cmp(sa, sb)); }
			else if (op < 105) { int mm = 2 + (int)rng.below(4), rr = (int)rng.below((uint64_t)mm); R.step(fmt("erif %s %d %d", cn, mm, rr), OM::erif(m, mm, rr), OS::erif(st, mm, rr)); }
			else if (op < 106) { if (rng.chance(1, 3)) { m.clear(); st.clear(); R.step(fmt("clear %s", cn), "ok", "ok"); } }
			else if (op < 107) R.step(fmt("size %s", cn), fmt("n=%zu", m.size()), fmt("n=%zu", st.size()));
			else if (op < 108) R.step(fmt("empty %s", cn), fmt("f=%d", (int)m.empty()), fmt("f=%d", (int)st.empty()));
			else if (op < 109) {
				switch (rng.below(6)) {
				case 0: { auto ys = someItems(); if (rng.chance(1, 3)) for (int i = 0; i < 20; ++i) ys.push_back(P(kg.any(), nextTag++)); unsigned ik = (unsigned)rng.below(3), form = (unsigned)rng.below(4); size_t bn = (size_t)rng.below(50); R.step(fmt("crange %s%s", cn, listArg(ys).c_str()), OM::crange(m, ys, ik, form, bn), OS::crange(st, ys, ik, form, bn)); break; }
				case 1: { auto ys = someItems(); unsigned form = (unsigned)rng.below(3); size_t bn = (size_t)rng.below(50); R.step(fmt("clist %s%s", cn, listArg(ys).c_str()), OM::clist(m, ys, form, bn), OS::clist(st, ys, form, bn)); break; }
				case 2: { size_t k = (size_t)rng.below(n + 60); m.reserve(k); st.reserve(k); R.step(fmt("reserve %s %zu", cn, k), "ok", "ok"); break; }
				case 3: { size_t k = (size_t)rng.below(2 * n + 60); m.rehash(k); st.rehash(k); if (m.bucket_count() < k) c.fail("C06 hist/%s rehash(%zu): bucket_count() = %zu", tag.c_str(), k, (size_t)m.bucket_count()); R.step(fmt("rehash %s %zu", cn, k), "ok", "ok"); break; }
				case 4: {
					float z = 0.25f + 0.25f * (float)rng.below(8);
					if (z > (float)M::nested_container_type::bucketMaxItemCount) z = (float)M::nested_container_type::bucketMaxItemCount;
					m.max_load_factor(z); st.max_load_factor(z);
					if (m.max_load_factor() != z) c.fail("C06 hist/%s max_load_factor(%g): max_load_factor() = %g", tag.c_str(), (double)z, (double)m.max_load_factor());
					R.step(fmt("mlf %s", cn), "ok", "ok"); break;
				}
				default: R.step(fmt("dump %s", cn), itemsStr(OM::sorted(m)), itemsStr(OS::sorted(st))); break;
				}
			}
			else R.step(fmt("dump %s", cn), itemsStr(OM::sorted(m)), itemsStr(OS::sorted(st)));
			if (step % 16 == 15 && !R.diverged) {
				R.step("dump a", itemsStr(OM::sorted(ma)), itemsStr(OS::sorted(sa)));
				R.step("dump b", itemsStr(OM::sorted(mb)), itemsStr(OS::sorted(sb)));
			}
		}
		if (R.diverged) { R.comment("run abandoned after a disagreement"); continue; }
		R.step("dump a", itemsStr(OM::sorted(ma)), itemsStr(OS::sorted(sa)));
		R.step("dump b", itemsStr(OM::sorted(mb)), itemsStr(OS::sorted(sb)));
		R.step("dropnode", "ok", "ok");
		c.stats.nontrivial(fmt("hist_%s run=%u keys=%s range=%d hash=%s", tag.c_str(), run, keyModeName(mode), range, hashFamName(hc().fam)));
		if (run < 1) c.stats.sample(fmt("hist_%s: %s", tag.c_str(), R.tail().substr(0, 300).c_str()));
	}
}

// ================================================================ unordered_multimap
template<typename C, bool isMomo>
struct HM {
	typedef typename C::const_iterator CIt;
	template<typename It> static P get(It it) { return P(it->first, it->second); }
	static std::vector<P> layout(const C& c) { std::vector<P> v; for (auto it = c.begin(); it != c.end(); ++it) v.push_back(get(it)); return v; }
	static std::vector<P> sorted(const C& c) { std::vector<P> v = layout(c); std::sort(v.begin(), v.end()); return v; }
	static size_t posOf(const std::vector<P>& lay, P x) { for (size_t i = 0; i < lay.size(); ++i) if (lay[i] == x) return i; return lay.size(); }
	static size_t groupStart(const std::vector<P>& lay, size_t p) { while (p > 0 && lay[p - 1].first == lay[p].first) --p; return p; }
	static size_t groupEnd(const std::vector<P>& lay, size_t p) { size_t q = p; while (q < lay.size() && lay[q].first == lay[p].first) ++q; return q; }
	// iterator at flat position p: by traversal from begin(), or from equal_range (stepping inside the key only)
	static CIt iterAt(const C& c, const std::vector<P>& lay, size_t p, bool traversal) {
		if (p >= lay.size()) return c.end();
		if (traversal) return std::next(c.begin(), (ptrdiff_t)p);
		auto r = c.equal_range(lay[p].first);
		return std::next(CIt(r.first), (ptrdiff_t)(p - groupStart(lay, p)));
	}
	static std::string ins(C& c, int k, int v, unsigned how, unsigned sp = 0) {
		typedef std::pair<const int, int> V;
		typename C::iterator it;
		switch (how) {
		case 0:
			switch (sp % 4) {
			case 0: it = c.insert(V(k, v)); break;
			case 1: { const V x(k, v); it = c.insert(x); break; }
			case 2: it = c.insert(std::pair<int, int>(k, v)); break;
			default: { const std::pair<int, int> x(k, v); it = c.insert(x); break; }
			}
			break;
		case 1:
			switch (sp % 5) {
			case 0: it = c.emplace(k, v); break;
			case 1: it = c.emplace(std::piecewise_construct, std::forward_as_tuple((long)k), std::forward_as_tuple((long)v)); break;	// key built in a buffer
			case 2: it = c.emplace(std::piecewise_construct, std::forward_as_tuple(k), std::forward_as_tuple(v)); break;
			case 3: it = c.emplace(std::pair<int, int>(k, v)); break;
			default: { const int key = k; it = c.emplace(key, (short)v); break; }
			}
			break;
		case 2:
			switch (sp % 3) {
			case 0: it = c.insert(c.cend(), V(k, v)); break;
			case 1: { const V x(k, v); it = c.insert(c.cend(), x); break; }
			default: it = c.insert(c.cbegin(), std::pair<int, int>(k, v)); break;
			}
			break;
		default:
			switch (sp % 4) {
			case 0: it = c.emplace_hint(c.cbegin(), k, v); break;
			case 1: it = c.emplace_hint(c.cend(), std::piecewise_construct, std::forward_as_tuple((long)k), std::forward_as_tuple((long)v)); break;
			case 2: it = c.emplace_hint(c.cbegin(), std::piecewise_construct, std::forward_as_tuple(k), std::forward_as_tuple(v)); break;
			default: it = c.emplace_hint(c.cend(), std::pair<int, int>(k, v)); break;
			}
			break;
		}
		P p = get(it); return fmt("e=%d:%d", p.first, p.second);
	}
	static std::string insr(C& c, const std::vector<P>& ys) {
		std::vector<std::pair<const int, int>> src; for (auto& p : ys) src.emplace_back(p.first, p.second);
		c.insert(src.begin(), src.end());
		return "ok";
	}
	static std::string insl(C& c, const std::vector<P>& ys) {
		typedef std::pair<const int, int> V;
		switch (ys.size()) {
		case 0: c.insert(std::initializer_list<V>{}); break;
		case 1: c.insert({ V(ys[0].first, ys[0].second) }); break;
		case 2: c.insert({ V(ys[0].first, ys[0].second), V(ys[1].first, ys[1].second) }); break;
		default: c.insert({ V(ys[0].first, ys[0].second), V(ys[1].first, ys[1].second), V(ys[2].first, ys[2].second) }); break;
		}
		return "ok";
	}
	static std::string asl(C& c, const std::vector<P>& ys) {
		typedef std::pair<const int, int> V;
		switch (ys.size()) {
		case 0: c = std::initializer_list<V>{}; break;
		case 1: c = { V(ys[0].first, ys[0].second) }; break;
		case 2: c = { V(ys[0].first, ys[0].second), V(ys[1].first, ys[1].second) }; break;
		default: c = { V(ys[0].first, ys[0].second), V(ys[1].first, ys[1].second), V(ys[2].first, ys[2].second) }; break;
		}
		return "ok";
	}
	static std::string find(const C& c, int k) { auto it = c.find(k); if (it == c.end()) return "f=0"; return get(it).first == k ? "f=1" : "found another key"; }
	static std::string cnt(const C& c, int k) { return fmt("n=%zu", (size_t)c.count(k)); }
	static std::string has(const C& c, int k) {
		if constexpr (HasContains<C>::value) return fmt("f=%d", (int)c.contains(k));
		else return fmt("f=%d", (int)(c.find(k) != c.end()));
	}
	static std::string eqr(const C& c, int k) {
		auto r = c.equal_range(k);
		std::vector<P> v; for (auto it = r.first; it != r.second; ++it) v.push_back(get(it));
		std::sort(v.begin(), v.end());
		return itemsStr(v);
	}
	static std::string erk(C& c, int k) { return fmt("n=%zu", (size_t)c.erase(k)); }
	static std::string ere(C& c, P x, bool traversal) { auto lay = layout(c); c.erase(iterAt(c, lay, posOf(lay, x), traversal)); return "ok"; }
	// erase(iterator) with a non-const iterator; non-const find / equal_range
	static std::string ereN(C& c, P x, bool traversal) {
		auto lay = layout(c); size_t p = posOf(lay, x);
		typename C::iterator it;
		if (traversal) it = std::next(c.begin(), (ptrdiff_t)p);
		else { auto r = c.equal_range(x.first); it = std::next(r.first, (ptrdiff_t)(p - groupStart(lay, p))); }
		c.erase(it); return "ok";
	}
	static std::string findN(C& c, int k) { auto it = c.find(k); if (it == c.end()) return "f=0"; return get(it).first == k ? "f=1" : "found another key"; }
	static std::string eqrN(C& c, int k) {
		auto r = c.equal_range(k);
		std::vector<P> v; for (auto it = r.first; it != r.second; ++it) v.push_back(get(it));
		std::sort(v.begin(), v.end());
		return itemsStr(v);
	}
	// shape 0 empty, 1 single x, 2 whole key, 3 whole container
	static std::string errange(C& c, int shape, P x, bool traversal, unsigned variant) {
		try {
			auto lay = layout(c);
			size_t n = lay.size();
			if (shape == 0) {
				size_t q = n == 0 ? 0 : (size_t)(variant % (n + 1));
				CIt it = iterAt(c, lay, q, true);
				c.erase(it, it);
			} else if (shape == 1) {
				size_t p = posOf(lay, x);
				CIt first = iterAt(c, lay, p, traversal);
				if constexpr (isMomo) {
					// next(first): the next value of the key, or (for a lookup result) end()
					CIt last;
					if (traversal) last = iterAt(c, lay, p + 1, true);
					else last = (p + 1 < n && lay[p + 1].first == x.first) ? iterAt(c, lay, p + 1, (variant & 1) != 0) : c.end();
					c.erase(first, last);
				} else c.erase(first, std::next(first));
			} else if (shape == 2) {
				if (traversal && isMomo) {
					size_t p = 0; while (p < n && lay[p].first != x.first) ++p;
					c.erase(iterAt(c, lay, p, true), iterAt(c, lay, groupEnd(lay, p), true));
				} else { auto r = c.equal_range(x.first); c.erase(r.first, r.second); }
			} else c.erase(c.begin(), c.end());
			return "ok";
		}
		catch (const std::invalid_argument&) { return "E:invalid_argument"; }
	}
	static std::string erif(C& c, int m, int r) {
		size_t n = 0;
		if constexpr (isMomo) n = erase_if(c, [m, r](typename C::const_reference ref) { return ref.first % m == r; });
		else { for (auto it = c.begin(); it != c.end(); ) { if (get(it).first % m == r) { it = c.erase(it); ++n; } else ++it; } }
		return fmt("n=%zu", n);
	}
	static std::string cmp(const C& a, const C& b) { return fmt("c=%d %d", (int)(a == b), (int)(a != b)); }
	static std::vector<std::pair<const int, int>> values(const std::vector<P>& ys) { std::vector<std::pair<const int, int>> src; for (auto& p : ys) src.emplace_back(p.first, p.second); return src; }
	static std::string crange(C& c, const std::vector<P>& ys, unsigned ik, unsigned form, size_t bn) { constructRange(c, values(ys), ik, form, bn); return "ok"; }
	static std::string clist(C& c, const std::vector<P>& ys, unsigned form, size_t bn) { constructList(c, values(ys), form, bn); return "ok"; }
};

template<typename M, typename S>
static void runMultimapHist(Ctx& c, Rng& rng, unsigned runs, unsigned opsPerRun)
{
	typedef HM<M, true> OM;
	typedef HM<S, false> OS;
	std::string tag = std::string("ummap") + (VF_OPEN ? "_open" : "");
	Suite sw(c, fmt("hist_%s_wrap", tag.c_str()), "model stdhist kind=ummap side=wrap");
	Suite ss(c, fmt("hist_%s_spec", tag.c_str()), "model stdhist kind=ummap side=spec");
	for (unsigned run = 0; run < runs; ++run) {
		Hist R(c, sw, ss, tag);
		unsigned mode = (unsigned)rng.below(5);
		static const int ranges[] = { 4, 8, 16, 90 };
		int range = ranges[rng.below(4)];
		if (mode == 3 && range < 12) range = 16;
		KeyGen kg(rng, mode, range);
		hc().fam = (unsigned)rng.below(8);
		static const size_t targets[] = { 0, 8, 25, 70 };
		size_t target = targets[rng.below(4)];
		R.comment(fmt("run %u keys=%s range=%d hash=%s target=%zu", run, keyModeName(mode), range, hashFamName(hc().fam), target));
		R.reset();
		M ma, mb; S sa, sb;
		int nextTag = 1;
		for (unsigned step = 0; step < opsPerRun && !R.diverged; ++step) {
			bool grow = ma.size() < target && rng.chance(2, 3);
			bool onA = grow || rng.chance(3, 4);
			M& m = onA ? ma : mb; S& st = onA ? sa : sb;
			M& mo = onA ? mb : ma; S& so = onA ? sb : sa;
			const char* cn = onA ? "a" : "b";
			size_t n = m.size();
			int k = kg.any();
			int v = nextTag++;
			auto presentPair = [&]() -> P { auto lay = OS::sorted(st); return lay[rng.below(lay.size())]; };
			auto someItems = [&]() { std::vector<P> ys; size_t cnt = (size_t)rng.below(4); for (size_t i = 0; i < cnt; ++i) ys.push_back(P(kg.any(), nextTag++)); return ys; };
			unsigned op = (unsigned)rng.below(100);
			if (grow) op = (unsigned)rng.below(24);
			else if (n > target + 30 && op < 30) op = 44 + op % 22;
			unsigned sp = (unsigned)rng.below(60); bool nc = rng.chance(1, 2);
			if (op < 18) { unsigned how = (unsigned)rng.below(4); static const char* nm[] = { "ins", "emp", "insh", "emph" }; c.stats.count(fmt("hist.spelling.%s.%s%u", tag.c_str(), nm[how], sp % (how == 0 ? 4 : (how == 1 ? 5 : (how == 2 ? 3 : 4))))); R.step(fmt("%s %s %d %d", nm[how], cn, k, v), OM::ins(m, k, v, how, sp), OS::ins(st, k, v, how, sp)); }
			else if (op < 21) { auto ys = someItems(); R.step(fmt("insr %s%s", cn, listArg(ys).c_str()), OM::insr(m, ys), OS::insr(st, ys)); }
			else if (op < 24) { auto ys = someItems(); R.step(fmt("insl %s%s", cn, listArg(ys).c_str()), OM::insl(m, ys), OS::insl(st, ys)); }
			else if (op < 29) { if (nc) R.step(fmt("find %s %d", cn, k), OM::findN(m, k), OS::findN(st, k)); else R.step(fmt("find %s %d", cn, k), OM::find(m, k), OS::find(st, k)); }
			else if (op < 33) R.step(fmt("cnt %s %d", cn, k), OM::cnt(m, k), OS::cnt(st, k));
			else if (op < 35) R.step(fmt("has %s %d", cn, k), OM::has(m, k), OS::has(st, k));
			else if (op < 40) { if (nc) R.step(fmt("eqr %s %d", cn, k), OM::eqrN(m, k), OS::eqrN(st, k)); else R.step(fmt("eqr %s %d", cn, k), OM::eqr(m, k), OS::eqr(st, k)); }
			else if (op < 44) R.step(fmt("erk %s %d", cn, k), OM::erk(m, k), OS::erk(st, k));
			else if (op < 50) {
				if (n == 0) continue;
				P x = presentPair(); bool tr = rng.chance(1, 2);
				if (nc) { c.stats.count("hist.spelling.erase_iterator"); R.step(fmt("ere %s %d %d", cn, x.first, x.second), OM::ereN(m, x, tr), OS::ereN(st, x, tr)); }
				else R.step(fmt("ere %s %d %d", cn, x.first, x.second), OM::ere(m, x, tr), OS::ere(st, x, tr));
			}
			else if (op < 68) {
				unsigned shape = (unsigned)rng.below(10);
				unsigned variant = (unsigned)rng.below(1000);
				if (shape < 2) { c.stats.count("hist.mrange.empty"); R.step(fmt("errange %s empty", cn), OM::errange(m, 0, P(0, 0), true, variant), OS::errange(st, 0, P(0, 0), true, variant)); }
				else if (shape < 5) {
					if (n == 0) continue;
					P x = presentPair(); bool tr = rng.chance(1, 2);
					c.stats.count(tr ? "hist.mrange.single_traversal" : "hist.mrange.single_lookup");
					R.step(fmt("errange %s single %d %d %d", cn, x.first, x.second, (int)tr), OM::errange(m, 1, x, tr, variant), OS::errange(st, 1, x, tr, variant));
				}
				else if (shape < 9) {
					if (n == 0) continue;
					P x = presentPair(); bool tr = rng.chance(1, 2);
					c.stats.count(fmt("hist.mrange.key_%s_count_%s", tr ? "traversal" : "equal_range", st.count(x.first) == 1 ? "1" : "many"));
					R.step(fmt("errange %s key %d %d", cn, x.first, (int)tr), OM::errange(m, 2, x, tr, variant), OS::errange(st, 2, x, tr, variant));
				}
				else {
					std::set<int> keys; for (auto& p : OS::sorted(st)) keys.insert(p.first);
					c.stats.count(fmt("hist.mrange.whole_%s", n == 0 ? "empty" : (n == 1 ? "one" : (keys.size() == 1 ? "one_key" : "many"))));
					R.step(fmt("errange %s whole", cn), OM::errange(m, 3, P(0, 0), true, variant), OS::errange(st, 3, P(0, 0), true, variant));
				}
			}
			else if (op < 71) { if (rng.chance(1, 2)) { ma.swap(mb); sa.swap(sb); } else { swap(ma, mb); swap(sa, sb); } R.step("swap", "ok", "ok"); }
			else if (op < 73) { m = mo; st = so; R.step(fmt("copy %s", cn), "ok", "ok"); }
			else if (op < 74) { m = std::move(mo); st = std::move(so); recreateEmpty(mo); recreateEmpty(so); R.step(fmt("move %s", cn), "ok", "ok"); }
			else if (op < 75) { recreateCopy(m, mo); recreateCopy(st, so); R.step(fmt("ccopy %s", cn), "ok", "ok"); }
			else if (op < 76) { recreateMove(m, mo); recreateMove(st, so); R.step(fmt("cmove %s", cn), "ok", "ok"); }
			else if (op < 77) { auto ys = someItems(); R.step(fmt("asl %s%s", cn, listArg(ys).c_str()), OM::asl(m, ys), OS::asl(st, ys)); }
			else if (op < 80) {
				// equal contents reached on two ways: a = b; erase_if(a) keeps the emptied keys, erase(key) on b drops them
				int mm = 2 + (int)rng.below(3), rr = (int)rng.below((uint64_t)mm);
				ma = mb; sa = sb; R.step("copy a", "ok", "ok");
				R.step(fmt("erif a %d %d", mm, rr), OM::erif(ma, mm, rr), OS::erif(sa, mm, rr));
				std::vector<int> keys;
				for (auto& p : OS::sorted(sb)) if (p.first % mm == rr && (keys.empty() || keys.back() != p.first)) keys.push_back(p.first);
				for (int kk : keys) R.step(fmt("erk b %d", kk), OM::erk(mb, kk), OS::erk(sb, kk));
				std::string a = OM::cmp(ma, mb); c.stats.count("hist.mcmp_after_two_ways." + a.substr(2, 1));
				R.step("cmp", a, OS::cmp(sa, sb));
			}
			else if (op < 86) { std::string a = OM::cmp(ma, mb); c.stats.count("hist.mcmp." + a.substr(2, 1)); R.step("cmp", a, OS::cmp(sa, sb)); }
			else if (op < 88) { int mm = 2 + (int)rng.below(4), rr = (int)rng.below((uint64_t)mm); R.step(fmt("erif %s %d %d", cn, mm, rr), OM::erif(m, mm, rr), OS::erif(st, mm, rr)); }
			else if (op < 89) { if (rng.chance(1, 3)) { m.clear(); st.clear(); R.step(fmt("clear %s", cn), "ok", "ok"); } }
			else if (op < 91) R.step(fmt("size %s", cn), fmt("n=%zu", m.size()), fmt("n=%zu", st.size()));
			else if (op < 93) R.step(fmt("empty %s", cn), fmt("f=%d", (int)m.empty()), fmt("f=%d", (int)st.empty()));
			else if (op < 95) { auto ys = someItems(); if (rng.chance(1, 3)) for (int i = 0; i < 20; ++i) ys.push_back(P(kg.any(), nextTag++)); unsigned ik = (unsigned)rng.below(3), form = (unsigned)rng.below(4); size_t bn = (size_t)rng.below(50); R.step(fmt("crange %s%s", cn, listArg(ys).c_str()), OM::crange(m, ys, ik, form, bn), OS::crange(st, ys, ik, form, bn)); }
			else if (op < 96) { auto ys = someItems(); unsigned form = (unsigned)rng.below(3); size_t bn = (size_t)rng.below(50); R.step(fmt("clist %s%s", cn, listArg(ys).c_str()), OM::clist(m, ys, form, bn), OS::clist(st, ys, form, bn)); }
			else R.step(fmt("dump %s", cn), itemsStr(OM::sorted(m)), itemsStr(OS::sorted(st)));
			if (step % 16 == 15 && !R.diverged) {
				R.step("dump a", itemsStr(OM::sorted(ma)), itemsStr(OS::sorted(sa)));
				R.step("dump b", itemsStr(OM::sorted(mb)), itemsStr(OS::sorted(sb)));
			}
		}
		if (R.diverged) { R.comment("run abandoned after a disagreement"); continue; }
		R.step("dump a", itemsStr(OM::sorted(ma)), itemsStr(OS::sorted(sa)));
		R.step("dump b", itemsStr(OM::sorted(mb)), itemsStr(OS::sorted(sb)));
		c.stats.nontrivial(fmt("hist_%s run=%u keys=%s range=%d hash=%s", tag.c_str(), run, keyModeName(mode), range, hashFamName(hc().fam)));
		if (run < 1) c.stats.sample(fmt("hist_%s: %s", tag.c_str(), R.tail().substr(0, 300).c_str()));
	}
}
#endif // VF_PART == 2

int main(int argc, char** argv)
{
	Ctx c = parseArgs(argc, argv);
	Rng rng(c.seed * 0x1000 + 0x6A0 + VF_PART
#ifdef VF_OPEN
		+ VF_OPEN * 0x10
#endif
		);
#if VF_PART == 1
	unsigned runs = c.thorough ? 40 : 10, ops = c.thorough ? 500 : 260;
	{ typedef momo::stdish::set<KV, LessK> M; typedef std::set<KV, LessK> S; runOrderedHist<M, S, false, false>(c, rng, "set", runs, ops); }
	{ typedef momo::stdish::multiset<KV, LessK> M; typedef std::multiset<KV, LessK> S; runOrderedHist<M, S, false, true>(c, rng, "mset", runs, ops); }
	{ typedef momo::stdish::map<int, int, LessI> M; typedef std::map<int, int, LessI> S; runOrderedHist<M, S, true, false>(c, rng, "map", runs, ops); }
	{ typedef momo::stdish::multimap<int, int, LessI> M; typedef std::multimap<int, int, LessI> S; runOrderedHist<M, S, true, true>(c, rng, "mmap", runs, ops); }
	runVectorHist(c, rng, runs, ops);
#endif
#if VF_PART == 2
	unsigned runs = c.thorough ? 48 : 12, ops = c.thorough ? 500 : 260;
	{
#if VF_OPEN
		typedef momo::stdish::unordered_set_open<KV, HashK, EqK> M;
#else
		typedef momo::stdish::unordered_set<KV, HashK, EqK> M;
#endif
		typedef std::unordered_set<KV, HashK, EqK> S;
		runUnorderedHist<M, S, USET>(c, rng, "uset", runs, ops);
	}
	{
#if VF_OPEN
		typedef momo::stdish::unordered_map_open<int, int, HashI> M;
#else
		typedef momo::stdish::unordered_map<int, int, HashI> M;
#endif
		typedef std::unordered_map<int, int, HashI> S;
		runUnorderedHist<M, S, UMAP>(c, rng, "umap", runs, ops);
	}
	{
#if VF_OPEN
		typedef momo::stdish::unordered_multimap_open<int, int, HashI> M;
#else
		typedef momo::stdish::unordered_multimap<int, int, HashI> M;
#endif
		typedef std::unordered_multimap<int, int, HashI> S;
		runMultimapHist<M, S>(c, rng, runs, ops);
	}
#endif
	return c.finish();
}
