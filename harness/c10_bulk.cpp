// C10 harness (property level): bulk operations under every k-th failure keep a valid, usable,
// leak-free container whose elements are a subset of (original ∪ being inserted) without duplicate
// keys; merge / extract / node re-insertion move elements (no copy construction of a movable
// element) and conserve them: at every observed moment each element identity is in exactly one of
// source, destination, node handle; a refused element stays in the source.
// (Model level for merges of hash tables: the `mergeto` operations of harness/c01_hash.cpp.)
#define MOMO_INCLUDE_OLD_HASH_BUCKETS
#include "momo/Array.h"
#include "momo/SegmentedArray.h"
#include "momo/HashSet.h"
#include "momo/HashMap.h"
#include "momo/TreeSet.h"
#include "momo/TreeMap.h"
#include "momo/stdish/set.h"
#include "momo/stdish/unordered_set.h"
#include "momo/stdish/map.h"
#include "momo/stdish/unordered_map.h"
#include "common/verif_elems.h"

#include <functional>
#include <memory>
#include <algorithm>

using namespace vf;

enum Mode { M_ALLOC = 0, M_COPY = 1, M_FUNC = 2 };
static const char* modeName[] = { "alloc", "copy", "functor" };
struct FuncCtl { long countdown = -1; bool fired = false; };
static FuncCtl& fc() { static FuncCtl f; return f; }
static void funcPoint() { FuncCtl& f = fc(); if (f.countdown == 0) { f.countdown = -1; f.fired = true; throw std::domain_error("functor"); } if (f.countdown > 0) --f.countdown; }
static void arm(Mode m, long k) { mm().disarm(); ec().copyCountdown = -1; ec().firedCopy = false; fc().countdown = -1; fc().fired = false;
	if (m == M_ALLOC) mm().refuseAfter = k; else if (m == M_COPY) ec().copyCountdown = k; else fc().countdown = k; }
static bool disarm(Mode m) { bool fired = (m == M_ALLOC) ? mm().firedAfter : (m == M_COPY ? ec().firedCopy : fc().fired);
	mm().disarm(); ec().copyCountdown = -1; ec().firedCopy = false; fc().countdown = -1; fc().fired = false; return fired; }

struct NoExtraS : public momo::HashSetSettings { static const momo::ExtraCheckMode extraCheckMode = momo::ExtraCheckMode::nothing; };
struct NoExtraT : public momo::TreeSetSettings { static const momo::ExtraCheckMode extraCheckMode = momo::ExtraCheckMode::nothing; };

template<typename Key, typename HashBucket>
struct ThrowHashTraits : public momo::HashTraits<Key, HashBucket>
{
	static const bool isFastNothrowHashable = false;
	template<typename ItemTraits> using Bucket = typename HashBucket::template Bucket<ItemTraits, true>;
	size_t GetLogStartBucketCount() const noexcept { return 2; }
	size_t GetHashCode(const Key& key) const { funcPoint(); return (size_t)idOf(key) * 7; }
	bool IsEqual(const Key& a, const Key& b) const { funcPoint(); return idOf(a) == idOf(b); }
};
template<typename Key, typename Node>
struct ThrowTreeTraits : public momo::TreeTraits<Key, false, Node, true>
{
	bool IsLess(const Key& a, const Key& b) const { funcPoint(); return idOf(a) < idOf(b); }
};

template<typename S> static std::vector<uint32_t> keysOf(S& s) { std::vector<uint32_t> v; for (const auto& x : s) v.push_back(idOf(x)); return v; }
template<typename S> static bool elementsAlive(S& s) { for (const auto& x : s) if (x.state != 0xA11CE) return false; return true; }

static bool subsetOf(std::vector<uint32_t> a, std::vector<uint32_t> u) { std::sort(a.begin(), a.end()); std::sort(u.begin(), u.end()); return std::includes(u.begin(), u.end(), a.begin(), a.end()); }
static bool hasDup(std::vector<uint32_t> a) { std::sort(a.begin(), a.end()); return std::adjacent_find(a.begin(), a.end()) != a.end(); }
static std::string show(const std::vector<uint32_t>& v) { std::string r; for (size_t i = 0; i < v.size() && i < 24; ++i) r += fmt(i ? " %u" : "%u", v[i]); if (v.size() > 24) r += " …"; return r; }

// ---- keyed containers: multi-insert and Remove(pred) with every k-th failure (basic guarantee)
template<typename Set, typename E>
static void bulkKeyed(Ctx& c, const std::string& name, bool functorFaults)
{
	for (unsigned n : { 0u, 5u, 23u }) {
		for (int op = 0; op < 2; ++op) {
			for (int m = 0; m < (functorFaults ? 3 : 2); ++m) {
				for (long k = 0; k < 600; ++k) {
					bool threw = false, fired = false;
					{
						std::unique_ptr<Set> box(new Set());
						Set& s = *box;
						for (unsigned i = 0; i < n; ++i) s.Insert(E(i * 2));
						std::vector<uint32_t> universe = keysOf(s);
						std::vector<E> incoming;
						for (unsigned i = 0; i < 17; ++i) { incoming.push_back(E(i * 3 + 1)); universe.push_back(i * 3 + 1); }
						arm((Mode)m, k);
						try {
							if (op == 0) s.Insert(incoming.begin(), incoming.end());
							else s.Remove([](const E& x) { funcPoint(); return idOf(x) % 3 == 0; });
						} catch (const std::bad_alloc&) { threw = true; } catch (const std::runtime_error&) { threw = true; } catch (const std::domain_error&) { threw = true; }
						fired = disarm((Mode)m);
						c.stats.evaluations++;
						if (threw) {
							std::string what = fmt("%s %s n=%u, %s failure #%ld", name.c_str(), op == 0 ? "Insert(range of 17)" : "Remove(pred)", n, modeName[m], k);
							c.stats.count(std::string("bulk.threw.") + modeName[m]); c.stats.nontrivial(what);
							std::vector<uint32_t> now = keysOf(s);
							if (now.size() != s.GetCount()) c.fail("C10 valid: %s: traversal has %zu elements, GetCount %zu", what.c_str(), now.size(), s.GetCount());
							if (!subsetOf(now, universe)) c.fail("C10 subset: %s: contents {%s} not within original ∪ inserted", what.c_str(), show(now).c_str());
							if (hasDup(now)) c.fail("C10 unique: %s: duplicate key in {%s}", what.c_str(), show(now).c_str());
							if (!elementsAlive(s)) c.fail("C10 valid: %s: a destroyed / moved-from element is still in the container", what.c_str());
							for (uint32_t x : now) if (!s.ContainsKey(E(x))) { c.fail("C10 valid: %s: element %u is traversed but not found", what.c_str(), x); break; }
							// usable: complete the job, then empty it
							try { if (op == 0) s.Insert(incoming.begin(), incoming.end()); s.Insert(E(100000)); s.Clear(); s.Insert(E(1)); }
							catch (...) { c.fail("C10 usable: %s: container not usable after the failure", what.c_str()); }
							c.stats.sample(what + fmt(" -> contents {%s}", show(now).c_str()), 8);
						}
					}
					if (!mm().live.empty()) { c.fail("C03 leak: %s: %zu blocks outstanding (%s #%ld)", name.c_str(), mm().live.size(), modeName[m], k); mm().live.clear(); }
					if (mm().badDealloc) { c.fail("C03 dealloc: %s: bad deallocation (%s #%ld)", name.c_str(), modeName[m], k); mm().badDealloc = 0; }
					if (ec().live != 0) { c.fail("C03 elements: %s: %ld element objects alive after destruction (%s #%ld)", name.c_str(), ec().live, modeName[m], k); ec().live = 0; }
					if (!threw && !fired) break;
				}
			}
		}
	}
}

// ---- arrays: positional insert / remove under failures (basic guarantee: count consistent, every slot live or moved-from)
template<typename Arr, typename E>
static void bulkArray(Ctx& c, const std::string& name)
{
	for (unsigned n : { 0u, 4u, 9u }) {
		for (int op = 0; op < 4; ++op) {
			for (int m = 0; m < 2; ++m) {
				for (long k = 0; k < 300; ++k) {
					bool threw = false, fired = false;
					{
						std::unique_ptr<Arr> box(new Arr());
						Arr& a = *box;
						for (unsigned i = 0; i < n; ++i) a.AddBack(E(i));
						size_t idx = n / 2;
						std::vector<E> incoming; for (unsigned i = 0; i < 5; ++i) incoming.push_back(E(50 + i));
						arm((Mode)m, k);
						try {
							if (op == 0) a.Insert(idx, E(77));
							else if (op == 1) a.Insert(idx, 3, E(78));
							else if (op == 2) a.Insert(idx, incoming.begin(), incoming.end());
							else if (n > 1) a.Remove(idx, 1);
						} catch (const std::bad_alloc&) { threw = true; } catch (const std::runtime_error&) { threw = true; }
						fired = disarm((Mode)m);
						c.stats.evaluations++;
						if (threw) {
							std::string what = fmt("%s op%d n=%u, %s failure #%ld", name.c_str(), op, n, modeName[m], k);
							c.stats.count(std::string("array.threw.") + modeName[m]); c.stats.nontrivial(what);
							size_t cnt = a.GetCount();
							if (cnt < (op == 3 ? n - 1 : n) || cnt > n + 5) c.fail("C10 array: %s: count %zu outside [%u, %u]", what.c_str(), cnt, n, n + 5);
							for (size_t i = 0; i < cnt; ++i) if (a[i].state != 0xA11CE && a[i].state != 0x30FED) { c.fail("C10 array: %s: slot %zu holds no object (state %x)", what.c_str(), i, a[i].state); break; }
							try { a.AddBack(E(1)); a.Clear(); a.AddBack(E(2)); } catch (...) { c.fail("C10 usable: %s", what.c_str()); }
						}
					}
					if (!mm().live.empty()) { c.fail("C03 leak: %s: %zu blocks outstanding", name.c_str(), mm().live.size()); mm().live.clear(); }
					if (ec().live != 0) { c.fail("C03 elements: %s: %ld element objects alive after destruction (op%d %s #%ld)", name.c_str(), ec().live, op, modeName[m], k); ec().live = 0; }
					if (!threw && !fired) break;
				}
			}
		}
	}
}

// ---- merges: conservation and no copies
template<typename Src, typename Dst, typename E>
static void mergeSweep(Ctx& c, const std::string& name, bool functorFaults, unsigned pattern)
{
	for (int m = -1; m < (functorFaults ? 3 : 2); ++m) {
		for (long k = 0; k < 800; ++k) {
			bool threw = false, fired = false;
			{
				std::unique_ptr<Src> bs(new Src()); std::unique_ptr<Dst> bd(new Dst());
				Src& src = *bs; Dst& dst = *bd;
				// pattern 0: disjoint, src before dst; 1: disjoint, src after dst; 2: interleaved with common keys; 3: dst empty
				for (unsigned i = 0; i < 40; ++i) {
					uint32_t ks = (pattern == 0) ? i : (pattern == 1 ? 1000 + i : i * 2);
					src.Insert(E(ks));
				}
				if (pattern != 3) for (unsigned i = 0; i < 30; ++i) {
					uint32_t kd = (pattern == 0) ? 1000 + i : (pattern == 1 ? i : i * 3);
					dst.Insert(E(kd));
				}
				std::vector<uint32_t> all = keysOf(src); { auto d = keysOf(dst); all.insert(all.end(), d.begin(), d.end()); }
				std::vector<uint32_t> dstBefore = keysOf(dst);
				long copies0 = ec().copies;
				if (m >= 0) arm((Mode)m, k);
				try { src.MergeTo(dst); }
				catch (const std::bad_alloc&) { threw = true; } catch (const std::runtime_error&) { threw = true; } catch (const std::domain_error&) { threw = true; }
				if (m >= 0) fired = disarm((Mode)m);
				c.stats.evaluations++;
				std::string what = fmt("%s pattern %u, %s failure #%ld", name.c_str(), pattern, m < 0 ? "no" : modeName[m], k);
				std::vector<uint32_t> s1 = keysOf(src), d1 = keysOf(dst);
				// conservation: every identity in exactly one place; common keys stay in the source
				std::vector<uint32_t> un = s1; un.insert(un.end(), d1.begin(), d1.end());
				std::sort(un.begin(), un.end()); std::vector<uint32_t> ex = all; std::sort(ex.begin(), ex.end());
				if (un != ex) c.fail("C10 conserve: %s: src ⊎ dst changed: before {%s} after src {%s} dst {%s}", what.c_str(), show(ex).c_str(), show(s1).c_str(), show(d1).c_str());
				if (hasDup(d1)) c.fail("C10 unique: %s: duplicate key in the destination", what.c_str());
				if (!subsetOf(dstBefore, d1)) c.fail("C10 conserve: %s: the destination lost an element it had", what.c_str());
				if (!elementsAlive(src) || !elementsAlive(dst)) c.fail("C10 valid: %s: destroyed / moved-from element inside a container", what.c_str());
				if (s1.size() != src.GetCount() || d1.size() != dst.GetCount()) c.fail("C10 valid: %s: counts disagree with traversals", what.c_str());
				if (std::is_nothrow_move_constructible<E>::value && ec().copies != copies0) c.fail("C10 no-copy: %s: %ld copy constructions of a movable element during merge", what.c_str(), ec().copies - copies0);
				if (!threw) { for (uint32_t x : s1) if (std::find(dstBefore.begin(), dstBefore.end(), x) == dstBefore.end()) { c.fail("C10 merge: %s: element %u was left in the source although the destination had no such key", what.c_str(), x); break; } }
				if (threw) { c.stats.count("merge.threw"); c.stats.nontrivial(what); c.stats.sample(what + fmt(" -> src %zu dst %zu", s1.size(), d1.size()), 8);
					try { src.MergeTo(dst); src.Insert(E(77777)); dst.Insert(E(88888)); } catch (...) { c.fail("C10 usable: %s", what.c_str()); } }
			}
			if (!mm().live.empty()) { c.fail("C03 leak: %s: %zu blocks outstanding", name.c_str(), mm().live.size()); mm().live.clear(); }
			if (mm().badDealloc) { c.fail("C03 dealloc: %s: bad deallocation", name.c_str()); mm().badDealloc = 0; }
			if (ec().live != 0) { c.fail("C03 elements: %s: %ld element objects alive after destruction", name.c_str(), ec().live); ec().live = 0; }
			if (m < 0 || (!threw && !fired)) break;
		}
	}
}

// ---- merges of trees with a history: edge leaves drained by removals, bursts of insertions next to the edge, different
// heights, both directions (the fast O(log n) splice of TreeSet::MergeTo works on the outermost nodes of both trees)
template<typename Tree, typename E>
static void mergeDrained(Ctx& c, Rng& rng, const std::string& name, unsigned trials, unsigned maxN, unsigned maxR)
{
	for (unsigned t = 0; t < trials; ++t) {
		std::string what;
		{
			std::unique_ptr<Tree> ba(new Tree()), bb(new Tree());
			Tree& a = *ba; Tree& b = *bb;
			// a holds keys from 10000 upwards (below 50000), b keys below or above; a's edge facing b is drained
			unsigned n = (unsigned)rng.range(2, maxN), burst = rng.chance(1, 2) ? (unsigned)rng.range(1, maxR) : 0, r = (unsigned)rng.below(maxR + 1);
			bool bBelow = rng.chance(1, 2), asc = rng.chance(2, 3);
			std::vector<uint32_t> ka; for (unsigned i = 0; i < n; ++i) ka.push_back(10000 + i * 100);
			if (!asc) for (size_t i = ka.size(); i > 1; --i) std::swap(ka[i - 1], ka[rng.below(i)]);
			for (uint32_t k : ka) a.Insert(E(k));
			// a burst of insertions a little inside the edge that faces b (fills the neighbour of the edge leaf)
			unsigned at = (unsigned)rng.below(std::min(n, maxR + 2));
			for (unsigned i = 0; i < burst; ++i) a.Insert(E((bBelow ? 10000 + at * 100 : 10000 + (n - 1 - std::min(at, n - 1)) * 100) + 1 + i % 98));
			// remove r elements one by one at the edge facing b
			for (unsigned i = 0; i < r && a.GetCount() > 1; ++i) { auto it = bBelow ? a.GetBegin() : std::prev(a.GetEnd()); a.Remove(it); }
			unsigned nb = rng.chance(1, 3) ? (unsigned)rng.range(1, 12) : (unsigned)rng.range(1, maxN * 6);
			for (unsigned i = 0; i < nb; ++i) b.Insert(E(bBelow ? 100 + i * 3 : 60000 + i * 3));
			bool aToB = rng.chance(1, 2);
			std::vector<uint32_t> all = keysOf(a); { auto d = keysOf(b); all.insert(all.end(), d.begin(), d.end()); }
			long live0 = ec().live, copies0 = ec().copies;
			what = fmt("%s drained-edge merge #%u: a = %u keys (%s) + burst %u at %u, %u removed at the %s edge; b = %u keys %s a; %s",
				name.c_str(), t, n, asc ? "ascending" : "shuffled", burst, at, r, bBelow ? "low" : "high", nb, bBelow ? "below" : "above", aToB ? "a.MergeTo(b)" : "b.MergeTo(a)");
			if (aToB) a.MergeTo(b); else b.MergeTo(a);
			c.stats.evaluations++; c.stats.count("merge.drained"); c.stats.nontrivial(fmt("%s#%u/%u/%u/%u/%u/%d", name.c_str(), n, burst, r, nb, (unsigned)bBelow, (int)aToB));
			Tree& dst = aToB ? b : a; Tree& src = aToB ? a : b;
			std::vector<uint32_t> d1 = keysOf(dst), s1 = keysOf(src);
			std::vector<uint32_t> un = d1; un.insert(un.end(), s1.begin(), s1.end()); std::sort(un.begin(), un.end()); std::sort(all.begin(), all.end());
			if (un != all) c.fail("C10 conserve: %s: %zu elements before, %zu after the merge (destination traversal %zu, GetCount %zu)", what.c_str(), all.size(), un.size(), d1.size(), dst.GetCount());
			if (ec().live != live0) c.fail("C10 conserve: %s: %ld element objects before the merge, %ld after", what.c_str(), live0, ec().live);
			if (d1.size() != dst.GetCount() || s1.size() != src.GetCount()) c.fail("C10 valid: %s: counts disagree with traversals", what.c_str());
			if (!std::is_sorted(d1.begin(), d1.end())) c.fail("C10 valid: %s: destination not sorted after the merge", what.c_str());
			if (std::is_nothrow_move_constructible<E>::value && ec().copies != copies0) c.fail("C10 no-copy: %s: %ld copy constructions of a movable element", what.c_str(), ec().copies - copies0);
			for (uint32_t x : all) if (!dst.ContainsKey(E(x)) && !src.ContainsKey(E(x))) { c.fail("C10 conserve: %s: element %u is in neither container", what.c_str(), x); break; }
			if (t < 3) c.stats.sample(what, 6);
			try { dst.Insert(E(5)); src.Insert(E(6)); } catch (...) { c.fail("C10 usable: %s", what.c_str()); }
		}
		if (!mm().live.empty()) { c.fail("C03 leak: %s: %zu blocks outstanding", what.c_str(), mm().live.size()); mm().live.clear(); }
		if (ec().live != 0) { c.fail("C03 elements: %s: %ld element objects alive after destruction", what.c_str(), ec().live); ec().live = 0; }
	}
}

// ---- extract / re-insert: the element is in exactly one of container, handle
template<typename Set, typename E>
static void extractSweep(Ctx& c, const std::string& name)
{
	for (int m = 0; m < 2; ++m) for (long k = 0; k < 200; ++k) {
		bool threw = false, fired = false;
		{
			std::unique_ptr<Set> ba(new Set()), bb(new Set());
			Set& a = *ba; Set& b = *bb;
			for (unsigned i = 0; i < 12; ++i) a.Insert(E(i));
			for (unsigned i = 0; i < 5; ++i) b.Insert(E(i * 2));	// b has 0 2 4 6 8
			long copies0 = ec().copies, live0 = ec().live;
			typename Set::ExtractedItem h1, h2;
			a.Remove(typename Set::ConstIterator(a.Find(E(3))), h1);	// not in b
			a.Remove(typename Set::ConstIterator(a.Find(E(4))), h2);	// already in b
			if (ec().live != live0) c.fail("C10 extract: %s: number of element objects changed by extraction (%ld -> %ld)", name.c_str(), live0, ec().live);
			arm((Mode)m, k);
			bool in1 = false, in2 = false;
			try { in1 = b.Insert(std::move(h1)).inserted; in2 = b.Insert(std::move(h2)).inserted; }
			catch (const std::bad_alloc&) { threw = true; } catch (const std::runtime_error&) { threw = true; }
			fired = disarm((Mode)m);
			c.stats.evaluations++;
			std::string what = fmt("%s, %s failure #%ld", name.c_str(), modeName[m], k);
			// identity 3: in b xor in h1; identity 4: b already had one -> the extracted one must still be in h2
			bool b3 = b.ContainsKey(E(3));
			if (b3 == !h1.IsEmpty()) c.fail("C10 handle: %s: element 3 is %s the destination and the handle is %s", what.c_str(), b3 ? "in" : "not in", h1.IsEmpty() ? "empty" : "full");
			if (!threw && (!in1 || in2)) c.fail("C10 handle: %s: re-insertion flags %d %d", what.c_str(), (int)in1, (int)in2);
			if (!threw && h2.IsEmpty()) c.fail("C10 handle: %s: a refused element (key 4 present) left the node handle", what.c_str());
			if (ec().live != live0) c.fail("C10 handle: %s: number of element objects changed (%ld -> %ld)", what.c_str(), live0, ec().live);
			if (std::is_nothrow_move_constructible<E>::value && ec().copies != copies0) c.fail("C10 no-copy: %s: %ld copies during extract / re-insert", what.c_str(), ec().copies - copies0);
			if (threw) { c.stats.count("extract.threw"); c.stats.nontrivial(what); }
		}
		if (!mm().live.empty()) { c.fail("C03 leak: %s: %zu blocks outstanding", name.c_str(), mm().live.size()); mm().live.clear(); }
		if (ec().live != 0) { c.fail("C03 elements: %s: %ld element objects alive after destruction", name.c_str(), ec().live); ec().live = 0; }
		if (!threw && !fired) break;
	}
}

// ---- maps: the pair (key, value) is transferred as a whole. Key nothrow-movable, mapped value copy-only with a copy constructor
// that can throw: the value's relocation is the fallible step in the middle of the transfer of ONE element (MapKeyValueTraits::
// Relocate), in every step of MergeTo, in Extract and in the re-insertion of an extracted pair.
struct NoExtraHM : public momo::HashMapSettings { static const momo::ExtraCheckMode extraCheckMode = momo::ExtraCheckMode::nothing; };
struct NoExtraTM : public momo::TreeMapSettings { static const momo::ExtraCheckMode extraCheckMode = momo::ExtraCheckMode::nothing; };
template<typename M> static std::vector<uint32_t> mapKeys(M& m) { std::vector<uint32_t> v; for (auto ref : m) v.push_back(idOf(ref.key)); return v; }
// every stored pair is a live key with its own live value, and the key is found under its own name
template<typename M> static std::string mapDefect(M& m)
{
	for (auto ref : m) {
		if (ref.key.state != 0xA11CE) return fmt("the key object %u inside the container is not alive (state %x)", idOf(ref.key), ref.key.state);
		if (ref.value.state != 0xA11CE) return fmt("the value object of key %u is not alive (state %x)", idOf(ref.key), ref.value.state);
		if (idOf(ref.value) != idOf(ref.key) + 5000) return fmt("key %u carries the value %u of another key", idOf(ref.key), idOf(ref.value));
	}
	std::vector<uint32_t> ks = mapKeys(m);
	for (uint32_t k : ks) { auto it = m.Find(ElemNM(k)); if (it == m.GetEnd() || idOf(it->key) != k) return fmt("stored key %u is not found by Find", k); }
	if (ks.size() != m.GetCount()) return fmt("GetCount %zu but the traversal visits %zu pairs", m.GetCount(), ks.size());
	return "";
}

template<typename Src, typename Dst>
static void mapMergeSweep(Ctx& c, const std::string& name, bool functorFaults, unsigned pattern)
{
	for (int m = -1; m < (functorFaults ? 3 : 2); ++m) {
		for (long k = 0; k < 800; ++k) {
			bool threw = false, fired = false;
			{
				std::unique_ptr<Src> bs(new Src()); std::unique_ptr<Dst> bd(new Dst());
				Src& src = *bs; Dst& dst = *bd;
				for (unsigned i = 0; i < 24; ++i) { uint32_t ks = (pattern == 0) ? i : (pattern == 1 ? 1000 + i : i * 2); src.Insert(ElemNM(ks), ElemCO(ks + 5000)); }
				if (pattern != 3) for (unsigned i = 0; i < 18; ++i) { uint32_t kd = (pattern == 0) ? 1000 + i : (pattern == 1 ? i : i * 3); dst.Insert(ElemNM(kd), ElemCO(kd + 5000)); }
				std::vector<uint32_t> all = mapKeys(src); { auto d = mapKeys(dst); all.insert(all.end(), d.begin(), d.end()); }
				std::vector<uint32_t> dstBefore = mapKeys(dst);
				long live0 = ec().live;
				if (m >= 0) arm((Mode)m, k);
				try { src.MergeTo(dst); }
				catch (const std::bad_alloc&) { threw = true; } catch (const std::runtime_error&) { threw = true; } catch (const std::domain_error&) { threw = true; }
				if (m >= 0) fired = disarm((Mode)m);
				c.stats.evaluations++;
				std::string what = fmt("%s pattern %u, %s failure #%ld", name.c_str(), pattern, m < 0 ? "no" : modeName[m], k);
				std::vector<uint32_t> s1 = mapKeys(src), d1 = mapKeys(dst);
				std::vector<uint32_t> un = s1; un.insert(un.end(), d1.begin(), d1.end());
				std::sort(un.begin(), un.end()); std::vector<uint32_t> ex = all; std::sort(ex.begin(), ex.end());
				if (un != ex) c.fail("C10 conserve: %s: src ⊎ dst changed: before {%s} after src {%s} dst {%s}", what.c_str(), show(ex).c_str(), show(s1).c_str(), show(d1).c_str());
				if (hasDup(d1)) c.fail("C10 unique: %s: duplicate key in the destination", what.c_str());
				if (!subsetOf(dstBefore, d1)) c.fail("C10 conserve: %s: the destination lost a pair it had", what.c_str());
				std::string ds = mapDefect(src), dd = mapDefect(dst);
				if (!ds.empty()) c.fail("C10 valid: %s: source: %s", what.c_str(), ds.c_str());
				if (!dd.empty()) c.fail("C10 valid: %s: destination: %s", what.c_str(), dd.c_str());
				if (ec().live != live0) c.fail("C10 one-place: %s: %ld key/value objects alive, %ld before the merge (an object of a transferred pair was duplicated or lost)", what.c_str(), ec().live, live0);
				if (threw) { c.stats.count("mapmerge.threw"); c.stats.nontrivial(what);
					try { src.MergeTo(dst); src.Insert(ElemNM(77777), ElemCO(82777)); dst.Insert(ElemNM(88888), ElemCO(93888)); } catch (...) { c.fail("C10 usable: %s", what.c_str()); } }
			}
			if (!mm().live.empty()) { c.fail("C03 leak: %s: %zu blocks outstanding", name.c_str(), mm().live.size()); mm().live.clear(); }
			if (mm().badDealloc) { c.fail("C03 dealloc: %s: bad deallocation", name.c_str()); mm().badDealloc = 0; }
			if (ec().live != 0) { c.fail("C03 elements: %s pattern %u %s failure #%ld: %ld key/value objects alive after destruction (negative = destroyed twice)", name.c_str(), pattern, m < 0 ? "no" : modeName[m], k, ec().live); ec().live = 0; }
			if (m < 0 || (!threw && !fired)) break;
		}
	}
}

template<typename Map>
static void mapExtractSweep(Ctx& c, const std::string& name)
{
	for (int m = 0; m < 2; ++m) for (long k = 0; k < 200; ++k) {
		bool threw = false, fired = false;
		{
			std::unique_ptr<Map> ba(new Map()), bb(new Map());
			Map& a = *ba; Map& b = *bb;
			for (unsigned i = 0; i < 12; ++i) a.Insert(ElemNM(i), ElemCO(i + 5000));
			for (unsigned i = 0; i < 5; ++i) b.Insert(ElemNM(i * 2), ElemCO(i * 2 + 5000));
			long live0 = ec().live;
			typename Map::ExtractedPair h1, h2;
			arm((Mode)m, k);
			bool in1 = false, in2 = false; int stage = 0;
			try {
				a.Remove(typename Map::ConstIterator(a.Find(ElemNM(11))), h1); stage = 1;	// the last element: it is moved out of its slot
				a.Remove(typename Map::ConstIterator(a.Find(ElemNM(4))), h2); stage = 2;
				in1 = b.Insert(std::move(h1)).inserted; stage = 3;
				in2 = b.Insert(std::move(h2)).inserted; stage = 4;
			}
			catch (const std::bad_alloc&) { threw = true; } catch (const std::runtime_error&) { threw = true; }
			fired = disarm((Mode)m);
			c.stats.evaluations++;
			std::string what = fmt("%s, %s failure #%ld (stage %d)", name.c_str(), modeName[m], k, stage);
			// each of the pairs 11 and 4 of `a` lives in exactly one of a, its handle, b  (b had its own pair 4 from the start)
			int places11 = (int)a.ContainsKey(ElemNM(11)) + (int)!h1.IsEmpty() + (int)b.ContainsKey(ElemNM(11));
			int places4 = (int)a.ContainsKey(ElemNM(4)) + (int)!h2.IsEmpty();
			if (places11 != 1) c.fail("C10 one-place: %s: pair 11 lives in %d places (source / handle / destination)", what.c_str(), places11);
			if (places4 != 1) c.fail("C10 one-place: %s: pair 4 of the source lives in %d places (source / handle); the destination has its own", what.c_str(), places4);
			if (!threw && (!in1 || in2)) c.fail("C10 handle: %s: re-insertion flags %d %d", what.c_str(), (int)in1, (int)in2);
			// a pair that sits in a node handle is exactly the extracted pair: its own key AND its own value, both alive
			if (!h1.IsEmpty() && (idOf(h1.GetKey()) != 11 || idOf(h1.GetValue()) != 5011 || h1.GetKey().state != 0xA11CE || h1.GetValue().state != 0xA11CE))
				c.fail("C10 handle: %s: the handle of pair 11=5011 holds %u=%u (object states %x / %x)", what.c_str(), idOf(h1.GetKey()), idOf(h1.GetValue()), h1.GetKey().state, h1.GetValue().state);
			if (!h2.IsEmpty() && (idOf(h2.GetKey()) != 4 || idOf(h2.GetValue()) != 5004 || h2.GetKey().state != 0xA11CE || h2.GetValue().state != 0xA11CE))
				c.fail("C10 handle: %s: the handle of pair 4=5004 holds %u=%u (object states %x / %x)", what.c_str(), idOf(h2.GetKey()), idOf(h2.GetValue()), h2.GetKey().state, h2.GetValue().state);
			std::string da = mapDefect(a), db = mapDefect(b);
			if (!da.empty()) c.fail("C10 valid: %s: source: %s", what.c_str(), da.c_str());
			if (!db.empty()) c.fail("C10 valid: %s: destination: %s", what.c_str(), db.c_str());
			if (ec().live != live0) c.fail("C10 one-place: %s: number of key/value objects changed (%ld -> %ld)", what.c_str(), live0, ec().live);
			if (threw) { c.stats.count("mapextract.threw"); c.stats.nontrivial(what); }
		}
		if (!mm().live.empty()) { c.fail("C03 leak: %s: %zu blocks outstanding", name.c_str(), mm().live.size()); mm().live.clear(); }
		if (ec().live != 0) { c.fail("C03 elements: %s %s failure #%ld: %ld key/value objects alive after destruction (negative = destroyed twice)", name.c_str(), modeName[m], k, ec().live); ec().live = 0; }
		if (!threw && !fired) break;
	}
}

int main(int argc, char** argv)
{
	Ctx c = parseArgs(argc, argv);
	typedef momo::HashSet<ElemNM, ThrowHashTraits<ElemNM, momo::HashBucketLimP4<>>, FaultMM, momo::HashSetItemTraits<ElemNM, FaultMM>, NoExtraS> HNM;
	typedef momo::HashSet<ElemCO, ThrowHashTraits<ElemCO, momo::HashBucketLimP4<>>, FaultMM, momo::HashSetItemTraits<ElemCO, FaultMM>, NoExtraS> HCO;
	typedef momo::HashSet<ElemNM, ThrowHashTraits<ElemNM, momo::HashBucketOpen8>, FaultMM, momo::HashSetItemTraits<ElemNM, FaultMM>, NoExtraS> H8NM;
	typedef momo::TreeNode<4, 1, momo::MemPoolParams<2, 0>, true> N4;
	typedef momo::TreeSet<ElemNM, ThrowTreeTraits<ElemNM, N4>, FaultMM, momo::TreeSetItemTraits<ElemNM, FaultMM>, NoExtraT> TNM;
	typedef momo::TreeSet<ElemCO, ThrowTreeTraits<ElemCO, N4>, FaultMM, momo::TreeSetItemTraits<ElemCO, FaultMM>, NoExtraT> TCO;
	typedef momo::TreeSet<ElemNM, ThrowTreeTraits<ElemNM, momo::TreeNode<32>>, FaultMM, momo::TreeSetItemTraits<ElemNM, FaultMM>, NoExtraT> T32;
	bulkKeyed<HNM, ElemNM>(c, "HashSet<LimP4,nothrow-move>", true);
	bulkKeyed<HCO, ElemCO>(c, "HashSet<LimP4,copy-only>", true);
	bulkKeyed<H8NM, ElemNM>(c, "HashSet<Open8,nothrow-move>", true);
	bulkKeyed<TNM, ElemNM>(c, "TreeSet<cap4,nothrow-move>", true);
	bulkKeyed<TCO, ElemCO>(c, "TreeSet<cap4,copy-only>", true);
	bulkKeyed<T32, ElemNM>(c, "TreeSet<cap32,nothrow-move>", true);
	bulkArray<momo::Array<ElemNM, FaultMM>, ElemNM>(c, "Array<nothrow-move>");
	bulkArray<momo::Array<ElemCO, FaultMM>, ElemCO>(c, "Array<copy-only>");
	bulkArray<momo::SegmentedArray<ElemNM, FaultMM>, ElemNM>(c, "SegmentedArray<nothrow-move>");
	bulkArray<momo::SegmentedArray<ElemCO, FaultMM>, ElemCO>(c, "SegmentedArray<copy-only>");
	for (unsigned p = 0; p < 4; ++p) {
		mergeSweep<HNM, HNM, ElemNM>(c, "HashSet->HashSet nothrow-move", true, p);
		mergeSweep<HCO, HCO, ElemCO>(c, "HashSet->HashSet copy-only", true, p);
		mergeSweep<TNM, TNM, ElemNM>(c, "TreeSet->TreeSet nothrow-move", true, p);
		mergeSweep<TCO, TCO, ElemCO>(c, "TreeSet->TreeSet copy-only", true, p);
		mergeSweep<T32, T32, ElemNM>(c, "TreeSet<32>->TreeSet<32> nothrow-move", true, p);
		mergeSweep<TNM, HNM, ElemNM>(c, "TreeSet->HashSet nothrow-move", true, p);
		mergeSweep<HNM, TNM, ElemNM>(c, "HashSet->TreeSet nothrow-move", true, p);
		mergeSweep<HCO, TCO, ElemCO>(c, "HashSet->TreeSet copy-only", true, p);
	}
	{
		Rng rng(c.seed * 0x1000 + 10);
		unsigned T = c.thorough ? 6000 : 700;
		typedef momo::TreeSet<ElemNM, ThrowTreeTraits<ElemNM, momo::TreeNode<4, 2>>, FaultMM, momo::TreeSetItemTraits<ElemNM, FaultMM>, NoExtraT> T42;
		typedef momo::TreeSet<ElemNM, ThrowTreeTraits<ElemNM, momo::TreeNode<6, 1, momo::MemPoolParams<1>, false>>, FaultMM, momo::TreeSetItemTraits<ElemNM, FaultMM>, NoExtraT> T61;
		mergeDrained<TNM, ElemNM>(c, rng, "TreeSet<cap4 step1,nothrow-move>", T, 60, 9);
		mergeDrained<TCO, ElemCO>(c, rng, "TreeSet<cap4 step1,copy-only>", T / 2, 60, 9);
		mergeDrained<T42, ElemNM>(c, rng, "TreeSet<cap4 step2,nothrow-move>", T, 60, 9);
		mergeDrained<T61, ElemNM>(c, rng, "TreeSet<cap6 step1 indexed,nothrow-move>", T, 80, 13);
		mergeDrained<T32, ElemNM>(c, rng, "TreeSet<cap32,nothrow-move>", T, 300, 40);
	}
	{
		typedef momo::HashMap<ElemNM, ElemCO, ThrowHashTraits<ElemNM, momo::HashBucketLimP4<>>, FaultMM, momo::HashMapKeyValueTraits<ElemNM, ElemCO, FaultMM>, NoExtraHM> HM;
		typedef momo::HashMap<ElemNM, ElemCO, ThrowHashTraits<ElemNM, momo::HashBucketOpen8>, FaultMM, momo::HashMapKeyValueTraits<ElemNM, ElemCO, FaultMM>, NoExtraHM> HM8;
		typedef momo::TreeMap<ElemNM, ElemCO, ThrowTreeTraits<ElemNM, N4>, FaultMM, momo::TreeMapKeyValueTraits<ElemNM, ElemCO, FaultMM>, NoExtraTM> TM;
		for (unsigned p = 0; p < 4; ++p) {
			mapMergeSweep<HM, HM>(c, "HashMap->HashMap nothrow-move key, copy-only value", true, p);
			mapMergeSweep<HM8, HM8>(c, "HashMap<Open8>->HashMap<Open8> nothrow-move key, copy-only value", true, p);
			mapMergeSweep<TM, TM>(c, "TreeMap->TreeMap nothrow-move key, copy-only value", true, p);
			mapMergeSweep<TM, HM>(c, "TreeMap->HashMap nothrow-move key, copy-only value", true, p);
			mapMergeSweep<HM, TM>(c, "HashMap->TreeMap nothrow-move key, copy-only value", true, p);
		}
		mapExtractSweep<HM>(c, "HashMap<nothrow-move key, copy-only value> extract/re-insert");
		mapExtractSweep<HM8>(c, "HashMap<Open8, nothrow-move key, copy-only value> extract/re-insert");
		mapExtractSweep<TM>(c, "TreeMap<nothrow-move key, copy-only value> extract/re-insert");
	}
	extractSweep<HNM, ElemNM>(c, "HashSet<nothrow-move> extract/re-insert");
	extractSweep<HCO, ElemCO>(c, "HashSet<copy-only> extract/re-insert");
	extractSweep<TNM, ElemNM>(c, "TreeSet<nothrow-move> extract/re-insert");
	extractSweep<TCO, ElemCO>(c, "TreeSet<copy-only> extract/re-insert");
	return c.finish();
}
