// C20 correspondence harness, part 5: a base allocator that throws bad_alloc, and over-aligned value types, at allocator level:
// for every pool parameter 1..16 blocks per buffer (17..32: c20_fault1b), allocate / deallocate of singles and arrays of three value types
// (one or two of them with alignof > UIntConst::maxAlignment) through allocator objects that share pools by rebinding; about
// every third allocate and every fifth constructor is run with the base allocator armed to throw at its next request.
// Model: `FOp.allocFail` / `FOp.newFail` (trace ops `allocfail`, `anewfail`); oracles: see c20_alloc.h (LogA::allocate).
#define C20_DIRECT_FAULTS
#include "c20_direct.cpp"
