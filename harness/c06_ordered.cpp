// C06 correspondence harness, ordered part: momo::stdish::set / multiset / map / multimap against
// (a) the libstdc++ container they replace (property level: every return value and the contents after
// every call) and (b) the Lean model `stdwrap` (model level: the wrapper decisions pvCheckHint /
// pvFind(hint) / equal_range / node handling replayed on the same call sequence).
// VF_ALLOC=0: std::allocator, VF_ALLOC=1: stateful allocator SA<.,false,false,false>, 2: SA<.,true,true,true>
#include "momo/stdish/set.h"
#include "momo/stdish/map.h"
#include "c06_common.h"

#include <set>
#include <map>

#ifndef VF_ALLOC
#define VF_ALLOC 0
#endif

using namespace c06;

template<typename T> struct AllocOf {
#if VF_ALLOC == 0
	typedef std::allocator<T> type;
#elif VF_ALLOC == 1
	typedef SA<T, false, false, false> type;
#else
	typedef SA<T, true, true, true> type;
#endif
};

template<bool isMap> struct El;
template<> struct El<false> {
	template<typename It> static P get(It it) { return P(it->k, it->v); }
	static KV make(int k, int v) { return KV(k, v); }
	template<typename Node> static P node(const Node& n) { return P(n.value().k, n.value().v); }
};
template<> struct El<true> {
	template<typename It> static P get(It it) { return P(it->first, it->second); }
	static std::pair<int, int> make(int k, int v) { return std::pair<int, int>(k, v); }
	template<typename Node> static P node(const Node& n) { return P(n.key(), n.mapped()); }
};

template<typename C, bool isMap>
static std::vector<P> contentsOf(const C& c)
{
	std::vector<P> v;
	for (auto it = c.begin(); it != c.end(); ++it) v.push_back(El<isMap>::get(it));
	return v;
}

template<typename C> static typename C::key_type keyArg(int k, std::true_type) { return k; }
template<typename C> static typename C::key_type keyArg(int k, std::false_type) { return KV(k, -1); }

// ---- every call of the shared interface once, generic in the container (momo or std)
template<typename C, bool isMap, bool isMulti>
struct Ops {
	typedef El<isMap> E;
	typedef typename C::node_type Node;
	static typename C::key_type K(int k) { return keyArg<C>(k, std::integral_constant<bool, isMap>()); }
	static size_t rank(const C& c, typename C::const_iterator it) { return (size_t)std::distance(c.begin(), it); }
	static std::string rankStr(const C& c, typename C::const_iterator it) { return it == c.end() ? "end" : fmt("%zu", rank(c, it)); }
	static typename C::const_iterator at(const C& c, size_t r) { return std::next(c.begin(), (ptrdiff_t)r); }
	static std::string nodeStr(const std::optional<Node>& n) { if (!n || n->empty()) return "empty"; P p = E::node(*n); return fmt("%d:%d", p.first, p.second); }

	static std::string ins(C& c, int k, int v, bool emplace) {
		if constexpr (isMulti) {
			auto it = emplace ? emp(c, k, v) : c.insert(E::make(k, v));
			return fmt("%zu 1", rank(c, it));
		} else {
			auto r = emplace ? emp(c, k, v) : c.insert(E::make(k, v));
			return fmt("%zu %d", rank(c, r.first), (int)r.second);
		}
	}
	static auto emp(C& c, int k, int v) { if constexpr (isMap) return c.emplace(k, v); else return c.emplace(KV(k, v)); }
	static std::string insh(C& c, size_t h, int k, int v, bool emplace) {
		auto hint = at(c, h);
		typename C::iterator it;
		if (!emplace) it = c.insert(hint, E::make(k, v));
		else if constexpr (isMap) it = c.emplace_hint(hint, k, v);
		else it = c.emplace_hint(hint, KV(k, v));
		return fmt("%zu", rank(c, it));
	}
	static std::string tryEmplace(C& c, int k, int v) { if constexpr (isMap && !isMulti) { auto r = c.try_emplace(k, v); return fmt("%zu %d", rank(c, r.first), (int)r.second); } else return ""; }
	static std::string tryEmplaceH(C& c, size_t h, int k, int v) { if constexpr (isMap && !isMulti) { auto it = c.try_emplace(at(c, h), k, v); return fmt("%zu", rank(c, it)); } else return ""; }
	static std::string ioa(C& c, int k, int v) { if constexpr (isMap && !isMulti) { auto r = c.insert_or_assign(k, v); return fmt("%zu %d", rank(c, r.first), (int)r.second); } else return ""; }
	static std::string ioaH(C& c, size_t h, int k, int v) { if constexpr (isMap && !isMulti) { auto it = c.insert_or_assign(at(c, h), k, v); return fmt("%zu", rank(c, it)); } else return ""; }
	static std::string idxr(C& c, int k) { if constexpr (isMap && !isMulti) { int x = c[k]; return fmt("%d", x); } else return ""; }
	static std::string idxw(C& c, int k, int v) { if constexpr (isMap && !isMulti) { c[k] = v; return "ok"; } else return ""; }
	static std::string atKey(C& c, int k) {
		if constexpr (isMap && !isMulti) {
			try { int x = c.at(k); const C& cc = c; int y = cc.at(k); return x == y ? fmt("%d", x) : std::string("const/non-const at differ"); }
			catch (const std::out_of_range&) { return "E:out_of_range"; }
		} else return "";
	}
	static std::string find(const C& c, int k) { return rankStr(c, c.find(K(k))); }
	static std::string cnt(const C& c, int k) { return fmt("%zu", (size_t)c.count(K(k))); }
	static std::string has(const C& c, int k) { return fmt("%d", (int)(c.find(K(k)) != c.end())); }
	static std::string lb(const C& c, int k) { return fmt("%zu", rank(c, c.lower_bound(K(k)))); }
	static std::string ub(const C& c, int k) { return fmt("%zu", rank(c, c.upper_bound(K(k)))); }
	static std::string eqr(const C& c, int k) { auto r = c.equal_range(K(k)); return fmt("%zu %zu", rank(c, r.first), rank(c, r.second)); }
	static std::string erk(C& c, int k) { return fmt("%zu", (size_t)c.erase(K(k))); }
	static std::string erp(C& c, size_t r) { auto it = c.erase(at(c, r)); return fmt("%zu", rank(c, it)); }
	static std::string err(C& c, size_t r1, size_t r2) { auto it = c.erase(at(c, r1), at(c, r2)); return fmt("%zu", rank(c, it)); }
	static std::string exk(C& c, int k, std::optional<Node>& n) {
		n.reset(); n.emplace(c.extract(K(k)));
		if (n->empty()) return "empty";
		P p = E::node(*n); return fmt("%d %d", p.first, p.second);
	}
	static std::string exp(C& c, size_t r, std::optional<Node>& n) {
		n.reset(); n.emplace(c.extract(at(c, r)));
		P p = E::node(*n); return fmt("%d %d", p.first, p.second);
	}
	static std::string insn(C& c, std::optional<Node>& n) {
		if (!n) n.emplace();
		if constexpr (isMulti) {
			bool was = !n->empty();
			auto it = c.insert(std::move(*n));
			std::string r = fmt("%s %d ", rankStr(c, it).c_str(), (int)was);
			n.reset(); n.emplace();
			return r + "empty";
		} else {
			auto res = c.insert(std::move(*n));
			std::string r = fmt("%s %d ", rankStr(c, res.position).c_str(), (int)res.inserted);
			n.reset(); n.emplace(std::move(res.node));
			return r + nodeStr(n);
		}
	}
	static std::string insnh(C& c, size_t h, std::optional<Node>& n) {
		if (!n) n.emplace();
		auto it = c.insert(at(c, h), std::move(*n));
		// the handle is inspected after the call: empty if inserted, unchanged if refused
		return fmt("%s %s", rankStr(c, it).c_str(), nodeStr(n).c_str());
	}
	static std::string cmp(const C& a, const C& b) {
		return fmt("%d %d %d %d %d %d", (int)(a == b), (int)(a != b), (int)(a < b), (int)(a <= b), (int)(a > b), (int)(a >= b));
	}
};

// std::erase_if for associative containers is C++20; the reference does it by hand
template<typename C, bool isMap>
static size_t eraseIfStd(C& c, int m, int r)
{
	size_t n = 0;
	for (auto it = c.begin(); it != c.end(); ) {
		if (El<isMap>::get(it).first % m == r) { it = c.erase(it); ++n; } else ++it;
	}
	return n;
}
template<typename C, bool isMap>
static size_t eraseIfMomo(C& c, int m, int r)
{
	if constexpr (isMap) return erase_if(c, [m, r](typename C::const_reference ref) { return ref.first % m == r; });
	else return erase_if(c, [m, r](const KV& x) { return x.k % m == r; });
}

template<typename M, typename S, bool isMap, bool isMulti>
static void runOrdered(Ctx& c, Rng& rng, const char* kind, unsigned runs, unsigned opsPerRun)
{
	typedef Ops<M, isMap, isMulti> OM;
	typedef Ops<S, isMap, isMulti> OS;
	typedef typename M::allocator_type AM;
	typedef typename S::allocator_type AS;
	std::string suite = fmt("ord_%s_a%d", kind, VF_ALLOC);
	Suite s(c, suite, fmt("model stdwrap kind=%s", kind));
	for (unsigned run = 0; run < runs; ++run) {
		Run R(c, s, suite, kind);
		unsigned mode = (unsigned)rng.below(5);
		static const int ranges[] = { 6, 24, 120, 700, 5000 };
		int range = ranges[rng.below(5)];
		if (mode == 3 && range < 12) range = 24;
		KeyGen kg(rng, mode, range);
		static const size_t targets[] = { 0, 20, 80, 300, 700 };
		size_t target = targets[rng.below(5)];	// the run keeps container a around this size (B-tree nodes hold 32 items)
		s.comment(fmt("run %u keys=%s range=%d target=%zu", run, keyModeName(mode), range, target));
		s.op("reset"); s.res("ok");
		// two containers and one node handle on each side; allocators 1 and 1 (equal: swap is always legal)
		M ma(mkAlloc<AM>(1)), mb(mkAlloc<AM>(1));
		S sa(mkAlloc<AS>(1)), sb(mkAlloc<AS>(1));
		std::optional<typename M::node_type> nm; std::optional<typename S::node_type> ns;
		int nextTag = 1;
		size_t maxSize = 0;
		auto check = [&](bool force) {
			size_t n = std::max(ma.size(), mb.size());
			if (!force && n > 48 && R.steps % 16 != 0) return;
			R.contents("a", seqStr(contentsOf<M, isMap>(ma)), seqStr(contentsOf<S, isMap>(sa)));
			R.contents("b", seqStr(contentsOf<M, isMap>(mb)), seqStr(contentsOf<S, isMap>(sb)));
			if (ma.size() != sa.size() || ma.empty() != sa.empty()) c.fail("C06 %s/%s size()/empty() differ", suite.c_str(), kind);
		};
		for (unsigned step = 0; step < opsPerRun; ++step) {
			bool grow = ma.size() < target && rng.chance(2, 3);
			bool onA = grow || rng.chance(3, 4);
			M& m = onA ? ma : mb; S& st = onA ? sa : sb;
			const char* cn = onA ? "a" : "b";
			size_t n = m.size();
			int k = kg.any();
			int v = nextTag++;
			// hint positions: the exact bounds, their neighbours, the ends, anything
			auto hintFor = [&](int key) -> size_t {
				size_t lo = OS::rank(st, st.lower_bound(OS::K(key))), hi = OS::rank(st, st.upper_bound(OS::K(key)));
				switch (rng.below(8)) {
				case 0: return lo;
				case 1: return hi;
				case 2: return lo > 0 ? lo - 1 : 0;
				case 3: return hi < n ? hi + 1 : n;
				case 4: return 0;
				case 5: return n;
				case 6: return lo + (size_t)rng.below(hi - lo + 1);
				default: return (size_t)rng.below(n + 1);
				}
			};
			unsigned op = (unsigned)rng.below(100);
			if (grow) op = (unsigned)rng.below(30);
			else if (n > target + 40 && op < 40) op = 60 + op % 12;	// keep the sequences printable
			if (op < 14) { bool e = rng.chance(1, 3); R.step(fmt("%s %s %d %d", e ? "emp" : "ins", cn, k, v), OM::ins(m, k, v, e), OS::ins(st, k, v, e)); }
			else if (op < 30) {
				bool e = rng.chance(1, 2); size_t h = hintFor(k);
				size_t lo = OS::rank(st, st.lower_bound(OS::K(k))), hi = OS::rank(st, st.upper_bound(OS::K(k)));
				c.stats.count(h < lo ? "hint.left_of_range" : (h > hi ? "hint.right_of_range" : (lo == hi ? "hint.exact_absent" : "hint.inside_equal_range")));
				R.step(fmt("%s %s %zu %d %d", e ? "emph" : "insh", cn, h, k, v), OM::insh(m, h, k, v, e), OS::insh(st, h, k, v, e));
			}
			else if (op < 40 && isMap && !isMulti) {
				switch (rng.below(7)) {
				case 0: R.step(fmt("try %s %d %d", cn, k, v), OM::tryEmplace(m, k, v), OS::tryEmplace(st, k, v)); break;
				case 1: { size_t h = hintFor(k); R.step(fmt("tryh %s %zu %d %d", cn, h, k, v), OM::tryEmplaceH(m, h, k, v), OS::tryEmplaceH(st, h, k, v)); break; }
				case 2: R.step(fmt("ioa %s %d %d", cn, k, v), OM::ioa(m, k, v), OS::ioa(st, k, v)); break;
				case 3: { size_t h = hintFor(k); R.step(fmt("ioah %s %zu %d %d", cn, h, k, v), OM::ioaH(m, h, k, v), OS::ioaH(st, h, k, v)); break; }
				case 4: R.step(fmt("idxr %s %d", cn, k), OM::idxr(m, k), OS::idxr(st, k)); break;
				case 5: R.step(fmt("idxw %s %d %d", cn, k, v), OM::idxw(m, k, v), OS::idxw(st, k, v)); break;
				default: { std::string a = OM::atKey(m, k); if (a == "E:out_of_range") c.stats.count("at.out_of_range"); R.step(fmt("at %s %d", cn, k), a, OS::atKey(st, k)); break; }
				}
			}
			else if (op < 46) R.step(fmt("find %s %d", cn, k), OM::find(m, k), OS::find(st, k));
			else if (op < 49) R.step(fmt("cnt %s %d", cn, k), OM::cnt(m, k), OS::cnt(st, k));
			else if (op < 51) R.step(fmt("has %s %d", cn, k), OM::has(m, k), OS::has(st, k));
			else if (op < 54) R.step(fmt("lb %s %d", cn, k), OM::lb(m, k), OS::lb(st, k));
			else if (op < 57) R.step(fmt("ub %s %d", cn, k), OM::ub(m, k), OS::ub(st, k));
			else if (op < 60) R.step(fmt("eqr %s %d", cn, k), OM::eqr(m, k), OS::eqr(st, k));
			else if (op < 65) R.step(fmt("erk %s %d", cn, k), OM::erk(m, k), OS::erk(st, k));
			else if (op < 69) { if (n == 0) continue; size_t r = (size_t)rng.below(n); R.step(fmt("erp %s %zu", cn, r), OM::erp(m, r), OS::erp(st, r)); }
			else if (op < 73) {
				size_t r1 = (size_t)rng.below(n + 1), r2 = r1 + (size_t)rng.below(std::min<size_t>(n - r1, rng.chance(1, 8) ? n : 6) + 1);
				if (rng.chance(1, 10)) { r1 = 0; r2 = n; }
				c.stats.count(r1 == r2 ? "err.empty" : (r1 == 0 && r2 == n ? "err.whole" : "err.part"));
				R.step(fmt("err %s %zu %zu", cn, r1, r2), OM::err(m, r1, r2), OS::err(st, r1, r2));
			}
			else if (op < 77) R.step(fmt("exk %s %d", cn, k), OM::exk(m, k, nm), OS::exk(st, k, ns));
			else if (op < 79) { if (n == 0) continue; size_t r = (size_t)rng.below(n); R.step(fmt("exp %s %zu", cn, r), OM::exp(m, r, nm), OS::exp(st, r, ns)); }
			else if (op < 83) { std::string a = OM::insn(m, nm); if (a.find(" 0 ") != std::string::npos && a.find("empty") == std::string::npos) c.stats.count("node.refused_kept"); R.step(fmt("insn %s", cn), a, OS::insn(st, ns)); }
			else if (op < 87) {
				// hinted node insertion; the node is usually one that was just extracted from the other container
				if ((!nm || nm->empty()) && !(onA ? mb : ma).empty() && rng.chance(3, 4)) {
					M& o = onA ? mb : ma; S& os = onA ? sb : sa; const char* on = onA ? "b" : "a";
					size_t r = (size_t)rng.below(o.size());
					R.step(fmt("exp %s %zu", on, r), OM::exp(o, r, nm), OS::exp(os, r, ns));
				}
				int nk = (nm && !nm->empty()) ? El<isMap>::node(*nm).first : k;
				size_t h = hintFor(nk);
				std::string a = OM::insnh(m, h, nm);
				if (a.find("empty") == std::string::npos) c.stats.count("node.hinted_refused_kept");
				R.step(fmt("insnh %s %zu", cn, h), a, OS::insnh(st, h, ns));
			}
			else if (op < 89) { ma.merge(mb); sa.merge(sb); R.step("merge", fmt("%zu %zu", ma.size(), mb.size()), fmt("%zu %zu", sa.size(), sb.size())); }
			else if (op < 91) { if (rng.chance(1, 2)) { ma.swap(mb); sa.swap(sb); } else { swap(ma, mb); swap(sa, sb); } R.step("swap", "ok", "ok"); }
			else if (op < 92) { ma = mb; sa = sb; R.step("copy", "ok", "ok"); }
			else if (op < 93) { ma = std::move(mb); sa = std::move(sb); recreate(mb, mkAlloc<AM>(1)); recreate(sb, mkAlloc<AS>(1)); R.step("move", "ok", "ok"); }
			else if (op < 97) { std::string a = OM::cmp(ma, mb); c.stats.count(std::string("cmp.") + a.substr(0, 1)); R.step("cmp", a, OS::cmp(sa, sb)); }
			else if (op < 98) { int mm = 2 + (int)rng.below(4), rr = (int)rng.below((uint64_t)mm); R.step(fmt("erif %s %d %d", cn, mm, rr), fmt("%zu", eraseIfMomo<M, isMap>(m, mm, rr)), fmt("%zu", eraseIfStd<S, isMap>(st, mm, rr))); }
			else if (op < 99 && rng.chance(1, 3)) { m.clear(); st.clear(); R.step(fmt("clear %s", cn), "ok", "ok"); }
			else { R.step(fmt("dump %s", cn), seqStr(contentsOf<M, isMap>(m)), seqStr(contentsOf<S, isMap>(st))); }
			check(false);
			if (R.diverged) break;
			maxSize = std::max(maxSize, std::max(ma.size(), mb.size()));
			if (step % 24 == 23) { R.step("dump a", seqStr(contentsOf<M, isMap>(ma)), seqStr(contentsOf<S, isMap>(sa))); R.step("dump b", seqStr(contentsOf<M, isMap>(mb)), seqStr(contentsOf<S, isMap>(sb))); }
			if (allocId(ma.get_allocator()) != allocId(sa.get_allocator()) || allocId(mb.get_allocator()) != allocId(sb.get_allocator())) c.fail("C06 %s/%s allocator changed", suite.c_str(), kind);
		}
		if (R.diverged) { s.comment("run abandoned after a disagreement"); continue; }
		check(true);
		R.step("dump a", seqStr(contentsOf<M, isMap>(ma)), seqStr(contentsOf<S, isMap>(sa)));
		R.step("dump b", seqStr(contentsOf<M, isMap>(mb)), seqStr(contentsOf<S, isMap>(sb)));
		R.step("dropnode", "ok", "ok");
		c.stats.nontrivial(fmt("%s run=%u keys=%s range=%d", suite.c_str(), run, keyModeName(mode), range));
		c.stats.count(fmt("%s.max_size_ge_%d", kind, maxSize >= 256 ? 256 : (maxSize >= 64 ? 64 : 0)));
		if (run < 2) c.stats.sample(fmt("%s: %s", suite.c_str(), R.tail().substr(0, 300).c_str()));
	}
}

int main(int argc, char** argv)
{
	Ctx c = parseArgs(argc, argv);
	Rng rng(c.seed * 0x1000 + 6 + VF_ALLOC * 0x100);
	unsigned runs = c.thorough ? 60 : 16, ops = c.thorough ? 900 : 450;
	if (VF_ALLOC != 0) { runs = c.thorough ? 12 : 3; }
	{
		typedef momo::stdish::set<KV, LessK, AllocOf<KV>::type> M; typedef std::set<KV, LessK, AllocOf<KV>::type> S;
		runOrdered<M, S, false, false>(c, rng, "set", runs, ops);
	}
	{
		typedef momo::stdish::multiset<KV, LessK, AllocOf<KV>::type> M; typedef std::multiset<KV, LessK, AllocOf<KV>::type> S;
		runOrdered<M, S, false, true>(c, rng, "mset", runs, ops);
	}
	{
		typedef AllocOf<std::pair<const int, int>>::type A;
		typedef momo::stdish::map<int, int, LessI, A> M; typedef std::map<int, int, LessI, A> S;
		runOrdered<M, S, true, false>(c, rng, "map", runs, ops);
	}
	{
		typedef AllocOf<std::pair<const int, int>>::type A;
		typedef momo::stdish::multimap<int, int, LessI, A> M; typedef std::multimap<int, int, LessI, A> S;
		runOrdered<M, S, true, true>(c, rng, "mmap", runs, ops);
	}
#if VF_ALLOC != 0
	if (!ledger().live.empty()) c.fail("C06 ord alloc=%d: %zu blocks of the stateful allocator still live at the end", VF_ALLOC, ledger().live.size());
	if (ledger().bad) c.fail("C06 ord alloc=%d: %zu bad deallocations, first: %s", VF_ALLOC, ledger().bad, ledger().firstBad.c_str());
	c.stats.count("alloc.ledger_allocations", ledger().allocs);
#endif
	return c.finish();
}
