// C20 correspondence harness, part 7: std::multimap / std::unordered_map / std::unordered_set / std::unordered_multiset histories
// (node allocations and bucket arrays) with a base allocator that throws bad_alloc.  See c20_fault2.cpp and c20_world.h (faulty).
#include "c20_world.h"

using namespace c20;

int main(int argc, char** argv)
{
	Ctx c = parseArgs(argc, argv);
	Rng rng(c.seed * 0x1000 + 29);
	arena().init(c); arena().rng = &rng; installCrashReporter();
	const unsigned steps = c.thorough ? 1200 : 450;
	const unsigned rounds = c.thorough ? 10 : 3;
	for (unsigned round = 0; round < rounds; ++round) {
		std::string r = fmt("f%u_", round);
		runTracedF<KMap<int, int, true>, Cfg<2, 2>>(c, rng, r + "mmap_ii", steps);
		runTracedF<KUMap<int, int, false>, Cfg<1, 0>>(c, rng, r + "umap_ii", steps);
		runTracedF<KUMap<int, std::string, false>, Cfg<3, 1>>(c, rng, r + "umap_is", steps);
		runTracedF<KUSet<Big, false>, Cfg<2, 16>>(c, rng, r + "uset_b", steps);
		runTracedF<KUSet<int, true>, Cfg<5, 0>>(c, rng, r + "umset_i", steps);
	}
	dumpTracerStats(c);
	return c.finish();
}
