// C04 / C10 / C01 / C03 harness (property level): HashMap and TreeMap for EVERY combination of key and value relocation categories.
//
// momo::internal::MapKeyValueTraits chooses among three `pvRelocate`, three `pvReplace`, five `pvReplaceRelocate` and three
// `pvRelocateExec` algorithms by the traits isKeyNothrowRelocatable / isValueNothrowRelocatable and
// ObjectManager<Key|Value>::isNothrowAnywayAssignable; the algorithms for "neither key nor value is nothrow relocatable" carry nested
// rollback code. Categories used for key and value (harness/common/verif_elems.h):
//     NM  ElemNM  nothrow-move                                  relocatable,      anyway-assignable
//     CA  ElemCA  copy-only, throwing copy, noexcept assign     not relocatable,  anyway-assignable (nothrow move assignable)
//     SW  ElemSW  copy-only, throwing copy, noexcept swap       not relocatable,  anyway-assignable (nothrow swappable; shiftable: contiguous tree nodes)
//     CT  ElemCT  copy-only, throwing copy, throwing assign     not relocatable,  not anyway-assignable
// -DMC_PART=<1..4> selects the key category; every value category is combined with it, for HashMap (LimP4 chained buckets, Open8 open
// addressing, crowded by a 3-valued hash so that buckets hold several pairs and the removed pair is not the last of its bucket) and
// TreeMap (node capacities 2 and 3, contiguous-if-possible and indexed nodes: the extraction of a pair that sits in an internal node
// goes through ReplaceRelocate with its predecessor).
//
// Every pair of every map (built ascending and in a shuffled order drawn from the seed; sizes 1, 2, 5, 9, 14 and one drawn from the
// seed) is in turn the target of
//     Remove(iter, ExtractedPair&) | Extract(iter) | Remove(iter) | Remove(key)
// under the k-th failing element copy construction, k-th failing element assignment, k-th failing allocation, k-th failing functor
// call, k = 0, 1, 2, ... until the call succeeds. Oracle (reference std::map<key id, value id>):
//   * the call threw (C04 strong): the node handle is empty; the map holds exactly the reference pairs - every stored pair is a live key
//     object with ITS OWN live value object, found under its own key, no other key is found, GetCount exact; the number of live element
//     objects is that before the call. Documented exception (HashMap.h / TreeMap.h item 5): if neither key nor value is nothrow-anyway-
//     assignable, the value of the pair being removed may have been replaced (by the value of another pair of the map).
//   * the call succeeded (C10 / C01): the handle holds exactly the key AND the value of the removed pair (both alive); the map holds
//     exactly the other reference pairs; element objects alive = before (extract) / before - 2 (remove).
//   * then (C10): the handle is moved (ExtractedPair(ExtractedPair&&): MapKeyValueTraits::Relocate with memManager == nullptr), emptied
//     through ExtractedPair::Remove(pairRemover), re-inserted into another map that has / has not the key (Insert(ExtractedPair&&),
//     Add(pos / iter, ExtractedPair&&)) - each under the same fault sweeps: a failed or refused re-insertion leaves the pair, unchanged,
//     in the handle; a successful one leaves it, unchanged, in the map.
//   * Insert(begin, end) from another map's iterators (MapPairConverter for {key, value} references): copies, source unchanged.
//   * MergeTo / MergeFrom between maps of the same and of the other family under the same sweeps (C10 basic): every pair lives in
//     exactly one of source, destination with its own value; common keys stay in the source; no element object lost or duplicated.
//   * after destruction (C03): no memory-manager block outstanding, no bad deallocation, zero live element objects.
// HashMap API that no other harness instantiates (coverage_gaps item 20) is exercised here with the same reference: the
// initializer-list constructor, Add(pos, Key&&, Value&&) / Add(pos, Key&&, const Value&) / Add(pos, const Key&, const Value&) /
// AddVar(pos, Key&&, args...), Remove(Position), ContainsKey<KeyArg> (heterogeneous), mixed Position / Iterator comparisons,
// GetBucketBounds (const and non-const) + GetBucketIndex.
#define MOMO_INCLUDE_OLD_HASH_BUCKETS
#include "momo/HashMap.h"
#include "momo/TreeMap.h"
#include "common/verif_elems.h"

#include <functional>
#include <memory>
#include <algorithm>

#ifndef MC_PART
#define MC_PART 0
#endif

using namespace vf;

// ------------------------------------------------------------------ faults
enum Mode { M_COPY = 0, M_ASSIGN = 1, M_ALLOC = 2, M_FUNC = 3, M_COUNT = 4 };
static const char* modeName[] = { "copy", "assign", "alloc", "functor" };
struct FuncCtl { long countdown = -1; bool fired = false; };
static FuncCtl& fc() { static FuncCtl f; return f; }
static void funcPoint() { FuncCtl& f = fc(); if (f.countdown == 0) { f.countdown = -1; f.fired = true; throw std::domain_error("functor"); } if (f.countdown > 0) --f.countdown; }
static void disarmAll() { mm().disarm(); ec().copyCountdown = -1; ec().firedCopy = false; ec().assignCountdown = -1; ec().firedAssign = false; fc().countdown = -1; fc().fired = false; }
static void arm(int m, long k) { disarmAll(); if (m == M_ALLOC) mm().refuseAfter = k; else if (m == M_COPY) ec().copyCountdown = k; else if (m == M_ASSIGN) ec().assignCountdown = k; else if (m == M_FUNC) fc().countdown = k; }
static bool disarm(int m) { bool fired = m == M_ALLOC ? mm().firedAfter : m == M_COPY ? ec().firedCopy : m == M_ASSIGN ? ec().firedAssign : m == M_FUNC ? fc().fired : false; disarmAll(); return fired; }
// runs `body`; true = it threw one of the injected exceptions
template<typename F> static bool guarded(F&& body) {
	try { body(); } catch (const std::bad_alloc&) { return true; } catch (const std::runtime_error&) { return true; } catch (const std::domain_error&) { return true; }
	return false;
}

// an injected fault that fired must surface as an exception, except where the library documents / implements a fallback:
// HashSet swallows a failed growth when overloadIfCannotGrow (the insertion then goes into the old bucket array), TreeSet::pvRebalance
// swallows a failed node merge (items that are not nothrow relocatable are copied there). An exception without a fired fault is invented.
static void checkFired(Ctx& c, const std::string& what, bool threw, bool fired, bool mayBeSwallowed)
{
	if (threw && !fired) c.fail("C04 harness: %s: the call threw although no injected fault fired", what.c_str());
	if (fired && !threw) { if (mayBeSwallowed) c.stats.count("swallowed_by_documented_fallback"); else c.fail("C04 harness: %s: the injected fault fired but the call did not throw (an exception was swallowed)", what.c_str()); }
}

// ------------------------------------------------------------------ categories
template<int cat> struct Cat;
template<> struct Cat<0> { typedef ElemNM T; static const bool reloc = true, assign = true; static const char* name() { return "NM"; } };
template<> struct Cat<1> { typedef ElemCA T; static const bool reloc = false, assign = true; static const char* name() { return "CA"; } };
template<> struct Cat<2> { typedef ElemSW T; static const bool reloc = false, assign = true; static const char* name() { return "SW"; } };
template<> struct Cat<3> { typedef ElemCT T; static const bool reloc = false, assign = false; static const char* name() { return "CT"; } };
template<int cat> struct CatCheck {
	typedef momo::internal::ObjectManager<typename Cat<cat>::T, FaultMM> OM;
	static_assert(OM::isNothrowRelocatable == Cat<cat>::reloc && OM::isNothrowAnywayAssignable == Cat<cat>::assign, "element category is not what the harness says");
	static const bool ok = true;
};
static_assert(CatCheck<0>::ok && CatCheck<1>::ok && CatCheck<2>::ok && CatCheck<3>::ok, "");
static_assert(momo::internal::ObjectManager<ElemSW, FaultMM>::isNothrowSwappable && !std::is_nothrow_move_assignable<ElemSW>::value && momo::internal::ObjectManager<ElemSW, FaultMM>::isNothrowShiftable, "SW");
static_assert(!momo::internal::ObjectManager<ElemCA, FaultMM>::isNothrowSwappable && std::is_nothrow_move_assignable<ElemCA>::value && !momo::internal::ObjectManager<ElemCA, FaultMM>::isNothrowShiftable, "CA");

// ------------------------------------------------------------------ container configurations
struct NoExtraHM : public momo::HashMapSettings { static const momo::ExtraCheckMode extraCheckMode = momo::ExtraCheckMode::nothing; };
struct NoExtraTM : public momo::TreeMapSettings { static const momo::ExtraCheckMode extraCheckMode = momo::ExtraCheckMode::nothing; };

static unsigned g_hashStyle = 0;	// 0: three hash values only (crowded buckets, probing), 1: spread
static size_t hashOfId(uint32_t id) { return g_hashStyle == 0 ? (size_t)(id % 3) * 0x9E3779B97F4A7C15ull : (size_t)id * 0x9E3779B97F4A7C15ull; }

struct IdArg { uint32_t id; };	// heterogeneous lookup argument
inline uint32_t idOf(const IdArg& a) { return a.id; }

template<typename Key, typename HashBucket>
struct MCHashTraits : public momo::HashTraits<Key, HashBucket>
{
	static const bool isFastNothrowHashable = false;
	template<typename ItemTraits> using Bucket = typename HashBucket::template Bucket<ItemTraits, true>;
	template<typename KeyArg> using IsValidKeyArg = std::is_same<KeyArg, IdArg>;
	size_t GetLogStartBucketCount() const noexcept { return 2; }
	template<typename KeyArg> size_t GetHashCode(const KeyArg& key) const { funcPoint(); return hashOfId(idOf(key)); }
	template<typename KeyArg1, typename KeyArg2> bool IsEqual(const KeyArg1& a, const KeyArg2& b) const { funcPoint(); return idOf(a) == idOf(b); }
};
template<typename Key, typename Node>
struct MCTreeTraits : public momo::TreeTraits<Key, false, Node, true>
{
	bool IsLess(const Key& a, const Key& b) const { funcPoint(); return idOf(a) < idOf(b); }
};

template<typename K, typename V, typename HB> using HMap = momo::HashMap<K, V, MCHashTraits<K, HB>, FaultMM, momo::HashMapKeyValueTraits<K, V, FaultMM>, NoExtraHM>;
template<typename K, typename V, typename Node> using TMap = momo::TreeMap<K, V, MCTreeTraits<K, Node>, FaultMM, momo::TreeMapKeyValueTraits<K, V, FaultMM>, NoExtraTM>;

template<typename M> struct IsTree : std::false_type {};
template<typename K, typename V, typename Tr, typename MM, typename KVT, typename S> struct IsTree<momo::TreeMap<K, V, Tr, MM, KVT, S>> : std::true_type {};

// ------------------------------------------------------------------ reference and observation
typedef std::map<uint32_t, uint32_t> Ref;
static uint32_t valOf(uint32_t key) { return key * 3 + 100000; }

template<typename M> static bool lookup(M& m, uint32_t key, uint32_t* val, std::false_type /*hash*/)
{
	typename M::Key probe(key);
	auto pos = m.Find(probe);
	if (!pos) return false;
	if (idOf(pos->key) != key) { *val = 0xFFFFFFFFu; return true; }
	*val = idOf(pos->value); return true;
}
template<typename M> static bool lookup(M& m, uint32_t key, uint32_t* val, std::true_type /*tree*/)
{
	typename M::Key probe(key);
	auto it = m.Find(probe);
	if (it == m.GetEnd()) return false;
	if (idOf(it->key) != key) { *val = 0xFFFFFFFFu; return true; }
	*val = idOf(it->value); return true;
}
template<typename M> static bool lookup(M& m, uint32_t key, uint32_t* val) { return lookup(m, key, val, IsTree<M>()); }

// "" = the map holds exactly the pairs of `ref`: every stored pair is a live key with its own live value, found under its own key, no
// other key is found, the count is exact (and, for a tree, the traversal is sorted).
// freeKey >= 0: the value of that key may be any value of `pool` (documented exception 5); the value found is written back to *freeVal.
// anyValue: every value need only belong to `pool` (merge of a map whose pairs are of the "exception 5" kind).
template<typename M> static std::string mapVsRef(M& m, const Ref& ref, long freeKey = -1, uint32_t* freeVal = nullptr, const std::set<uint32_t>* pool = nullptr, bool anyValue = false)
{
	Ref seen; uint32_t prev = 0; bool first = true;
	for (auto r : m) {
		uint32_t k = idOf(r.key), v = idOf(r.value);
		if (r.key.state != 0xA11CE) return fmt("the key object %u inside the map is not alive (state %x)", k, r.key.state);
		if (r.value.state != 0xA11CE) return fmt("the value object of key %u is not alive (state %x, id %u)", k, r.value.state, v);
		if (!seen.emplace(k, v).second) return fmt("key %u is stored twice", k);
		if (IsTree<M>::value && !first && !(prev < k)) return fmt("traversal not sorted: %u after %u", k, prev);
		prev = k; first = false;
		if (seen.size() > ref.size() + 4) break;
	}
	if (seen.size() != m.GetCount()) return fmt("GetCount %zu but the traversal visits %zu pairs", m.GetCount(), seen.size());
	for (auto& kv : ref) {
		auto it = seen.find(kv.first);
		if (it == seen.end()) return fmt("the pair of key %u is gone", kv.first);
		if (it->second != kv.second) {
			bool tolerated = ((long)kv.first == freeKey || anyValue) && pool != nullptr && pool->count(it->second);
			if (!tolerated) return fmt("key %u carries the value %u, its own value is %u", kv.first, it->second, kv.second);
		}
		if ((long)kv.first == freeKey && freeVal != nullptr) *freeVal = it->second;
	}
	for (auto& kv : seen) if (!ref.count(kv.first)) return fmt("key %u (value %u) is in the map but not in the reference", kv.first, kv.second);
	for (auto& kv : seen) {
		uint32_t v = 0;
		if (!lookup(m, kv.first, &v)) return fmt("stored key %u is not found by Find", kv.first);
		if (v != kv.second) return fmt("Find(%u) yields value %u, the traversal shows %u", kv.first, v, kv.second);
	}
	for (auto& kv : ref) { uint32_t v = 0; if (!ref.count(kv.first + 1) && lookup(m, kv.first + 1, &v)) return fmt("absent key %u is found", kv.first + 1); }
	return "";
}
static std::string showRef(const Ref& r) { std::string s; size_t i = 0; for (auto& kv : r) { if (i++ >= 14) { s += " ..."; break; } s += fmt(i > 1 ? " %u=%u" : "%u=%u", kv.first, kv.second); } return s; }

static void afterScope(Ctx& c, const std::string& what)
{
	if (!mm().live.empty()) { c.fail("C03 leak: %s: %zu memory-manager blocks outstanding after destruction", what.c_str(), mm().live.size()); mm().live.clear(); }
	if (mm().badDealloc) { c.fail("C03 dealloc: %s: %zu bad deallocations", what.c_str(), mm().badDealloc); mm().badDealloc = 0; }
	if (ec().live != 0) { c.fail("C03 elements: %s: %ld key/value objects alive after destruction (negative = destroyed twice)", what.c_str(), ec().live); ec().live = 0; }
}

// insertion orders: pattern 0 ascending, 1 a shuffle drawn from the seed, 2 descending
static uint64_t g_seed = 0;
static std::vector<uint32_t> keyOrder(unsigned n, unsigned pattern)
{
	std::vector<uint32_t> v;
	for (unsigned i = 0; i < n; ++i) v.push_back(10 + 2 * i);
	if (pattern == 2) std::reverse(v.begin(), v.end());
	if (pattern == 1) { Rng rng(g_seed * 0x1000 + 0x10C + n); for (size_t i = v.size(); i > 1; --i) std::swap(v[i - 1], v[rng.below(i)]); }
	return v;
}
template<typename M> static void build(M& m, Ref& ref, const std::vector<uint32_t>& keys)
{
	for (uint32_t k : keys) { typename M::Key key(k); typename M::Value val(valOf(k)); m.Insert(key, val); ref[k] = valOf(k); }
}

// where the target sits (coverage counters): leaf / internal node of a tree; last / not last item of its hash bucket
template<typename M> static void whereIs(Ctx& c, M& m, uint32_t key, std::true_type)
{
	typename M::Key probe(key);
	typename M::ConstIterator it = m.Find(probe);
	auto sit = it.mTreeSetIterator;
	c.stats.count(sit.mNode->IsLeaf() ? "target.tree.leaf" : "target.tree.internal");
}
template<typename M> static void whereIs(Ctx& c, M& m, uint32_t key, std::false_type)
{
	typename M::Key probe(key);
	const M& cm = m;
	size_t bi = cm.GetBucketIndex(probe);
	auto bounds = cm.GetBucketBounds(bi);
	size_t idx = 0, at = (size_t)-1;
	for (auto it = bounds.GetBegin(); it != bounds.GetEnd(); ++it, ++idx) if (idOf(it->key) == key) at = idx;
	if (at == (size_t)-1) { c.fail("C01 bucket API: key %u is not among the %zu pairs of bucket %zu = GetBucketIndex(key)", key, bounds.GetCount(), bi); return; }
	c.stats.count(at + 1 == bounds.GetCount() ? "target.hash.last_of_bucket" : "target.hash.not_last_of_bucket");
	c.stats.count(fmt("target.hash.bucket_size.%zu", std::min<size_t>(bounds.GetCount(), 8)));
}

// ------------------------------------------------------------------ sweep 1: removal / extraction of one target
enum Op { OP_REMOVE_EXT = 0, OP_EXTRACT = 1, OP_REMOVE_ITER = 2, OP_REMOVE_KEY = 3, OP_COUNT = 4 };
static const char* opName[] = { "Remove(iter, ExtractedPair&)", "Extract(iter)", "Remove(iter)", "Remove(key)" };

template<typename M>
static void removeSweep(Ctx& c, const std::string& name, unsigned n, unsigned pattern, uint32_t target, int op, bool exc5)
{
	typedef typename M::Key K; typedef typename M::ExtractedPair Ext;
	std::vector<uint32_t> keys = keyOrder(n, pattern);
	for (int m = 0; m < M_COUNT; ++m) {
		if (m == M_FUNC && op != OP_REMOVE_KEY) continue;
		for (long k = 0; k < 80; ++k) {
			bool threw = false, fired = false;
			std::string what = fmt("%s n=%u order=%u %s of key %u, %s failure #%ld", name.c_str(), n, pattern, opName[op], target, modeName[m], k);
			{
				std::unique_ptr<M> box(new M()); M& a = *box; Ref ref;
				build(a, ref, keys);
				std::set<uint32_t> pool; for (auto& kv : ref) pool.insert(kv.second);
				if (m == 0 && k == 0 && op == 0) whereIs(c, a, target, IsTree<M>());
				std::unique_ptr<Ext> hp(new Ext());
				K probe(target);
				long live0 = ec().live;
				auto doOp = [&] {
					typename M::ConstIterator it(a.Find(probe));
					switch (op) {
					case OP_REMOVE_EXT: a.Remove(it, *hp); break;
					case OP_EXTRACT: hp.reset(new Ext(a.Extract(it))); break;
					case OP_REMOVE_ITER: a.Remove(it); break;
					default: if (!a.Remove(probe)) c.fail("C01 remove: %s: Remove(key) of a present key returned false", what.c_str()); break;
					}
				};
				arm(m, k);
				threw = guarded(doOp);
				fired = disarm(m);
				c.stats.evaluations++;
				checkFired(c, what, threw, fired, IsTree<M>::value && m == M_COPY && !(M::KeyValueTraits::isKeyNothrowRelocatable && M::KeyValueTraits::isValueNothrowRelocatable));
				if (threw) {
					c.stats.count(std::string("remove.threw.") + modeName[m]); c.stats.nontrivial(what);
					if (!hp->IsEmpty()) c.fail("C04 strong: %s: the failed call left a pair in the node handle", what.c_str());
					bool free5 = exc5 && m == M_ASSIGN;
					uint32_t nowVal = ref[target];
					std::string d = mapVsRef(a, ref, free5 ? (long)target : -1, &nowVal, &pool);
					if (!d.empty()) c.fail("C04 strong: %s: map changed by the failed call: %s (reference {%s})", what.c_str(), d.c_str(), showRef(ref).c_str());
					if (nowVal != ref[target]) { c.stats.count("remove.exception5_value_replaced"); ref[target] = nowVal; }
					if (ec().live != live0) c.fail("C04 leak: %s: %ld key/value objects alive after the failed call, %ld before it", what.c_str(), ec().live, live0);
					if (c.stats.samples.size() < 6) c.stats.sample(what + " -> exception, map unchanged, handle empty");
					// usable: the same call without a fault succeeds
					if (guarded(doOp)) { c.fail("C04 usable: %s: the retried call threw", what.c_str()); continue; }
				}
				// success (first try or retry)
				bool ext = op == OP_REMOVE_EXT || op == OP_EXTRACT;
				if (ext) {
					if (hp->IsEmpty()) c.fail("C10 extract: %s: the node handle is empty after a successful extraction", what.c_str());
					else {
						const Ext& h = *hp;
						if (h.GetKey().state != 0xA11CE || h.GetValue().state != 0xA11CE) c.fail("C10 extract: %s: the handle holds a key (state %x) / value (state %x) object that is not alive", what.c_str(), h.GetKey().state, h.GetValue().state);
						if (idOf(h.GetKey()) != target || idOf(h.GetValue()) != ref[target]) c.fail("C10 extract: %s: the handle holds %u=%u, the removed pair was %u=%u", what.c_str(), idOf(h.GetKey()), idOf(h.GetValue()), target, ref[target]);
					}
				}
				ref.erase(target);
				std::string d = mapVsRef(a, ref);
				if (!d.empty()) c.fail("C01 contents: %s: after the removal: %s (reference {%s})", what.c_str(), d.c_str(), showRef(ref).c_str());
				long expLive = ext ? live0 : live0 - 2;
				if (ec().live != expLive) c.fail("C03 elements: %s: %ld key/value objects alive after the removal, expected %ld", what.c_str(), ec().live, expLive);
			}
			afterScope(c, what);
			if (!threw && !fired) break;
		}
	}
}

// ------------------------------------------------------------------ sweep 2: the node handle: move, Remove(pairRemover), re-insertion
// stage 0: ExtractedPair(ExtractedPair&&); 1: Insert(ExtractedPair&&) into a map without the key; 2: ... with the key (refused);
// 3: Add(position, ExtractedPair&&); 4: ExtractedPair::Remove(pairRemover)
template<typename M> static void addExt(M& b, typename M::ExtractedPair& h, uint32_t key, std::false_type) { typename M::Key probe(key); auto pos = b.Find(probe); b.Add(pos, std::move(h)); }
template<typename M> static void addExt(M& b, typename M::ExtractedPair& h, uint32_t key, std::true_type) { typename M::Key probe(key); auto it = b.GetUpperBound(probe); b.Add(it, std::move(h)); }

template<typename M>
static void handleSweep(Ctx& c, const std::string& name, unsigned n, uint32_t target)
{
	typedef typename M::Key K; typedef typename M::Value V; typedef typename M::ExtractedPair Ext;
	std::vector<uint32_t> keys = keyOrder(n, 1);
	for (int stage = 0; stage < 5; ++stage) for (int m = 0; m < M_COUNT; ++m) for (long k = 0; k < 80; ++k) {
		bool threw = false, fired = false;
		std::string what = fmt("%s n=%u handle of key %u, stage %d, %s failure #%ld", name.c_str(), n, target, stage, modeName[m], k);
		{
			std::unique_ptr<M> ba(new M()), bb(new M()); M& a = *ba; M& b = *bb; Ref refA, refB;
			build(a, refA, keys);
			// b: same keys shifted; for stage 2 it contains the target key with ANOTHER value
			for (uint32_t x : keys) { uint32_t kb = x + 1; if (kb == target) continue; K key(kb); V val(valOf(kb)); b.Insert(key, val); refB[kb] = valOf(kb); }
			if (stage == 2) { K key(target); V val(777777); b.Insert(key, val); refB[target] = 777777; }
			Ext h;
			{ K probe(target); a.Remove(typename M::ConstIterator(a.Find(probe)), h); }
			uint32_t tv = refA[target]; refA.erase(target);
			long live0 = ec().live;
			std::unique_ptr<Ext> h2;
			bool inserted = false; uint32_t gotK = 0, gotV = 0;
			arm(m, k);
			threw = guarded([&] {
				switch (stage) {
				case 0: h2.reset(new Ext(std::move(h))); break;
				case 1: case 2: inserted = b.Insert(std::move(h)).inserted; break;
				case 3: addExt(b, h, target, IsTree<M>()); inserted = true; break;
				default: h.Remove([&] (K& key, V& val) { gotK = idOf(key); gotV = idOf(val); key.~K(); val.~V(); }); break;
				}
			});
			fired = disarm(m);
			c.stats.evaluations++;
			checkFired(c, what, threw, fired, true);	// insertions: a failed growth of a hash table is swallowed by design (overloadIfCannotGrow)
			if (threw) { c.stats.count(fmt("handle.stage%d.threw.%s", stage, modeName[m])); c.stats.nontrivial(what); }
			// where must the pair be now?
			bool inHandle = threw || stage == 2;
			Ext* holder = (stage == 0 && !threw) ? h2.get() : &h;
			if (stage == 0 && !threw && !h.IsEmpty()) c.fail("C10 handle: %s: the moved-from handle is not empty", what.c_str());
			if (stage == 4 && !threw) {
				if (!h.IsEmpty()) c.fail("C10 handle: %s: handle not empty after ExtractedPair::Remove", what.c_str());
				if (gotK != target || gotV != tv) c.fail("C10 handle: %s: the pair remover saw %u=%u, the extracted pair was %u=%u", what.c_str(), gotK, gotV, target, tv);
				if (ec().live != live0 - 2) c.fail("C03 elements: %s: %ld key/value objects alive after the remover destroyed the pair, expected %ld", what.c_str(), ec().live, live0 - 2);
			}
			else {
				if (stage == 0 && !threw) inHandle = true;
				if (inHandle) {
					if (holder->IsEmpty()) c.fail("C10 handle: %s: the pair left the handle although it was %s", what.c_str(), threw ? "not inserted (the call threw)" : "refused (key present)");
					else {
						if (holder->GetKey().state != 0xA11CE || holder->GetValue().state != 0xA11CE) c.fail("C10 handle: %s: the handle holds objects that are not alive (key %x value %x)", what.c_str(), holder->GetKey().state, holder->GetValue().state);
						if (idOf(holder->GetKey()) != target || idOf(holder->GetValue()) != tv) c.fail("C10 handle: %s: the handle holds %u=%u, the extracted pair was %u=%u", what.c_str(), idOf(holder->GetKey()), idOf(holder->GetValue()), target, tv);
					}
					if (stage == 2 && !threw && inserted) c.fail("C10 handle: %s: Insert reports `inserted` although the key was present", what.c_str());
				}
				else {
					if (!h.IsEmpty()) c.fail("C10 handle: %s: the handle still holds a pair after a successful re-insertion", what.c_str());
					if (!inserted) c.fail("C10 handle: %s: Insert reports `not inserted` although the key was absent", what.c_str());
					refB[target] = tv;
				}
				if (ec().live != live0) c.fail("C10 one-place: %s: %ld key/value objects alive, %ld before the call (a pair was duplicated or lost)", what.c_str(), ec().live, live0);
			}
			std::string da = mapVsRef(a, refA), db = mapVsRef(b, refB);
			if (!da.empty()) c.fail("C10 valid: %s: source map: %s", what.c_str(), da.c_str());
			if (!db.empty()) c.fail("C10 valid: %s: destination map: %s (reference {%s})", what.c_str(), db.c_str(), showRef(refB).c_str());
		}
		afterScope(c, what);
		if (!threw && !fired) break;
	}
}

// ------------------------------------------------------------------ sweep 3: merges
template<typename Src, typename Dst>
static void mergeSweep(Ctx& c, const std::string& name, unsigned pattern, bool viaFrom, bool exc5)
{
	typedef typename Src::Key K; typedef typename Src::Value V;
	for (int m = -1; m < M_COUNT; ++m) for (long k = 0; k < 500; ++k) {
		bool threw = false, fired = false;
		std::string what = fmt("%s %s pattern %u, %s failure #%ld", name.c_str(), viaFrom ? "dst.MergeFrom(src)" : "src.MergeTo(dst)", pattern, m < 0 ? "no" : modeName[m], k);
		{
			std::unique_ptr<Src> bs(new Src()); std::unique_ptr<Dst> bd(new Dst()); Src& src = *bs; Dst& dst = *bd; Ref refS, refD;
			// pattern 0: disjoint, src below dst; 1: interleaved with common keys (the common keys carry different values); 2: dst empty
			for (unsigned i = 0; i < 13; ++i) { uint32_t ks = pattern == 0 ? 10 + i : 10 + 2 * i; K key(ks); V val(valOf(ks)); src.Insert(key, val); refS[ks] = valOf(ks); }
			if (pattern != 2) for (unsigned i = 0; i < 9; ++i) { uint32_t kd = pattern == 0 ? 1000 + i : 10 + 3 * i; K key(kd); V val(valOf(kd) + 1); dst.Insert(key, val); refD[kd] = valOf(kd) + 1; }
			std::set<uint32_t> pool; for (auto& kv : refS) pool.insert(kv.second); for (auto& kv : refD) pool.insert(kv.second);
			long live0 = ec().live;
			if (m >= 0) arm(m, k);
			threw = guarded([&] { if (viaFrom) dst.MergeFrom(src); else src.MergeTo(dst); });
			if (m >= 0) fired = disarm(m);
			c.stats.evaluations++;
			if (threw) { c.stats.count(std::string("merge.threw.") + modeName[m]); c.stats.nontrivial(what); }
			// expected: pairs of src whose key is not in dst move; which ones moved before a failure is free - read it from dst's keys
			Ref expS, expD = refD;
			std::set<uint32_t> dstKeys; for (auto r : dst) dstKeys.insert(idOf(r.key));
			for (auto& kv : refS) {
				bool common = refD.count(kv.first) != 0;
				bool moved = !common && dstKeys.count(kv.first) != 0;
				if (!threw && !common && !moved) c.fail("C10 merge: %s: pair %u stayed in the source although the destination had no such key", what.c_str(), kv.first);
				if (moved) expD[kv.first] = kv.second; else expS[kv.first] = kv.second;
			}
			bool relax = exc5 && m == M_ASSIGN && threw;
			std::string ds = mapVsRef(src, expS, -1, nullptr, &pool, relax), dd = mapVsRef(dst, expD, -1, nullptr, &pool, false);
			if (!ds.empty()) c.fail("C10 conserve: %s: source: %s", what.c_str(), ds.c_str());
			if (!dd.empty()) c.fail("C10 conserve: %s: destination: %s", what.c_str(), dd.c_str());
			if (ec().live != live0) c.fail("C10 one-place: %s: %ld key/value objects alive, %ld before the merge (an object of a transferred pair was duplicated or lost)", what.c_str(), ec().live, live0);
			if (threw) {	// usable: finish the merge
				if (guarded([&] { if (viaFrom) dst.MergeFrom(src); else src.MergeTo(dst); })) c.fail("C10 usable: %s: the retried merge threw", what.c_str());
				for (auto r : src) if (!refD.count(idOf(r.key))) { c.fail("C10 usable: %s: after the retried merge pair %u is still in the source", what.c_str(), idOf(r.key)); break; }
				if (ec().live != live0) c.fail("C10 one-place: %s: %ld key/value objects alive after the retried merge, %ld before", what.c_str(), ec().live, live0);
			}
		}
		afterScope(c, what);
		if (m < 0 || (!threw && !fired)) break;
	}
}

// ------------------------------------------------------------------ sweep 4: Insert(begin, end) from the iterators of another map
// (*iter is a MapReference {key, value}: MapPairConverter::Convert(const Pair&) - copies, the source must stay as it was)
template<typename M>
static void rangeInsertSweep(Ctx& c, const std::string& name)
{
	typedef typename M::Key K; typedef typename M::Value V;
	for (int m = -1; m < M_COUNT; ++m) for (long k = 0; k < 300; ++k) {
		bool threw = false, fired = false;
		std::string what = fmt("%s dst.Insert(src.GetBegin(), src.GetEnd()), %s failure #%ld", name.c_str(), m < 0 ? "no" : modeName[m], k);
		{
			std::unique_ptr<M> bs(new M()), bd(new M()); M& src = *bs; M& dst = *bd; Ref refS, refD;
			for (unsigned i = 0; i < 9; ++i) { uint32_t ks = 10 + 2 * i; K key(ks); V val(valOf(ks)); src.Insert(key, val); refS[ks] = valOf(ks); }
			for (unsigned i = 0; i < 4; ++i) { uint32_t kd = 10 + 3 * i; K key(kd); V val(valOf(kd) + 1); dst.Insert(key, val); refD[kd] = valOf(kd) + 1; }	// 10 and 16 are common
			long live0 = ec().live; size_t added = 0;
			if (m >= 0) arm(m, k);
			threw = guarded([&] { added = dst.Insert(src.GetBegin(), src.GetEnd()); });
			if (m >= 0) fired = disarm(m);
			c.stats.evaluations++;
			if (threw) { c.stats.count(std::string("rangeinsert.threw.") + modeName[m]); c.stats.nontrivial(what); }
			Ref expD = refD; size_t expAdded = 0;
			std::set<uint32_t> dstKeys; for (auto r : dst) dstKeys.insert(idOf(r.key));
			for (auto& kv : refS) if (!refD.count(kv.first)) { if (dstKeys.count(kv.first)) { expD[kv.first] = kv.second; ++expAdded; } else if (!threw) c.fail("C10 insert range: %s: pair %u was not inserted although the destination had no such key", what.c_str(), kv.first); }
			std::string ds = mapVsRef(src, refS), dd = mapVsRef(dst, expD);
			if (!ds.empty()) c.fail("C10 insert range: %s: the source map changed: %s", what.c_str(), ds.c_str());
			if (!dd.empty()) c.fail("C10 insert range: %s: destination: %s (expected {%s})", what.c_str(), dd.c_str(), showRef(expD).c_str());
			if (!threw && added != expAdded) c.fail("C01 insert range: %s: returned %zu, %zu pairs are new", what.c_str(), added, expAdded);
			if (ec().live != live0 + 2 * (long)expAdded) c.fail("C03 elements: %s: %ld key/value objects alive, expected %ld (%zu pairs copied)", what.c_str(), ec().live, live0 + 2 * (long)expAdded, expAdded);
		}
		afterScope(c, what);
		if (m < 0 || (!threw && !fired)) break;
	}
}

// ------------------------------------------------------------------ HashMap API spellings that no other harness instantiates
template<typename M>
static void hashApi(Ctx& c, const std::string& name)
{
	typedef typename M::Key K; typedef typename M::Value V;
	// initializer-list constructor (first pair of a key wins), under every failure: nothing left allocated / constructed
	for (int m = 0; m < M_COUNT; ++m) for (long k = 0; k < 200; ++k) {
		bool threw = false, fired = false;
		std::string what = fmt("%s HashMap(initializer_list), %s failure #%ld", name.c_str(), modeName[m], k);
		{
			std::vector<std::pair<K, V>> src;	// built before arming
			for (uint32_t x : { 5u, 9u, 5u, 2u, 14u, 9u, 30u }) src.emplace_back(std::piecewise_construct, std::forward_as_tuple(x), std::forward_as_tuple(valOf(x) + (uint32_t)src.size()));
			long live0 = ec().live; size_t blocks0 = mm().live.size();
			std::unique_ptr<M> box;
			arm(m, k);
			threw = guarded([&] { box.reset(new M({ src[0], src[1], src[2], src[3], src[4], src[5], src[6] })); });
			fired = disarm(m);
			c.stats.evaluations++;
			if (threw) {
				c.stats.count("api.initlist.threw"); c.stats.nontrivial(what);
				if (ec().live != live0) c.fail("C04 ctor: %s: %ld element objects left constructed", what.c_str(), ec().live - live0);
				if (mm().live.size() != blocks0) c.fail("C04 ctor: %s: %zu blocks left allocated", what.c_str(), mm().live.size() - blocks0);
			}
			else {
				Ref ref; for (auto& p : src) ref.emplace(idOf(p.first), idOf(p.second));
				std::string d = mapVsRef(*box, ref);
				if (!d.empty()) c.fail("C01 init-list: %s: %s (reference {%s})", what.c_str(), d.c_str(), showRef(ref).c_str());
			}
		}
		afterScope(c, what);
		if (!threw && !fired) break;
	}
	// position adds and Remove(Position)
	for (int form = 0; form < 5; ++form) for (unsigned n : { 0u, 3u, 11u }) for (int m = 0; m < M_COUNT; ++m) for (long k = 0; k < 200; ++k) {
		static const char* formName[] = { "Add(pos, Key&&, Value&&)", "Add(pos, Key&&, const Value&)", "Add(pos, const Key&, const Value&)", "AddVar(pos, Key&&, id)", "Remove(Position)" };
		if (form == 4 && n == 0) break;
		bool threw = false, fired = false;
		std::string what = fmt("%s n=%u %s, %s failure #%ld", name.c_str(), n, formName[form], modeName[m], k);
		{
			std::unique_ptr<M> box(new M()); M& a = *box; Ref ref;
			build(a, ref, keyOrder(n, 1));
			uint32_t nk = form == 4 ? 10 + 2 * (n / 2) : 10 + 2 * (n / 2) + 1;	// Remove: a present key; Add: an absent one
			K key(nk), probe(nk); V val(valOf(nk));
			long live0 = ec().live;
			typename M::Position res;
			arm(m, k);
			threw = guarded([&] {
				typename M::Position pos = a.Find(probe);
				switch (form) {
				case 0: res = a.Add(pos, std::move(key), std::move(val)); break;
				case 1: res = a.Add(pos, std::move(key), static_cast<const V&>(val)); break;
				case 2: res = a.Add(pos, static_cast<const K&>(key), static_cast<const V&>(val)); break;
				case 3: res = a.AddVar(pos, std::move(key), valOf(nk)); break;
				default: a.Remove(pos); break;
				}
			});
			fired = disarm(m);
			c.stats.evaluations++;
			checkFired(c, what, threw, fired, form != 4);
			if (threw) {
				c.stats.count("api.posadd.threw"); c.stats.nontrivial(what);
				std::set<uint32_t> pool; for (auto& kv : ref) pool.insert(kv.second);
				bool free5 = form == 4 && m == M_ASSIGN && !momo::internal::ObjectManager<K, FaultMM>::isNothrowAnywayAssignable && !momo::internal::ObjectManager<V, FaultMM>::isNothrowAnywayAssignable;	// documented exception 5
				std::string d = mapVsRef(a, ref, free5 ? (long)nk : -1, nullptr, &pool);
				if (!d.empty()) c.fail("C04 strong: %s: map changed by the failed call: %s", what.c_str(), d.c_str());
				if (ec().live != live0) c.fail("C04 leak: %s: %ld key/value objects alive after the failed call, %ld before", what.c_str(), ec().live, live0);
			}
			else {
				if (form == 4) { ref.erase(nk); if (ec().live != live0 - 2) c.fail("C03 elements: %s: %ld objects alive, expected %ld", what.c_str(), ec().live, live0 - 2); }
				else {
					ref[nk] = valOf(nk);
					if (!res || idOf(res->key) != nk || idOf(res->value) != valOf(nk)) c.fail("C01 add: %s: the returned position does not denote the new pair %u=%u", what.c_str(), nk, valOf(nk));
					if (ec().live != live0 + 2) c.fail("C03 elements: %s: %ld objects alive after the add, expected %ld", what.c_str(), ec().live, live0 + 2);
					// mixed Position / Iterator comparisons: the position equals exactly the iterator that denotes the same pair
					size_t eq = 0, ne = 0;
					for (typename M::Iterator it = a.GetBegin(); it != a.GetEnd(); ++it) {
						bool same = idOf(it->key) == nk;
						if ((res == it) != same || (it == res) != same || (res != it) == same || (it != res) == same) c.fail("C01 position: %s: Position(%u) compared with the iterator at %u: ==/!= inconsistent", what.c_str(), nk, idOf(it->key));
						same ? ++eq : ++ne;
					}
					if (eq != 1) c.fail("C01 position: %s: %zu iterators compare equal to the new position", what.c_str(), eq);
				}
				std::string d = mapVsRef(a, ref);
				if (!d.empty()) c.fail("C01 contents: %s: %s (reference {%s})", what.c_str(), d.c_str(), showRef(ref).c_str());
			}
		}
		afterScope(c, what);
		if (!threw && !fired) break;
	}
	// heterogeneous ContainsKey / Find, bucket API
	for (unsigned n : { 0u, 1u, 7u, 23u, 60u }) {
		std::string what = fmt("%s n=%u", name.c_str(), n);
		{
			M a; Ref ref; build(a, ref, keyOrder(n, 1));
			const M& ca = a;
			for (uint32_t x = 8; x < 12 + 2 * n; ++x) {
				bool exp = ref.count(x) != 0;
				if (ca.ContainsKey(IdArg{ x }) != exp) c.fail("C01 heterogeneous ContainsKey: %s key %u: %d, reference %d", what.c_str(), x, (int)!exp, (int)exp);
				auto pos = ca.Find(IdArg{ x });
				if (!!pos != exp || (exp && (idOf(pos->key) != x || idOf(pos->value) != ref[x]))) c.fail("C01 heterogeneous Find: %s key %u", what.c_str(), x);
				c.stats.evaluations++;
			}
			if (n > 0) {
				Ref viaConst, viaMut; size_t total = 0;
				for (size_t b = 0; b < ca.GetBucketCount(); ++b) {
					typename M::ConstBucketBounds cb = ca.GetBucketBounds(b);
					typename M::BucketBounds mb = a.GetBucketBounds(b);
					typename M::ConstBucketBounds conv = mb;
					if (cb.GetCount() != mb.GetCount() || conv.GetCount() != cb.GetCount()) c.fail("C01 bucket API: %s bucket %zu: const / non-const bounds disagree (%zu, %zu)", what.c_str(), b, cb.GetCount(), mb.GetCount());
					size_t cnt = 0;
					for (auto it = cb.GetBegin(); it != cb.GetEnd(); ++it, ++cnt) if (!viaConst.emplace(idOf(it->key), idOf(it->value)).second) c.fail("C01 bucket API: %s: key %u appears in two buckets", what.c_str(), idOf(it->key));
					for (auto it = mb.GetBegin(); it != mb.GetEnd(); ++it) { viaMut.emplace(idOf(it->key), idOf(it->value)); it->value = V(idOf(it->value)); }	// writable through the non-const bounds
					if (cnt != cb.GetCount()) c.fail("C01 bucket API: %s bucket %zu: GetCount %zu, %zu pairs between GetBegin and GetEnd", what.c_str(), b, cb.GetCount(), cnt);
					total += cnt;
				}
				if (viaConst != ref || viaMut != ref || total != ref.size()) c.fail("C01 bucket API: %s: the union of all bucket bounds is not the map's contents (%zu pairs in buckets, %zu in the reference)", what.c_str(), total, ref.size());
				typename M::BucketBounds empty; if (empty.GetCount() != 0 || !(empty.GetBegin() == empty.GetEnd())) c.fail("C01 bucket API: default-constructed BucketBounds is not empty");
				for (auto& kv : ref) { K probe(kv.first); size_t bi = ca.GetBucketIndex(probe); bool in = false; auto bb = ca.GetBucketBounds(bi); for (auto it = bb.GetBegin(); it != bb.GetEnd(); ++it) if (idOf(it->key) == kv.first) in = true; if (!in) c.fail("C01 bucket API: %s: key %u is not in bucket GetBucketIndex(key) = %zu", what.c_str(), kv.first, bi); }
				std::string d = mapVsRef(a, ref);
				if (!d.empty()) c.fail("C01 contents: %s after the bucket traversal: %s", what.c_str(), d.c_str());
				c.stats.count("api.bucket_bounds_checked");
			}
		}
		afterScope(c, what);
	}
}

// ------------------------------------------------------------------ one (key, value) combination
template<typename M>
static void mapSweeps(Ctx& c, const std::string& name, bool exc5)
{
	unsigned extra = 3 + (unsigned)((g_seed * 2654435761u >> 7) % 17);	// one size drawn from the seed (3..19)
	const unsigned sizesQ[] = { 1, 2, 5, 9, 14, extra }, sizesT[] = { 1, 2, 3, 5, 9, 14, 23, 40, extra };
	const unsigned* sizes = c.thorough ? sizesT : sizesQ; size_t ns = c.thorough ? 9 : 6;
	for (size_t si = 0; si < ns; ++si) {
		unsigned n = sizes[si];
		for (unsigned pattern = 0; pattern < (c.thorough ? 3u : 2u); ++pattern) {
			if (n <= 2 && pattern > 0) continue;
			for (unsigned t = 0; t < n; ++t) {
				if (n > 14 && !c.thorough && t % 2) continue;
				uint32_t target = 10 + 2 * t;
				for (int op = 0; op < OP_COUNT; ++op) {
					if (pattern > 0 && op == OP_EXTRACT) continue;	// Extract(iter) = Remove(iter, pair) behind a constructor: one order is enough
					removeSweep<M>(c, name, n, pattern, target, op, exc5);
				}
			}
		}
	}
	handleSweep<M>(c, name, 1, 10);
	for (unsigned t : { 0u, 4u, 8u }) handleSweep<M>(c, name, 9, 10 + 2 * t);
	for (unsigned p = 0; p < 3; ++p) { mergeSweep<M, M>(c, name + " -> same type", p, false, exc5); }
	mergeSweep<M, M>(c, name + " -> same type", 1, true, exc5);
	rangeInsertSweep<M>(c, name);
}

template<int kc, int vc>
static void combo(Ctx& c)
{
	typedef typename Cat<kc>::T K; typedef typename Cat<vc>::T V;
	typedef momo::internal::MapKeyValueTraits<K, V, FaultMM> KVT;
	static_assert(KVT::isKeyNothrowRelocatable == Cat<kc>::reloc && KVT::isValueNothrowRelocatable == Cat<vc>::reloc, "categories");
	const bool exc5 = !Cat<kc>::assign && !Cat<vc>::assign;
	std::string kv = fmt("key=%s value=%s", Cat<kc>::name(), Cat<vc>::name());
	typedef HMap<K, V, momo::HashBucketLimP4<>> H4;
	typedef HMap<K, V, momo::HashBucketOpen8> H8;
	typedef TMap<K, V, momo::TreeNode<2, 1, momo::MemPoolParams<1, 0>, true>> T2;
	typedef TMap<K, V, momo::TreeNode<3, 1, momo::MemPoolParams<2, 0>, false>> T3;
	// contiguous nodes exactly when key and value are both nothrow shiftable (NM or SW)
	static_assert(T2::TreeSet::Node::isContinuous == ((kc == 0 || kc == 2) && (vc == 0 || vc == 2)), "node layout");
	static_assert(!T3::TreeSet::Node::isContinuous, "node layout");
	g_hashStyle = 0;
	mapSweeps<H4>(c, "HashMap<LimP4, crowded> " + kv, exc5);
	mapSweeps<H8>(c, "HashMap<Open8, crowded> " + kv, exc5);
	g_hashStyle = 1;
	mapSweeps<H4>(c, "HashMap<LimP4, spread> " + kv, exc5);
	g_hashStyle = 0;
	mapSweeps<T2>(c, "TreeMap<cap2> " + kv, exc5);
	mapSweeps<T3>(c, "TreeMap<cap3 indexed> " + kv, exc5);
	// across the families (the pair travels through the same node handle type of the nested set)
	mergeSweep<T2, H4>(c, "TreeMap<cap2> -> HashMap<LimP4> " + kv, 1, false, exc5);
	mergeSweep<H4, T2>(c, "HashMap<LimP4> -> TreeMap<cap2> " + kv, 1, false, exc5);
	hashApi<H4>(c, "HashMap<LimP4> " + kv);
	g_hashStyle = 1;
	hashApi<H8>(c, "HashMap<Open8, spread> " + kv);
	g_hashStyle = 0;
	c.stats.nontrivial("combo " + kv);
}

template<int kc>
static void keyCat(Ctx& c) { combo<kc, 0>(c); combo<kc, 1>(c); combo<kc, 2>(c); combo<kc, 3>(c); }

int main(int argc, char** argv)
{
	setvbuf(stdout, nullptr, _IOLBF, 0);
	Ctx c = parseArgs(argc, argv);
	g_seed = c.seed;
#if MC_PART == 0 || MC_PART == 1
	keyCat<0>(c);
#endif
#if MC_PART == 0 || MC_PART == 2
	keyCat<1>(c);
#endif
#if MC_PART == 0 || MC_PART == 3
	keyCat<2>(c);
#endif
#if MC_PART == 0 || MC_PART == 4
	keyCat<3>(c);
#endif
	return c.finish();
}
