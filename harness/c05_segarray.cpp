// C05 correspondence harness: momo::SegmentedArray, constant and sqrt segment sizing, logInitialItemCount 0..5
// (see c05_array.h).  -DC05_PART=1: std::string items;  -DC05_PART=2: the other item types and memory managers
#include "c05_array.h"
using namespace c05;

template<momo::SegmentedArrayItemCountFunc F, size_t L, typename T, typename MM>
using Seg = momo::SegmentedArray<T, MM, momo::SegmentedArrayItemTraits<T, MM>, momo::SegmentedArraySettings<F, L>>;

static const momo::SegmentedArrayItemCountFunc cnst = momo::SegmentedArrayItemCountFunc::cnst;
static const momo::SegmentedArrayItemCountFunc sqrt_ = momo::SegmentedArrayItemCountFunc::sqrt;

typedef LogMM<false, false> MM00;
typedef LogMM<true, false> MM10;
typedef LogMM<true, true> MM11;

int main(int argc, char** argv)
{
	Ctx c = parseArgs(argc, argv);
	Rng rng(c.seed * 0x1000 + 0x105);
	Budget b = c.thorough ? Budget{ 1000, 220, 300 } : Budget{ 40, 200, 260 };
#if !defined(C05_PART) || C05_PART == 1
	runConfig<SegAdapter<Seg<cnst, 0, std::string, MM00>>>(c, rng, "s_cnst0_string", "Allocate-only manager", b);
	runConfig<SegAdapter<Seg<cnst, 1, std::string, MM00>>>(c, rng, "s_cnst1_string", "Allocate-only manager", b);
	runConfig<SegAdapter<Seg<cnst, 2, std::string, MM10>>>(c, rng, "s_cnst2_string", "Reallocate manager", b);
	runConfig<SegAdapter<Seg<cnst, 3, std::string, MM00>>>(c, rng, "s_cnst3_string", "Allocate-only manager", b);
	runConfig<SegAdapter<Seg<cnst, 4, std::string, MM00>>>(c, rng, "s_cnst4_string", "Allocate-only manager", b);
	runConfig<SegAdapter<Seg<cnst, 5, std::string, MM00>>>(c, rng, "s_cnst5_string", "Allocate-only manager", b);
	runConfig<SegAdapter<Seg<sqrt_, 0, std::string, MM00>>>(c, rng, "s_sqrt0_string", "Allocate-only manager", b);
	runConfig<SegAdapter<Seg<sqrt_, 1, std::string, MM10>>>(c, rng, "s_sqrt1_string", "Reallocate manager", b);
	runConfig<SegAdapter<Seg<sqrt_, 2, std::string, MM00>>>(c, rng, "s_sqrt2_string", "Allocate-only manager", b);
	runConfig<SegAdapter<Seg<sqrt_, 3, std::string, MM00>>>(c, rng, "s_sqrt3_string", "Allocate-only manager", b);
	runConfig<SegAdapter<Seg<sqrt_, 4, std::string, MM00>>>(c, rng, "s_sqrt4_string", "Allocate-only manager", b);
	runConfig<SegAdapter<Seg<sqrt_, 5, std::string, MM00>>>(c, rng, "s_sqrt5_string", "Allocate-only manager", b);
#endif
#if !defined(C05_PART) || C05_PART == 2
	runConfig<SegAdapter<Seg<cnst, 3, Triv, MM10>>>(c, rng, "s_cnst3_triv", "Reallocate manager", b);
	runConfig<SegAdapter<Seg<sqrt_, 0, Triv, MM11>>>(c, rng, "s_sqrt0_triv", "Reallocate+ReallocateInplace manager", b);
	runConfig<SegAdapter<Seg<sqrt_, 1, NM, MM00>>>(c, rng, "s_sqrt1_nm", "Allocate-only manager", b);
	runConfig<SegAdapter<Seg<cnst, 1, NM, MM10>>>(c, rng, "s_cnst1_nm", "Reallocate manager", b);
	runConfig<SegAdapter<Seg<cnst, 2, TM, MM00>>>(c, rng, "s_cnst2_tm", "Allocate-only manager", b);
	runConfig<SegAdapter<Seg<sqrt_, 2, CO, MM00>>>(c, rng, "s_sqrt2_co", "Allocate-only manager", b);
	runConfig<SegAdapter<Seg<cnst, 0, CO, MM00>>>(c, rng, "s_cnst0_co", "Allocate-only manager", b);
#endif
	return c.finish();
}
