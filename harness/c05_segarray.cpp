// C05 correspondence harness: momo::SegmentedArray, constant and sqrt segment sizing, logInitialItemCount 0..5
// (see c05_array.h).  -DC05_PART=1: std::string items;  -DC05_PART=2: the other item types and memory managers;
// -DC05_PART=3: the "not nothrow-movable but nothrow-swappable" item type and the directed length_error scenario
// (pvAllocateSegment: a segment whose byte size does not fit size_t)
#include "c05_array.h"
#include <stdexcept>
using namespace c05;

template<momo::SegmentedArrayItemCountFunc F, size_t L, typename T, typename MM>
using Seg = momo::SegmentedArray<T, MM, momo::SegmentedArrayItemTraits<T, MM>, momo::SegmentedArraySettings<F, L>>;

static const momo::SegmentedArrayItemCountFunc cnst = momo::SegmentedArrayItemCountFunc::cnst;
static const momo::SegmentedArrayItemCountFunc sqrt_ = momo::SegmentedArrayItemCountFunc::sqrt;

typedef LogMM<false, false> MM00;
typedef LogMM<true, false> MM10;
typedef LogMM<true, true> MM11;

// ---------------------------------------------------------------------------------------------------------------------
// SegmentedArray::pvAllocateSegment throws std::length_error("Invalid item count") when
//     Settings::GetItemCount(segIndex) > SIZE_MAX / sizeof(Item).
// The segments of a SegmentedArray are allocated one after the other, so the condition is reachable only where an early
// segment is already that large: items of 4 KiB and logInitialItemCount = 50 (sqrt: segment 0 has 2^50 items = 2^62 bytes,
// segments 1..3 2^51 items = 2^63 bytes, segment 4 would have 2^52 items = 2^64 bytes) or 52 (cnst: every segment 2^64 bytes).
// The memory manager keeps the ledger with the sizes the container asked for but really allocates at most 64 KiB per block;
// the scenario never has more than 16 items, all in segment 0.
// Property level only (C05: contents / count as the reference sequence; C04: a failed Reserve / SetCount / CreateCap /
// constructor leaves contents, count and capacity unchanged and leaks nothing; the container stays usable).
struct BigItem
{
	uint32_t id;
	char pad[4096 - sizeof(uint32_t)];	// never written
	BigItem() : id(0) {}
	explicit BigItem(uint32_t i) : id(i) {}
};
static_assert(sizeof(BigItem) == 4096, "BigItem");

struct FakeWorld { std::map<void*, size_t> live; std::vector<std::string> ev; size_t bad = 0; };
static FakeWorld& fw() { static FakeWorld w; return w; }
class FakeMM
{
public:
	explicit FakeMM() noexcept {}
	FakeMM(FakeMM&&) noexcept {}
	FakeMM(const FakeMM&) noexcept {}
	~FakeMM() = default;
	FakeMM& operator=(const FakeMM&) = delete;
	void* Allocate(size_t size)
	{
		void* p = std::malloc(std::min<size_t>(size, size_t{1} << 16));
		if (p == nullptr) throw std::bad_alloc();
		fw().live[p] = size; fw().ev.push_back(fmt("a%zu", size));
		return p;
	}
	void Deallocate(void* ptr, size_t size) noexcept
	{
		fw().ev.push_back(fmt("d%zu", size));
		auto it = fw().live.find(ptr);
		if (it == fw().live.end() || it->second != size) { ++fw().bad; return; }
		fw().live.erase(it);
		std::free(ptr);
	}
};

template<typename C>
struct LengthErrorScenario
{
	typedef typename C::Settings S;
	Ctx& c; Rng& rng; const char* cfg;
	std::unique_ptr<C> obj; std::vector<uint32_t> ref;
	std::string hist;
	bool broken = false;

	std::string blocks() { std::vector<size_t> v; for (auto& kv : fw().live) v.push_back(kv.second); std::sort(v.begin(), v.end()); std::string r; for (size_t x : v) r += fmt(" %zu", x); return r; }
	std::string owned() {
		std::vector<size_t> v;
		if (obj) { for (size_t i = 0; i < obj->mSegments.GetCount(); ++i) v.push_back(S::GetItemCount(i) * sizeof(BigItem)); if (obj->mSegments.GetCapacity() > 0) v.push_back(obj->mSegments.GetCapacity() * sizeof(BigItem*)); }
		std::sort(v.begin(), v.end()); std::string r; for (size_t x : v) r += fmt(" %zu", x); return r;
	}
	std::string contents() { const C& a = *obj; std::string r = fmt("%zu %zu|", a.GetCount(), a.GetCapacity()); for (size_t i = 0; i < a.GetCount(); ++i) r += fmt(" %u", a[i].id); return r; }
	void fail(const std::string& what, const std::string& detail) {
		c.fail("%s: %s seed=%llu config=[%s] history=[%s]", what.c_str(), detail.c_str(), (unsigned long long)c.seed, cfg, hist.c_str());
		broken = true;
	}
	void check(const std::string& after) {
		hist += after + "; ";
		c.stats.evaluations++;
		const C& a = *obj;
		if (a.GetCount() != ref.size()) { fail("C05 sequence: size differs", fmt("size %zu expected %zu after [%s]", a.GetCount(), ref.size(), after.c_str())); return; }
		for (size_t i = 0; i < ref.size(); ++i) if (a[i].id != ref[i]) { fail("C05 sequence: element differs", fmt("index %zu got %u expected %u after [%s]", i, a[i].id, ref[i], after.c_str())); return; }
		if (a.GetCount() > a.GetCapacity()) fail("C05 capacity: size exceeds capacity", fmt("size %zu capacity %zu after [%s]", a.GetCount(), a.GetCapacity(), after.c_str()));
		if (blocks() != owned()) fail("C04 leak", fmt("outstanding blocks [%s], the container owns [%s], after [%s]", blocks().c_str(), owned().c_str(), after.c_str()));
		if (fw().bad) { fail("C04 bad deallocation", fmt("%zu after [%s]", fw().bad, after.c_str())); fw().bad = 0; }
	}
	// f must throw std::length_error; contents, count and capacity as before, only blocks the container owns outstanding
	template<typename F> void mustThrow(const std::string& what, F f) {
		if (broken) return;
		std::string before = obj ? contents() : std::string();
		std::string blocksBefore = blocks();
		fw().ev.clear();
		int outcome = 0;
		try { f(); }
		catch (const std::length_error&) { outcome = 1; }
		catch (const std::bad_alloc&) { outcome = 2; }
		catch (...) { outcome = 3; }
		c.stats.count("length_error." + what.substr(0, what.find('(')));
		c.stats.nontrivial(std::string(cfg) + "|" + what.substr(0, what.find('(')) + "|" + before.substr(0, before.find('|')));
		if (outcome != 1) { fail("C05/C04 segment size overflow: no std::length_error", what + (outcome == 0 ? " returned" : outcome == 2 ? " threw std::bad_alloc" : " threw something else")); return; }
		if (obj && contents() != before) { fail("C04 strong guarantee", fmt("[%s] threw and changed the container: before {%s} after {%s}", what.c_str(), before.c_str(), contents().c_str())); return; }
		if (!obj && blocks() != blocksBefore) { fail("C04 leak", fmt("[%s] threw: outstanding blocks [%s], before [%s]", what.c_str(), blocks().c_str(), blocksBefore.c_str())); return; }
		if (obj) check(what + " -> length_error");
		else { hist += what + " -> length_error; "; c.stats.evaluations++; }
	}
	void push(uint32_t id) { if (ref.size() >= 15 || broken) return; BigItem x(id); if (rng.chance(1, 2)) obj->AddBack(x); else obj->AddBackVar(id); ref.push_back(id); check(fmt("AddBack %u", id)); }

	// `okCap`: the largest capacity that can be reserved (0: not even the first segment)
	void run(size_t okCap)
	{
		uint32_t next = 1;
		size_t tooBig[3] = { okCap + 1, okCap + 1 + (size_t)rng.below(1000), okCap + (size_t{1} << 55) };
		for (unsigned round = 0; round < 6 && !broken; ++round) {
			hist.clear();
			// constructors / factories: no object, no block
			obj.reset();
			for (size_t n : tooBig) {
				mustThrow(fmt("CreateCap(%zu)", n), [&] { C t = C::CreateCap(n); (void)t; });
				mustThrow(fmt("SegmentedArray(%zu)", n), [&] { C t(n); (void)t; });
				mustThrow(fmt("SegmentedArray(%zu, item)", n), [&] { BigItem x(7); C t(n, x); (void)t; });
				size_t calls = 0;
				mustThrow(fmt("CreateCrt(%zu)", n), [&] { C t = C::CreateCrt(n, [&calls](BigItem* p) { ++calls; ::new(static_cast<void*>(p)) BigItem(9); }); (void)t; });
				if (calls != 0 && !broken) fail("C04 CreateCrt", fmt("%zu creator calls although the capacity could not be reserved", calls));
				if (broken) return;
			}
			if (!fw().live.empty()) { fail("C04 leak", fmt("outstanding blocks [%s] after failed constructors", blocks().c_str())); return; }
			// an empty object, then a non-empty one
			obj.reset(new C()); ref.clear(); check("new");
			unsigned items = okCap == 0 ? 0 : (unsigned)rng.range(1, 12);
			for (unsigned phase = 0; phase < 2 && !broken; ++phase) {
				for (unsigned rep = 0; rep < 3 && !broken; ++rep) {
					size_t n = tooBig[rng.below(3)];
					switch (rng.below(okCap == 0 ? 5 : 3)) {
					case 0: mustThrow(fmt("Reserve(%zu)", n), [&] { obj->Reserve(n); }); break;
					case 1: mustThrow(fmt("SetCount(%zu)", n), [&] { obj->SetCount(n); }); break;
					case 2: mustThrow(fmt("SetCount(%zu, item)", n), [&] { BigItem x(5); obj->SetCount(n, x); }); break;
					// cnst: not even one item fits
					case 3: mustThrow("AddBack(item)", [&] { BigItem x(5); obj->AddBack(x); }); break;
					default: mustThrow("Insert(0, item)", [&] { BigItem x(5); obj->Insert(0, x); }); break;
					}
					// usable afterwards
					if (broken) return;
					if (obj->IsEmpty() != ref.empty()) fail("C05 IsEmpty", fmt("answered %d, size %zu", (int)obj->IsEmpty(), ref.size()));
					if (okCap > 0 && ref.size() < 15 && rng.chance(1, 2)) push(next++);
					else if (!ref.empty() && rng.chance(1, 2)) { obj->RemoveBack(1); ref.pop_back(); check("RemoveBack"); }
					else if (!ref.empty()) { size_t j = (size_t)rng.below(ref.size()); (*obj)[j] = BigItem(next); ref[j] = next++; check(fmt("set %zu", j)); }
					else { obj->Reserve(0); obj->SetCount(0); obj->Shrink(); check("Reserve(0) SetCount(0) Shrink"); }
				}
				if (phase == 0) {
					for (unsigned i = 0; i < items && !broken; ++i) push(next++);
					// the whole reservable capacity: segments 1..3 are allocated for real (ledger), so that a failing Reserve has
					// something to give back; every other round keep them
					if (okCap > 0 && !broken) {
						if (round % 2 == 0) { obj->Reserve(okCap); check(fmt("Reserve(%zu)", okCap)); if (obj->GetCapacity() != okCap) fail("C05 reserve", fmt("capacity %zu after Reserve(%zu)", obj->GetCapacity(), okCap)); }
						else { obj->Shrink(); check("Shrink"); }
					}
				}
			}
			obj.reset();
			if (!fw().live.empty() || fw().bad) { fail("C04 leak", fmt("outstanding blocks [%s], %zu bad deallocations after destroying the container", blocks().c_str(), fw().bad)); return; }
		}
	}
};

template<typename C>
static void lengthError(Ctx& c, Rng& rng, const char* cfg, size_t okCap)
{
	fw() = FakeWorld();
	LengthErrorScenario<C> s{ c, rng, cfg };
	s.run(okCap);
	c.stats.count(std::string("config.") + cfg);
}

int main(int argc, char** argv)
{
	Ctx c = parseArgs(argc, argv);
	Rng rng(c.seed * 0x1000 + 0x105);
	Budget b = c.thorough ? Budget{ 1000, 220, 300 } : Budget{ 40, 200, 260 };
#if !defined(C05_PART) || C05_PART == 1
	runConfig<SegAdapter<Seg<cnst, 0, std::string, MM00>>>(c, rng, "s_cnst0_string", "Allocate-only manager", b);
	runConfig<SegAdapter<Seg<cnst, 1, std::string, MM00>>>(c, rng, "s_cnst1_string", "Allocate-only manager", b);
	runConfig<SegAdapter<Seg<cnst, 2, std::string, MM10>>>(c, rng, "s_cnst2_string", "Reallocate manager", b);
	runConfig<SegAdapter<Seg<cnst, 3, std::string, MM00>>>(c, rng, "s_cnst3_string", "Allocate-only manager", b);
	runConfig<SegAdapter<Seg<cnst, 4, std::string, MM00>>>(c, rng, "s_cnst4_string", "Allocate-only manager", b);
	runConfig<SegAdapter<Seg<cnst, 5, std::string, MM00>>>(c, rng, "s_cnst5_string", "Allocate-only manager", b);
	runConfig<SegAdapter<Seg<sqrt_, 0, std::string, MM00>>>(c, rng, "s_sqrt0_string", "Allocate-only manager", b);
	runConfig<SegAdapter<Seg<sqrt_, 1, std::string, MM10>>>(c, rng, "s_sqrt1_string", "Reallocate manager", b);
	runConfig<SegAdapter<Seg<sqrt_, 2, std::string, MM00>>>(c, rng, "s_sqrt2_string", "Allocate-only manager", b);
	runConfig<SegAdapter<Seg<sqrt_, 3, std::string, MM00>>>(c, rng, "s_sqrt3_string", "Allocate-only manager", b);
	runConfig<SegAdapter<Seg<sqrt_, 4, std::string, MM00>>>(c, rng, "s_sqrt4_string", "Allocate-only manager", b);
	runConfig<SegAdapter<Seg<sqrt_, 5, std::string, MM00>>>(c, rng, "s_sqrt5_string", "Allocate-only manager", b);
#endif
#if !defined(C05_PART) || C05_PART == 2
	runConfig<SegAdapter<Seg<cnst, 3, Triv, MM10>>>(c, rng, "s_cnst3_triv", "Reallocate manager", b);
	runConfig<SegAdapter<Seg<sqrt_, 0, Triv, MM11>>>(c, rng, "s_sqrt0_triv", "Reallocate+ReallocateInplace manager", b);
	runConfig<SegAdapter<Seg<sqrt_, 1, NM, MM00>>>(c, rng, "s_sqrt1_nm", "Allocate-only manager", b);
	runConfig<SegAdapter<Seg<cnst, 1, NM, MM10>>>(c, rng, "s_cnst1_nm", "Reallocate manager", b);
	runConfig<SegAdapter<Seg<cnst, 2, TM, MM00>>>(c, rng, "s_cnst2_tm", "Allocate-only manager", b);
	runConfig<SegAdapter<Seg<sqrt_, 2, CO, MM00>>>(c, rng, "s_sqrt2_co", "Allocate-only manager", b);
	runConfig<SegAdapter<Seg<cnst, 0, CO, MM00>>>(c, rng, "s_cnst0_co", "Allocate-only manager", b);
#endif
#if !defined(C05_PART) || C05_PART == 3
	runConfig<SegAdapter<Seg<sqrt_, 1, SW, MM00>>>(c, rng, "s_sqrt1_sw", "Allocate-only manager", b);
	runConfig<SegAdapter<Seg<cnst, 2, SW, MM10>>>(c, rng, "s_cnst2_sw", "Reallocate manager", b);
	// segments 0..3 of the sqrt sizing fit (2^50 + 3 * 2^51 items), segment 4 does not; no segment of the cnst sizing fits
	lengthError<Seg<sqrt_, 50, BigItem, FakeMM>>(c, rng, "SegmentedArray<sqrt,50> of 4 KiB items", (size_t{1} << 50) + 3 * (size_t{1} << 51));
	lengthError<Seg<cnst, 52, BigItem, FakeMM>>(c, rng, "SegmentedArray<cnst,52> of 4 KiB items", 0);
#endif
	return c.finish();
}
