// C03 harness, remaining families (compiled in parts, -DC03_PART=n):
//   0  HashMultiMap (value arrays move between the fast pools and single blocks as keys gain / lose values)
//   1  MemPool used directly (block counts 1, 2, 3, 8, 16; with and without cache; Swap / move / MergeFrom / DeallocateIf / DeallocateAll)
//   2  DataTable (dynamic column list with an instrumented column, unique and multi hash indexes, copies, selections, extraction)
//   3  stdish wrappers (vector, unordered_set, map, unordered_multimap) over a stateful std allocator
// See c03_ledger.h for the recorder.
#define MOMO_INCLUDE_OLD_HASH_BUCKETS
#include <algorithm>
#include <string>
#ifndef C03_PART
# define C03_PART 0
#endif
#if C03_PART == 0
# include "momo/HashMultiMap.h"
#elif C03_PART == 1
# include "momo/MemPool.h"
#elif C03_PART == 2
# include "momo/DataTable.h"
#else
# include "momo/stdish/vector.h"
# include "momo/stdish/unordered_set.h"
# include "momo/stdish/map.h"
# include "momo/stdish/unordered_multimap.h"
#endif
#include "c03_ledger.h"

using namespace c03;
template<typename E> static E mk(uint32_t v) { return E(v); }

#if C03_PART == 0
// ------------------------------------------------------------------------------------------------ HashMultiMap
struct MMS : public momo::HashMultiMapSettings { static const momo::ExtraCheckMode extraCheckMode = momo::ExtraCheckMode::nothing; };
template<typename Key, typename HashBucket>
struct LTraits : public momo::HashTraits<Key, HashBucket>
{
	static const bool isFastNothrowHashable = false;
	template<typename ItemTraits> using Bucket = typename HashBucket::template Bucket<ItemTraits, true>;
	size_t GetLogStartBucketCount() const noexcept { return 2; }
	size_t GetHashCode(const Key& key) const { rec().funcPoint(); useKey(key); return hashVal(valOf(key)); }
	bool IsEqual(const Key& a, const Key& b) const { rec().funcPoint(); useKey(a); useKey(b); return valOf(a) == valOf(b); }
};

template<typename K, typename V, typename HB>
static void mmapHistories(Ctx& c, Rng& rng, const std::string& name, unsigned histories, unsigned opsPerHist)
{
	typedef LTraits<K, HB> Tr;
	typedef momo::HashMultiMap<K, V, Tr, LedgerMM, momo::HashMultiMapKeyValueTraits<K, V, LedgerMM>, MMS> C;
	Rec& r = rec();
	for (unsigned h = 0; h < histories; ++h) {
		unsigned clsA = 1, clsB = rng.chance(1, 2) ? 2 : 1;
		r.hashMode = rng.chance(2, 3) ? 0 : 1;
		uint32_t keyRange = rng.chance(1, 2) ? 6 : 60;
		r.begin(name + fmt(" managers=1,%u hash=%s keys<%u", clsB, r.hashMode == 0 ? "multiplicative" : "mod5", keyRange));
		{
			std::unique_ptr<C> a(new C(Tr(), LedgerMM(clsA)));
			size_t fixedBlocks = r.live.size();
			std::unique_ptr<C> b(new C(Tr(), LedgerMM(clsB)));
			uint32_t nextVal = 1;
			for (unsigned i = 0; i < opsPerHist; ++i) {
				int fault; long k; pickFault(rng, true, fault, k);
				C& x = rng.chance(2, 3) ? *a : *b;
				C& y = (&x == a.get()) ? *b : *a;
				const char* xn = (&x == a.get()) ? "a" : "b";
				unsigned cls = (&x == a.get()) ? clsA : clsB;
				size_t n = x.GetCount();
				uint32_t v = (uint32_t)rng.below(keyRange);
				unsigned sel = (unsigned)rng.below(40);
				switch (sel < 20 ? sel % 4 : sel - 20 + 4) {
				case 0: case 1: { uint32_t w = nextVal++; runOp(fmt("%s.Add(const& key %u, value %u) n=%zu", xn, v, w, n), fault, k, [&] { K kk = mk<K>(v); V vv = mk<V>(w); x.Add(kk, vv); }); break; }
				case 2: { uint32_t w = nextVal++; runOp(fmt("%s.Add(&& key %u, && value %u) n=%zu", xn, v, w, n), fault, k, [&] { x.Add(mk<K>(v), mk<V>(w)); }); break; }
				case 3: { size_t cnt = rng.range(2, 20); uint32_t w = nextVal; nextVal += (uint32_t)cnt;
					runOp(fmt("%s.Add(key %u, %zu values from %u) one by one through the key iterator n=%zu", xn, v, cnt, w, n), fault, k, [&] {
						K kk = mk<K>(v); auto kit = x.Find(kk); if (!kit) kit = x.InsertKey(kk);
						for (size_t j = 0; j < cnt; ++j) { x.Add(kit, mk<V>(w + (uint32_t)j)); kit = x.Find(kk); } });
					break; }
				case 4: runOp(fmt("%s.RemoveKey(key %u) n=%zu", xn, v, n), fault, k, [&] { K kk = mk<K>(v); x.RemoveKey(kk); }); break;
				case 5: runOp(fmt("%s.RemoveValues(Find(%u)) n=%zu", xn, v, n), fault, k, [&] { K kk = mk<K>(v); auto kit = x.Find(kk); if (!!kit) x.RemoveValues(kit); }); break;
				case 6: case 7: { size_t idx = rng.below(4); runOp(fmt("%s.Remove(Find(%u), value index %zu or last) n=%zu", xn, v, idx, n), fault, k, [&] {
						K kk = mk<K>(v); auto kit = x.Find(kk); if (!kit) return; size_t vc = kit->GetCount(); if (vc == 0) return; x.Remove(kit, std::min(idx, vc - 1)); }); break; }
				case 8: if (n > 0) { size_t steps = rng.below(std::min<size_t>(n, 6)); runOp(fmt("%s.Remove(iterator begin+%zu) n=%zu", xn, steps, n), fault, k, [&] { auto it = x.GetBegin(); for (size_t j = 0; j < steps; ++j) ++it; x.Remove(it); }); } break;
				case 9: if (rng.chance(1, 2)) { uint32_t m = (uint32_t)rng.range(2, 3); runOp(fmt("%s.Remove(filter value%%%u==0) n=%zu", xn, m, n), fault, k, [&] { x.Remove([m](const K&, const V& val) { return valOf(val) % m == 0; }); }); } break;
				case 10: runOp(fmt("%s.InsertKey(%u) n=%zu keys=%zu", xn, v, n, x.GetKeyCount()), fault, k, [&] { x.InsertKey(mk<K>(v)); }); break;
				case 11: if (rng.chance(1, 3)) { runOp(fmt("%s.Clear() n=%zu", xn, n), fault, k, [&] { x.Clear(); }); c.stats.count("clear_with_shrink"); } break;
				case 12: runOp(fmt("copy-construct from %s n=%zu, destroy the copy", xn, n), fault, k, [&] { C t(x); (void)t; }); break;
				case 13: runOp(fmt("copy-construct from %s n=%zu with manager %u, destroy the copy", xn, n, clsB), fault, k, [&] { C t(x, LedgerMM(clsB)); (void)t; }); break;
				case 14: runOp(fmt("%s = copy of the other (n=%zu <- %zu)", xn, n, y.GetCount()), fault, k, [&] { x = y; }); break;
				case 15: { runOp(fmt("%s = std::move(other) (n=%zu <- %zu)", xn, n, y.GetCount()), fault, k, [&] { x = std::move(y); });
					bool yIsA = (&y == a.get()); unsigned clsY = yIsA ? clsA : clsB;
					runOp("destroy the moved-from container and construct an empty one in its place", F_NONE, 0, [&] { std::unique_ptr<C> t(new C(Tr(), LedgerMM(clsY))); if (yIsA) a = std::move(t); else b = std::move(t); });
					break; }
				case 16: runOp(fmt("%s.Swap(other)", xn), fault, k, [&] { x.Swap(y); }); break;
				case 17: runOp(fmt("move-construct from %s n=%zu and move back", xn, n), fault, k, [&] { C t(std::move(x)); x = std::move(t); }); break;
				case 18: if (rng.chance(1, 3)) { runOp(fmt("%s = container(init-list of 4 pairs, traits, manager %u) (old n=%zu)", xn, cls, n), fault, k, [&] {
						C t({ { mk<K>(v), mk<V>(1) }, { mk<K>(v + 1), mk<V>(2) }, { mk<K>(v), mk<V>(3) }, { mk<K>(v), mk<V>(4) } }, Tr(), LedgerMM(cls)); x = std::move(t); }); } break;
				default: runOp(fmt("%s.Find(%u) and read its values n=%zu", xn, v, n), fault, k, [&] { K kk = mk<K>(v); auto kit = x.Find(kk); if (!!kit) for (const V& val : *kit) useKey(val); }); break;
				}
				c.stats.count(std::string("count_ge_") + (a->GetCount() >= 64 ? "64" : a->GetCount() >= 16 ? "16" : "0"));
			}
			runOp("destroy b", F_NONE, 0, [&] { b.reset(); });
			runOp("a.Clear()", F_NONE, 0, [&] { a->Clear(); });
			c.stats.count("clear_with_shrink");
			if (r.live.size() != fixedBlocks || !r.liveElems.empty())
				r.violation(fmt("Clear() of the only remaining container left %zu block(s) (an empty container holds %zu) and %zu element(s) outstanding", r.live.size(), fixedBlocks, r.liveElems.size()));
			runOp("destroy a", F_NONE, 0, [&] { a.reset(); });
		}
		r.end();
		if (h < 1) c.stats.sample(r.histText().substr(0, 600));
	}
}

static void runPart(Ctx& c, Rng& rng)
{
	unsigned H = c.thorough ? 200 : 30, N = c.thorough ? 120 : 80;
	mmapHistories<ElemL, ElemL, momo::HashBucketLimP4<>>(c, rng, "HashMultiMap<LimP4, nothrow-move -> nothrow-move>", H, N);
	mmapHistories<ElemC, ElemC, momo::HashBucketLimP4<>>(c, rng, "HashMultiMap<LimP4, copy-only -> copy-only>", H, N);
	mmapHistories<ElemL, ElemT, momo::HashBucketOpen8>(c, rng, "HashMultiMap<Open8, nothrow-move -> triv-reloc>", H, N);
}
static const char* kSuite = "c03_multimap";

#elif C03_PART == 1
// ------------------------------------------------------------------------------------------------ MemPool
template<typename Params>
static void poolHistories(Ctx& c, Rng& rng, const std::string& name, unsigned histories, unsigned opsPerHist, size_t blockSize, size_t blockAlign)
{
	typedef momo::MemPool<Params, LedgerMM> Pool;
	Rec& r = rec();
	for (unsigned h = 0; h < histories; ++h) {
		unsigned clsB = rng.chance(1, 3) ? 2 : 1;
		r.begin(name + fmt(" block %zu align %zu managers=1,%u", blockSize, blockAlign, clsB));
		{
			std::unique_ptr<Pool> a(new Pool(Params(blockSize, blockAlign), LedgerMM(1))), b(new Pool(Params(blockSize, blockAlign), LedgerMM(clsB)));
			std::vector<void*> ba, bb;	// blocks taken from a / from b
			for (unsigned i = 0; i < opsPerHist; ++i) {
				int fault; long k; pickFault(rng, false, fault, k); if (fault == F_COPY) fault = F_NONE;
				bool onA = rng.chance(2, 3);
				Pool& x = onA ? *a : *b; std::vector<void*>& bx = onA ? ba : bb;
				Pool& y = onA ? *b : *a; std::vector<void*>& by = onA ? bb : ba;
				const char* xn = onA ? "a" : "b";
				unsigned sel = (unsigned)rng.below(30);
				switch (sel < 16 ? (sel % 8 < 5 ? 0 : 1) : sel - 16 + 2) {
				case 0: { size_t cnt = rng.range(1, 9); runOp(fmt("%s.Allocate() x%zu (held %zu)", xn, cnt, bx.size()), fault, k, [&] {
						for (size_t j = 0; j < cnt; ++j) { void* p = x.template Allocate<void>(); std::memset(p, 0x5A, blockSize); r.touch(p, blockSize, "pool block written by the user"); bx.push_back(p); } }); break; }
				case 1: if (!bx.empty()) { size_t cnt = rng.range(1, std::min<size_t>(bx.size(), 6)); runOp(fmt("%s.Deallocate() x%zu random blocks (held %zu)", xn, cnt, bx.size()), fault, k, [&] {
						for (size_t j = 0; j < cnt; ++j) { size_t idx = rng.below(bx.size()); void* p = bx[idx]; bx[idx] = bx.back(); bx.pop_back(); x.Deallocate(p); } }); } break;
				case 2: if (!bx.empty() && x.CanDeallocateAll()) { runOp(fmt("%s.DeallocateAll() (held %zu)", xn, bx.size()), fault, k, [&] { x.DeallocateAll(); bx.clear(); }); c.stats.count("pool.deallocate_all"); } break;
				case 3: if (!bx.empty() && Params::blockCount > 1) { unsigned m = (unsigned)rng.range(2, 3); runOp(fmt("%s.DeallocateIf(every %u-th held block) (held %zu)", xn, m, bx.size()), fault, k, [&] {
						std::set<void*> kill; std::vector<void*> keep; for (size_t j = 0; j < bx.size(); ++j) { if (j % m == 0) kill.insert(bx[j]); else keep.push_back(bx[j]); }
						x.DeallocateIf([&kill](void* p) { return kill.count(p) != 0; }); bx.swap(keep); }); c.stats.count("pool.deallocate_if"); } break;
				case 4: case 5: if (clsB == 1) { runOp(fmt("%s.MergeFrom(other) (held %zu + %zu)", xn, bx.size(), by.size()), fault, k, [&] { x.MergeFrom(y); bx.insert(bx.end(), by.begin(), by.end()); by.clear(); }); c.stats.count("pool.merge"); } break;
				case 6: runOp(fmt("%s.Swap(other)", xn), fault, k, [&] { x.Swap(y); bx.swap(by); }); break;
				case 7: runOp(fmt("move-construct from %s and move back (held %zu)", xn, bx.size()), fault, k, [&] { Pool t(std::move(x)); x = std::move(t); }); break;
				case 8: if (rng.chance(1, 3)) { runOp(fmt("give back all %zu blocks of %s, destroy it, construct a new pool", bx.size(), xn), fault, k, [&] {
						for (void* p : bx) x.Deallocate(p); bx.clear(); unsigned cls = onA ? 1 : clsB; std::unique_ptr<Pool> t(new Pool(Params(blockSize, blockAlign), LedgerMM(cls))); if (onA) a = std::move(t); else b = std::move(t); }); } break;
				default: break;
				}
				c.stats.count(std::string("held_ge_") + (ba.size() >= 32 ? "32" : ba.size() >= 8 ? "8" : "0"));
			}
			runOp(fmt("b: give back %zu blocks one by one, destroy b", bb.size()), F_NONE, 0, [&] { for (void* p : bb) b->Deallocate(p); bb.clear(); b.reset(); });
			if (a->CanDeallocateAll() && rng.chance(1, 2)) runOp(fmt("a.DeallocateAll() (held %zu)", ba.size()), F_NONE, 0, [&] { a->DeallocateAll(); ba.clear(); });
			else runOp(fmt("a: give back %zu blocks in random order", ba.size()), F_NONE, 0, [&] { while (!ba.empty()) { size_t idx = rng.below(ba.size()); void* p = ba[idx]; ba[idx] = ba.back(); ba.pop_back(); a->Deallocate(p); } });
			runOp("destroy a", F_NONE, 0, [&] { a.reset(); });
		}
		r.end();
		if (h < 1) c.stats.sample(r.histText().substr(0, 600));
	}
}

static void runPart(Ctx& c, Rng& rng)
{
	unsigned H = c.thorough ? 250 : 25, N = c.thorough ? 120 : 70;
	poolHistories<momo::MemPoolParams<8, 0>>(c, rng, "MemPool<blocks 8, no cache>", H, N, 24, 8);
	poolHistories<momo::MemPoolParams<3, 2>>(c, rng, "MemPool<blocks 3, cache 2>", H, N, 40, 16);
	poolHistories<momo::MemPoolParams<2, 0>>(c, rng, "MemPool<blocks 2, no cache>", H, N, 7, 1);
	poolHistories<momo::MemPoolParams<1, 0>>(c, rng, "MemPool<single blocks, no cache>", H, N, 48, 32);
	poolHistories<momo::MemPoolParams<1, 4>>(c, rng, "MemPool<single blocks, cache 4>", H, N, 16, 64);
	poolHistories<momo::MemPoolParams<16, 16>>(c, rng, "MemPool<blocks 16, cache 16>", H, N, 96, 128);
}
static const char* kSuite = "c03_mempool";

#elif C03_PART == 2
// ------------------------------------------------------------------------------------------------ DataTable
typedef momo::DataStructDefault<int, std::string, ElemL> TStruct;
MOMO_DATA_COLUMN_STRING_TAG(TStruct, int, colA);
MOMO_DATA_COLUMN_STRING_TAG(TStruct, int, colB);
MOMO_DATA_COLUMN_STRING_TAG(TStruct, std::string, colS);
MOMO_DATA_COLUMN_STRING_TAG(TStruct, ElemL, colE);

template<bool tKeep>
static void tableHistories(Ctx& c, Rng& rng, const std::string& name, unsigned histories, unsigned opsPerHist)
{
	typedef momo::DataColumnList<momo::DataColumnTraits<TStruct>, LedgerMM, momo::DataItemTraits<LedgerMM>, momo::DataSettings<tKeep>> List;
	typedef momo::DataTable<List> Table;
	typedef typename Table::Row Row;
	Rec& r = rec();
	for (unsigned h = 0; h < histories; ++h) {
		unsigned aRange = rng.chance(1, 2) ? 4 : 40;
		r.begin(name + fmt(" a<%u", aRange));
		{
			auto makeList = [] { List l{ LedgerMM(1) }; l.Add(colA); l.Add(colB); l.Add(colS); l.Add(colE); return l; };
			std::unique_ptr<Table> t(new Table(makeList()));
			size_t fixedBlocks = r.live.size();
			std::vector<Row> held;
			int nextB = 1;
			auto newRow = [&](Table& tab, int av) { Row row = tab.NewRow(); row[colA] = av; row[colB] = nextB++; row[colS] = (av % 3 == 2) ? std::string(40, 'x') + std::to_string(av) : std::to_string(av); row[colE] = ElemL((uint32_t)av); return row; };
			for (unsigned i = 0; i < opsPerHist; ++i) {
				int fault; long k; pickFault(rng, false, fault, k);
				size_t n = t->GetCount();
				int av = (int)rng.below(aRange);
				unsigned sel = (unsigned)rng.below(34);
				switch (sel < 14 ? sel % 2 : sel - 14 + 2) {
				case 0: runOp(fmt("TryAdd(row a=%d) n=%zu", av, n), fault, k, [&] { Row row = newRow(*t, av); (void)t->TryAdd(std::move(row)); }); break;
				case 1: { size_t pos = rng.below(n + 1); runOp(fmt("TryInsert(%zu, row a=%d) n=%zu", pos, av, n), fault, k, [&] { Row row = newRow(*t, av); (void)t->TryInsert(pos, std::move(row)); }); break; }
				case 2: if (n > 0) { size_t pos = rng.below(n); bool keep = rng.chance(1, 2); runOp(fmt("Remove(%zu, keepOrder=%d) n=%zu", pos, (int)keep, n), fault, k, [&] { t->Remove(pos, keep); }); } break;
				case 3: if (n > 0) { size_t pos = rng.below(n); runOp(fmt("Extract(%zu) and hold the row n=%zu", pos, n), fault, k, [&] { held.push_back(t->Extract(pos)); }); } break;
				case 4: if (!held.empty()) { runOp(fmt("TryAdd(held row) n=%zu held=%zu", n, held.size()), fault, k, [&] { Row row = std::move(held.back()); held.pop_back(); (void)t->TryAdd(std::move(row)); }); } break;
				case 5: if (!held.empty()) { runOp(fmt("drop a held row (held=%zu)", held.size()), fault, k, [&] { held.pop_back(); }); } break;
				case 6: if (n > 0) { size_t pos = rng.below(n); runOp(fmt("TryUpdate(%zu, column a, %d) n=%zu", pos, av, n), fault, k, [&] { (void)t->TryUpdate((*t)[pos], colA, av); }); } break;
				case 7: if (n > 0) { size_t pos = rng.below(n); runOp(fmt("TryUpdate(%zu, whole row a=%d) n=%zu", pos, av, n), fault, k, [&] { Row row = newRow(*t, av); (void)t->TryUpdate(pos, std::move(row)); }); } break;
				case 8: runOp(fmt("AddUniqueHashIndex(a, b) n=%zu", n), fault, k, [&] { (void)t->AddUniqueHashIndex(colA, colB); }); c.stats.count("table.index_added"); break;
				case 9: runOp(fmt("AddMultiHashIndex(a) n=%zu", n), fault, k, [&] { (void)t->AddMultiHashIndex(colA); }); c.stats.count("table.index_added"); break;
				case 10: if (rng.chance(1, 3)) { runOp("RemoveUniqueHashIndexes(); RemoveMultiHashIndexes()", fault, k, [&] { t->RemoveUniqueHashIndexes(); t->RemoveMultiHashIndexes(); }); } break;
				case 11: runOp(fmt("Select(a == %d) and SelectCount n=%zu", av, n), fault, k, [&] { auto s = t->Select(colA == av); (void)t->SelectCount(colA == av); (void)s.GetCount(); }); break;
				case 12: case 13: case 14: {
					// a failing row import inside the copying constructors must not destroy the imported rows twice (the constructor's catch
					// block and the destructor both clean up: finding F28, repaired in 79fdef7). The faulty variant is first probed in a
					// forked child - a regression there corrupts memory - and runs in this process when the probe is clean.
					unsigned which = sel < 14 ? 0 : (sel - 14 + 2) - 12;
					std::function<void()> body;
					std::string text;
					if (which == 0) { text = fmt("copy-construct the table n=%zu, destroy the copy", n); body = [&] { Table u(*t); (void)u; }; }
					else if (which == 1) { text = fmt("construct a table from Select(a == %d), destroy it n=%zu", av, n); body = [&] { auto s = t->Select(colA == av); Table u(s); (void)u; }; }
					else { text = fmt("drop the held rows; copy with filter b%%2==0, assign it to the table n=%zu", n); body = [&] { Table u(*t, [](typename Table::ConstRowReference rr) { return rr[colB] % 2 == 0; }); held.clear(); *t = std::move(u); }; }
					if (fault != F_NONE) {
						int pr = probeInChild([&] { Rec& rr = rec(); rr.disarm(); if (fault == F_ALLOC) rr.allocCountdown = k; else rr.copyCountdown = k; body(); });
						c.stats.count("table.copy_probe");
						if (pr != 0) {
							r.op(text + fmt(" [%s-fault k=%ld] probed in a forked child: %s", faultName(fault), k, pr == 1 ? "ledger violation" : "crash"));
							r.violation(fmt("table copy with a failing row import: DataTable copy construction (%zu rows) with %s failure #%ld %s in a forked probe "
								"(rows destroyed twice?)", n, faultName(fault), k, pr == 1 ? "is rejected by the ledger" : "crashes (sanitizer abort)"));
							fault = F_NONE;
						}
					}
					runOp(text, fault, k, body);
					break; }
				case 15: { unsigned m = (unsigned)rng.range(2, 4); runOp(fmt("Remove(filter b%%%u==0) n=%zu", m, n), fault, k, [&] { t->Remove([m](typename Table::ConstRowReference rr) { return rr[colB] % (int)m == 0; }); }); break; }
				case 16: runOp(fmt("Reserve(%zu) n=%zu", n + 30, n), fault, k, [&] { t->Reserve(n + 30); }); break;
				case 17: if (rng.chance(1, 4)) { runOp(fmt("Clear() n=%zu", n), fault, k, [&] { t->Clear(); }); c.stats.count("clear_with_shrink"); } break;
				case 18: runOp(fmt("move-construct the table and move back n=%zu", n), fault, k, [&] { Table u(std::move(*t)); *t = std::move(u); }); break;
				default: if (n > 0) { size_t pos = rng.below(n); runOp(fmt("read row %zu n=%zu", pos, n), fault, k, [&] { auto rr = (*t)[pos]; useKey(rr[colE]); (void)rr[colS].size(); }); } break;
				}
				c.stats.count(std::string("rows_ge_") + (t->GetCount() >= 32 ? "32" : t->GetCount() >= 8 ? "8" : "0"));
			}
			runOp(fmt("drop %zu held rows", held.size()), F_NONE, 0, [&] { held.clear(); });
			runOp("RemoveUniqueHashIndexes(); RemoveMultiHashIndexes(); Clear()", F_NONE, 0, [&] { t->RemoveUniqueHashIndexes(); t->RemoveMultiHashIndexes(); t->Clear(); });
			c.stats.count("clear_with_shrink");
			if (!r.liveElems.empty()) r.violation(fmt("Clear() of the table left %zu element object(s) alive", r.liveElems.size()));
			(void)fixedBlocks;
			runOp("destroy the table", F_NONE, 0, [&] { t.reset(); });
		}
		r.end();
		if (h < 1) c.stats.sample(r.histText().substr(0, 600));
	}
}

static void runPart(Ctx& c, Rng& rng)
{
	unsigned H = c.thorough ? 200 : 30, N = c.thorough ? 120 : 80;
	tableHistories<true>(c, rng, "DataTable<dynamic columns int,int,string,nothrow-move; keepRowNumber>", H, N);
	tableHistories<false>(c, rng, "DataTable<dynamic columns int,int,string,nothrow-move>", H, N);
}
static const char* kSuite = "c03_datatable";

#else
// ------------------------------------------------------------------------------------------------ stdish wrappers
struct EHash { size_t operator()(const ElemL& e) const { rec().funcPoint(); useKey(e); return hashVal(e.id); } };
struct EEq { bool operator()(const ElemL& a, const ElemL& b) const { rec().funcPoint(); useKey(a); useKey(b); return a.id == b.id; } };
struct ELess { bool operator()(const ElemL& a, const ElemL& b) const { rec().funcPoint(); useKey(a); useKey(b); return a.id < b.id; } };

static void stdishHistories(Ctx& c, Rng& rng, unsigned histories, unsigned opsPerHist)
{
	typedef momo::stdish::vector<ElemL, LedgerAlloc<ElemL>> Vec;
	typedef momo::stdish::unordered_set<ElemL, EHash, EEq, LedgerAlloc<ElemL>> USet;
	typedef momo::stdish::map<ElemL, ElemL, ELess, LedgerAlloc<std::pair<const ElemL, ElemL>>> Map;
	typedef momo::stdish::unordered_multimap<ElemL, ElemL, EHash, EEq, LedgerAlloc<std::pair<const ElemL, ElemL>>> UMMap;
	Rec& r = rec();
	for (unsigned h = 0; h < histories; ++h) {
		unsigned cls2 = rng.chance(1, 2) ? 2 : 1;
		r.hashMode = rng.chance(2, 3) ? 0 : 1;
		r.begin(fmt("stdish vector / unordered_set / map / unordered_multimap<nothrow-move>, allocators 1,%u (all propagate traits true)", cls2));
		{
			std::unique_ptr<Vec> v1(new Vec(LedgerAlloc<ElemL>(1))), v2(new Vec(LedgerAlloc<ElemL>(cls2)));
			std::unique_ptr<USet> s1(new USet(LedgerAlloc<ElemL>(1))), s2(new USet(LedgerAlloc<ElemL>(cls2)));
			std::unique_ptr<Map> m1(new Map(ELess(), LedgerAlloc<std::pair<const ElemL, ElemL>>(1))), m2(new Map(ELess(), LedgerAlloc<std::pair<const ElemL, ElemL>>(cls2)));
			std::unique_ptr<UMMap> u1(new UMMap(LedgerAlloc<std::pair<const ElemL, ElemL>>(1))), u2(new UMMap(LedgerAlloc<std::pair<const ElemL, ElemL>>(cls2)));
			for (unsigned i = 0; i < opsPerHist; ++i) {
				int fault; long k; pickFault(rng, false, fault, k);
				uint32_t v = (uint32_t)rng.below(60);
				bool first = rng.chance(2, 3);
				switch (rng.below(30)) {
				case 0: case 1: runOp(fmt("vector%d.push_back(%u) n=%zu", first ? 1 : 2, v, (first ? *v1 : *v2).size()), fault, k, [&] { (first ? *v1 : *v2).push_back(ElemL(v)); }); break;
				case 2: { Vec& x = first ? *v1 : *v2; size_t pos = rng.below(x.size() + 1); runOp(fmt("vector%d.insert(begin+%zu, 3 x %u) n=%zu", first ? 1 : 2, pos, v, x.size()), fault, k, [&] { ElemL e(v); x.insert(x.begin() + pos, 3, e); }); break; }
				case 3: { Vec& x = first ? *v1 : *v2; if (!x.empty()) { size_t pos = rng.below(x.size()); runOp(fmt("vector%d.erase(begin+%zu) n=%zu", first ? 1 : 2, pos, x.size()), fault, k, [&] { x.erase(x.begin() + pos); }); } break; }
				case 4: runOp("vector1 = vector2 (copy)", fault, k, [&] { *v1 = *v2; }); break;
				case 5: runOp("vector2 = std::move(vector1); vector1 = vector(alloc 1)", fault, k, [&] { *v2 = std::move(*v1); v1.reset(new Vec(LedgerAlloc<ElemL>(1))); }); break;
				case 6: runOp("vector1.swap(vector2)", fault, k, [&] { v1->swap(*v2); }); break;
				case 7: runOp("vector1.shrink_to_fit(); vector2.clear()", fault, k, [&] { v1->shrink_to_fit(); v2->clear(); }); break;
				case 8: runOp(fmt("vector1.resize(%u)", v % 20), fault, k, [&] { v1->resize(v % 20); }); break;
				case 9: case 10: case 11: runOp(fmt("unordered_set%d.insert(%u)", first ? 1 : 2, v), fault, k, [&] { (first ? *s1 : *s2).insert(ElemL(v)); }); break;
				case 12: runOp(fmt("unordered_set%d.erase(%u)", first ? 1 : 2, v), fault, k, [&] { ElemL e(v); (first ? *s1 : *s2).erase(e); }); break;
				case 13: runOp("unordered_set1.merge(unordered_set2)", fault, k, [&] { s1->merge(*s2); }); c.stats.count("merge"); break;
				case 14: runOp(fmt("node = unordered_set1.extract(%u); unordered_set2.insert(node)", v), fault, k, [&] { ElemL e(v); auto nh = s1->extract(e); if (!nh.empty()) s2->insert(std::move(nh)); }); break;
				case 15: runOp("unordered_set2 = unordered_set1 (copy); unordered_set1.rehash(64)", fault, k, [&] { *s2 = *s1; s1->rehash(64); }); break;
				case 16: runOp("unordered_set1.swap(unordered_set2)", fault, k, [&] { s1->swap(*s2); }); break;
				case 17: case 18: case 19: runOp(fmt("map%d[%u] = %u", first ? 1 : 2, v, v + 1), fault, k, [&] { ElemL e(v); (first ? *m1 : *m2)[e] = ElemL(v + 1); }); break;
				case 20: runOp(fmt("map%d.erase(%u)", first ? 1 : 2, v), fault, k, [&] { ElemL e(v); (first ? *m1 : *m2).erase(e); }); break;
				case 21: runOp("map1.merge(map2)", fault, k, [&] { m1->merge(*m2); }); c.stats.count("merge"); break;
				case 22: runOp("map2 = map1 (copy)", fault, k, [&] { *m2 = *m1; }); break;
				case 23: runOp(fmt("map1.erase(lower_bound(%u), upper_bound(%u))", v, v + 9), fault, k, [&] { ElemL lo(v), hi(v + 9); m1->erase(m1->lower_bound(lo), m1->upper_bound(hi)); }); break;
				case 24: case 25: case 26: runOp(fmt("unordered_multimap%d.emplace(%u, %u)", first ? 1 : 2, v % 7, v), fault, k, [&] { (first ? *u1 : *u2).emplace(ElemL(v % 7), ElemL(v)); }); break;
				case 27: runOp(fmt("unordered_multimap%d.erase(key %u)", first ? 1 : 2, v % 7), fault, k, [&] { ElemL e(v % 7); (first ? *u1 : *u2).erase(e); }); break;
				case 28: runOp("unordered_multimap2 = unordered_multimap1 (copy)", fault, k, [&] { *u2 = *u1; }); break;
				default: runOp("unordered_multimap1.swap(unordered_multimap2); unordered_multimap2.clear()", fault, k, [&] { u1->swap(*u2); u2->clear(); }); break;
				}
			}
			runOp("destroy all eight containers", F_NONE, 0, [&] { v1.reset(); v2.reset(); s1.reset(); s2.reset(); m1.reset(); m2.reset(); u1.reset(); u2.reset(); });
		}
		r.end();
		if (h < 1) c.stats.sample(r.histText().substr(0, 600));
	}
}
static void runPart(Ctx& c, Rng& rng) { stdishHistories(c, rng, c.thorough ? 300 : 40, c.thorough ? 200 : 120); }
static const char* kSuite = "c03_stdish";
#endif

int main(int argc, char** argv)
{
	Ctx c = parseArgs(argc, argv);
	Rng rng(c.seed * 0x1000 + 0x03D + C03_PART);
	Suite s(c, kSuite, "model ledger");
	Rec& r = rec(); r.c = &c; r.s = &s; r.family = kSuite;
	runPart(c, rng);
	return c.finish();
}
