// C15 correspondence harness: containers built with settings classes
//     checkMode = CheckMode::exception, checkVersion = true, extraCheckMode = nothing
// are driven through (state, invalidating operation, subsequent use) triples and through random histories.
// Every call is mirrored by an operation line for the Lean model `ver` (lean/Driver/Ver.lean); the model must
// print the same outcome (ok … / E:invalid_argument) and the same contents of both container objects after
// every line (model level).  Independently the harness keeps its own record of which crew (container state)
// was modified after a handle was made, by comparing snapshots of the real containers (property level):
//   * a handle whose container changed (contents, capacity, layout flags) since it was made, a handle of another
//     container, an end/empty handle where an element is required, an out-of-range index
//         => the call must throw std::invalid_argument and leave both containers exactly as they were
//   * a handle made after the last modifying entry point and used with valid arguments => must not throw
//   * in between (an entry point that increments a version without changing anything): model level only.
// What the abstract model cannot know (iteration order of a hash table, capacity chosen by a growth) is read from
// the real container after the call and written into the operation line.
// VF_PART: 0 HashSet, 1 HashMap, 2 TreeSet, 6 TreeMultiSet / TreeMap, 3 HashMultiMap, 4 Array (index iterators) / SegmentedArray,
//          5 DataTable (static columns, row numbers), 7 DataTable (dynamic columns),
//          8 TreeSet / TreeMultiSet / TreeMap with checkVersion = false (the null-node checks of the iterator are the only guard)
// Directed blocks (property level only, no model lines): extracted-item holders in the wrong state (parts 0, 1, 2, 6, 8),
// hash traits whose growth answers are illegal (parts 0, 1: HashSet.h pvGetNewLogBucketCount / pvAddGrow).
#ifndef VF_PART
#define VF_PART 0
#endif

#include "momo/HashSet.h"
#include "momo/HashMap.h"
#include "momo/TreeSet.h"
#include "momo/TreeMap.h"
#include "momo/HashMultiMap.h"
#include "momo/Array.h"
#include "momo/SegmentedArray.h"
#include "momo/DataTable.h"
#include "common/verif_common.h"

#include <algorithm>
#include <functional>
#include <memory>
#include <optional>
#include <set>
#include <map>
#include <unistd.h>
#include <fcntl.h>
#include <sys/wait.h>

using namespace vf;
typedef momo::MemManagerDefault MM;

static const std::string BAD = "E:invalid_argument";

// runs f; returns "" when it returned normally, the canonical exception tag otherwise
template<typename F> static std::string guard(F&& f) {
	try { f(); return ""; }
	catch (const std::invalid_argument&) { return BAD; }
	catch (const std::bad_alloc&) { return "E:bad_alloc"; }
	catch (const std::length_error&) { return "E:length"; }
	catch (const std::out_of_range&) { return "E:out_of_range"; }
	catch (const std::runtime_error&) { return "E:runtime"; }
	catch (const std::exception&) { return "E:other"; }
}

static std::string listStr(const std::vector<uint32_t>& v) {
	std::string r = "[";
	for (size_t i = 0; i < v.size(); ++i) { if (i) r += ' '; r += std::to_string(v[i]); }
	return r + "]";
}

// ------------------------------------------------------------------------------------------------------------
// bookkeeping shared by all parts: op/answer lines, property-level judgement of every use
struct Judge {
	Ctx& c; Suite& s; std::string cfg;
	std::string scen;          // op lines of the current scenario (for FAIL messages)
	std::string lastMut;       // name of the last mutating entry point (coverage key)
	Judge(Ctx& c_, Suite& s_, const std::string& cfg_) : c(c_), s(s_), cfg(cfg_) {}
	void begin() { scen.clear(); lastMut = "none"; }
	void line(const std::string& op, const std::string& res) { s.op(op); s.res(res); if (scen.size() < 3000) { scen += op; scen += "; "; } }
	void mut(const std::string& name) { lastMut = name; c.stats.count("entry point: " + name); }
	// must: +1 must reject, -1 must accept, 0 no property-level judgement
	void judge(int must, const std::string& outcome, bool unchanged, const std::string& op, const std::string& why, const std::string& handleKind) {
		bool rejected = outcome == BAD;
		c.stats.evaluations++;
		if (!outcome.empty() && !rejected)
			c.fail("C15 %s: unexpected exception %s from %s; history: %s", cfg.c_str(), outcome.c_str(), op.c_str(), scen.c_str());
		if (rejected && !unchanged)
			c.fail("C15 %s: a call that threw invalid_argument changed a container: %s (%s); history: %s", cfg.c_str(), op.c_str(), why.c_str(), scen.c_str());
		if (must > 0 && !rejected)
			c.fail("C15 %s: misuse not reported (%s): %s; history: %s", cfg.c_str(), why.c_str(), op.c_str(), scen.c_str());
		if (must < 0 && rejected)
			c.fail("C15 %s: valid use rejected: %s; history: %s", cfg.c_str(), op.c_str(), scen.c_str());
		if (must > 0) c.stats.count("must reject: " + why);
		else if (must < 0) c.stats.count("must accept (fresh handle / valid argument)");
		else c.stats.count("model only: " + why);
		std::string use = op.substr(0, op.find(' '));
		c.stats.nontrivial(cfg + "|" + lastMut + "|" + use + "|" + handleKind + "|" + (must > 0 ? why : must < 0 ? "accept" : "model"));
		if (must > 0 && c.stats.samples.size() < 10) c.stats.sample(cfg + ": " + scen);
	}
};

// crews are identified by the address of their version cell; `Mods` records, per crew, the serial number of the last
// entry point that changed it (`mod`) and of the last one that ran a version increment without changing it (`touch`)
struct Mods {
	std::map<const void*, uint64_t> mod, touch;
	uint64_t serial = 0;
	void clear() { mod.clear(); touch.clear(); serial = 0; }
	bool stale(const void* cell, uint64_t born) const { auto it = mod.find(cell); return it != mod.end() && it->second > born; }
	bool touched(const void* cell, uint64_t born) const { auto it = touch.find(cell); return it != touch.end() && it->second > born; }
};

// property-level judgement of a directed case that has no model line.  must > 0: the call has to throw std::invalid_argument and
// leave everything as it was; must < 0: it has to succeed
static void directed(Ctx& c, const std::string& cfg, int must, const std::string& outcome, bool unchanged, const std::string& what, const std::string& why) {
	bool rejected = outcome == BAD;
	c.stats.evaluations++;
	if (!outcome.empty() && !rejected) c.fail("C15 %s: unexpected exception %s from %s", cfg.c_str(), outcome.c_str(), what.c_str());
	if (rejected && !unchanged) c.fail("C15 %s: a call that threw invalid_argument changed its object: %s (%s)", cfg.c_str(), what.c_str(), why.c_str());
	if (must > 0 && !rejected) c.fail("C15 %s: misuse not reported (%s): %s", cfg.c_str(), why.c_str(), what.c_str());
	if (must < 0 && rejected) c.fail("C15 %s: valid use rejected: %s", cfg.c_str(), what.c_str());
	if (must > 0) c.stats.count("must reject: " + why); else c.stats.count("must accept (directed case)");
	c.stats.nontrivial(cfg + "|directed|" + what + "|" + (must > 0 ? why : "accept"));
}

// Extracted-item holders (SetExtractedItem, SetUtility.h:253-338; MapExtractedPair, MapUtility.h:903-950) of a container type with
// exception-mode settings, in every state a holder can be in: each accessor (const and non-const), Create and Remove.
// The adapter supplies: extN accessors, extRead / extReadMut(holder, i), extExpect(key, i), extCreate, extRemove, fillExt, insert, insertExt.
template<typename Ad>
static void runHolderChecks(Ctx& c, const std::string& cfg0) {
	typedef typename Ad::Ext Ext;
	typedef typename Ad::C C;
	std::string cfg = cfg0 + " extracted-item holder";
	auto probe = [&](Ext& e, bool full, uint32_t k, const std::string& state) {
		for (int i = 0; i < Ad::extN; ++i) {
			const Ext& ce = e;
			uint32_t got = 0;
			std::string ex = guard([&] { got = Ad::extRead(ce, i); });
			directed(c, cfg, full ? -1 : 1, ex, e.IsEmpty() == !full, fmt("const accessor %d, holder %s", i, state.c_str()), "const accessor of an empty extracted-item holder");
			if (full && ex.empty() && got != Ad::extExpect(k, i)) c.fail("C15 %s: const accessor %d of a holder %s returned %u, expected %u", cfg.c_str(), i, state.c_str(), got, Ad::extExpect(k, i));
			got = 0;
			ex = guard([&] { got = Ad::extReadMut(e, i); });
			directed(c, cfg, full ? -1 : 1, ex, e.IsEmpty() == !full, fmt("accessor %d, holder %s", i, state.c_str()), "accessor of an empty extracted-item holder");
			if (full && ex.empty() && got != Ad::extExpect(k, i)) c.fail("C15 %s: accessor %d of a holder %s returned %u, expected %u", cfg.c_str(), i, state.c_str(), got, Ad::extExpect(k, i));
		}
		// Create needs an empty holder, Remove a full one; a rejected call must not run the functor and must keep the state
		bool called = false;
		if (full) {
			std::string ex = guard([&] { Ad::extCreate(e, k + 1, called); });
			bool same = !e.IsEmpty() && !called && Ad::extRead(e, 0) == Ad::extExpect(k, 0);
			directed(c, cfg, 1, ex, same, "Create, holder " + state, "Create on a full extracted-item holder");
		} else {
			std::string ex = guard([&] { Ad::extRemove(e, called); });
			directed(c, cfg, 1, ex, e.IsEmpty() && !called, "Remove, holder " + state, "Remove on an empty extracted-item holder");
		}
	};
	{ Ext e; probe(e, false, 0, "default-constructed"); }
	{ Ext e; Ad::fillExt(e, 5); probe(e, true, 5, "filled by Create"); }
	{ Ext e; Ad::fillExt(e, 5); e.Clear(); probe(e, false, 0, "cleared"); e.Clear(); probe(e, false, 0, "cleared twice"); }
	{ Ext e; Ad::fillExt(e, 6); Ext e2(std::move(e)); probe(e, false, 0, "moved-from"); probe(e2, true, 6, "move-constructed from a full holder"); }
	{ Ext e; Ext e2(std::move(e)); probe(e, false, 0, "moved-from (was empty)"); probe(e2, false, 0, "move-constructed from an empty holder"); }
	{
		Ext e; Ad::fillExt(e, 7); bool called = false;
		std::string ex = guard([&] { Ad::extRemove(e, called); });
		directed(c, cfg, -1, ex, true, "Remove, holder filled by Create", "");
		if (!called || !e.IsEmpty()) c.fail("C15 %s: Remove on a full holder did not run the remover / left the holder full", cfg.c_str());
		probe(e, false, 0, "emptied by Remove");
		called = false;
		ex = guard([&] { Ad::extCreate(e, 8, called); });
		directed(c, cfg, -1, ex, true, "Create, holder emptied by Remove", "");
		if (!called) c.fail("C15 %s: Create on an empty holder did not run the creator", cfg.c_str());
		probe(e, true, 8, "filled again");
	}
	{
		C t; for (uint32_t k : { 5u, 12u, 23u }) Ad::insert(t, k, 0);
		Ext e(t.Extract(t.Find(12)));
		probe(e, true, 12, "filled by Extract");
		std::string ex = guard([&] { Ad::insertExt(t, e); });
		directed(c, cfg, -1, ex, true, "Insert(holder filled by Extract)", "");
		probe(e, false, 0, "emptied by Insert");
		if (t.GetCount() != 3 || !t.ContainsKey(12)) c.fail("C15 %s: Extract + Insert(extracted) lost an element", cfg.c_str());
		// a holder emptied by a successful Insert is refused by the next Insert (the container stays as it is)
		ex = guard([&] { Ad::insertExt(t, e); });
		directed(c, cfg, 1, ex, t.GetCount() == 3 && e.IsEmpty(), "Insert(holder emptied by Insert)", "empty extracted-item holder");
	}
	c.stats.count("holder state blocks");
}
// holder access of the set adapters (one accessor: GetItem) and of the map adapters (GetKey, GetValue; value = key + 1)
struct SetHolderOps {
	static const int extN = 1;
	template<typename Ext> static uint32_t extRead(const Ext& e, int) { return e.GetItem(); }
	template<typename Ext> static uint32_t extReadMut(Ext& e, int) { return e.GetItem(); }
	static uint32_t extExpect(uint32_t k, int) { return k; }
	template<typename Ext> static void extCreate(Ext& e, uint32_t k, bool& called) { e.Create([k, &called](uint32_t* q) { called = true; *q = k; }); }
	template<typename Ext> static void extRemove(Ext& e, bool& called) { e.Remove([&called](uint32_t&) { called = true; }); }
};
struct MapHolderOps {
	static const int extN = 2;
	template<typename Ext> static uint32_t extRead(const Ext& e, int i) { return i == 0 ? e.GetKey() : e.GetValue(); }
	template<typename Ext> static uint32_t extReadMut(Ext& e, int i) { return i == 0 ? e.GetKey() : e.GetValue(); }
	static uint32_t extExpect(uint32_t k, int i) { return i == 0 ? k : k + 1; }
	template<typename Ext> static void extCreate(Ext& e, uint32_t k, bool& called) { e.Create([k, &called](uint32_t* q, uint32_t* v) { called = true; *q = k; *v = k + 1; }); }
	template<typename Ext> static void extRemove(Ext& e, bool& called) { e.Remove([&called](uint32_t&, uint32_t&) { called = true; }); }
};

// ============================================================================================================
#if VF_PART == 0 || VF_PART == 1
// ---------------------------------------------------------------- HashSet / HashMap

struct XSet : public momo::HashSetSettings {
	static const momo::CheckMode checkMode = momo::CheckMode::exception;
	static const momo::ExtraCheckMode extraCheckMode = momo::ExtraCheckMode::nothing;
	static const bool checkVersion = true;
};
struct XMap : public momo::HashMapSettings {
	static const momo::CheckMode checkMode = momo::CheckMode::exception;
	static const momo::ExtraCheckMode extraCheckMode = momo::ExtraCheckMode::nothing;
	static const bool checkVersion = true;
};

// keys k and k + 1000 are equal for the traits (ResetKey needs an equal key that is a different value)
template<typename HashBucket, bool tFast>
struct ModTraits : public momo::HashTraits<uint32_t, HashBucket> {
	static const bool isFastNothrowHashable = tFast;
	template<typename ItemTraits>
	using Bucket = typename HashBucket::template Bucket<ItemTraits, !isFastNothrowHashable>;
	size_t GetHashCode(const uint32_t& key) const { return (size_t)(key % 1000) * 0x9E3779B97F4A7C15ull; }
	bool IsEqual(const uint32_t& a, const uint32_t& b) const { return a % 1000 == b % 1000; }
};

template<typename Traits>
struct SetAd : SetHolderOps {
	typedef momo::HashSet<uint32_t, Traits, MM, momo::HashSetItemTraits<uint32_t, MM>, XSet> C;
	typedef typename C::ConstIterator It;
	typedef typename C::ConstPosition Pos;
	typedef typename C::ExtractedItem Ext;
	typedef C HS;
	static HS& hs(C& c) { return c; }
	static const typename HS::ConstIterator& sit(const It& it) { return it; }
	static uint32_t key(const It& it) { return *it; }
	static std::pair<Pos, bool> insert(C& c, uint32_t k, int variant) {
		switch (variant % 4) {
		case 0: { auto r = c.Insert(k); return { r.position, r.inserted }; }
		case 1: { uint32_t t = k; auto r = c.Insert(std::move(t)); return { r.position, r.inserted }; }
		case 2: { auto r = c.InsertVar(k, k); return { r.position, r.inserted }; }
		default: { auto r = c.InsertCrt(k, [k](uint32_t* p) { *p = k; }); return { r.position, r.inserted }; }
		}
	}
	static std::pair<Pos, bool> insertExt(C& c, Ext& e) { auto r = c.Insert(std::move(e)); return { r.position, r.inserted }; }
	static void insertRange(C& c, const std::vector<uint32_t>& ks, int variant) {
		if (variant % 2 == 1 && ks.size() == 2) c.Insert({ ks[0], ks[1] });
		else c.Insert(ks.begin(), ks.end());
	}
	static Pos add(C& c, Pos p, uint32_t k, int variant) {
		switch (variant % 4) {
		case 0: return c.Add(p, k);
		case 1: { uint32_t t = k; return c.Add(p, std::move(t)); }
		case 2: return c.AddVar(p, k);
		default: return c.AddCrt(p, [k](uint32_t* q) { *q = k; });
		}
	}
	static Pos addExt(C& c, Pos p, Ext& e) { return c.Add(p, std::move(e)); }
	static It removeExt(C& c, It it, Ext& e) { return c.Remove(it, e); }
	static void extract(C& c, Pos p) { Ext x = c.Extract(p); }
	static size_t removeIf(C& c, uint32_t m, uint32_t r) { return c.Remove([m, r](const uint32_t& x) { return x % m == r; }); }
	static void fillExt(Ext& e, uint32_t k) { e.Clear(); e.Create([k](uint32_t* q) { *q = k; }); }
};

template<typename Traits>
struct MapAd : MapHolderOps {
	typedef momo::HashMap<uint32_t, uint32_t, Traits, MM, momo::HashMapKeyValueTraits<uint32_t, uint32_t, MM>, XMap> C;
	typedef typename C::ConstIterator It;
	typedef typename C::ConstPosition Pos;
	typedef typename C::ExtractedPair Ext;
	typedef decltype(C::mHashSet) HS;
	static HS& hs(C& c) { return c.mHashSet; }
	static const typename HS::ConstIterator& sit(const It& it) { return it.mHashSetIterator; }
	static uint32_t key(const It& it) { return it->key; }
	static std::pair<Pos, bool> insert(C& c, uint32_t k, int variant) {
		switch (variant % 5) {
		case 0: { auto r = c.Insert(k, k + 1); return { r.position, r.inserted }; }
		case 1: { uint32_t t = k; auto r = c.Insert(std::move(t), k + 1); return { r.position, r.inserted }; }
		case 2: { auto r = c.InsertVar(k, k + 1); return { r.position, r.inserted }; }
		case 3: { bool had = c.ContainsKey(k); if (!had) c[k] = k + 1; return { c.Find(k), !had }; }
		default: { auto r = c.InsertCrt(k, [k](uint32_t* p) { *p = k + 1; }); return { r.position, r.inserted }; }
		}
	}
	static std::pair<Pos, bool> insertExt(C& c, Ext& e) { auto r = c.Insert(std::move(e)); return { r.position, r.inserted }; }
	static void insertRange(C& c, const std::vector<uint32_t>& ks, int variant) {
		std::vector<std::pair<uint32_t, uint32_t>> ps;
		for (uint32_t k : ks) ps.push_back({ k, k + 1 });
		if (variant % 2 == 1 && ps.size() == 2) c.Insert({ ps[0], ps[1] });
		else c.Insert(ps.begin(), ps.end());
	}
	static Pos add(C& c, Pos p, uint32_t k, int variant) {
		switch (variant % 3) {
		case 0: return c.Add(p, k, k + 1);
		case 1: return c.AddVar(p, k, k + 1);
		default: return c.AddCrt(p, k, [k](uint32_t* q) { *q = k + 1; });
		}
	}
	static Pos addExt(C& c, Pos p, Ext& e) { return c.Add(p, std::move(e)); }
	static It removeExt(C& c, It it, Ext& e) { return c.Remove(it, e); }
	static void extract(C& c, Pos p) { Ext x = c.Extract(p); }
	static size_t removeIf(C& c, uint32_t m, uint32_t r) { return c.Remove([m, r](const uint32_t& x, const uint32_t&) { return x % m == r; }); }
	static void fillExt(Ext& e, uint32_t k) { e.Clear(); e.Create([k](uint32_t* q, uint32_t* v) { *q = k; *v = k + 1; }); }
};

enum { H_ELEM = 0, H_EMPTY = 1, H_NULL = 2 };
static const char* hkName(int k) { return k == H_ELEM ? "element" : k == H_EMPTY ? "empty-position" : "null"; }

template<typename Ad>
struct HashRun {
	typedef typename Ad::C C;
	typedef typename Ad::It It;
	typedef typename Ad::Pos Pos;
	typedef typename Ad::Ext Ext;
	Ctx& c; Rng& rng; Suite s; Judge j; Mods mods;
	std::unique_ptr<C> obj[2];
	std::unique_ptr<Ext> ext[2];
	struct Slot { It it; const void* cell = nullptr; int kind = H_NULL; uint64_t born = 0; };
	std::vector<Slot> slots;

	HashRun(Ctx& c_, Rng& r, const std::string& suite, const std::string& cfg)
		: c(c_), rng(r), s(c_, suite, "model ver fam=hash"), j(c_, s, cfg) {}

	C& O(int o) { return *obj[o]; }
	static char on(int o) { return o ? 'B' : 'A'; }
	const void* cellOf(int o) { return Ad::hs(O(o)).mCrew.GetVersion(); }
	std::vector<uint32_t> keys(int o) { std::vector<uint32_t> v; for (auto it = O(o).GetBegin(); !!it; ++it) v.push_back(Ad::key(it)); std::sort(v.begin(), v.end()); return v; }
	std::string tail() {
		return " | A=" + listStr(keys(0)) + " c" + std::to_string(O(0).GetCapacity()) + " B=" + listStr(keys(1)) + " c" + std::to_string(O(1).GetCapacity());
	}
	static bool hasElem(const It& it) { const auto& si = Ad::sit(it); return si.mBucketIterator != decltype(si.mBucketIterator)(); }
	static int kindOf(const It& it) { if (hasElem(it)) return H_ELEM; return Ad::sit(it).mContainerVersion == nullptr ? H_NULL : H_EMPTY; }
	// description of a handle that was just produced (its element is alive)
	static std::string desc(const It& it) {
		if (hasElem(it)) return "e" + std::to_string(Ad::key(it)) + (Ad::sit(it).mBuckets != nullptr ? "m" : "");
		return kindOf(it) == H_NULL ? "null" : "empty";
	}
	void store(int d, const It& it) {
		if ((int)slots.size() <= d) slots.resize(d + 1);
		Slot& sl = slots[d];
		sl.it = it; sl.cell = Ad::sit(it).mContainerVersion; sl.kind = kindOf(it); sl.born = mods.serial;
		lastStored = d;
	}
	int lastStored = -1;
	// a handle returned by a mutating entry point is made after the modification
	void restamp() { if (lastStored >= 0) slots[lastStored].born = mods.serial; }
	struct Snap {
		std::vector<uint32_t> k[2]; size_t cap[2]; const void* cell[2];
		bool operator==(const Snap& o) const { return k[0] == o.k[0] && k[1] == o.k[1] && cap[0] == o.cap[0] && cap[1] == o.cap[1] && cell[0] == o.cell[0] && cell[1] == o.cell[1]; }
	};
	Snap snap() { Snap x; for (int o = 0; o < 2; ++o) { x.k[o] = keys(o); x.cap[o] = O(o).GetCapacity(); x.cell[o] = cellOf(o); } return x; }
	// after a mutating entry point on the objects in `objs`: which crews changed; `quiet` = the entry point does not
	// increment a version when nothing changes
	void note(const Snap& before, bool quiet, int objMask) {
		Snap after = snap();
		++mods.serial;
		for (int o = 0; o < 2; ++o) {
			int p = (after.cell[o] == before.cell[o]) ? o : 1 - o;    // Swap exchanges the crews
			if (after.k[o] != before.k[p] || after.cap[o] != before.cap[p]) mods.mod[after.cell[o]] = mods.serial;
			else if (!quiet && (objMask & (1 << o))) mods.touch[after.cell[o]] = mods.serial;
		}
	}

	void newScenario() {
		slots.clear(); mods.clear();
		ext[0].reset(); ext[1].reset(); obj[0].reset(); obj[1].reset();
		obj[0].reset(new C()); obj[1].reset(new C());
		ext[0].reset(new Ext()); ext[1].reset(new Ext());
		j.begin();
		j.line("new", "ok" + tail());
	}

	// ---- handle creation (const entry points)
	void hFind(int o, uint32_t k, int d) { It it = It(O(o).Find(k)); store(d, it); j.line(fmt("find %c %u %d", on(o), k, d), "ok " + desc(it) + tail()); }
	void hBegin(int o, int d) {
		It it = O(o).GetBegin(); store(d, it);
		j.line(fmt("begin %c %s %d", on(o), (!!it ? std::to_string(Ad::key(it)) : std::string("0")).c_str(), d), "ok " + desc(it) + tail());
	}
	void hEnd(int o, int d) { It it = O(o).GetEnd(); store(d, it); j.line(fmt("end %c %d", on(o), d), "ok " + desc(it) + tail()); }
	void hMakePos(int o, uint32_t k, int d) {
		It it = It(O(o).MakePosition(O(o).GetHashTraits().GetHashCode(k))); store(d, it);
		j.line(fmt("mkpos %c %d", on(o), d), "ok " + desc(it) + tail());
	}

	// ---- mutating entry points without a handle argument (never expected to throw)
	void mInsert(int o, uint32_t k, int d) {
		Snap b = snap();
		auto r = Ad::insert(O(o), k, (int)rng.below(20));
		note(b, true, 1 << o); store(d, It(r.first));
		j.mut(r.second ? "Insert(new key)" : "Insert(existing key)");
		j.line(fmt("ins %c %u %zu %d", on(o), k, O(o).GetCapacity(), d), fmt("ok %d ", (int)r.second) + desc(It(r.first)) + tail());
	}
	void mInsertRange(int o, const std::vector<uint32_t>& ks) {
		Snap b = snap();
		Ad::insertRange(O(o), ks, (int)rng.below(4));
		note(b, true, 1 << o);
		std::string l = fmt("insr %c %zu", on(o), O(o).GetCapacity());
		for (uint32_t k : ks) l += " " + std::to_string(k);
		j.mut(b.k[o] == keys(o) ? "Insert(range, nothing new)" : "Insert(range)");
		j.line(l, "ok" + tail());
	}
	void mRemoveKey(int o, uint32_t k) {
		Snap b = snap(); bool r = O(o).Remove(k); note(b, true, 1 << o);
		j.mut(r ? "Remove(key present)" : "Remove(key absent)");
		j.line(fmt("rmk %c %u", on(o), k), fmt("ok %d", (int)r) + tail());
	}
	void mRemoveIf(int o, uint32_t m, uint32_t r) {
		Snap b = snap(); size_t n = Ad::removeIf(O(o), m, r); note(b, true, 1 << o);
		j.mut(n ? "Remove(filter, some)" : "Remove(filter, none)");
		j.line(fmt("rmif %c %u %u", on(o), m, r), fmt("ok %zu", n) + tail());
	}
	void mClear(int o, bool shrink) {
		Snap b = snap(); O(o).Clear(shrink); note(b, false, 1 << o);
		j.mut(shrink ? "Clear(shrink)" : "Clear(keep buckets)");
		j.line(fmt("clear %c %d", on(o), (int)shrink), "ok" + tail());
	}
	void mReserve(int o, size_t n) {
		Snap b = snap(); O(o).Reserve(n); note(b, true, 1 << o);
		j.mut(n > b.cap[o] ? "Reserve(growth)" : "Reserve(no growth)");
		j.line(fmt("reserve %c %zu %zu", on(o), n, O(o).GetCapacity()), "ok" + tail());
	}
	void mSwap() {
		Snap b = snap(); if (rng.below(2)) O(0).Swap(O(1)); else swap(O(0), O(1)); note(b, true, 3);
		j.mut("Swap"); j.line("swap", "ok" + tail());
	}
	void mMerge(int src) {
		Snap b = snap();
		if (rng.below(2)) O(src).MergeTo(O(1 - src)); else O(1 - src).MergeFrom(O(src));
		note(b, true, 3);
		j.mut(b.k[src] == keys(src) ? (src ? "MergeFrom(nothing moved)" : "MergeTo(nothing moved)") : (src ? "MergeFrom(keys moved)" : "MergeTo(keys moved)"));
		j.line(fmt("merge %c %zu", on(src), O(1 - src).GetCapacity()), "ok" + tail());
	}
	void mMergeSelf(int o) { Snap b = snap(); O(o).MergeTo(O(o)); note(b, true, 1 << o); j.mut("MergeTo(itself)"); j.line(fmt("mergeself %c", on(o)), "ok" + tail()); }
	void mInsertExt(int o, uint32_t k, bool full, int d) {
		if (full) Ad::fillExt(*ext[o], k); else ext[o]->Clear();
		Snap before = snap();
		std::string res;
		lastStored = -1;
		std::string ex = guard([&] { auto r = Ad::insertExt(O(o), *ext[o]); store(d, It(r.first)); res = fmt("ok %d ", (int)r.second) + desc(It(r.first)); });
		if (ex.empty()) { note(before, true, 1 << o); restamp(); }
		std::string opline = fmt("insx %c %d %u %zu %d", on(o), (int)full, k, O(o).GetCapacity(), d);
		j.mut(full ? "Insert(extracted item)" : "Insert(empty extracted item)");
		j.line(opline, (ex.empty() ? res : ex) + tail());
		j.judge(full ? -1 : 1, ex, before == snap(), opline, "empty extracted-item holder", "none");
	}
	void uBuckets(int o, size_t idx) {
		size_t bc = O(o).GetBucketCount();
		Snap before = snap();
		std::string ex = guard([&] { (void)O(o).GetBucketBounds(idx); });
		std::string opline = fmt("bb %c %zu %zu", on(o), idx, bc);
		j.line(opline, (ex.empty() ? "ok" : ex) + tail());
		j.judge(idx < bc ? -1 : 1, ex, before == snap(), opline, "out-of-range bucket index", "index");
		std::string ex2 = guard([&] { (void)O(o).GetBucketIndex(5); });
		std::string op2 = fmt("bi %c", on(o));
		j.line(op2, (ex2.empty() ? "ok" : ex2) + tail());
		j.judge(O(o).GetCapacity() != 0 ? -1 : 1, ex2, before == snap(), op2, "bucket index of a table without buckets", "index");
	}

	// ---- entry points that take a handle.  elemNeed: +1 needs an element handle, -1 an empty position, 0 any;
	// `mkline` builds the op line after the call (it may contain what the call produced)
	bool use(int h, int target, int elemNeed, bool nullAllowed, bool extOk, bool mutating, bool bumps,
		std::function<std::string()> call, std::function<std::string(bool)> mkline) {
		Slot sl = slots[h];
		Snap before = snap();
		bool foreign = target >= 0 && sl.kind != H_NULL && sl.cell != before.cell[target];
		bool stale = sl.kind != H_NULL && mods.stale(sl.cell, sl.born);
		bool touched = sl.kind != H_NULL && mods.touched(sl.cell, sl.born);
		std::string res;
		lastStored = -1;
		std::string ex = guard([&] { res = call(); });
		Snap after = snap();
		if (mutating && ex.empty() && bumps) { note(before, true, target >= 0 ? (1 << target) : 0); restamp(); }
		std::string opline = mkline(ex.empty());
		j.line(opline, (ex.empty() ? res : ex) + tail());
		int must; std::string why;
		if (stale) { must = 1; why = "stale handle"; }
		else if (foreign) { must = 1; why = "handle of another container"; }
		else if (sl.kind == H_NULL && !nullAllowed) { must = 1; why = "end/null iterator where an element is required"; }
		else if (elemNeed > 0 && sl.kind == H_EMPTY) { must = 1; why = "empty position where an element is required"; }
		else if (elemNeed < 0 && sl.kind == H_ELEM) { must = 1; why = "element position where an empty one is required"; }
		else if (!extOk) { must = 1; why = "extracted-item holder in the wrong state"; }
		else if (target >= 0 && elemNeed > 0 && before.cap[target] == 0) { must = 1; why = "table without buckets"; }
		else if (touched) { must = 0; why = "version incremented without a change"; }
		else { must = -1; }
		j.judge(must, ex, before == after, opline, why, hkName(sl.kind));
		return ex == BAD;
	}
	std::string nxt(const It& r) { return !!r ? std::to_string(Ad::key(r)) : std::string("-"); }

	bool uDeref(int h) {
		return use(h, -1, +1, false, true, false, false, [&] { return "ok " + std::to_string(Ad::key(slots[h].it)); }, [&](bool) { return fmt("deref %d", h); });
	}
	bool uInc(int h, int d) {
		It r;
		return use(h, -1, +1, false, true, false, false,
			[&] { It it = slots[h].it; if (rng.below(2)) ++it; else it++; r = it; store(d, it); return "ok " + desc(it); },
			[&](bool ok) { return fmt("inc %d %s %d", h, ok ? nxt(r).c_str() : "-", d); });
	}
	bool uCheck(int h, int o, bool ae) {
		return use(h, o, 0, ae, true, false, false, [&] { O(o).CheckIterator(slots[h].it, ae); return std::string("ok"); }, [&](bool) { return fmt("check %c %d %d", on(o), h, (int)ae); });
	}
	bool uAdd(int h, int o, uint32_t k, int d) {
		bool r = use(h, o, -1, false, true, true, true,
			[&] { Pos p = Ad::add(O(o), Pos(slots[h].it), k, (int)rng.below(12)); store(d, It(p)); return "ok " + desc(It(p)); },
			[&](bool) { return fmt("add %c %d %u %zu %d", on(o), h, k, O(o).GetCapacity(), d); });
		if (!r) j.mut("Add(position)");
		return r;
	}
	bool uAddExt(int h, int o, uint32_t k, bool full, int d) {
		if (full) Ad::fillExt(*ext[o], k); else ext[o]->Clear();
		bool r = use(h, o, -1, false, full, true, true,
			[&] { Pos p = Ad::addExt(O(o), Pos(slots[h].it), *ext[o]); store(d, It(p)); return "ok " + desc(It(p)); },
			[&](bool) { return fmt("addx %c %d %d %u %zu %d", on(o), h, (int)full, k, O(o).GetCapacity(), d); });
		if (!r) j.mut("Add(position, extracted item)");
		return r;
	}
	bool uRemove(int h, int o, int d) {
		It r;
		bool rej = use(h, o, +1, false, true, true, true,
			[&] { r = O(o).Remove(slots[h].it); store(d, r); return "ok " + desc(r); },
			[&](bool ok) { return fmt("rm %c %d %s %d", on(o), h, ok ? nxt(r).c_str() : "-", d); });
		if (!rej) j.mut("Remove(iterator)");
		return rej;
	}
	bool uRemovePos(int h, int o, int d) {
		bool rej = use(h, o, +1, false, true, true, true,
			[&] { Pos p = slots[h].it; O(o).Remove(p); store(d, It()); return std::string("ok null"); },
			[&](bool) { return fmt("rm %c %d - %d", on(o), h, d); });
		if (!rej) j.mut("Remove(position)");
		return rej;
	}
	bool uExtract(int h, int o, int d) {
		bool rej = use(h, o, +1, false, true, true, true,
			[&] { Pos p = slots[h].it; Ad::extract(O(o), p); store(d, It()); return std::string("ok null"); },
			[&](bool) { return fmt("rm %c %d - %d", on(o), h, d); });
		if (!rej) j.mut("Extract(position)");
		return rej;
	}
	bool uRemoveExt(int h, int o, bool holderFull, int d) {
		if (holderFull) Ad::fillExt(*ext[o], 777); else ext[o]->Clear();
		It r;
		bool rej = use(h, o, +1, false, !holderFull, true, true,
			[&] { r = Ad::removeExt(O(o), slots[h].it, *ext[o]); store(d, r); return "ok " + desc(r); },
			[&](bool ok) { return fmt("rmx %c %d %d %s %d", on(o), h, (int)holderFull, ok ? nxt(r).c_str() : "-", d); });
		if (!rej) j.mut("Remove(iterator, extracted item)");
		return rej;
	}
	bool uResetKey(int h, int o, uint32_t k) {
		bool rej = use(h, o, +1, false, true, true, false,
			[&] { O(o).ResetKey(Pos(slots[h].it), k); return std::string("ok"); },
			[&](bool) { return fmt("rk %c %d %u", on(o), h, k); });
		if (!rej) j.mut("ResetKey");
		return rej;
	}

	// ------------------------------------------------------------------------------------------------ enumeration
	static const int NSTATE = 5, NHANDLE = 8, NOP = 34, NUSE = 18;
	std::vector<uint32_t> stateKeys(int st) {
		switch (st) {
		case 0: case 1: return {};
		case 2: return { 5 };
		case 3: return { 5, 12, 23, 31, 40 };
		default: { std::vector<uint32_t> v; for (uint32_t i = 0; i < 14; ++i) v.push_back(3 + 7 * i); return v; }
		}
	}
	void build(int st) {
		newScenario();
		std::vector<uint32_t> ks = stateKeys(st);
		int d = 30;
		for (uint32_t k : ks) mInsert(0, k, d);
		if (st == 1) { mInsert(0, 5, d); mRemoveKey(0, 5); }          // empty, but with buckets
		if (st >= 3) { mInsert(1, 12, d); mInsert(1, 50, d); mInsert(1, 61, d); }   // B overlaps A in key 12
	}
	// makes the handle under test in slot 0; false when the kind does not exist in this state
	bool makeHandle(int hk, int st) {
		std::vector<uint32_t> ks = stateKeys(st);
		switch (hk) {
		case 0: if (ks.empty()) return false; hFind(0, ks[ks.size() / 2], 0); return true;      // element position
		case 1: hFind(0, 77, 0); return true;                                                  // empty position
		case 2: hBegin(0, 0); return true;                                                     // movable iterator (or null)
		case 3: hEnd(0, 0); return true;                                                       // null
		case 4: if (ks.empty()) return false; mInsert(0, ks[0], 0); return true;               // position returned by a failed insert
		case 5: hMakePos(0, 78, 0); return true;                                               // MakePosition
		case 6: hFind(1, 50, 0); return true;                                                  // element / empty position of B
		default: if (ks.size() < 2) return false; hBegin(0, 1); uInc(1, 0); return true;       // advanced iterator
		}
	}
	// the (possibly) invalidating operation; false when not applicable in this state
	bool applyOp(int op, int st) {
		std::vector<uint32_t> ks = stateKeys(st);
		bool hasB = st >= 3;
		switch (op) {
		case 0: return true;                                                   // nothing
		case 1: mInsert(0, 90, 31); return true;
		case 2: if (ks.empty()) return false; mInsert(0, ks.back(), 31); return true;
		case 3: mInsertRange(0, { 91, 92 }); return true;
		case 4: if (ks.size() < 2) return false; mInsertRange(0, { ks[0], ks[1] }); return true;
		case 5: mInsertExt(0, 93, true, 31); return true;
		case 6: if (ks.empty()) return false; mInsertExt(0, ks[0], true, 31); return true;
		case 7: mInsertExt(0, 94, false, 31); return true;
		case 8: hFind(0, 95, 20); uAdd(20, 0, 95, 21); return true;
		case 9: hFind(0, 96, 20); uAddExt(20, 0, 96, true, 21); return true;
		case 10: if (ks.empty()) return false; hBegin(0, 20); uRemove(20, 0, 21); return true;
		case 11: if (ks.empty()) return false; hFind(0, ks.back(), 20); uRemovePos(20, 0, 21); return true;
		case 12: if (ks.empty()) return false; hFind(0, ks.back(), 20); uRemoveExt(20, 0, false, 21); return true;
		case 13: if (ks.empty()) return false; hFind(0, ks.back(), 20); uExtract(20, 0, 21); return true;
		case 14: if (ks.empty()) return false; mRemoveKey(0, ks.back()); return true;
		case 15: mRemoveKey(0, 97); return true;
		case 16: if (ks.empty()) return false; mRemoveIf(0, 2, ks.back() % 2); return true;
		case 17: mRemoveIf(0, 1000, 999); return true;
		case 18: {   // ResetKey of an element other than the one the handle under test points at
			if (ks.size() < 2) return false;
			uint32_t mine = (slots[0].kind == H_ELEM && slots[0].cell == cellOf(0)) ? Ad::key(slots[0].it) : 0xFFFFFFFFu;
			uint32_t k = ks.back() != mine ? ks.back() : ks[0];
			hFind(0, k, 20); uResetKey(20, 0, k + 1000); return true; }
		case 19: mClear(0, true); return true;
		case 20: mClear(0, false); return true;
		case 21: mReserve(0, O(0).GetCapacity()); return true;
		case 22: mReserve(0, O(0).GetCapacity() + 1); return true;
		case 23: mReserve(0, 200); return true;
		case 24: mMerge(0); return true;                                        // A is the source
		case 25: mMerge(1); return true;                                        // A is the destination
		case 26: mMergeSelf(0); return true;
		case 27: mSwap(); return true;
		case 28: mSwap(); mSwap(); return true;
		case 29: (void)O(0).ContainsKey(5); { size_t n = 0; for (auto it = O(0).GetBegin(); !!it; ++it) ++n; (void)n; } hFind(0, 12, 22); return true;   // const entry points only
		case 30: if (!hasB) return false; mInsert(1, 98, 31); return true;      // modification of the OTHER container
		case 31: if (!hasB) return false; mClear(1, true); return true;
		case 32: if (ks.empty()) return false; mRemoveKey(0, ks[0]); mInsert(0, ks[0], 31); return true;    // same contents again
		default: { size_t n = ks.size(); for (uint32_t i = 0; i < 12; ++i) mInsert(0, 200 + i, 31); (void)n; return true; }   // several growth steps
		}
	}
	void applyUse(int u) {
		switch (u) {
		case 0: uDeref(0); break;
		case 1: uInc(0, 40); break;
		case 2: uCheck(0, 0, true); break;
		case 3: uCheck(0, 0, false); break;
		case 4: uCheck(0, 1, false); break;
		case 5: uAdd(0, 0, slots[0].kind == H_EMPTY ? addKey() : 77, 40); break;
		case 6: uAddExt(0, 0, addKey(), true, 40); break;
		case 7: uAddExt(0, 0, addKey(), false, 40); break;
		case 8: uRemove(0, 0, 40); break;
		case 9: uRemovePos(0, 0, 40); break;
		case 10: uRemoveExt(0, 0, false, 40); break;
		case 11: uRemoveExt(0, 0, true, 40); break;
		case 12: uExtract(0, 0, 40); break;
		case 13: uResetKey(0, 0, resetTarget()); break;
		case 14: uRemove(0, 1, 40); break;
		case 15: uAdd(0, 1, 77, 40); break;
		case 16: uBuckets(0, O(0).GetBucketCount()); break;
		default: uBuckets(0, O(0).GetBucketCount() > 0 ? O(0).GetBucketCount() - 1 : 0); break;
		}
	}
	// the key a fresh empty position of kind 1 / 5 stands for (a stale one is rejected before the key matters)
	uint32_t addKey() { return handleKeyHint; }
	uint32_t resetTarget() { return slots[0].kind == H_ELEM && !mods.stale(slots[0].cell, slots[0].born) && hasElem(slots[0].it) && slots[0].cell == cellOf(0) ? Ad::key(slots[0].it) + 1000 : 1005; }
	uint32_t handleKeyHint = 77;

	void enumerate(bool thorough) {
		for (int st = 0; st < NSTATE; ++st)
			for (int op = 0; op < NOP; ++op)
				for (int hk = 0; hk < NHANDLE; ++hk)
					for (int u = 0; u < NUSE; ++u) {
						if (!thorough && st == 4 && (u % 3 != (op + hk) % 3)) continue;    // quick tier: a third of the uses on the large state
						build(st);
						handleKeyHint = hk == 5 ? 78 : 77;
						if (!makeHandle(hk, st)) continue;
						if (!applyOp(op, st)) continue;
						applyUse(u);
						c.stats.count("triples executed");
					}
	}

	// random histories: a pool of handles made at random moments, used at random later moments
	void randomHistory(int steps) {
		newScenario();
		int nslots = 6;
		for (int d = 0; d < nslots; ++d) hEnd(0, d);
		for (int i = 0; i < steps; ++i) {
			int o = (int)rng.below(2);
			uint32_t k = (uint32_t)rng.below(24);
			int d = (int)rng.below(nslots);
			switch (rng.below(22)) {
			case 0: case 1: case 2: mInsert(o, k, d); break;
			case 3: hFind(o, k, d); break;
			case 4: hBegin(o, d); break;
			case 5: mRemoveKey(o, k); break;
			case 6: if (rng.below(4) == 0) mClear(o, rng.below(2)); break;
			case 7: mReserve(o, rng.below(40)); break;
			case 8: if (rng.below(3) == 0) mSwap(); break;
			case 9: if (rng.below(3) == 0) mMerge(o); break;
			case 10: uDeref(d); break;
			case 11: uInc(d, (int)rng.below(nslots)); break;
			case 12: uRemove(d, o, (int)rng.below(nslots)); break;
			case 13: { // Add needs the key of the position: only positions made by Find(k) of an absent key carry one
				hFind(o, k, nslots); if (slots[nslots].kind == H_EMPTY) uAdd(nslots, o, k, d); break; }
			case 14: uCheck(d, o, rng.below(2)); break;
			case 15: uRemoveExt(d, o, rng.below(3) == 0, (int)rng.below(nslots)); break;
			case 16: if (slots[d].kind != H_EMPTY) uAdd(d, o, 500 + (uint32_t)i, (int)rng.below(nslots)); break;   // (an empty position stands for one hash code only)
			case 17: mRemoveIf(o, 3, (uint32_t)rng.below(3)); break;
			case 18: mInsertRange(o, { k, k + 1 }); break;
			case 19: uExtract(d, o, (int)rng.below(nslots)); break;
			case 20: hMakePos(o, k, d); break;
			default: uBuckets(o, rng.below(40)); break;
			}
		}
		c.stats.count("random histories");
	}
};

template<typename Ad>
static void runHash(Ctx& c, Rng& rng, const std::string& suite, const std::string& cfg) {
	HashRun<Ad> r(c, rng, suite, cfg);
	r.enumerate(c.thorough);
	int n = c.thorough ? 400 : 60;
	for (int i = 0; i < n; ++i) r.randomHistory(c.thorough ? 160 : 80);
}

// ---- directed block: hash traits whose growth answers are illegal (HashSet.h:1003 `MOMO_CHECK(shift > 0)` in
// pvGetNewLogBucketCount, :1140 `MOMO_CHECK(nextCapacity > newCapacity)` inside the sizing loop of pvAddGrow, which raises the bucket
// count while `newCapacity <= mCount`: a CalcCapacity that is capped at a value <= count does not grow with the bucket count, so the
// second evaluation equals the first and the check fails).  The traits answer correctly until a run-time
// switch is turned on; a call that has to grow the table must then throw std::invalid_argument and leave the table exactly as it
// was (keys, capacity, bucket count, version); calls that need no growth and all calls after the switch is off must succeed.
static bool g_shiftZero = false;                 // GetBucketCountShift answers 0
static bool g_capLimit = false;                  // CalcCapacity answers at most g_capLimitValue
static size_t g_capLimitValue = 0;
template<typename HashBucket>
struct GrowTraits : public ModTraits<HashBucket, true> {
	typedef ModTraits<HashBucket, true> Base;
	size_t GetBucketCountShift(size_t bucketCount, size_t bucketMaxItemCount) const noexcept {
		return g_shiftZero ? 0 : Base::GetBucketCountShift(bucketCount, bucketMaxItemCount);
	}
	size_t CalcCapacity(size_t bucketCount, size_t bucketMaxItemCount) const noexcept {
		size_t r = Base::CalcCapacity(bucketCount, bucketMaxItemCount);
		return (g_capLimit && r > g_capLimitValue) ? g_capLimitValue : r;
	}
};

template<typename Ad>
static void runGrowthChecks(Ctx& c, const std::string& cfg0) {
	typedef typename Ad::C C;
	typedef typename Ad::Pos Pos;
	std::string cfg = cfg0 + " growth";
	struct Shot { std::vector<uint32_t> keys; size_t cap, buckets, version; bool operator==(const Shot& o) const { return keys == o.keys && cap == o.cap && buckets == o.buckets && version == o.version; } };
	auto shot = [](C& t) {
		Shot s; for (auto it = t.GetBegin(); !!it; ++it) s.keys.push_back(Ad::key(it)); std::sort(s.keys.begin(), s.keys.end());
		s.cap = t.GetCapacity(); s.buckets = t.GetBucketCount(); s.version = *Ad::hs(t).mCrew.GetVersion(); return s;
	};
	// states: 0 no buckets; 1 first table full; 2 full after two growths; 3 full after Reserve(37); 4 full again after removals (older tables gone)
	for (int st = 0; st < 5; ++st) {
		g_shiftZero = g_capLimit = false;
		C t; uint32_t next = 1;
		auto fillUp = [&] { while (t.GetCount() < t.GetCapacity()) { uint32_t k = next++; Ad::insert(t, k, (int)k); } };
		if (st == 1) { Ad::insert(t, next++, 0); fillUp(); }
		if (st == 2) { Ad::insert(t, next++, 0); fillUp(); Ad::insert(t, next++, 1); fillUp(); Ad::insert(t, next++, 2); fillUp(); }
		if (st == 3) { t.Reserve(37); fillUp(); }
		if (st == 4) { Ad::insert(t, next++, 0); fillUp(); Ad::insert(t, next++, 0); fillUp(); for (uint32_t k = 1; k + 2 < next; k += 2) t.Remove(k); fillUp(); }
		if (t.GetCount() != t.GetCapacity()) { c.fail("C15 %s: harness could not fill the table to its capacity (state %d)", cfg.c_str(), st); continue; }
		std::string sname = fmt("state %d (count = capacity = %zu, %zu buckets)", st, t.GetCount(), t.GetBucketCount());
		const uint32_t fresh = 900, fresh2 = 901;
		uint32_t present = st == 0 ? 0 : Ad::key(t.GetBegin());
		Shot before = shot(t);
		Pos pos = t.Find(fresh);                        // made before the failing calls: stays valid, nothing is modified
		auto rejectAll = [&](const std::string& sw, const std::string& why, bool withReserve) {
			for (int v = 0; v < 5; ++v) {
				std::string ex = guard([&] { Ad::insert(t, fresh, v); });
				directed(c, cfg, 1, ex, shot(t) == before, fmt("Insert variant %d of a new key, %s, %s", v, sw.c_str(), sname.c_str()), why);
			}
			for (int v = 0; v < 4; ++v) {
				std::string ex = guard([&] { Ad::add(t, pos, fresh, v); });
				directed(c, cfg, 1, ex, shot(t) == before, fmt("Add(position) variant %d, %s, %s", v, sw.c_str(), sname.c_str()), why);
			}
			{
				typename Ad::Ext e; Ad::fillExt(e, fresh);
				std::string ex = guard([&] { Ad::insertExt(t, e); });
				directed(c, cfg, 1, ex, shot(t) == before && !e.IsEmpty(), "Insert(extracted item), " + sw + ", " + sname, why);
				ex = guard([&] { Ad::addExt(t, pos, e); });
				directed(c, cfg, 1, ex, shot(t) == before && !e.IsEmpty(), "Add(position, extracted item), " + sw + ", " + sname, why);
			}
			{
				std::string ex = guard([&] { Ad::insertRange(t, { fresh, fresh2 }, 0); });
				directed(c, cfg, 1, ex, shot(t) == before, "Insert(range of new keys), " + sw + ", " + sname, why);
			}
			if (withReserve) {
				std::string ex = guard([&] { t.Reserve(t.GetCapacity() + 1); });
				directed(c, cfg, 1, ex, shot(t) == before, "Reserve(capacity + 1), " + sw + ", " + sname, why);
				ex = guard([&] { t.Reserve(1000); });
				directed(c, cfg, 1, ex, shot(t) == before, "Reserve(1000), " + sw + ", " + sname, why);
			}
			// no growth needed: must succeed although the switch is on
			std::string ex = guard([&] { t.Reserve(t.GetCapacity()); });
			directed(c, cfg, -1, ex, true, "Reserve(capacity), " + sw + ", " + sname, "");
			if (st != 0) {
				bool ins = true;
				ex = guard([&] { ins = Ad::insert(t, present, 0).second; });
				directed(c, cfg, -1, ex, true, "Insert of a stored key, " + sw + ", " + sname, "");
				if (ins) c.fail("C15 %s: Insert of the stored key %u reported an insertion (%s)", cfg.c_str(), present, sname.c_str());
				ex = guard([&] { (void)t.ContainsKey(fresh); (void)t.Find(present); });
				directed(c, cfg, -1, ex, true, "Find / ContainsKey, " + sw + ", " + sname, "");
			}
			if (!(shot(t) == before)) c.fail("C15 %s: the table changed although every modifying call was refused (%s, %s)", cfg.c_str(), sw.c_str(), sname.c_str());
		};
		if (st != 0) {      // (a table without buckets takes GetLogStartBucketCount, no shift is asked for)
			g_shiftZero = true;
			rejectAll("GetBucketCountShift = 0", "hash traits answer bucket-count shift 0 (HashSet.h:1003)", true);
			g_shiftZero = false;
		}
		for (size_t lim : { t.GetCount(), t.GetCount() / 2, (size_t)0 }) {
			g_capLimit = true; g_capLimitValue = lim;
			rejectAll(fmt("CalcCapacity <= %zu", lim), "hash traits answer a capacity <= count that does not grow with the bucket count (HashSet.h:1140)", false);
			g_capLimit = false;
		}
		// switches off: the position made before the refused calls is still the position of `fresh`
		std::string ex = guard([&] { Ad::add(t, pos, fresh, 0); });
		directed(c, cfg, -1, ex, true, "Add(position made before the refused calls), switches off, " + sname, "");
		Shot after = shot(t);
		std::vector<uint32_t> expect = before.keys; expect.push_back(fresh); std::sort(expect.begin(), expect.end());
		if (after.keys != expect || after.cap <= before.cap || after.buckets <= before.buckets)
			c.fail("C15 %s: after the switches were turned off the table did not grow normally (%s): capacity %zu -> %zu, buckets %zu -> %zu, %zu keys", cfg.c_str(), sname.c_str(),
				before.cap, after.cap, before.buckets, after.buckets, after.keys.size());
		for (uint32_t k = 600; k < 640; ++k) Ad::insert(t, k, (int)k);      // (keys are compared modulo 1000; the fill keys stay below 600)
		if (next >= 600) c.fail("C15 %s: harness: fill keys reached 600", cfg.c_str());
		for (uint32_t k : expect) if (!t.ContainsKey(k)) c.fail("C15 %s: key %u lost after growth following refused calls (%s)", cfg.c_str(), k, sname.c_str());
		if (t.GetCount() != expect.size() + 40) c.fail("C15 %s: count %zu after 40 more insertions, expected %zu (%s)", cfg.c_str(), t.GetCount(), expect.size() + 40, sname.c_str());
		c.stats.count("growth-check states");
	}
	g_shiftZero = g_capLimit = false;
}
#endif

// ============================================================================================================
#if VF_PART == 2 || VF_PART == 6 || VF_PART == 8
// ---------------------------------------------------------------- TreeSet / TreeMap

struct XTSet : public momo::TreeSetSettings {
	static const momo::CheckMode checkMode = momo::CheckMode::exception;
	static const momo::ExtraCheckMode extraCheckMode = momo::ExtraCheckMode::nothing;
	static const bool checkVersion = true;
};
struct XTMap : public momo::TreeMapSettings {
	static const momo::CheckMode checkMode = momo::CheckMode::exception;
	static const momo::ExtraCheckMode extraCheckMode = momo::ExtraCheckMode::nothing;
	static const bool checkVersion = true;
};

template<typename Traits, typename Settings = XTSet>
struct TSetAd : SetHolderOps {
	typedef momo::TreeSet<uint32_t, Traits, MM, momo::TreeSetItemTraits<uint32_t, MM>, Settings> C;
	typedef typename C::ConstIterator It;
	typedef typename C::ExtractedItem Ext;
	typedef C TS;
	static const bool multi = Traits::multiKey;
	static TS& ts(C& c) { return c; }
	static const typename TS::ConstIterator& sit(const It& it) { return it; }
	static uint32_t key(const It& it) { return *it; }
	static std::pair<It, bool> insert(C& c, uint32_t k, int variant) {
		switch (variant % 4) {
		case 0: { auto r = c.Insert(k); return { r.position, r.inserted }; }
		case 1: { uint32_t t = k; auto r = c.Insert(std::move(t)); return { r.position, r.inserted }; }
		case 2: { auto r = c.InsertVar(k, k); return { r.position, r.inserted }; }
		default: { auto r = c.InsertCrt(k, [k](uint32_t* p) { *p = k; }); return { r.position, r.inserted }; }
		}
	}
	static std::pair<It, bool> insertExt(C& c, Ext& e) { auto r = c.Insert(std::move(e)); return { r.position, r.inserted }; }
	static void insertRange(C& c, const std::vector<uint32_t>& ks, int variant) {
		if (variant % 2 == 1 && ks.size() == 2) c.Insert({ ks[0], ks[1] });
		else c.Insert(ks.begin(), ks.end());
	}
	static It add(C& c, It p, uint32_t k, int variant) {
		switch (variant % 4) {
		case 0: return c.Add(p, k);
		case 1: { uint32_t t = k; return c.Add(p, std::move(t)); }
		case 2: return c.AddVar(p, k);
		default: return c.AddCrt(p, [k](uint32_t* q) { *q = k; });
		}
	}
	static It addExt(C& c, It p, Ext& e) { return c.Add(p, std::move(e)); }
	static It removeExt(C& c, It it, Ext& e) { return c.Remove(it, e); }
	static void extract(C& c, It p) { Ext x = c.Extract(p); }
	static size_t removeIf(C& c, uint32_t m, uint32_t r) { return c.Remove([m, r](const uint32_t& x) { return x % m == r; }); }
	static void fillExt(Ext& e, uint32_t k) { e.Clear(); e.Create([k](uint32_t* q) { *q = k; }); }
};

template<typename Traits, typename Settings = XTMap>
struct TMapAd : MapHolderOps {
	typedef momo::TreeMap<uint32_t, uint32_t, Traits, MM, momo::TreeMapKeyValueTraits<uint32_t, uint32_t, MM>, Settings> C;
	typedef typename C::ConstIterator It;
	typedef typename C::ExtractedPair Ext;
	typedef decltype(C::mTreeSet) TS;
	static const bool multi = Traits::multiKey;
	static TS& ts(C& c) { return c.mTreeSet; }
	static const typename TS::ConstIterator& sit(const It& it) { return it.mTreeSetIterator; }
	static uint32_t key(const It& it) { return it->key; }
	static std::pair<It, bool> insert(C& c, uint32_t k, int variant) {
		switch (variant % 4) {
		case 0: { auto r = c.Insert(k, k + 1); return { r.position, r.inserted }; }
		case 1: { uint32_t t = k; auto r = c.Insert(std::move(t), k + 1); return { r.position, r.inserted }; }
		case 2: { auto r = c.InsertVar(k, k + 1); return { r.position, r.inserted }; }
		default: { auto r = c.InsertCrt(k, [k](uint32_t* p) { *p = k + 1; }); return { r.position, r.inserted }; }
		}
	}
	static std::pair<It, bool> insertExt(C& c, Ext& e) { auto r = c.Insert(std::move(e)); return { r.position, r.inserted }; }
	static void insertRange(C& c, const std::vector<uint32_t>& ks, int variant) {
		std::vector<std::pair<uint32_t, uint32_t>> ps;
		for (uint32_t k : ks) ps.push_back({ k, k + 1 });
		if (variant % 2 == 1 && ps.size() == 2) c.Insert({ ps[0], ps[1] });
		else c.Insert(ps.begin(), ps.end());
	}
	static It add(C& c, It p, uint32_t k, int variant) {
		switch (variant % 3) {
		case 0: return c.Add(p, k, k + 1);
		case 1: return c.AddVar(p, k, k + 1);
		default: return c.AddCrt(p, k, [k](uint32_t* q) { *q = k + 1; });
		}
	}
	static It addExt(C& c, It p, Ext& e) { return c.Add(p, std::move(e)); }
	static It removeExt(C& c, It it, Ext& e) { return c.Remove(it, e); }
	static void extract(C& c, It p) { Ext x = c.Extract(p); }
	static size_t removeIf(C& c, uint32_t m, uint32_t r) { return c.Remove([m, r](const uint32_t& x, const uint32_t&) { return x % m == r; }); }
	static void fillExt(Ext& e, uint32_t k) { e.Clear(); e.Create([k](uint32_t* q, uint32_t* v) { *q = k; *v = k + 1; }); }
};

enum { T_ELEM = 0, T_END = 1, T_NULL = 2 };
static const char* tkName(int k) { return k == T_ELEM ? "element" : k == T_END ? "end" : "null"; }

template<typename Ad>
struct TreeRun {
	typedef typename Ad::C C;
	typedef typename Ad::It It;
	typedef typename Ad::Ext Ext;
	Ctx& c; Rng& rng; Suite s; Judge j; Mods mods;
	std::unique_ptr<C> obj[2];
	std::unique_ptr<Ext> ext[2];
	struct Slot { It it; const void* cell = nullptr; int kind = T_NULL; uint64_t born = 0; uint32_t key = 0; size_t rank = 0; };
	std::vector<Slot> slots;
	int lastStored = -1;

	TreeRun(Ctx& c_, Rng& r, const std::string& suite, const std::string& cfg)
		: c(c_), rng(r), s(c_, suite, std::string("model ver fam=tree multi=") + (Ad::multi ? "1" : "0")), j(c_, s, cfg) {}

	C& O(int o) { return *obj[o]; }
	static char on(int o) { return o ? 'B' : 'A'; }
	const void* cellOf(int o) { return Ad::ts(O(o)).mCrew.GetVersion(); }
	std::vector<uint32_t> keys(int o) { std::vector<uint32_t> v; for (auto it = O(o).GetBegin(); it != O(o).GetEnd(); ++it) v.push_back(Ad::key(it)); return v; }
	std::string flags(int o) { auto& t = Ad::ts(O(o)); return std::string(" r") + (t.mRootNode != nullptr ? "1" : "0") + "p" + (t.mNodeParams != nullptr ? "1" : "0"); }
	std::string tail() { return " | A=" + listStr(keys(0)) + flags(0) + " B=" + listStr(keys(1)) + flags(1); }
	// rank of an iterator that was just produced by object o
	size_t rankIn(int o, const It& it) { size_t r = 0; for (auto x = O(o).GetBegin(); x != O(o).GetEnd() && x != it; ++x) ++r; return r; }
	int ownerOf(const It& it) { const void* cell = Ad::sit(it).mContainerVersion; return cell == cellOf(1) ? 1 : 0; }
	std::string desc(const It& it) {
		if (Ad::sit(it).mNode == nullptr) return "null";
		return "p" + std::to_string(rankIn(ownerOf(it), it));
	}
	void store(int d, const It& it) {
		if ((int)slots.size() <= d) slots.resize(d + 1);
		Slot& sl = slots[d];
		sl.it = it; sl.cell = Ad::sit(it).mContainerVersion; sl.born = mods.serial; lastStored = d;
		if (Ad::sit(it).mNode == nullptr) { sl.kind = T_NULL; return; }
		int o = ownerOf(it);
		sl.rank = rankIn(o, it);
		sl.kind = it == O(o).GetEnd() ? T_END : T_ELEM;
		sl.key = sl.kind == T_ELEM ? Ad::key(it) : 0;
	}
	void restamp() { if (lastStored >= 0) slots[lastStored].born = mods.serial; }
	struct Snap {
		std::vector<uint32_t> k[2]; bool root[2], params[2]; const void* cell[2];
		bool same(int o, const Snap& x, int p) const { return k[o] == x.k[p] && root[o] == x.root[p] && params[o] == x.params[p]; }
		bool operator==(const Snap& x) const { return same(0, x, 0) && same(1, x, 1) && cell[0] == x.cell[0] && cell[1] == x.cell[1]; }
	};
	Snap snap() {
		Snap x;
		for (int o = 0; o < 2; ++o) { x.k[o] = keys(o); x.root[o] = Ad::ts(O(o)).mRootNode != nullptr; x.params[o] = Ad::ts(O(o)).mNodeParams != nullptr; x.cell[o] = cellOf(o); }
		return x;
	}
	void note(const Snap& before) {
		Snap after = snap();
		++mods.serial;
		for (int o = 0; o < 2; ++o) {
			int p = (after.cell[o] == before.cell[o]) ? o : 1 - o;
			if (!after.same(o, before, p)) mods.mod[after.cell[o]] = mods.serial;
		}
	}
	void newScenario() {
		slots.clear(); mods.clear();
		ext[0].reset(); ext[1].reset(); obj[0].reset(); obj[1].reset();
		obj[0].reset(new C()); obj[1].reset(new C());
		ext[0].reset(new Ext()); ext[1].reset(new Ext());
		j.begin();
		j.line("new", "ok" + tail());
	}

	// ---- handle creation
	void hBegin(int o, int d) { It it = O(o).GetBegin(); store(d, it); j.line(fmt("begin %c %d", on(o), d), "ok " + desc(it) + tail()); }
	void hEnd(int o, int d) { It it = O(o).GetEnd(); store(d, it); j.line(fmt("end %c %d", on(o), d), "ok " + desc(it) + tail()); }
	void hLower(int o, uint32_t k, int d) { It it = O(o).GetLowerBound(k); store(d, it); j.line(fmt("lower %c %u %d", on(o), k, d), "ok " + desc(it) + tail()); }
	void hUpper(int o, uint32_t k, int d) { It it = O(o).GetUpperBound(k); store(d, it); j.line(fmt("upper %c %u %d", on(o), k, d), "ok " + desc(it) + tail()); }
	void hFind(int o, uint32_t k, int d) { It it = O(o).Find(k); store(d, it); j.line(fmt("find %c %u %d", on(o), k, d), "ok " + desc(it) + tail()); }

	// ---- mutating entry points without a handle argument
	void mInsert(int o, uint32_t k, int d) {
		Snap b = snap();
		auto r = Ad::insert(O(o), k, (int)rng.below(20));
		note(b); store(d, r.first);
		j.mut(r.second ? "Insert(new key)" : "Insert(existing key)");
		j.line(fmt("ins %c %u %d", on(o), k, d), fmt("ok %d ", (int)r.second) + desc(r.first) + tail());
	}
	void mInsertRange(int o, const std::vector<uint32_t>& ks) {
		Snap b = snap();
		Ad::insertRange(O(o), ks, (int)rng.below(4));
		note(b);
		std::string l = fmt("insr %c", on(o));
		for (uint32_t k : ks) l += " " + std::to_string(k);
		j.mut(b.k[o] == keys(o) ? "Insert(range, nothing new)" : "Insert(range)");
		j.line(l, "ok" + tail());
	}
	void mRemoveKey(int o, uint32_t k) {
		Snap b = snap(); size_t n = O(o).Remove(k); note(b);
		j.mut(n ? (n == b.k[o].size() && Ad::multi ? "Remove(key, all elements)" : "Remove(key present)") : "Remove(key absent)");
		j.line(fmt("rmk %c %u", on(o), k), fmt("ok %zu", n) + tail());
	}
	void mRemoveIf(int o, uint32_t m, uint32_t r) {
		Snap b = snap(); size_t n = Ad::removeIf(O(o), m, r); note(b);
		j.mut(n ? "Remove(filter, some)" : "Remove(filter, none)");
		j.line(fmt("rmif %c %u %u", on(o), m, r), fmt("ok %zu", n) + tail());
	}
	void mClear(int o) { Snap b = snap(); O(o).Clear(); note(b); j.mut(b.params[o] ? "Clear" : "Clear(no node params)"); j.line(fmt("clear %c", on(o)), "ok" + tail()); }
	void mSwap() { Snap b = snap(); if (rng.below(2)) O(0).Swap(O(1)); else swap(O(0), O(1)); note(b); j.mut("Swap"); j.line("swap", "ok" + tail()); }
	void mMerge(int src) {
		Snap b = snap();
		if (rng.below(2)) O(src).MergeTo(O(1 - src)); else O(1 - src).MergeFrom(O(src));
		note(b);
		Snap a = snap();
		const char* path = b.k[src].empty() ? "empty source" : b.k[1 - src].empty() ? "destination empty"
			: !a.root[src] ? "pvMergeFast" : a.k[src] == b.k[src] ? "item-wise, nothing moved" : "item-wise";
		j.mut(std::string(src ? "MergeFrom(" : "MergeTo(") + path + ")");
		j.line(fmt("merge %c", on(src)), "ok" + tail());
	}
	void mMergeSelf(int o) { Snap b = snap(); O(o).MergeTo(O(o)); note(b); j.mut("MergeTo(itself)"); j.line(fmt("mergeself %c", on(o)), "ok" + tail()); }
	void mInsertExt(int o, uint32_t k, bool full, int d) {
		if (full) Ad::fillExt(*ext[o], k); else ext[o]->Clear();
		Snap before = snap();
		std::string res;
		lastStored = -1;
		std::string ex = guard([&] { auto r = Ad::insertExt(O(o), *ext[o]); store(d, r.first); res = fmt("ok %d ", (int)r.second) + desc(r.first); });
		if (ex.empty()) { note(before); restamp(); }
		std::string opline = fmt("insx %c %d %u %d", on(o), (int)full, k, d);
		j.mut(full ? "Insert(extracted item)" : "Insert(empty extracted item)");
		j.line(opline, (ex.empty() ? res : ex) + tail());
		j.judge(full ? -1 : 1, ex, before == snap(), opline, "empty extracted-item holder", "none");
	}

	// ---- entry points that take iterators.  need: +1 an element, 0 element or end (a position), -1 anything
	bool use(std::vector<int> hs, int target, int need, bool nullAllowed, bool extOk, bool mutating, bool bumps, bool argsOk,
		std::function<std::string()> call, const std::string& opline) {
		Snap before = snap();
		bool stale = false, foreign = false, isNull = false, notElem = false;
		std::string kinds;
		for (int h : hs) {
			const Slot& sl = slots[h];
			if (sl.kind == T_NULL) isNull = true;
			else {
				if (mods.stale(sl.cell, sl.born)) stale = true;
				if (target >= 0 && sl.cell != before.cell[target]) foreign = true;
				if (sl.kind == T_END) notElem = true;
			}
			kinds += tkName(sl.kind); kinds += hs.size() > 1 ? "," : "";
		}
		std::string res;
		lastStored = -1;
		std::string ex = guard([&] { res = call(); });
		Snap after = snap();
		if (mutating && ex.empty() && bumps) { note(before); restamp(); }
		j.line(opline, (ex.empty() ? res : ex) + tail());
		int must; std::string why;
		// Add / Remove(range) on a tree without root node accept exactly the default-constructed iterator
		bool rootless = target >= 0 && !before.root[target];
		if (stale) { must = 1; why = "stale iterator"; }
		else if (foreign) { must = 1; why = "iterator of another container"; }
		else if (isNull && !nullAllowed && !(rootless && need == 0)) { must = 1; why = "null iterator where a position is required"; }
		else if (need > 0 && (notElem || isNull)) { must = 1; why = "end iterator where an element is required"; }
		else if (!extOk) { must = 1; why = "extracted-item holder in the wrong state"; }
		else if (!argsOk) { must = 1; why = "invalid range"; }
		else { must = -1; }
		j.judge(must, ex, before == after, opline, why, kinds);
		return ex == BAD;
	}

	bool uDeref(int h) { return use({ h }, -1, +1, false, true, false, false, true, [&] { return "ok " + std::to_string(Ad::key(slots[h].it)); }, fmt("deref %d", h)); }
	bool uInc(int h, int d) {
		return use({ h }, -1, +1, false, true, false, false, true,
			[&] { It it = slots[h].it; if (rng.below(2)) ++it; else it++; store(d, it); return "ok " + desc(it); }, fmt("inc %d %d", h, d));
	}
	bool uDec(int h, int d) {
		bool first = slots[h].kind != T_NULL && slots[h].rank == 0;
		return use({ h }, -1, 0, false, true, false, false, !first,
			[&] { It it = slots[h].it; if (rng.below(2)) --it; else it--; store(d, it); return "ok " + desc(it); }, fmt("dec %d %d", h, d));
	}
	bool uCheck(int h, int o, bool ae) {
		return use({ h }, o, -1, ae, true, false, false, true, [&] { O(o).CheckIterator(slots[h].it, ae); return std::string("ok"); }, fmt("check %c %d %d", on(o), h, (int)ae));
	}
	// key that may be added in front of the position a fresh handle denotes (keys are spaced by at least 3)
	uint32_t keyBefore(int h, int o) {
		const Slot& sl = slots[h];
		if (sl.kind == T_ELEM) return sl.key - 1;
		std::vector<uint32_t> ks = keys(o);
		return ks.empty() ? 500 : ks.back() + 5;
	}
	bool uAdd(int h, int o, int d) {
		uint32_t k = keyBefore(h, o);
		bool rej = use({ h }, o, 0, false, true, true, true, true,
			[&] { It p = Ad::add(O(o), slots[h].it, k, (int)rng.below(12)); store(d, p); return "ok " + desc(p); }, fmt("add %c %d %u %d", on(o), h, k, d));
		if (!rej) j.mut("Add(iterator)");
		return rej;
	}
	bool uAddExt(int h, int o, bool full, int d) {
		if (Ad::ts(O(o)).mRootNode == nullptr) return false;       // (root-less case: pvAddFirst keeps the node params when the creator throws; not modelled)
		uint32_t k = keyBefore(h, o);
		if (full) Ad::fillExt(*ext[o], k); else ext[o]->Clear();
		bool rej = use({ h }, o, 0, false, full, true, true, true,
			[&] { It p = Ad::addExt(O(o), slots[h].it, *ext[o]); store(d, p); return "ok " + desc(p); }, fmt("addx %c %d %d %u %d", on(o), h, (int)full, k, d));
		if (!rej) j.mut("Add(iterator, extracted item)");
		return rej;
	}
	bool uRemove(int h, int o, int d) {
		bool rej = use({ h }, o, +1, false, true, true, true, true,
			[&] { It r = O(o).Remove(slots[h].it); store(d, r); return "ok " + desc(r); }, fmt("rm %c %d %d", on(o), h, d));
		if (!rej) j.mut("Remove(iterator)");
		return rej;
	}
	bool uExtract(int h, int o, int d) {
		bool rej = use({ h }, o, +1, false, true, true, true, true,
			[&] { size_t rk = slots[h].rank; Ad::extract(O(o), slots[h].it); It r = O(o).GetBegin(); for (size_t i = 0; i < rk; ++i) ++r; store(d, r); return "ok " + desc(r); }, fmt("rm %c %d %d", on(o), h, d));
		if (!rej) j.mut("Extract(iterator)");
		return rej;
	}
	bool uRemoveExt(int h, int o, bool holderFull, int d) {
		if (holderFull) Ad::fillExt(*ext[o], 777); else ext[o]->Clear();
		bool rej = use({ h }, o, +1, false, !holderFull, true, true, true,
			[&] { It r = Ad::removeExt(O(o), slots[h].it, *ext[o]); store(d, r); return "ok " + desc(r); }, fmt("rmx %c %d %d %d", on(o), h, (int)holderFull, d));
		if (!rej) j.mut("Remove(iterator, extracted item)");
		return rej;
	}
	bool uRemoveRange(int hb, int he, int o, int d) {
		bool ordered = slots[hb].kind == T_NULL || slots[he].kind == T_NULL || slots[hb].rank <= slots[he].rank;
		size_t n0 = O(o).GetCount();
		bool rej = use({ hb, he }, o, 0, false, true, true, true, ordered,
			[&] { It r = O(o).Remove(slots[hb].it, slots[he].it); store(d, r); return "ok " + desc(r); }, fmt("rmr %c %d %d %d", on(o), hb, he, d));
		if (!rej) j.mut(O(o).GetCount() == n0 ? "Remove(range, empty)" : O(o).GetCount() == 0 ? "Remove(range, everything)" : "Remove(range)");
		return rej;
	}
	bool uResetKey(int h, int o) {
		uint32_t k = slots[h].kind == T_ELEM ? slots[h].key + 1 : 999;
		bool rej = use({ h }, o, +1, false, true, true, false, true,
			[&] { O(o).ResetKey(slots[h].it, k); return std::string("ok"); }, fmt("rk %c %d %u", on(o), h, k));
		if (!rej) j.mut("ResetKey");
		return rej;
	}

	// ------------------------------------------------------------------------------------------------ enumeration
	static const int NSTATE = 7, NHANDLE = 8, NOP = 36, NUSE = 20;
	std::vector<uint32_t> stateKeys(int st) {
		std::vector<uint32_t> v;
		switch (st) {
		case 0: case 1: case 2: return v;
		case 3: return { 50 };
		case 4: return { 20, 30, 40, 50, 60 };
		case 5: for (uint32_t i = 0; i < 40; ++i) v.push_back(10 + 4 * i); return v;      // more than one node
		default: if (Ad::multi) return { 20, 30, 30, 30, 40 }; return { 20, 30, 33, 36, 40 };
		}
	}
	std::vector<uint32_t> stateKeysB(int st) { if (st >= 4) return { 30, 300, 310 }; return {}; }
	void build(int st) {
		newScenario();
		if (st == 1) { mInsert(0, 50, 30); mRemoveKey(0, 50); }                           // root node without elements
		if (st == 2) { mInsert(0, 50, 30); mInsert(1, 60, 30); mMerge(0); mClear(1); }     // no root node, node params present
		std::vector<uint32_t> ks = stateKeys(st);
		if (ks.size() > 6) mInsertRange(0, ks); else for (uint32_t k : ks) mInsert(0, k, 30);
		for (uint32_t k : stateKeysB(st)) mInsert(1, k, 30);
	}
	bool makeHandle(int hk, int st) {
		std::vector<uint32_t> ks = stateKeys(st);
		switch (hk) {
		case 0: if (ks.empty()) return false; hFind(0, ks[ks.size() / 2], 0); return true;
		case 1: hBegin(0, 0); return true;
		case 2: hEnd(0, 0); return true;
		case 3: hLower(0, ks.empty() ? 7 : ks.back() - 1, 0); return true;
		case 4: hUpper(0, ks.empty() ? 7 : ks[0], 0); return true;
		case 5: if (ks.empty()) return false; mInsert(0, ks[0], 0); return true;             // iterator returned by an insert
		case 6: hFind(1, 300, 0); return true;                                              // iterator of B (element or null)
		default: if (ks.size() < 2) return false; hBegin(0, 1); uInc(1, 0); return true;
		}
	}
	bool applyOp(int op, int st) {
		std::vector<uint32_t> ks = stateKeys(st);
		bool hasB = !stateKeysB(st).empty();
		switch (op) {
		case 0: return true;
		case 1: mInsert(0, 91, 31); return true;
		case 2: if (ks.empty()) return false; mInsert(0, ks.back(), 31); return true;        // existing key (multi: a duplicate)
		case 3: mInsertRange(0, { 92, 95 }); return true;
		case 4: if (ks.size() < 2) return false; mInsertRange(0, { ks[1], ks[0] }); return true;
		case 5: mInsertExt(0, 93, true, 31); return true;
		case 6: if (ks.empty()) return false; mInsertExt(0, ks[0], true, 31); return true;
		case 7: mInsertExt(0, 94, false, 31); return true;
		case 8: hEnd(0, 20); uAdd(20, 0, 21); return true;
		case 9: if (ks.empty()) return false; hBegin(0, 20); uAdd(20, 0, 21); return true;
		case 10: hEnd(0, 20); uAddExt(20, 0, true, 21); return true;
		case 11: if (ks.empty()) return false; hBegin(0, 20); uRemove(20, 0, 21); return true;
		case 12: if (ks.empty()) return false; hFind(0, ks.back(), 20); uRemoveExt(20, 0, false, 21); return true;
		case 13: if (ks.empty()) return false; hFind(0, ks.back(), 20); uExtract(20, 0, 21); return true;
		case 14: if (ks.empty()) return false; mRemoveKey(0, ks[ks.size() / 2]); return true;
		case 15: mRemoveKey(0, 97); return true;
		case 16: if (ks.empty()) return false; mRemoveIf(0, 2, ks.back() % 2); return true;
		case 17: mRemoveIf(0, 1000, 999); return true;
		case 18: {   // ResetKey of an element other than the one the handle under test points at
			if (ks.size() < 2) return false;
			uint32_t k = (slots[0].kind == T_ELEM && slots[0].key == ks.back()) ? ks[0] : ks.back();
			hFind(0, k, 20); uResetKey(20, 0); return true; }
		case 19: mClear(0); return true;
		case 20: if (ks.size() < 3) return false; hFind(0, ks[1], 20); hFind(0, ks[ks.size() - 1], 21); uRemoveRange(20, 21, 0, 22); return true;   // range inside
		case 21: hBegin(0, 20); hEnd(0, 21); uRemoveRange(20, 21, 0, 22); return true;           // everything (Clear path) or the empty tree
		case 22: if (ks.empty()) return false; hFind(0, ks[0], 20); uRemoveRange(20, 20, 0, 22); return true;   // empty range
		case 23: mMerge(0); return true;                                                       // A is the source
		case 24: mMerge(1); return true;                                                       // A is the destination
		case 25: mMergeSelf(0); return true;
		case 26: mSwap(); return true;
		case 27: mSwap(); mSwap(); return true;
		case 28: (void)O(0).ContainsKey(5); (void)O(0).GetKeyCount(30); hFind(0, 30, 22); hLower(0, 31, 23); return true;   // const entry points only
		case 29: if (!hasB) return false; mInsert(1, 398, 31); return true;                     // modification of the OTHER container
		case 30: if (!hasB) return false; mClear(1); return true;
		case 31: if (ks.empty()) return false; mRemoveKey(0, ks[0]); mInsert(0, ks[0], 31); return true;    // same contents again
		case 32: mClear(1); mMerge(0); return true;                                             // merge into an empty destination: contents swapped
		case 33: mClear(1); mInsertRange(1, { 900, 901, 902 }); mMerge(0); return true;          // all of A below all of B: pvMergeFast
		case 34: mClear(1); mInsertRange(1, { 1, 2 }); mMerge(1); return true;                   // all of B below all of A, B is the source
		default: for (uint32_t i = 0; i < 40; ++i) mInsert(0, 600 + 3 * i, 31); return true;    // node splits
		}
	}
	void applyUse(int u) {
		switch (u) {
		case 0: uDeref(0); break;
		case 1: uInc(0, 40); break;
		case 2: uDec(0, 40); break;
		case 3: uCheck(0, 0, true); break;
		case 4: uCheck(0, 0, false); break;
		case 5: uCheck(0, 1, false); break;
		case 6: uAdd(0, 0, 40); break;
		case 7: uAddExt(0, 0, true, 40); break;
		case 8: uAddExt(0, 0, false, 40); break;
		case 9: uRemove(0, 0, 40); break;
		case 10: uRemoveExt(0, 0, false, 40); break;
		case 11: uRemoveExt(0, 0, true, 40); break;
		case 12: uExtract(0, 0, 40); break;
		case 13: uResetKey(0, 0); break;
		case 14: hEnd(0, 41); uRemoveRange(0, 41, 0, 40); break;      // [handle, fresh end)
		case 15: hBegin(0, 41); uRemoveRange(41, 0, 0, 40); break;    // [fresh begin, handle)
		case 16: uRemoveRange(0, 0, 0, 40); break;                    // empty range at the handle
		case 17: hBegin(0, 41); uRemoveRange(0, 41, 0, 40); break;    // reversed unless the handle is the first position
		case 18: uRemove(0, 1, 40); break;
		default: uAdd(0, 1, 40); break;
		}
	}
	void enumerate(bool thorough) {
		for (int st = 0; st < NSTATE; ++st)
			for (int op = 0; op < NOP; ++op)
				for (int hk = 0; hk < NHANDLE; ++hk)
					for (int u = 0; u < NUSE; ++u) {
						if (!thorough && st == 5 && (u % 4 != (op + hk) % 4)) continue;    // quick tier: a quarter of the uses on the large state
						build(st);
						if (!makeHandle(hk, st)) continue;
						if (!applyOp(op, st)) continue;
						applyUse(u);
						c.stats.count("triples executed");
					}
	}
	void randomHistory(int steps) {
		newScenario();
		int nslots = 6;
		for (int d = 0; d < nslots; ++d) hEnd(0, d);
		for (int i = 0; i < steps; ++i) {
			int o = (int)rng.below(2);
			uint32_t k = 10 + 3 * (uint32_t)rng.below(20);
			int d = (int)rng.below(nslots), h = (int)rng.below(nslots);
			switch (rng.below(24)) {
			case 0: case 1: case 2: mInsert(o, k, d); break;
			case 3: hFind(o, k, d); break;
			case 4: hBegin(o, d); break;
			case 5: hLower(o, k + 1, d); break;
			case 6: hEnd(o, d); break;
			case 7: mRemoveKey(o, k); break;
			case 8: if (rng.below(4) == 0) mClear(o); break;
			case 9: if (rng.below(3) == 0) mSwap(); break;
			case 10: if (rng.below(3) == 0) mMerge(o); break;
			case 11: uDeref(h); break;
			case 12: uInc(h, d); break;
			case 13: uDec(h, d); break;
			case 14: uRemove(h, o, d); break;
			case 15: uCheck(h, o, rng.below(2)); break;
			case 16: uRemoveExt(h, o, rng.below(3) == 0, d); break;
			case 17: { // Add needs a position that fits the key: the upper bound of a key made now
				hUpper(o, k + 1, nslots); if (!O(o).ContainsKey(k + 1) || Ad::multi) { Slot& sl = slots[nslots]; (void)sl;
					std::string op = fmt("add %c %d %u %d", on(o), nslots, k + 1, d);
					use({ nslots }, o, 0, false, true, true, true, true, [&] { It p = Ad::add(O(o), slots[nslots].it, k + 1, (int)rng.below(12)); store(d, p); return "ok " + desc(p); }, op); }
				break; }
			case 18: if (addFits(h, o)) uAdd(h, o, d); break;
			case 19: mRemoveIf(o, 3, (uint32_t)rng.below(3)); break;
			case 20: mInsertRange(o, { k, k + 3 }); break;
			case 21: uExtract(h, o, d); break;
			case 22: { int h2 = (int)rng.below(nslots); uRemoveRange(h, h2, o, d); break; }
			default: uResetKeyRandom(h, o); break;
			}
		}
		c.stats.count("random histories");
	}
	// Random histories: Add(iterator, key) and ResetKey must keep the sequence ordered (these settings do not check it, and the
	// model's sorted list would no longer describe the tree).  Decided from the real contents; a handle that is not live is
	// rejected whatever the key.
	bool live(int h, int o) { const Slot& sl = slots[h]; return sl.kind != T_NULL && !mods.stale(sl.cell, sl.born) && sl.cell == cellOf(o); }
	static bool le(uint32_t a, uint32_t b) { return Ad::multi ? a <= b : a < b; }
	bool addFits(int h, int o) {
		if (!live(h, o)) return true;
		std::vector<uint32_t> ks = keys(o);
		uint32_t k = keyBefore(h, o);
		size_t r = slots[h].rank;
		if (r > ks.size()) return false;
		return (r == 0 || le(ks[r - 1], k)) && (r == ks.size() || le(k, ks[r]));
	}
	bool resetFits(int h, int o) {
		if (!live(h, o) || slots[h].kind != T_ELEM) return true;
		std::vector<uint32_t> ks = keys(o);
		uint32_t k = slots[h].key + 1;                    // the key uResetKey writes
		size_t r = slots[h].rank;
		if (r >= ks.size()) return false;
		return (r == 0 || le(ks[r - 1], k)) && (r + 1 == ks.size() || le(k, ks[r + 1]));
	}
	void uResetKeyRandom(int h, int o) { if (resetFits(h, o)) uResetKey(h, o); }
};

template<typename Ad>
static void runTree(Ctx& c, Rng& rng, const std::string& suite, const std::string& cfg) {
	TreeRun<Ad> r(c, rng, suite, cfg);
	r.enumerate(c.thorough);
	int n = c.thorough ? 400 : 60;
	for (int i = 0; i < n; ++i) r.randomHistory(c.thorough ? 160 : 80);
}

// ---------------------------------------------------------------- TreeSet / TreeMap with checkVersion = false
// VersionKeeper<Settings, false>::Check is empty, so the node checks of the iterator (TreeSet.h:60 operator++, :80 operator--,
// :105 operator->, :141 ptCheck) are the only thing between a default-constructed iterator and a null-pointer access; with
// checkVersion = true they are shadowed by the version check (a null iterator has no version cell).
// Without version checks the use of a stale or foreign iterator is undefined, so this run only ever uses (a) the
// default-constructed iterator and (b) iterators made after the last modifying call on their own tree, with that tree.  For these
// two kinds of handle the model `ver` (which mirrors checkVersion = true) answers exactly as this configuration must, so the same
// operation lines are emitted and compared (model level) next to the property-level judgement.
struct XTSetNV : public momo::TreeSetSettings {
	static const momo::CheckMode checkMode = momo::CheckMode::exception;
	static const momo::ExtraCheckMode extraCheckMode = momo::ExtraCheckMode::nothing;
	static const bool checkVersion = false;
};
struct XTMapNV : public momo::TreeMapSettings {
	static const momo::CheckMode checkMode = momo::CheckMode::exception;
	static const momo::ExtraCheckMode extraCheckMode = momo::ExtraCheckMode::nothing;
	static const bool checkVersion = false;
};

template<typename Ad>
struct TreeNVRun {
	typedef typename Ad::C C;
	typedef typename Ad::It It;
	typedef typename Ad::Ext Ext;
	Ctx& c; Rng& rng; Suite s; Judge j;
	std::unique_ptr<C> obj[2];
	std::unique_ptr<Ext> ext[2];
	// owner: the object that made the iterator (-1: default-constructed); born / lastMod: serial numbers of modifying calls
	struct Slot { It it; int owner = -1; int kind = T_NULL; uint64_t born = 0; uint32_t key = 0; size_t rank = 0; };
	std::vector<Slot> slots;
	uint64_t serial = 0, lastMod[2] = { 0, 0 };
	int lastStored = -1;
	enum { NUL = 9 };                            // this slot holds the default-constructed iterator during the whole scenario

	TreeNVRun(Ctx& c_, Rng& r, const std::string& suite, const std::string& cfg)
		: c(c_), rng(r), s(c_, suite, std::string("model ver fam=tree multi=") + (Ad::multi ? "1" : "0")), j(c_, s, cfg) {}

	C& O(int o) { return *obj[o]; }
	static char on(int o) { return o ? 'B' : 'A'; }
	std::vector<uint32_t> keys(int o) { std::vector<uint32_t> v; for (auto it = O(o).GetBegin(); it != O(o).GetEnd(); ++it) v.push_back(Ad::key(it)); return v; }
	std::string flags(int o) { auto& t = Ad::ts(O(o)); return std::string(" r") + (t.mRootNode != nullptr ? "1" : "0") + "p" + (t.mNodeParams != nullptr ? "1" : "0"); }
	std::string tail() { return " | A=" + listStr(keys(0)) + flags(0) + " B=" + listStr(keys(1)) + flags(1); }
	static bool isNull(const It& it) { return Ad::sit(it).mNode == nullptr; }
	size_t rankIn(int o, const It& it) { size_t r = 0; for (auto x = O(o).GetBegin(); x != O(o).GetEnd() && x != it; ++x) ++r; return r; }
	std::string desc(int o, const It& it) { return isNull(it) ? std::string("null") : "p" + std::to_string(rankIn(o, it)); }
	void store(int d, int o, const It& it) {
		if ((int)slots.size() <= d) slots.resize(d + 1);
		Slot& sl = slots[d];
		sl.it = it; sl.born = serial; lastStored = d;
		if (isNull(it)) { sl.owner = -1; sl.kind = T_NULL; sl.rank = 0; sl.key = 0; return; }
		sl.owner = o; sl.rank = rankIn(o, it);
		sl.kind = it == O(o).GetEnd() ? T_END : T_ELEM;
		sl.key = sl.kind == T_ELEM ? Ad::key(it) : 0;
	}
	// after a modifying call on object o: everything made earlier by o is out of bounds for this run; the iterator the call
	// returned (stored during the call) is made after the modification
	void modified(int o) { lastMod[o] = ++serial; if (lastStored >= 0 && slots[lastStored].owner == o) slots[lastStored].born = serial; }
	bool usable(int h, int o) const { const Slot& sl = slots[h]; return sl.kind == T_NULL || (sl.owner == o && sl.born >= lastMod[o]); }
	int own(int h) const { return slots[h].kind == T_NULL ? 0 : slots[h].owner; }
	struct Snap {
		std::vector<uint32_t> k[2]; bool root[2], params[2], extEmpty[2];
		bool operator==(const Snap& x) const {
			for (int o = 0; o < 2; ++o) if (k[o] != x.k[o] || root[o] != x.root[o] || params[o] != x.params[o] || extEmpty[o] != x.extEmpty[o]) return false;
			return true;
		}
	};
	Snap snap() {
		Snap x;
		for (int o = 0; o < 2; ++o) { x.k[o] = keys(o); x.root[o] = Ad::ts(O(o)).mRootNode != nullptr; x.params[o] = Ad::ts(O(o)).mNodeParams != nullptr; x.extEmpty[o] = ext[o]->IsEmpty(); }
		return x;
	}
	void newScenario() {
		slots.clear(); serial = 0; lastMod[0] = lastMod[1] = 0;
		ext[0].reset(); ext[1].reset(); obj[0].reset(); obj[1].reset();
		obj[0].reset(new C()); obj[1].reset(new C());
		ext[0].reset(new Ext()); ext[1].reset(new Ext());
		j.begin();
		j.line("new", "ok" + tail());
		hNull(NUL);
	}

	// ---- handle creation.  The model has no "default-constructed iterator" line: GetEnd() of a tree without root node returns it
	// (TreeSet.h:591-596), which is checked here; the harness then keeps a genuinely default-constructed It()
	void hNull(int d) {
		if (Ad::ts(O(1)).mRootNode != nullptr) { c.fail("C15 %s: harness: object B must not have a root node when a null handle is made", j.cfg.c_str()); return; }
		It e = O(1).GetEnd();
		if (!(e == It()) || !isNull(e)) c.fail("C15 %s: GetEnd() of a tree without root node is not the default-constructed iterator; history: %s", j.cfg.c_str(), j.scen.c_str());
		store(d, 1, It());
		j.line(fmt("end B %d", d), "ok null" + tail());
	}
	void hBegin(int o, int d) { It it = O(o).GetBegin(); store(d, o, it); j.line(fmt("begin %c %d", on(o), d), "ok " + desc(o, it) + tail()); }
	void hEnd(int o, int d) { It it = O(o).GetEnd(); store(d, o, it); j.line(fmt("end %c %d", on(o), d), "ok " + desc(o, it) + tail()); }
	void hLower(int o, uint32_t k, int d) { It it = O(o).GetLowerBound(k); store(d, o, it); j.line(fmt("lower %c %u %d", on(o), k, d), "ok " + desc(o, it) + tail()); }
	void hUpper(int o, uint32_t k, int d) { It it = O(o).GetUpperBound(k); store(d, o, it); j.line(fmt("upper %c %u %d", on(o), k, d), "ok " + desc(o, it) + tail()); }
	void hFind(int o, uint32_t k, int d) { It it = O(o).Find(k); store(d, o, it); j.line(fmt("find %c %u %d", on(o), k, d), "ok " + desc(o, it) + tail()); }

	// ---- modifying entry points without an iterator argument
	void mInsert(int o, uint32_t k, int d) {
		lastStored = -1;
		auto r = Ad::insert(O(o), k, (int)rng.below(20));
		store(d, o, r.first); modified(o);
		j.mut(r.second ? "Insert(new key)" : "Insert(existing key)");
		j.line(fmt("ins %c %u %d", on(o), k, d), fmt("ok %d ", (int)r.second) + desc(o, r.first) + tail());
	}
	void mInsertRange(int o, const std::vector<uint32_t>& ks) {
		lastStored = -1;
		Ad::insertRange(O(o), ks, (int)rng.below(4)); modified(o);
		std::string l = fmt("insr %c", on(o));
		for (uint32_t k : ks) l += " " + std::to_string(k);
		j.mut("Insert(range)");
		j.line(l, "ok" + tail());
	}
	void mRemoveKey(int o, uint32_t k) {
		lastStored = -1;
		size_t n = O(o).Remove(k); modified(o);
		j.mut(n ? "Remove(key present)" : "Remove(key absent)");
		j.line(fmt("rmk %c %u", on(o), k), fmt("ok %zu", n) + tail());
	}
	void mClear(int o) { lastStored = -1; O(o).Clear(); modified(o); j.mut("Clear"); j.line(fmt("clear %c", on(o)), "ok" + tail()); }
	void mMerge(int src) {
		lastStored = -1;
		if (rng.below(2)) O(src).MergeTo(O(1 - src)); else O(1 - src).MergeFrom(O(src));
		modified(0); modified(1);
		j.mut(src ? "MergeFrom" : "MergeTo");
		j.line(fmt("merge %c", on(src)), "ok" + tail());
	}

	// ---- uses.  must: +1 the call has to throw invalid_argument and change nothing, -1 it has to succeed.
	bool use(std::vector<int> hs, int o, int must, const std::string& why, bool mutating, std::function<std::string()> call, const std::string& opline) {
		for (int h : hs) if (!usable(h, o)) { c.stats.count("no-version run: use skipped, handle neither null nor fresh"); return false; }
		Snap before = snap();
		std::string kinds;
		for (int h : hs) { kinds += tkName(slots[h].kind); kinds += hs.size() > 1 ? "," : ""; }
		std::string res;
		lastStored = -1;
		std::string ex = guard([&] { res = call(); });
		Snap after = snap();
		if (mutating && ex.empty()) modified(o);
		j.line(opline, (ex.empty() ? res : ex) + tail());
		j.judge(must, ex, before == after, opline, why, kinds);
		return ex == BAD;
	}
	static const char* whyNullArg() { return "default-constructed iterator passed to a TreeSet entry point, checkVersion = false (TreeSet.h:141 ptCheck)"; }

	bool uDeref(int h) {
		const Slot& sl = slots[h];
		return use({ h }, own(h), sl.kind == T_ELEM ? -1 : 1,
			sl.kind == T_NULL ? "default-constructed iterator dereferenced, checkVersion = false (TreeSet.h:105 operator->)" : "end iterator dereferenced, checkVersion = false (TreeSet.h:106)", false,
			[&] { uint32_t k = rng.below(2) ? Ad::key(slots[h].it) : derefStar(slots[h].it); return "ok " + std::to_string(k); }, fmt("deref %d", h));
	}
	static uint32_t derefStar(const It& it) { auto&& r = *it; return keyOfRef(r); }
	static uint32_t keyOfRef(const uint32_t& r) { return r; }
	template<typename R> static uint32_t keyOfRef(const R& r) { return r.key; }
	bool uInc(int h, int d) {
		const Slot& sl = slots[h]; int o = own(h);
		return use({ h }, o, sl.kind == T_ELEM ? -1 : 1,
			sl.kind == T_NULL ? "default-constructed iterator incremented, checkVersion = false (TreeSet.h:60 operator++)" : "end iterator incremented, checkVersion = false (TreeSet.h:61)", false,
			[&] { It it = slots[h].it; if (rng.below(2)) ++it; else it++; store(d, o, it); return "ok " + desc(o, it); }, fmt("inc %d %d", h, d));
	}
	bool uDec(int h, int d) {
		const Slot& sl = slots[h]; int o = own(h);
		bool ok = sl.kind != T_NULL && sl.rank != 0;
		return use({ h }, o, ok ? -1 : 1,
			sl.kind == T_NULL ? "default-constructed iterator decremented, checkVersion = false (TreeSet.h:80 operator--)" : "first position decremented, checkVersion = false (TreeSet.h:94)", false,
			[&] { It it = slots[h].it; if (rng.below(2)) --it; else it--; store(d, o, it); return "ok " + desc(o, it); }, fmt("dec %d %d", h, d));
	}
	bool uCheck(int h, int o, bool ae) {
		bool ok = ae || slots[h].kind != T_NULL;
		return use({ h }, o, ok ? -1 : 1, "CheckIterator(default-constructed iterator, allowEmpty = false), checkVersion = false (TreeSet.h:141 ptCheck)", false,
			[&] { O(o).CheckIterator(slots[h].it, ae); return std::string("ok"); }, fmt("check %c %d %d", on(o), h, (int)ae));
	}
	uint32_t keyBefore(int h, int o) {
		const Slot& sl = slots[h];
		if (sl.kind == T_ELEM) return sl.key - 1;
		std::vector<uint32_t> ks = keys(o);
		return ks.empty() ? 500 : ks.back() + 5;
	}
	bool rooted(int o) { return Ad::ts(O(o)).mRootNode != nullptr; }
	bool uAdd(int h, int o, int d) {
		uint32_t k = keyBefore(h, o);
		// a tree without root node accepts exactly the default-constructed iterator (pvAddFirst); one with a root node needs a position
		bool ok = rooted(o) ? slots[h].kind != T_NULL : slots[h].kind == T_NULL;
		bool rej = use({ h }, o, ok ? -1 : 1, whyNullArg(), true,
			[&] { It p = Ad::add(O(o), slots[h].it, k, (int)rng.below(12)); store(d, o, p); return "ok " + desc(o, p); }, fmt("add %c %d %u %d", on(o), h, k, d));
		if (!rej) j.mut("Add(iterator)");
		return rej;
	}
	bool uAddExt(int h, int o, bool full, int d) {
		if (!rooted(o)) return false;                   // (not modelled, see TreeRun::uAddExt)
		uint32_t k = keyBefore(h, o);
		if (full) Ad::fillExt(*ext[o], k); else ext[o]->Clear();
		bool ok = slots[h].kind != T_NULL && full;
		bool rej = use({ h }, o, ok ? -1 : 1, slots[h].kind == T_NULL ? whyNullArg() : "extracted-item holder in the wrong state", true,
			[&] { It p = Ad::addExt(O(o), slots[h].it, *ext[o]); store(d, o, p); return "ok " + desc(o, p); }, fmt("addx %c %d %d %u %d", on(o), h, (int)full, k, d));
		if (!rej) j.mut("Add(iterator, extracted item)");
		return rej;
	}
	const char* whyElem(int h) { return slots[h].kind == T_NULL ? whyNullArg() : "end iterator where an element is required"; }
	bool uRemove(int h, int o, int d) {
		bool rej = use({ h }, o, slots[h].kind == T_ELEM ? -1 : 1, whyElem(h), true,
			[&] { It r = O(o).Remove(slots[h].it); store(d, o, r); return "ok " + desc(o, r); }, fmt("rm %c %d %d", on(o), h, d));
		if (!rej) j.mut("Remove(iterator)");
		return rej;
	}
	bool uExtract(int h, int o, int d) {
		bool rej = use({ h }, o, slots[h].kind == T_ELEM ? -1 : 1, whyElem(h), true,
			[&] { size_t rk = slots[h].rank; Ad::extract(O(o), slots[h].it); It r = O(o).GetBegin(); for (size_t i = 0; i < rk; ++i) ++r; store(d, o, r); return "ok " + desc(o, r); }, fmt("rm %c %d %d", on(o), h, d));
		if (!rej) j.mut("Extract(iterator)");
		return rej;
	}
	bool uRemoveExt(int h, int o, bool holderFull, int d) {
		if (holderFull) Ad::fillExt(*ext[o], 777); else ext[o]->Clear();
		bool ok = slots[h].kind == T_ELEM && !holderFull;
		bool rej = use({ h }, o, ok ? -1 : 1, holderFull ? "extracted-item holder in the wrong state" : whyElem(h), true,
			[&] { It r = Ad::removeExt(O(o), slots[h].it, *ext[o]); store(d, o, r); return "ok " + desc(o, r); }, fmt("rmx %c %d %d %d", on(o), h, (int)holderFull, d));
		if (!rej) j.mut("Remove(iterator, extracted item)");
		return rej;
	}
	bool uRemoveRange(int hb, int he, int o, int d) {
		bool anyNull = slots[hb].kind == T_NULL || slots[he].kind == T_NULL;
		// no root node: exactly (It(), It()) is accepted; with a root node both must be positions and begin must not lie behind end
		bool ok = rooted(o) ? (!anyNull && slots[hb].rank <= slots[he].rank) : (slots[hb].kind == T_NULL && slots[he].kind == T_NULL);
		bool rej = use({ hb, he }, o, ok ? -1 : 1, anyNull ? whyNullArg() : "invalid range", true,
			[&] { It r = O(o).Remove(slots[hb].it, slots[he].it); store(d, o, r); return "ok " + desc(o, r); }, fmt("rmr %c %d %d %d", on(o), hb, he, d));
		if (!rej) j.mut("Remove(range)");
		return rej;
	}
	bool uResetKey(int h, int o) {
		uint32_t k = slots[h].kind == T_ELEM ? slots[h].key + 1 : 999;
		bool rej = use({ h }, o, slots[h].kind == T_ELEM ? -1 : 1, whyElem(h), true,
			[&] { O(o).ResetKey(slots[h].it, k); return std::string("ok"); }, fmt("rk %c %d %u", on(o), h, k));
		if (!rej) j.mut("ResetKey");
		return rej;
	}

	// ------------------------------------------------------------------------------------------------ enumeration
	static const int NSTATE = 7, NHANDLE = 8, NUSE = 19;
	std::vector<uint32_t> stateKeys(int st) {
		std::vector<uint32_t> v;
		switch (st) {
		case 0: case 1: case 2: return v;
		case 3: return { 50 };
		case 4: return { 20, 30, 40, 50, 60 };
		case 5: for (uint32_t i = 0; i < 40; ++i) v.push_back(10 + 4 * i); return v;      // more than one node
		default: if (Ad::multi) return { 20, 30, 30, 30, 40 }; return { 20, 30, 33, 36, 40 };
		}
	}
	void build(int st) {
		newScenario();
		if (st == 1) { mInsert(0, 50, 30); mRemoveKey(0, 50); }                           // root node without elements
		if (st == 2) { mInsert(0, 50, 30); mInsert(1, 60, 30); mMerge(0); mClear(1); }     // no root node, node params present
		std::vector<uint32_t> ks = stateKeys(st);
		if (ks.size() > 6) mInsertRange(0, ks); else for (uint32_t k : ks) mInsert(0, k, 30);
	}
	// the handle under test: its slot number, or -1 when the kind does not exist in this state
	int makeHandle(int hk, int st) {
		std::vector<uint32_t> ks = stateKeys(st);
		switch (hk) {
		case 0: return NUL;                                                                // default-constructed
		case 1: hBegin(0, 0); return 0;
		case 2: hEnd(0, 0); return 0;
		case 3: if (ks.empty()) return -1; hFind(0, ks[ks.size() / 2], 0); return 0;
		case 4: hLower(0, ks.empty() ? 7 : ks.back() - 1, 0); return 0;
		case 5: hUpper(0, ks.empty() ? 7 : ks[0], 0); return 0;
		case 6: if (ks.empty()) return -1; mInsert(0, ks[0], 0); return 0;                  // iterator returned by an insert
		default: if (ks.size() < 2) return -1; hBegin(0, 1); uInc(1, 0); return 0;         // advanced iterator
		}
	}
	void applyUse(int u, int h) {
		switch (u) {
		case 0: uDeref(h); break;
		case 1: uInc(h, 40); break;
		case 2: uDec(h, 40); break;
		case 3: uCheck(h, 0, true); break;
		case 4: uCheck(h, 0, false); break;
		case 5: uAdd(h, 0, 40); break;
		case 6: uAddExt(h, 0, true, 40); break;
		case 7: uAddExt(h, 0, false, 40); break;
		case 8: uRemove(h, 0, 40); break;
		case 9: uRemoveExt(h, 0, false, 40); break;
		case 10: uRemoveExt(h, 0, true, 40); break;
		case 11: uExtract(h, 0, 40); break;
		case 12: uResetKey(h, 0); break;
		case 13: hEnd(0, 41); uRemoveRange(h, 41, 0, 40); break;       // [handle, fresh end)
		case 14: hBegin(0, 41); uRemoveRange(41, h, 0, 40); break;     // [fresh begin, handle)
		case 15: uRemoveRange(h, h, 0, 40); break;                     // empty range at the handle
		case 16: hBegin(0, 41); uRemoveRange(h, 41, 0, 40); break;     // reversed unless the handle is the first position
		case 17: uRemoveRange(NUL, h, 0, 40); break;                   // default-constructed begin
		default: uRemoveRange(h, NUL, 0, 40); break;                   // default-constructed end
		}
	}
	void enumerate() {
		for (int st = 0; st < NSTATE; ++st)
			for (int hk = 0; hk < NHANDLE; ++hk)
				for (int u = 0; u < NUSE; ++u) {
					build(st);
					int h = makeHandle(hk, st);
					if (h < 0) continue;
					applyUse(u, h);
					// the iterator a successful use returned is fresh: it must be usable at once
					if (slots.size() > 40 && lastStored == 40 && usable(40, 0)) { uCheck(40, 0, false); if (slots[40].kind == T_ELEM) uDeref(40); }
					c.stats.count("no-version triples executed");
				}
	}
	// random histories over a pool of handles; a use whose handle is neither null nor fresh is skipped
	static bool le(uint32_t a, uint32_t b) { return Ad::multi ? a <= b : a < b; }
	bool addFits(int h, int o) {
		if (slots[h].kind == T_NULL || !usable(h, o)) return true;
		std::vector<uint32_t> ks = keys(o);
		uint32_t k = keyBefore(h, o);
		size_t r = slots[h].rank;
		if (r > ks.size()) return false;
		return (r == 0 || le(ks[r - 1], k)) && (r == ks.size() || le(k, ks[r]));
	}
	bool resetFits(int h, int o) {
		if (slots[h].kind != T_ELEM || !usable(h, o)) return true;
		std::vector<uint32_t> ks = keys(o);
		uint32_t k = slots[h].key + 1;
		size_t r = slots[h].rank;
		if (r >= ks.size()) return false;
		return (r == 0 || le(ks[r - 1], k)) && (r + 1 == ks.size() || le(k, ks[r + 1]));
	}
	int pickHandle(int o, int nslots) {
		for (int t = 0; t < 4; ++t) { int h = (int)rng.below(nslots); if ((int)slots.size() > h && usable(h, o) && (slots[h].kind == T_NULL || slots[h].owner == o)) return h; }
		return NUL;
	}
	void randomHistory(int steps) {
		newScenario();
		int nslots = 6;
		for (int d = 0; d < nslots; ++d) hNull(d);
		for (int i = 0; i < steps; ++i) {
			int o = (int)rng.below(2);
			uint32_t k = 10 + 3 * (uint32_t)rng.below(20);
			int d = (int)rng.below(nslots), h = pickHandle(o, nslots);
			switch (rng.below(22)) {
			case 0: case 1: case 2: mInsert(o, k, d); break;
			case 3: hFind(o, k, d); break;
			case 4: hBegin(o, d); break;
			case 5: hLower(o, k + 1, d); break;
			case 6: hEnd(o, d); break;
			case 7: if (rng.below(2)) mRemoveKey(o, k); break;
			case 8: if (rng.below(6) == 0) mClear(o); break;
			case 9: if (rng.below(6) == 0) mMerge(o); break;
			case 10: uDeref(h); break;
			case 11: uInc(h, d); break;
			case 12: uDec(h, d); break;
			case 13: uRemove(h, o, d); break;
			case 14: uCheck(h, o, rng.below(2)); break;
			case 15: uRemoveExt(h, o, rng.below(3) == 0, d); break;
			case 16: if (addFits(h, o)) uAdd(h, o, d); break;
			case 17: uExtract(h, o, d); break;
			case 18: { int h2 = pickHandle(o, nslots); uRemoveRange(h, h2, o, d); break; }
			case 19: if (resetFits(h, o)) uResetKey(h, o); break;
			case 20: if (addFits(h, o)) uAddExt(h, o, rng.below(3) != 0, d); break;
			default: hUpper(o, k, d); break;
			}
		}
		c.stats.count("random histories");
	}
};

template<typename Ad>
static void runTreeNV(Ctx& c, Rng& rng, const std::string& suite, const std::string& cfg) {
	TreeNVRun<Ad> r(c, rng, suite, cfg);
	r.enumerate();
	int n = c.thorough ? 300 : 50;
	for (int i = 0; i < n; ++i) r.randomHistory(c.thorough ? 160 : 80);
	runHolderChecks<Ad>(c, cfg);
}
#endif

// ============================================================================================================
#if VF_PART == 3
// ---------------------------------------------------------------- HashMultiMap (key version + value version)

struct XMM : public momo::HashMultiMapSettings {
	static const momo::CheckMode checkMode = momo::CheckMode::exception;
	static const momo::ExtraCheckMode extraCheckMode = momo::ExtraCheckMode::nothing;
	static const bool checkKeyVersion = true;
	static const bool checkValueVersion = true;
};
template<typename HashBucket>
struct ModTraitsM : public momo::HashTraits<uint32_t, HashBucket> {
	size_t GetHashCode(const uint32_t& key) const { return (size_t)(key % 1000) * 0x9E3779B97F4A7C15ull; }
	bool IsEqual(const uint32_t& a, const uint32_t& b) const { return a % 1000 == b % 1000; }
};

enum { K_ELEM = 0, K_EMPTY = 1, K_NULL = 2, V_ELEM = 3, V_END = 4 };
static const char* mkName(int k) { static const char* n[] = { "key-element", "key-empty-position", "key-null", "value-element", "value-end" }; return n[k]; }

template<typename Traits>
struct MultiRun {
	typedef momo::HashMultiMap<uint32_t, uint32_t, Traits, MM, momo::HashMultiMapKeyValueTraits<uint32_t, uint32_t, MM>, XMM> C;
	typedef typename C::ConstKeyIterator KIt;
	typedef typename C::ConstIterator VIt;
	Ctx& c; Rng& rng; Suite s; Judge j; Mods mods;
	std::unique_ptr<C> obj[2];
	struct KSlot { KIt it; const void* cell = nullptr; int kind = K_NULL; uint64_t born = 0; uint32_t key = 0; };
	struct VSlot { VIt it; const void* kcell = nullptr; const void* vcell = nullptr; int kind = V_END; uint64_t born = 0; uint32_t key = 0; size_t idx = 0; };
	std::vector<KSlot> ks; std::vector<VSlot> vs;
	int lastK = -1, lastV = -1;

	MultiRun(Ctx& c_, Rng& r, const std::string& suite, const std::string& cfg)
		: c(c_), rng(r), s(c_, suite, "model ver fam=mmap"), j(c_, s, cfg) {}

	C& O(int o) { return *obj[o]; }
	static char on(int o) { return o ? 'B' : 'A'; }
	const void* kcellOf(int o) { return O(o).mHashMap.mHashSet.mCrew.GetVersion(); }
	const void* vcellOf(int o) { return &O(o).mValueCrew.GetValueVersion(); }
	typedef std::map<uint32_t, std::vector<uint32_t>> KV;
	KV contents(int o) {
		KV m;
		for (auto kit = O(o).GetKeyBounds().GetBegin(); !!kit; ++kit) { auto& v = m[kit->key]; for (const uint32_t& x : *kit) v.push_back(x); }
		return m;
	}
	std::string kvStr(int o) {
		std::string r = "{"; bool first = true;
		for (auto& kvp : contents(o)) { if (!first) r += ";"; first = false; r += std::to_string(kvp.first) + ":" + listStr(kvp.second); }
		return r + "}c" + std::to_string(O(o).mHashMap.GetCapacity());
	}
	std::string tail() { return " | A=" + kvStr(0) + " B=" + kvStr(1); }
	static const typename decltype(C::mHashMap)::ConstIterator& base(const KIt& k) { return k.mBaseIterator; }
	static const void* kver(const KIt& k) { return base(k).mHashSetIterator.mContainerVersion; }
	static bool kHasElem(const KIt& k) { const auto& si = base(k).mHashSetIterator; return si.mBucketIterator != decltype(si.mBucketIterator)(); }
	static std::string kdesc(const KIt& k) {
		if (kHasElem(k)) return "e" + std::to_string(k->key) + (base(k).mHashSetIterator.mBuckets != nullptr ? "m" : "");
		return kver(k) == nullptr ? "null" : "empty";
	}
	static std::string vdesc(const VIt& v) {
		if (v.mValueIterator != nullptr) return "v" + std::to_string(v.mKeyIterator->key) + ":" + std::to_string(v.mValueIterator - v.mKeyIterator->GetBegin());
		return "end";      // (a default-constructed iterator and an iterator moved past the last value behave alike)
	}
	static std::string toStr(const VIt& v) {
		if (v.mValueIterator == nullptr) return "-";
		return std::to_string(v.mKeyIterator->key) + ":" + std::to_string(v.mValueIterator - v.mKeyIterator->GetBegin());
	}
	void storeK(int d, const KIt& k) {
		if ((int)ks.size() <= d) ks.resize(d + 1);
		KSlot& sl = ks[d]; sl.it = k; sl.cell = kver(k); sl.born = mods.serial; lastK = d;
		sl.kind = kHasElem(k) ? K_ELEM : (sl.cell == nullptr ? K_NULL : K_EMPTY);
		sl.key = sl.kind == K_ELEM ? k->key : 0;
	}
	void storeV(int d, const VIt& v) {
		if ((int)vs.size() <= d) vs.resize(d + 1);
		VSlot& sl = vs[d]; sl.it = v; sl.vcell = v.mContainerVersion; sl.kcell = kver(v.mKeyIterator); sl.born = mods.serial; lastV = d;
		sl.kind = v.mValueIterator != nullptr ? V_ELEM : V_END;
		if (sl.kind == V_ELEM) { sl.key = v.mKeyIterator->key; sl.idx = (size_t)(v.mValueIterator - v.mKeyIterator->GetBegin()); }
	}
	void restamp() { if (lastK >= 0) ks[lastK].born = mods.serial; if (lastV >= 0) vs[lastV].born = mods.serial; }
	struct Snap {
		KV kv[2]; size_t cap[2]; const void* kc[2]; const void* vc[2];
		bool operator==(const Snap& x) const { return kv[0] == x.kv[0] && kv[1] == x.kv[1] && cap[0] == x.cap[0] && cap[1] == x.cap[1] && kc[0] == x.kc[0] && kc[1] == x.kc[1]; }
	};
	Snap snap() { Snap x; for (int o = 0; o < 2; ++o) { x.kv[o] = contents(o); x.cap[o] = O(o).mHashMap.GetCapacity(); x.kc[o] = kcellOf(o); x.vc[o] = vcellOf(o); } return x; }
	static std::vector<uint32_t> keysOf(const KV& m) { std::vector<uint32_t> v; for (auto& p : m) v.push_back(p.first); return v; }
	// touchV / touchK: the entry point increments that version even when nothing changes
	void note(const Snap& before, int objMask, bool touchV, bool touchK) {
		Snap after = snap();
		++mods.serial;
		for (int o = 0; o < 2; ++o) {
			int p = (after.kc[o] == before.kc[o]) ? o : 1 - o;
			bool keysChanged = keysOf(after.kv[o]) != keysOf(before.kv[p]) || after.cap[o] != before.cap[p];
			bool anyChanged = after.kv[o] != before.kv[p] || keysChanged;
			if (keysChanged) mods.mod[after.kc[o]] = mods.serial; else if (touchK && (objMask & (1 << o))) mods.touch[after.kc[o]] = mods.serial;
			if (anyChanged) mods.mod[after.vc[o]] = mods.serial; else if (touchV && (objMask & (1 << o))) mods.touch[after.vc[o]] = mods.serial;
		}
	}
	void newScenario() {
		ks.clear(); vs.clear(); mods.clear();
		obj[0].reset(); obj[1].reset(); obj[0].reset(new C()); obj[1].reset(new C());
		j.begin(); j.line("new", "ok" + tail());
	}

	// ---- handle creation
	void hFindKey(int o, uint32_t k, int d) { KIt it = O(o).Find(k); storeK(d, it); j.line(fmt("fk %c %u %d", on(o), k, d), "ok " + kdesc(it) + tail()); }
	void hKeyBegin(int o, int d) {
		KIt it = O(o).GetKeyBounds().GetBegin(); storeK(d, it);
		j.line(fmt("kb %c %s %d", on(o), (!!it ? std::to_string(it->key) : std::string("0")).c_str(), d), "ok " + kdesc(it) + tail());
	}
	void hBegin(int o, int d) {
		KIt kb = O(o).GetKeyBounds().GetBegin();
		VIt it = static_cast<const C&>(O(o)).GetBegin(); storeV(d, it);
		j.line(fmt("begin %c %s %s %d", on(o), (!!kb ? std::to_string(kb->key) : std::string("0")).c_str(), toStr(it).c_str(), d), "ok " + vdesc(it) + tail());
	}
	void hEnd(int o, int d) { VIt it = static_cast<const C&>(O(o)).GetEnd(); storeV(d, it); j.line(fmt("end %c %d", on(o), d), "ok " + vdesc(it) + tail()); }

	// ---- mutating entry points without a handle
	void mAdd(int o, uint32_t k, uint32_t v, int d) {
		Snap b = snap(); bool had = O(o).ContainsKey(k);
		VIt it;
		switch (rng.below(3)) { case 0: it = O(o).Add(k, v); break; case 1: it = O(o).AddVar(k, v); break; default: it = O(o).AddCrt(k, [v](uint32_t* p) { *p = v; }); }
		note(b, 1 << o, false, false); storeV(d, it);
		j.mut(had ? "Add(existing key, value)" : "Add(new key, value)");
		j.line(fmt("add %c %u %u %zu %d", on(o), k, v, O(o).mHashMap.GetCapacity(), d), "ok " + vdesc(it) + tail());
	}
	void mInsertKey(int o, uint32_t k, int d) {
		Snap b = snap(); bool had = O(o).ContainsKey(k);
		KIt it = O(o).InsertKey(k); note(b, 1 << o, false, false); storeK(d, it);
		j.mut(had ? "InsertKey(existing)" : "InsertKey(new)");
		j.line(fmt("insk %c %u %zu %d", on(o), k, O(o).mHashMap.GetCapacity(), d), "ok " + kdesc(it) + tail());
	}
	void mRemoveKeyByKey(int o, uint32_t k) {
		Snap b = snap(); size_t n = O(o).RemoveKey(k); note(b, 1 << o, false, false);
		j.mut(b.kv[o].count(k) ? "RemoveKey(key present)" : "RemoveKey(key absent)");
		j.line(fmt("rmkk %c %u", on(o), k), fmt("ok %zu", n) + tail());
	}
	void mRemoveIf(int o, uint32_t mo, uint32_t r) {
		Snap b = snap(); size_t n = O(o).Remove([mo, r](const uint32_t&, const uint32_t& v) { return v % mo == r; }); note(b, 1 << o, false, false);
		j.mut(n ? "Remove(filter, some)" : "Remove(filter, none)");
		j.line(fmt("rmif %c %u %u", on(o), mo, r), fmt("ok %zu", n) + tail());
	}
	void mClear(int o) { Snap b = snap(); O(o).Clear(); note(b, 1 << o, true, b.cap[o] != 0); j.mut("Clear"); j.line(fmt("clear %c", on(o)), "ok" + tail()); }
	void mSwap() { Snap b = snap(); if (rng.below(2)) O(0).Swap(O(1)); else swap(O(0), O(1)); note(b, 3, false, false); j.mut("Swap"); j.line("swap", "ok" + tail()); }

	// ---- uses.  The judgement is made from the harness's own snapshots.
	struct Req { bool stale = false, foreign = false, wrongKind = false, badIndex = false; std::string kind; };
	bool finish(const Snap& before, const std::string& ex, const std::string& res, const std::string& opline, const Req& q, bool touched) {
		j.line(opline, (ex.empty() ? res : ex) + tail());
		int must; std::string why;
		if (q.stale) { must = 1; why = "stale iterator"; }
		else if (q.foreign) { must = 1; why = "iterator of another container"; }
		else if (q.wrongKind) { must = 1; why = "end/empty iterator where an element is required (or the reverse)"; }
		else if (q.badIndex) { must = 1; why = "out-of-range value index"; }
		else if (touched) { must = 0; why = "version incremented without a change"; }
		else must = -1;
		j.judge(must, ex, before == snap(), opline, why, q.kind);
		return ex == BAD;
	}
	// key-iterator use; needKind: K_ELEM / K_EMPTY / -1 (any); nullOk: a default-constructed iterator is acceptable
	bool useK(int h, int target, int needKind, bool nullOk, bool idxOk, bool mutating, bool touchV, std::function<std::string()> call, std::function<std::string(bool)> mkline) {
		KSlot sl = ks[h];
		Snap before = snap();
		Req q; q.kind = mkName(sl.kind);
		q.stale = sl.kind != K_NULL && mods.stale(sl.cell, sl.born);
		q.foreign = target >= 0 && sl.kind != K_NULL && sl.cell != before.kc[target];
		q.wrongKind = (sl.kind == K_NULL && !nullOk) || (needKind >= 0 && sl.kind != K_NULL && sl.kind != needKind);
		q.badIndex = !idxOk;
		bool touched = sl.kind != K_NULL && mods.touched(sl.cell, sl.born);
		std::string res; lastK = lastV = -1;
		std::string ex = guard([&] { res = call(); });
		if (mutating && ex.empty()) { note(before, target >= 0 ? 1 << target : 0, touchV, false); restamp(); }
		return finish(before, ex, res, mkline(ex.empty()), q, touched);
	}
	bool useV(int h, int target, bool needElem, bool mutating, std::function<std::string()> call, std::function<std::string(bool)> mkline) {
		VSlot sl = vs[h];
		Snap before = snap();
		Req q; q.kind = mkName(sl.kind);
		q.stale = sl.kind == V_ELEM && (mods.stale(sl.vcell, sl.born) || mods.stale(sl.kcell, sl.born));
		q.foreign = target >= 0 && sl.kind == V_ELEM && (sl.vcell != before.vc[target] || sl.kcell != before.kc[target]);
		q.wrongKind = needElem && sl.kind != V_ELEM;
		bool touched = sl.kind == V_ELEM && (mods.touched(sl.vcell, sl.born) || mods.touched(sl.kcell, sl.born));
		std::string res; lastK = lastV = -1;
		std::string ex = guard([&] { res = call(); });
		if (mutating && ex.empty()) { note(before, target >= 0 ? 1 << target : 0, false, false); restamp(); }
		return finish(before, ex, res, mkline(ex.empty()), q, touched);
	}
	size_t countOfKey(int o, uint32_t k) { auto m = contents(o); auto it = m.find(k); return it == m.end() ? 0 : it->second.size(); }

	bool uKDeref(int h) { return useK(h, -1, K_ELEM, false, true, false, false, [&] { return fmt("ok %u %zu", ks[h].it->key, ks[h].it->GetCount()); }, [&](bool) { return fmt("kd %d", h); }); }
	bool uKInc(int h, int d) {
		KIt r;
		return useK(h, -1, K_ELEM, false, true, false, false, [&] { KIt it = ks[h].it; ++it; r = it; storeK(d, it); return "ok " + kdesc(it); },
			[&](bool ok) { return fmt("kinc %d %s %d", h, ok && kHasElem(r) ? std::to_string(r->key).c_str() : "-", d); });
	}
	bool uVDeref(int h) { return useV(h, -1, true, false, [&] { auto ref = *vs[h].it; return fmt("ok %u %u", ref.key, ref.value); }, [&](bool) { return fmt("vd %d", h); }); }
	bool uVInc(int h, int d) {
		VIt r;
		return useV(h, -1, true, false, [&] { VIt it = vs[h].it; ++it; r = it; storeV(d, it); return "ok " + vdesc(it); },
			[&](bool ok) { return fmt("vinc %d %s %d", h, ok ? toStr(r).c_str() : "-", d); });
	}
	bool uAddAt(int h, int o, uint32_t v, int d) {
		bool rej = useK(h, o, K_ELEM, false, true, true, false, [&] { VIt it = rng.below(2) ? O(o).Add(ks[h].it, v) : O(o).AddVar(ks[h].it, v); storeV(d, it); return "ok " + vdesc(it); },
			[&](bool) { return fmt("addat %c %d %u %d", on(o), h, v, d); });
		if (!rej) j.mut("Add(key iterator, value)");
		return rej;
	}
	bool uAddKey(int h, int o, uint32_t k, int d) {
		bool rej = useK(h, o, K_EMPTY, false, true, true, false, [&] { KIt it = O(o).AddKeyCrt(ks[h].it, [k](uint32_t* p) { *p = k; }); storeK(d, it); return "ok " + kdesc(it); },
			[&](bool) { return fmt("addk %c %d %u %zu %d", on(o), h, k, O(o).mHashMap.GetCapacity(), d); });
		if (!rej) j.mut("AddKeyCrt");
		return rej;
	}
	bool uRemoveAt(int h, int o, size_t i, int d) {
		bool fresh = ks[h].kind == K_ELEM && !mods.stale(ks[h].cell, ks[h].born) && ks[h].cell == kcellOf(o);
		bool idxOk = !fresh || i < countOfKey(o, ks[h].key);
		VIt r;
		bool rej = useK(h, o, K_ELEM, false, idxOk, true, false, [&] { r = O(o).Remove(ks[h].it, i); storeV(d, r); return "ok " + vdesc(r); },
			[&](bool ok) { return fmt("rmat %c %d %zu %s %d", on(o), h, i, ok ? toStr(r).c_str() : "-", d); });
		if (!rej) j.mut("Remove(key iterator, index)");
		return rej;
	}
	bool uRemove(int h, int o, int d) {
		VIt r;
		bool rej = useV(h, o, true, true, [&] { r = O(o).Remove(vs[h].it); storeV(d, r); return "ok " + vdesc(r); },
			[&](bool ok) { return fmt("rm %c %d %s %d", on(o), h, ok ? toStr(r).c_str() : "-", d); });
		if (!rej) j.mut("Remove(iterator)");
		return rej;
	}
	bool uRemoveValues(int h, int o, int d) {
		VIt r;
		bool rej = useK(h, o, K_ELEM, false, true, true, true, [&] { r = O(o).RemoveValues(ks[h].it); storeV(d, r); return "ok " + vdesc(r); },
			[&](bool ok) { return fmt("rmv %c %d %s %d", on(o), h, ok ? toStr(r).c_str() : "-", d); });
		if (!rej) j.mut("RemoveValues");
		return rej;
	}
	bool uRemoveKey(int h, int o, int d) {
		KIt r;
		bool rej = useK(h, o, K_ELEM, false, true, true, false, [&] { r = O(o).RemoveKey(ks[h].it); storeK(d, r); return "ok " + kdesc(r); },
			[&](bool ok) { return fmt("rmkey %c %d %s %d", on(o), h, ok && kHasElem(r) ? std::to_string(r->key).c_str() : "-", d); });
		if (!rej) j.mut("RemoveKey(key iterator)");
		return rej;
	}
	bool uResetKey(int h, int o) {
		uint32_t k = ks[h].kind == K_ELEM ? ks[h].key + 1000 : 1005;
		// ResetKey increments no version: the change is not recorded as a modification
		KSlot sl = ks[h];
		Snap before = snap();
		Req q; q.kind = mkName(sl.kind);
		q.stale = sl.kind != K_NULL && mods.stale(sl.cell, sl.born);
		q.foreign = sl.kind != K_NULL && sl.cell != before.kc[o];
		q.wrongKind = sl.kind != K_ELEM;
		bool touched = sl.kind != K_NULL && mods.touched(sl.cell, sl.born);
		std::string ex = guard([&] { O(o).ResetKey(ks[h].it, k); });
		Snap after = snap();
		std::string opline = fmt("rk %c %d %u", on(o), h, k);
		j.line(opline, (ex.empty() ? std::string("ok") : ex) + tail());
		int must = (q.stale || q.foreign || q.wrongKind) ? 1 : touched ? 0 : -1;
		j.judge(must, ex, ex.empty() || before == after, opline, q.stale ? "stale iterator" : q.foreign ? "iterator of another container" : q.wrongKind ? "end/empty iterator where an element is required (or the reverse)" : "version incremented without a change", q.kind);
		if (ex.empty()) j.mut("ResetKey");
		return ex == BAD;
	}
	bool uMakeIt(int h, int o, size_t i, int d) {
		bool fresh = ks[h].kind == K_ELEM && !mods.stale(ks[h].cell, ks[h].born) && ks[h].cell == kcellOf(o);
		bool idxOk = !fresh || i <= countOfKey(o, ks[h].key);
		bool emptyZero = ks[h].kind != K_ELEM && i == 0;          // MakeIterator(empty key iterator, 0) returns the end iterator
		VIt r;
		if (emptyZero) {
			Snap before = snap();
			std::string ex = guard([&] { r = static_cast<const C&>(O(o)).MakeIterator(ks[h].it, i); storeV(d, r); });
			std::string opline = fmt("mkit %c %d %zu - %d", on(o), h, i, d);
			j.line(opline, (ex.empty() ? "ok " + vdesc(r) : ex) + tail());
			j.judge(-1, ex, before == snap(), opline, "", mkName(ks[h].kind));
			return ex == BAD;
		}
		return useK(h, o, K_ELEM, false, idxOk, false, false, [&] { r = static_cast<const C&>(O(o)).MakeIterator(ks[h].it, i); storeV(d, r); return "ok " + vdesc(r); },
			[&](bool ok) { return fmt("mkit %c %d %zu %s %d", on(o), h, i, ok ? toStr(r).c_str() : "-", d); });
	}
	bool uMakeMutable(int h, int o, int d) {
		if (vs[h].kind != V_ELEM) {
			Snap before = snap(); VIt r;
			std::string ex = guard([&] { r = O(o).MakeMutableIterator(vs[h].it); storeV(d, r); });
			std::string opline = fmt("mkmut %c %d %d", on(o), h, d);
			j.line(opline, (ex.empty() ? "ok " + vdesc(r) : ex) + tail());
			j.judge(-1, ex, before == snap(), opline, "", mkName(vs[h].kind));
			return ex == BAD;
		}
		return useV(h, o, true, false, [&] { VIt r = O(o).MakeMutableIterator(vs[h].it); storeV(d, r); return "ok " + vdesc(r); }, [&](bool) { return fmt("mkmut %c %d %d", on(o), h, d); });
	}
	bool uCheckV(int h, int o, bool ae) {
		// CheckIterator(iter, allowEmpty): an end iterator passes iff allowEmpty (its key iterator is empty)
		VSlot sl = vs[h];
		Snap before = snap();
		std::string ex = guard([&] { O(o).CheckIterator(sl.it, ae); });
		std::string opline = fmt("chk %c %d %d", on(o), h, (int)ae);
		j.line(opline, (ex.empty() ? std::string("ok") : ex) + tail());
		bool stale = sl.kind == V_ELEM && (mods.stale(sl.vcell, sl.born) || mods.stale(sl.kcell, sl.born));
		bool foreign = sl.kind == V_ELEM && (sl.vcell != before.vc[o] || sl.kcell != before.kc[o]);
		bool touched = sl.kind == V_ELEM && (mods.touched(sl.vcell, sl.born) || mods.touched(sl.kcell, sl.born));
		int must = stale || foreign ? 1 : (sl.kind != V_ELEM ? (ae ? -1 : 1) : touched ? 0 : -1);
		j.judge(must, ex, before == snap(), opline, stale ? "stale iterator" : foreign ? "iterator of another container" : must > 0 ? "end iterator not allowed" : "version incremented without a change", mkName(sl.kind));
		return ex == BAD;
	}
	bool uCheckK(int h, int o, bool ae) {
		return useK(h, o, -1, ae, true, false, false, [&] { O(o).CheckKeyIterator(ks[h].it, ae); return std::string("ok"); }, [&](bool) { return fmt("chkk %c %d %d", on(o), h, (int)ae); });
	}

	// ------------------------------------------------------------------------------------------------ enumeration
	static const int NSTATE = 5, NHANDLE = 9, NOP = 26, NUSE = 22;
	void build(int st) {
		newScenario();
		if (st == 1) { mInsertKey(0, 5, 30); mRemoveKeyByKey(0, 5); }                       // empty, nested map has buckets
		if (st == 2) { mAdd(0, 5, 50, 30); mInsertKey(0, 6, 30); }                          // one key with a value, one without
		if (st >= 3) { for (uint32_t k = 1; k <= 4; ++k) for (uint32_t v = 0; v < k; ++v) mAdd(0, k * 10, k * 100 + v, 30); mInsertKey(0, 55, 30); mAdd(1, 20, 7, 30); mAdd(1, 70, 8, 30); }
		if (st == 4) { for (uint32_t v = 0; v < 12; ++v) mAdd(0, 40, 900 + v, 30); }          // a value array beyond the fast count
	}
	// handle kinds 0..4: key iterators in K slot 0, 5..8: value iterators in V slot 0
	bool makeHandle(int hk, int st) {
		bool any = st >= 2;
		switch (hk) {
		case 0: if (!any) return false; hFindKey(0, st == 2 ? 5 : 30, 0); return true;       // key with values
		case 1: hFindKey(0, 77, 0); return true;                                            // empty position
		case 2: hKeyBegin(0, 0); return true;                                               // movable (or null)
		case 3: if (!any) return false; hFindKey(0, st == 2 ? 6 : 55, 0); return true;       // key without values
		case 4: hFindKey(1, 20, 0); return true;                                            // key iterator of B
		case 5: hBegin(0, 0); return true;
		case 6: hEnd(0, 0); return true;
		case 7: if (!any) return false; hFindKey(0, st == 2 ? 5 : 30, 1); uMakeIt(1, 0, st == 2 ? 0 : 1, 0); return true;   // MakeIterator(key, index)
		default: if (!any) return false; mAdd(0, st == 2 ? 5 : 30, 4444, 0); return true;    // iterator returned by Add
		}
	}
	bool applyOp(int op, int st) {
		bool any = st >= 2; uint32_t k1 = st == 2 ? 5 : 20, k0 = st == 2 ? 6 : 55;
		switch (op) {
		case 0: return true;
		case 1: if (!any) return false; mAdd(0, k1, 1234, 31); return true;                  // value for an existing key
		case 2: mAdd(0, 91, 1, 31); return true;                                            // new key
		case 3: mInsertKey(0, 92, 31); return true;                                         // key version only
		case 4: if (!any) return false; mInsertKey(0, k1, 31); return true;                  // nothing happens
		case 5: hFindKey(0, 93, 20); uAddKey(20, 0, 93, 21); return true;
		case 6: if (!any) return false; hFindKey(0, k1, 20); uAddAt(20, 0, 4321, 21); return true;
		case 7: if (!any) return false; hFindKey(0, k1, 20); uRemoveAt(20, 0, 0, 21); return true;
		case 8: if (!any) return false; hBegin(0, 20); uRemove(20, 0, 21); return true;
		case 9: if (!any) return false; hFindKey(0, k1, 20); uRemoveValues(20, 0, 21); return true;
		case 10: if (!any) return false; hFindKey(0, k0, 20); uRemoveValues(20, 0, 21); return true;   // key without values: value version moves, nothing changes
		case 11: if (!any) return false; hFindKey(0, k1, 20); uRemoveKey(20, 0, 21); return true;
		case 12: if (!any) return false; hFindKey(0, k0, 20); uRemoveKey(20, 0, 21); return true;
		case 13: if (!any) return false; mRemoveKeyByKey(0, k1); return true;
		case 14: mRemoveKeyByKey(0, 97); return true;
		case 15: mRemoveIf(0, 2, 0); return true;
		case 16: mRemoveIf(0, 100000, 99999); return true;
		case 17: {   // ResetKey of a key other than the one the handle under test points at
			if (!any) return false;
			std::vector<uint32_t> cand = st == 2 ? std::vector<uint32_t>{ 6, 5 } : std::vector<uint32_t>{ 55, 10, 20 };
			uint32_t mineK = (!ks.empty() && ks[0].kind == K_ELEM) ? ks[0].key : 0xFFFFFFFFu;
			uint32_t mineV = (!vs.empty() && vs[0].kind == V_ELEM) ? vs[0].key : 0xFFFFFFFFu;
			for (uint32_t k : cand) if (k != mineK && k != mineV) { hFindKey(0, k, 20); uResetKey(20, 0); return true; }
			return false; }
		case 18: mClear(0); return true;
		case 19: mSwap(); return true;
		case 20: mSwap(); mSwap(); return true;
		case 21: (void)O(0).ContainsKey(5); hFindKey(0, 30, 22); hBegin(0, 23); return true;   // const entry points only
		case 22: mAdd(1, 98, 1, 31); return true;                                           // the OTHER container
		case 23: mClear(1); return true;
		case 24: for (uint32_t i = 0; i < 12; ++i) mInsertKey(0, 200 + i, 31); return true;   // growth of the nested map
		default: if (!any) return false; for (uint32_t i = 0; i < 10; ++i) mAdd(0, k1, 5000 + i, 31); return true;   // growth of one value array
		}
	}
	void applyUse(int u, bool valueHandle) {
		if (!valueHandle) {
			switch (u) {
			case 0: uKDeref(0); break;
			case 1: uKInc(0, 40); break;
			case 2: uAddAt(0, 0, 777, 40); break;
			case 3: uAddKey(0, 0, 77, 40); break;
			case 4: uRemoveAt(0, 0, 0, 40); break;
			case 5: uRemoveAt(0, 0, 50, 40); break;               // out-of-range value index
			case 6: uRemoveValues(0, 0, 40); break;
			case 7: uRemoveKey(0, 0, 40); break;
			case 8: uResetKey(0, 0); break;
			case 9: uMakeIt(0, 0, 0, 40); break;
			case 10: uMakeIt(0, 0, 1, 40); break;
			case 11: uMakeIt(0, 0, 60, 40); break;                // out-of-range value index
			case 12: uCheckK(0, 0, true); break;
			case 13: uCheckK(0, 0, false); break;
			case 14: uCheckK(0, 1, false); break;
			case 15: uAddAt(0, 1, 778, 40); break;                // used with B
			case 16: uRemoveKey(0, 1, 40); break;
			default: break;
			}
		} else {
			switch (u) {
			case 0: uVDeref(0); break;
			case 1: uVInc(0, 40); break;
			case 2: uRemove(0, 0, 40); break;
			case 3: uMakeMutable(0, 0, 40); break;
			case 4: uCheckV(0, 0, true); break;
			case 5: uCheckV(0, 0, false); break;
			case 6: uCheckV(0, 1, true); break;
			case 7: uRemove(0, 1, 40); break;
			case 8: uMakeMutable(0, 1, 40); break;
			default: break;
			}
		}
	}
	void enumerate(bool) {
		for (int st = 0; st < NSTATE; ++st)
			for (int op = 0; op < NOP; ++op)
				for (int hk = 0; hk < NHANDLE; ++hk)
					for (int u = 0; u < (hk < 5 ? 17 : 9); ++u) {
						build(st);
						if (!makeHandle(hk, st)) continue;
						if (!applyOp(op, st)) continue;
						applyUse(u, hk >= 5);
						c.stats.count("triples executed");
					}
	}
	void randomHistory(int steps) {
		newScenario();
		int n = 5;
		for (int d = 0; d <= n; ++d) { hFindKey(0, 999, d); hEnd(0, d); }
		for (int i = 0; i < steps; ++i) {
			int o = (int)rng.below(2), d = (int)rng.below(n), h = (int)rng.below(n);
			uint32_t k = (uint32_t)rng.below(8), v = (uint32_t)rng.below(50);
			switch (rng.below(24)) {
			case 0: case 1: case 2: mAdd(o, k, v, d); break;
			case 3: mInsertKey(o, k, d); break;
			case 4: hFindKey(o, k, d); break;
			case 5: hKeyBegin(o, d); break;
			case 6: hBegin(o, d); break;
			case 7: mRemoveKeyByKey(o, k); break;
			case 8: if (rng.below(4) == 0) mClear(o); break;
			case 9: if (rng.below(3) == 0) mSwap(); break;
			case 10: uKDeref(h); break;
			case 11: uKInc(h, d); break;
			case 12: uVDeref(h); break;
			case 13: uVInc(h, d); break;
			case 14: uAddAt(h, o, v, d); break;
			case 15: uRemoveAt(h, o, rng.below(4), d); break;
			case 16: uRemove(h, o, d); break;
			case 17: uRemoveValues(h, o, d); break;
			case 18: uRemoveKey(h, o, d); break;
			case 19: uMakeIt(h, o, rng.below(4), d); break;
			case 20: uCheckV(h, o, rng.below(2)); break;
			case 21: uCheckK(h, o, rng.below(2)); break;
			case 22: { hFindKey(o, 100 + k, n); if (ks[n].kind == K_EMPTY) uAddKey(n, o, 100 + k, d); break; }
			default: mRemoveIf(o, 5, (uint32_t)rng.below(5)); break;
			}
		}
		c.stats.count("random histories");
	}
};

template<typename Traits>
static void runMulti(Ctx& c, Rng& rng, const std::string& suite, const std::string& cfg) {
	MultiRun<Traits> r(c, rng, suite, cfg);
	r.enumerate(c.thorough);
	int n = c.thorough ? 500 : 80;
	for (int i = 0; i < n; ++i) r.randomHistory(c.thorough ? 160 : 80);
}
#endif

// ============================================================================================================
#if VF_PART == 4
// ---------------------------------------------------------------- Array with index iterators, SegmentedArray

template<size_t tInternal>
struct XArr : public momo::ArraySettings<tInternal, true, false> { static const momo::CheckMode checkMode = momo::CheckMode::exception; };
template<momo::SegmentedArrayItemCountFunc tFunc, size_t tLog>
struct XSeg : public momo::SegmentedArraySettings<tFunc, tLog> { static const momo::CheckMode checkMode = momo::CheckMode::exception; };

template<typename ArrA, typename ArrB>
struct ArrRun {
	Ctx& c; Rng& rng; Suite s; Judge j;
	std::unique_ptr<ArrA> a; std::unique_ptr<ArrB> b;
	std::vector<uint32_t> ref[2];                     // reference contents
	struct Slot { int arr = -1; size_t idx = 0; typename ArrA::ConstIterator ia; typename ArrB::ConstIterator ib; };
	std::vector<Slot> slots;
	static const size_t SMAX = ~size_t{0};

	ArrRun(Ctx& c_, Rng& r, const std::string& suite, const std::string& cfg)
		: c(c_), rng(r), s(c_, suite, "model ver fam=arr segA=0 segB=1"), j(c_, s, cfg) {}
	static char on(int o) { return o ? 'B' : 'A'; }
	template<typename A> static std::vector<uint32_t> items(A& x) { std::vector<uint32_t> v; for (size_t i = 0; i < x.GetCount(); ++i) v.push_back(x[i]); return v; }
	std::string tail() { return " | A=" + listStr(items(*a)) + " B=" + listStr(items(*b)); }
	void newScenario() { a.reset(new ArrA()); b.reset(new ArrB()); ref[0].clear(); ref[1].clear(); slots.clear(); j.begin(); j.line("new", "ok" + tail()); }
	bool same() { return items(*a) == ref[0] && items(*b) == ref[1]; }
	// one index-checked call: `valid` is the harness's own verdict, `apply` the reference effect
	void call(int o, const std::string& opline, bool valid, const std::string& why, std::function<std::string()> fa, std::function<std::string()> fb, std::function<void(std::vector<uint32_t>&)> apply) {
		std::string res;
		std::string ex = guard([&] { res = o ? fb() : fa(); });
		if (ex.empty()) apply(ref[o]);
		j.line(opline, (ex.empty() ? res : ex) + tail());
		j.judge(valid ? -1 : 1, ex, same(), opline, why, o ? "SegmentedArray" : "Array");
		if (!same()) c.fail("C15 %s: contents differ from the reference after %s; history: %s", j.cfg.c_str(), opline.c_str(), j.scen.c_str());
	}
	void addBack(int o, uint32_t v) { if (o) b->AddBack(v); else a->AddBack(v); ref[o].push_back(v); j.line(fmt("addb %c %u", on(o), v), "ok" + tail()); }
	void at(int o, size_t i) {
		call(o, fmt("at %c %zu", on(o), i), i < ref[o].size(), "out-of-range index",
			[&] { return "ok " + std::to_string((*a)[i]); }, [&] { return "ok " + std::to_string((*b)[i]); }, [](std::vector<uint32_t>&) {});
	}
	void back(int o) {
		call(o, fmt("back %c", on(o)), !ref[o].empty(), "GetBackItem of an empty array",
			[&] { return "ok " + std::to_string(a->GetBackItem()); }, [&] { return "ok " + std::to_string(b->GetBackItem()); }, [](std::vector<uint32_t>&) {});
	}
	void insert(int o, size_t i, size_t n, uint32_t v) {
		j.mut("Insert(index, count, item)");
		call(o, fmt("ins %c %zu %zu %u", on(o), i, n, v), i <= ref[o].size(), "out-of-range index",
			[&] { if (n == 1 && rng.below(2)) a->Insert(i, v); else a->Insert(i, n, v); return std::string("ok"); },
			[&] { if (n == 1 && rng.below(2)) b->Insert(i, v); else b->Insert(i, n, v); return std::string("ok"); },
			[&](std::vector<uint32_t>& r) { r.insert(r.begin() + i, n, v); });
	}
	void remove(int o, size_t i, size_t n) {
		j.mut("Remove(index, count)");
		bool valid = i <= ref[o].size() && n <= ref[o].size() - i;
		call(o, fmt("rm %c %zu %zu", on(o), i, n), valid, "out-of-range index / count",
			[&] { a->Remove(i, n); return std::string("ok"); }, [&] { b->Remove(i, n); return std::string("ok"); },
			[&](std::vector<uint32_t>& r) { r.erase(r.begin() + i, r.begin() + i + n); });
	}
	void removeBack(int o, size_t n) {
		j.mut("RemoveBack(count)");
		call(o, fmt("rmb %c %zu", on(o), n), n <= ref[o].size(), "out-of-range count",
			[&] { a->RemoveBack(n); return std::string("ok"); }, [&] { b->RemoveBack(n); return std::string("ok"); },
			[&](std::vector<uint32_t>& r) { r.resize(r.size() - n); });
	}
	void clear(int o) { if (o) b->Clear(); else a->Clear(); ref[o].clear(); j.mut("Clear"); j.line(fmt("clear %c", on(o)), "ok" + tail()); }
	// operator[] / GetBackItem through a const reference (Array.h:767-771 is a check of its own; SegmentedArray shares pvGetItem)
	void atConst(int o, size_t i) {
		call(o, fmt("at %c %zu", on(o), i), i < ref[o].size(), "out-of-range index (const operator[])",
			[&] { const ArrA& x = *a; return "ok " + std::to_string(x[i]); }, [&] { const ArrB& x = *b; return "ok " + std::to_string(x[i]); }, [](std::vector<uint32_t>&) {});
	}
	void backConst(int o) {
		call(o, fmt("back %c", on(o)), !ref[o].empty(), "GetBackItem of an empty array (const)",
			[&] { const ArrA& x = *a; return "ok " + std::to_string(x.GetBackItem()); }, [&] { const ArrB& x = *b; return "ok " + std::to_string(x.GetBackItem()); }, [](std::vector<uint32_t>&) {});
	}
	// AddBackNogrow / AddBackNogrowVar / AddBackNogrowCrt: accepted exactly while count < capacity.  The capacity is not part of the
	// model's state: it is read from the real object and written on the operation line.  Reserve changes no contents: no line.
	size_t capOf(int o) { return o ? b->GetCapacity() : a->GetCapacity(); }
	void reserve(int o, size_t n) { if (o) b->Reserve(n); else a->Reserve(n); j.mut("Reserve"); if (!same()) c.fail("C15 %s: Reserve(%zu) changed the contents; history: %s", j.cfg.c_str(), n, j.scen.c_str()); }
	template<typename A> static void nogrow(A& x, uint32_t v, int variant) {
		switch (variant) {
		case 0: x.AddBackNogrow(v); break;
		case 1: { uint32_t t = v; x.AddBackNogrow(std::move(t)); break; }
		case 2: x.AddBackNogrowVar(v); break;
		default: x.AddBackNogrowCrt([v](uint32_t* p) { *p = v; }); break;
		}
	}
	void addBackNogrow(int o, uint32_t v) {
		size_t cap = capOf(o); int variant = (int)rng.below(4);
		j.mut("AddBackNogrow");
		call(o, fmt("addbn %c %u %zu", on(o), v, cap), ref[o].size() < cap, "AddBackNogrow without spare capacity",
			[&] { nogrow(*a, v, variant); return std::string("ok"); }, [&] { nogrow(*b, v, variant); return std::string("ok"); },
			[&](std::vector<uint32_t>& r) { r.push_back(v); });
		if (capOf(o) != cap) c.fail("C15 %s: AddBackNogrow changed the capacity %zu -> %zu; history: %s", j.cfg.c_str(), cap, capOf(o), j.scen.c_str());
	}
	// fills the spare capacity item by item (every call must be accepted), then two more calls (both must be refused)
	void nogrowToTheBrim(int o) {
		for (int t = 0; t < 200 && ref[o].size() < capOf(o); ++t) addBackNogrow(o, 300 + (uint32_t)t);
		addBackNogrow(o, 98); addBackNogrow(o, 99);
		c.stats.count("AddBackNogrow runs up to the capacity");
	}

	// ---- index iterators
	Slot& slot(int d) { if ((int)slots.size() <= d) slots.resize(d + 1); return slots[d]; }
	static std::string idesc(const Slot& sl) { return sl.arr < 0 ? "null" : "i" + std::to_string(sl.idx); }
	void hBegin(int o, int d) { Slot& sl = slot(d); sl.arr = o; sl.idx = 0; if (o) sl.ib = static_cast<const ArrB&>(*b).GetBegin(); else sl.ia = static_cast<const ArrA&>(*a).GetBegin(); j.line(fmt("begin %c %d", on(o), d), "ok i0" + tail()); }
	void hEnd(int o, int d) { Slot& sl = slot(d); sl.arr = o; sl.idx = ref[o].size(); if (o) sl.ib = static_cast<const ArrB&>(*b).GetEnd(); else sl.ia = static_cast<const ArrA&>(*a).GetEnd(); j.line(fmt("end %c %d", on(o), d), "ok " + idesc(sl) + tail()); }
	void hNull(int d, int typeOf) { Slot& sl = slot(d); sl.arr = -1 - typeOf; sl.idx = 0; sl.ia = typename ArrA::ConstIterator(); sl.ib = typename ArrB::ConstIterator(); j.line(fmt("nullit %d", d), "ok null" + tail()); }
	static bool isB(const Slot& sl) { return sl.arr == 1 || sl.arr == -2; }
	void itAdd(int h, long long dd, int d) {
		Slot sl = slot(h);
		bool live = sl.arr >= 0;
		__int128 target = (__int128)sl.idx + (__int128)dd;      // exact; callers keep it inside ptrdiff_t (see run())
		bool valid = live ? (target >= 0 && target <= (__int128)ref[sl.arr].size()) : dd == 0;
		Slot r = sl;
		std::string ex = guard([&] { if (isB(sl)) { r.ib += (ptrdiff_t)dd; } else { r.ia += (ptrdiff_t)dd; } });
		if (ex.empty()) { r.idx = (size_t)target; slot(d) = r; }
		std::string opline = fmt("itadd %d %lld %d", h, dd, d);
		j.line(opline, (ex.empty() ? "ok " + std::string(r.arr < 0 ? "null" : "i" + std::to_string(r.idx)) : ex) + tail());
		j.judge(valid ? -1 : 1, ex, same(), opline, live ? "iterator moved outside [begin, end]" : "null iterator moved", live ? (isB(sl) ? "SegmentedArray iterator" : "Array iterator") : "null iterator");
	}
	void itPair(int x, int y, bool lt) {
		Slot sx = slot(x), sy = slot(y);
		if (isB(sx) != isB(sy)) return;                     // different iterator types do not compile
		bool valid = sx.arr == sy.arr || (sx.arr < 0 && sy.arr < 0);
		std::string res;
		std::string ex = guard([&] {
			if (lt) { bool r = isB(sx) ? (sx.ib < sy.ib) : (sx.ia < sy.ia); res = fmt("ok %d", (int)r); }
			else { ptrdiff_t r = isB(sx) ? (sx.ib - sy.ib) : (sx.ia - sy.ia); res = fmt("ok %lld", (long long)r); } });
		std::string opline = fmt("%s %d %d", lt ? "itlt" : "itsub", x, y);
		j.line(opline, (ex.empty() ? res : ex) + tail());
		j.judge(valid ? -1 : 1, ex, same(), opline, "iterators of different arrays", "iterator pair");
	}
	void itDeref(int h) {
		Slot sl = slot(h);
		// Array: operator-> returns GetItems() + index without a range check (only called here with index <= count)
		bool valid = sl.arr >= 0 && (!isB(sl) || sl.idx < ref[sl.arr].size());
		std::string ex = guard([&] { if (isB(sl)) (void)sl.ib.operator->(); else (void)sl.ia.operator->(); });
		std::string opline = fmt("itd %d", h);
		j.line(opline, (ex.empty() ? "ok i" + std::to_string(sl.idx) : ex) + tail());
		j.judge(valid ? -1 : 1, ex, same(), opline, sl.arr < 0 ? "null iterator dereferenced" : "end iterator dereferenced", sl.arr < 0 ? "null iterator" : (isB(sl) ? "SegmentedArray iterator" : "Array iterator"));
	}

	void run(bool thorough) {
		std::vector<size_t> big = { SMAX, SMAX - 1, SMAX - 2, SMAX / 2, SMAX / 2 + 1, (size_t)1 << 32 };
		for (size_t n = 0; n <= (thorough ? 9u : 6u); ++n)
			for (int o = 0; o < 2; ++o) {
				auto fill = [&] { newScenario(); for (size_t i = 0; i < n; ++i) addBack(o, (uint32_t)(10 + i)); addBack(1 - o, 7); };
				// index-checked entry points: every index / count around the size plus huge values
				std::vector<size_t> idx; for (size_t i = 0; i <= n + 2; ++i) idx.push_back(i); for (size_t x : big) idx.push_back(x);
				for (size_t i : idx) {
					fill(); at(o, i); fill(); atConst(o, i);
					fill(); insert(o, i, 1, 99); fill(); insert(o, i, 0, 99); fill(); insert(o, i, 3, 98);
					fill(); removeBack(o, i);
					for (size_t k : idx) { fill(); remove(o, i, k); c.stats.count("Remove(index, count) pairs"); }
				}
				fill(); back(o); fill(); backConst(o);
				fill(); nogrowToTheBrim(o);
				fill(); reserve(o, n + 3); nogrowToTheBrim(o);
				fill(); reserve(o, 2 * n + 9); removeBack(o, n / 2); nogrowToTheBrim(o); clear(o); nogrowToTheBrim(o);
				// iterators
				for (long long dd = -(long long)n - 2; dd <= (long long)n + 2; ++dd)
					for (size_t start = 0; start <= n; ++start) {
						fill(); hBegin(o, 0); itAdd(0, (long long)start, 1); itAdd(1, dd, 2);
						if (slot(2).arr >= 0 && slot(1).idx + dd == slot(2).idx) itDeref(2);
					}
				// extreme differences.  `index + diff` is kept inside ptrdiff_t: ArrayIndexIterator::operator+= forms that sum in
				// signed arithmetic (ArrayUtility.h:75), so GetEnd() += PTRDIFF_MAX on a non-empty array is a signed overflow
				// inside momo (reported as a finding; UBSan would stop the whole run on it)
				for (long long dd : { (long long)0x7FFFFFFFFFFFFFFFll - (long long)n, (long long)(-0x7FFFFFFFFFFFFFFFll - 1), 1ll << 40, -(1ll << 40) }) { fill(); hEnd(o, 0); itAdd(0, dd, 1); }
				fill(); hBegin(o, 0); itAdd(0, (long long)0x7FFFFFFFFFFFFFFFll, 1);
				fill(); hNull(0, o); itAdd(0, 0, 1); itAdd(0, 1, 1); itAdd(0, -1, 1); itDeref(0); hNull(1, o); itPair(0, 1, false); itPair(0, 1, true);
				fill(); hBegin(o, 0); hEnd(o, 1); itPair(0, 1, false); itPair(1, 0, true); hNull(2, o); itPair(0, 2, false); itPair(2, 1, true); itDeref(1); itDeref(0);
				// an iterator made before the array shrinks keeps its index: moving checks against the current count
				fill(); hEnd(o, 0); if (n >= 2) { removeBack(o, 2); itAdd(0, 0, 1); itAdd(0, -1, 1); itAdd(0, -2, 1); if (o) itDeref(0); }
				fill(); hBegin(o, 0); clear(o); itAdd(0, 0, 1); itAdd(0, 1, 1); if (o) itDeref(0);
			}
		// two arrays of the same type: iterators of different containers (needs a second object of each type)
		{
			newScenario();
			ArrA a2; a2.AddBack(1); auto x = static_cast<const ArrA&>(*a).GetBegin(); auto y = static_cast<const ArrA&>(a2).GetBegin();
			std::string e1 = guard([&] { (void)(x - y); }), e2 = guard([&] { (void)(x < y); });
			if (e1 != BAD || e2 != BAD) c.fail("C15 %s: difference / comparison of iterators of two Array objects not rejected", j.cfg.c_str());
			ArrB b2; b2.AddBack(1); auto p = static_cast<const ArrB&>(*b).GetBegin(); auto q = static_cast<const ArrB&>(b2).GetBegin();
			std::string e3 = guard([&] { (void)(p - q); }), e4 = guard([&] { (void)(p < q); });
			if (e3 != BAD || e4 != BAD) c.fail("C15 %s: difference / comparison of iterators of two SegmentedArray objects not rejected", j.cfg.c_str());
			c.stats.evaluations += 4; c.stats.count("must reject: iterators of two objects of the same type", 4);
		}
		// random histories
		int hist = thorough ? 400 : 60;
		for (int t = 0; t < hist; ++t) {
			newScenario(); hBegin(0, 0); hBegin(1, 1); hNull(2, 0);
			for (int i = 0; i < 80; ++i) {
				int o = (int)rng.below(2); size_t n = ref[o].size();
				size_t any = rng.below(5) == 0 ? big[rng.below(big.size())] : rng.below(n + 3);
				switch (rng.below(14)) {
				case 11: addBackNogrow(o, (uint32_t)rng.below(100)); break;
				case 12: if (rng.below(3) == 0) reserve(o, n + rng.below(6)); else backConst(o); break;
				case 13: atConst(o, any); break;
				case 0: case 1: addBack(o, (uint32_t)rng.below(100)); break;
				case 2: at(o, any); break;
				case 3: insert(o, any, rng.below(3), (uint32_t)rng.below(100)); break;
				case 4: remove(o, any, rng.below(4) == 0 ? big[rng.below(big.size())] : rng.below(n + 2)); break;
				case 5: removeBack(o, any); break;
				case 6: back(o); break;
				case 7: itAdd((int)rng.below(3), (long long)rng.below(2 * n + 3) - (long long)n - 1, (int)rng.below(2) + 3); break;
				case 8: { int h = (int)rng.below(5); if (h < (int)slots.size() && (slot(h).arr < 0 || slot(h).idx <= ref[slot(h).arr].size())) itDeref(h); break; }
				case 9: if (o) hEnd(1, 1); else hEnd(0, 0); break;
				default: if (rng.below(6) == 0) clear(o); break;
				}
			}
			c.stats.count("random histories");
		}
	}
};
#endif

// ============================================================================================================
#if VF_PART == 5 || VF_PART == 7
// ---------------------------------------------------------------- DataTable: row references, selections, hash pointers / bounds
// Two tables of one type (unique hash index on column a, multi hash index on column b).  Column `id` holds the identity
// of the raw block as the model counts it (table A: 0, 1, …; table B: 1000000, …); contents are printed as id:a:b in row order.
// Property-level record: per version cell (change / remove version of each table) the serial number of the last entry point
// after which the rows differed (`mod` of the change version) or a row that had been present was gone (`mod` of the remove
// version); entry points that increment a version without such a change are recorded as `touch` (model level only).

template<bool tKeep>
struct XData : public momo::DataSettings<tKeep> {
	static const momo::CheckMode checkMode = momo::CheckMode::exception;
	static const momo::ExtraCheckMode extraCheckMode = momo::ExtraCheckMode::nothing;
	static const bool checkVersion = true;
};

struct TRow { int ca; int cb; int cid; };
MOMO_DATA_COLUMN_STRUCT(TRow, ca);
MOMO_DATA_COLUMN_STRUCT(TRow, cb);
MOMO_DATA_COLUMN_STRUCT(TRow, cid);
typedef momo::DataStructDefault<int> DynStruct;
MOMO_DATA_COLUMN_STRING_TAG(DynStruct, int, dynA);
MOMO_DATA_COLUMN_STRING_TAG(DynStruct, int, dynB);
MOMO_DATA_COLUMN_STRING_TAG(DynStruct, int, dynId);

struct CLStatic {      // static column list, rows keep their number (Remove(range) / Assign mark rows in place)
	typedef momo::DataColumnListStatic<TRow, momo::DataColumnInfo<TRow>, MM, XData<true>> List;
	static const bool keep = true;
	static const decltype(ca)& A() { return ca; }
	static const decltype(cb)& B() { return cb; }
	static const decltype(cid)& ID() { return cid; }
	static List make() { List l; l.SetMutable(cid); return l; }     // column id is mutable (DataTable::pvCheckImmutable, RowReference::GetMutable)
};
struct CLDynamic {     // dynamic column list, no row numbers (Remove(range) / Assign go through a hash set of raws)
	typedef momo::DataColumnList<momo::DataColumnTraits<DynStruct>, MM, momo::DataItemTraits<MM>, XData<false>> List;
	static const bool keep = false;
	static const decltype(dynA)& A() { return dynA; }
	static const decltype(dynB)& B() { return dynB; }
	static const decltype(dynId)& ID() { return dynId; }
	static List make() { List l; l.Add(dynA); l.Add(dynB); l.Add(dynId.Mutable()); return l; }
};

static std::string ilist(const std::vector<int>& v) {
	std::string r = "[";
	for (size_t i = 0; i < v.size(); ++i) { if (i) r += ' '; r += std::to_string(v[i]); }
	return r + "]";
}

template<typename CL>
struct TableRun {
	typedef typename CL::List ColumnList;
	typedef momo::DataTable<ColumnList> Table;
	typedef typename Table::Row Row;
	typedef typename Table::RowReference Ref;
	typedef typename Table::ConstRowReference CRef;
	typedef typename Table::Selection Sel;
	typedef typename Table::RowHashPointer HPtr;
	typedef typename Table::RowHashBounds HBounds;
	typedef typename Table::template Equality<int> Eq;
	typedef typename Table::TryResult TryResult;
	static const size_t SMAX = ~size_t{0};

	Ctx& c; Rng& rng; Suite s; Judge j; Mods mods;
	std::unique_ptr<Table> obj[2];
	momo::DataUniqueHashIndex uIdx[2]; momo::DataMultiHashIndex mIdx[2];
	int fresh[2] = { 0, 1000000 };

	struct RowV { int id, a, b; size_t num; bool operator==(const RowV& x) const { return id == x.id && a == x.a && b == x.b && num == x.num; } };
	typedef std::vector<RowV> Rows;
	struct Snap { Rows rows[2]; bool operator==(const Snap& x) const { return rows[0] == x.rows[0] && rows[1] == x.rows[1]; } };
	// a row reference; `born`: serial number of the state its version keeper was taken in
	struct RSlot { std::optional<Ref> ref; int tbl = -1; uint64_t born = 0; int id = -1; std::string kind; };
	// a selection, or the row pointer of FindByUniqueHash (`ptr`)
	struct SSlot { std::optional<Sel> sel; std::optional<HPtr> ptr; int tbl = -1; uint64_t born = 0; std::vector<int> ids; };
	// the row bounds of FindByMultiHash; `ids` in table order (the model's order), `real` in the order of the real bounds
	struct BSlot { std::optional<HBounds> mb; int tbl = -1; uint64_t born = 0; std::vector<int> ids, real; };
	std::vector<RSlot> rs; std::vector<SSlot> ss; std::vector<BSlot> bs;

	TableRun(Ctx& c_, Rng& r, const std::string& suite, const std::string& cfg)
		: c(c_), rng(r), s(c_, suite, "model ver fam=table"), j(c_, s, cfg) {}

	Table& O(int o) { return *obj[o]; }
	static char on(int o) { return o ? 'B' : 'A'; }
	const void* ccell(int o) { return &O(o).mCrew.GetChangeVersion(); }
	const void* rcell(int o) { return &O(o).mCrew.GetRemoveVersion(); }
	static size_t numOf(const CRef& r, size_t dflt) { if constexpr (CL::keep) return r.GetNumber(); else return dflt; }
	Rows rowsOf(int o) {
		Rows v; const Table& t = O(o);
		for (size_t i = 0; i < t.GetCount(); ++i) { CRef r = t[i]; RowV x; x.id = r[CL::ID()]; x.a = r[CL::A()]; x.b = r[CL::B()]; x.num = numOf(r, i); v.push_back(x); }
		return v;
	}
	static std::string rowsStr(const Rows& v) {
		std::string r = "[";
		for (size_t i = 0; i < v.size(); ++i) { if (i) r += ' '; r += fmt("%d:%d:%d", v[i].id, v[i].a, v[i].b); }
		return r + "]";
	}
	Snap snap() { Snap x; x.rows[0] = rowsOf(0); x.rows[1] = rowsOf(1); return x; }
	std::string tail() {
		Snap x = snap();
		for (int o = 0; o < 2; ++o) for (size_t i = 0; i < x.rows[o].size(); ++i)
			if (x.rows[o][i].num != i) c.fail("C15 %s: row %zu of table %c reports row number %zu; history: %s", j.cfg.c_str(), i, on(o), x.rows[o][i].num, j.scen.c_str());
		return " | A=" + rowsStr(x.rows[0]) + " B=" + rowsStr(x.rows[1]);
	}
	// bumpC / bumpR: the entry point (called on table o) increments the change / remove version, by the source
	void note(const Snap& before, int o, bool bumpC, bool bumpR) {
		Snap after = snap();
		++mods.serial;
		for (int t = 0; t < 2; ++t) {
			bool changed = !(after.rows[t] == before.rows[t]);
			bool gone = false;
			for (const RowV& x : before.rows[t]) { bool there = false; for (const RowV& y : after.rows[t]) if (y.id == x.id) there = true; if (!there) gone = true; }
			if (changed) mods.mod[ccell(t)] = mods.serial; else if (t == o && bumpC) mods.touch[ccell(t)] = mods.serial;
			if (gone) mods.mod[rcell(t)] = mods.serial; else if (t == o && bumpR) mods.touch[rcell(t)] = mods.serial;
		}
	}
	void newScenario() {
		rs.clear(); ss.clear(); bs.clear(); mods.clear();
		obj[0].reset(); obj[1].reset();
		for (int o = 0; o < 2; ++o) {
			obj[o].reset(new Table(CL::make()));
			uIdx[o] = O(o).AddUniqueHashIndex(CL::A());
			mIdx[o] = O(o).AddMultiHashIndex(CL::B());
		}
		fresh[0] = 0; fresh[1] = 1000000;
		j.begin(); j.line("new", "ok" + tail());
	}
	Row makeRow(int o, int a, int b, int id) { Row row = O(o).NewRow(); row[CL::A()] = a; row[CL::B()] = b; row[CL::ID()] = id; return row; }
	RSlot& rslot(int d) { if ((int)rs.size() <= d) rs.resize(d + 1); return rs[d]; }
	SSlot& sslot(int d) { if ((int)ss.size() <= d) ss.resize(d + 1); return ss[d]; }
	BSlot& bslot(int d) { if ((int)bs.size() <= d) bs.resize(d + 1); return bs[d]; }
	void storeRef(int d, const Ref& r, int tbl, uint64_t born, int id, const std::string& kind) {
		RSlot& sl = rslot(d); sl.ref.reset(); sl.ref.emplace(r); sl.tbl = tbl; sl.born = born; sl.id = id; sl.kind = kind;
	}
	bool hasRef(int h) const { return h < (int)rs.size() && rs[h].ref.has_value(); }
	bool hasSel(int h) const { return h < (int)ss.size() && (ss[h].sel.has_value() || ss[h].ptr.has_value()); }
	bool isSel(int h) const { return h < (int)ss.size() && ss[h].sel.has_value(); }
	bool hasB(int h) const { return h < (int)bs.size() && bs[h].mb.has_value(); }

	struct Verdict { int must; std::string why; };
	Verdict refVerdict(const RSlot& sl, int target) {
		if (mods.stale(rcell(sl.tbl), sl.born)) return { 1, "stale row reference" };
		if (target >= 0 && sl.tbl != target) return { 1, "row reference of another table" };
		if (mods.touched(rcell(sl.tbl), sl.born)) return { 0, "version incremented without a change" };
		return { -1, "" };
	}
	void verdictLine(const Verdict& v, const std::string& ex, const Snap& before, const std::string& opline, const std::string& res, const std::string& kind) {
		j.line(opline, (ex.empty() ? res : ex) + tail());
		j.judge(v.must, ex, before == snap(), opline, v.why, kind);
	}

	// ---- entry points without a handle
	void hAt(int o, size_t i, int d) {
		Snap before = snap(); bool valid = i < O(o).GetCount(); int id = -1;
		std::string ex = guard([&] { Ref r = O(o)[i]; id = r[CL::ID()]; storeRef(d, r, o, mods.serial, id, "reference from operator[]"); });
		verdictLine({ valid ? -1 : 1, "out-of-range row number" }, ex, before, fmt("at %c %zu %d", on(o), i, d), fmt("ok r%d", id), "row number");
	}
	void addResult(int o, const Snap& before, const TryResult& res, bool replaces, int d, const std::string& opline, const char* name) {
		bool ok = !!res;
		if (ok) ++fresh[o];
		note(before, o, ok, ok && replaces);
		int id = res.rowReference[CL::ID()];
		storeRef(d, res.rowReference, o, mods.serial, id, ok ? "reference returned by an insertion" : "reference to the row that refused an insertion");
		j.mut(std::string(name) + (ok ? "" : " (refused by the unique index)"));
		j.line(opline, fmt("ok %d r%d", (int)ok, id) + tail());
	}
	void mAdd(int o, int a, int b, int d) {
		Snap before = snap(); int id = fresh[o];
		TryResult res = rng.below(2) ? O(o).TryAdd(makeRow(o, a, b, id)) : O(o).TryAddRow(CL::A() = a, CL::B() = b, CL::ID() = id);
		addResult(o, before, res, false, d, fmt("add %c %d %d %d", on(o), a, b, d), "TryAdd");
	}
	void mInsert(int o, size_t i, int a, int b, int d) {
		Snap before = snap(); int id = fresh[o]; bool valid = i <= O(o).GetCount();
		std::string opline = fmt("insrow %c %zu %d %d %d", on(o), i, a, b, d);
		std::optional<TryResult> res;
		std::string ex = guard([&] { res.emplace(O(o).TryInsert(i, makeRow(o, a, b, id))); });
		if (ex.empty()) { addResult(o, before, *res, false, d, opline, "TryInsert"); j.judge(valid ? -1 : 1, ex, true, opline, "out-of-range row number", "row number"); }
		else verdictLine({ valid ? -1 : 1, "out-of-range row number" }, ex, before, opline, "", "row number");
	}
	void mUpdRow(int o, size_t i, int a, int b, int d) {
		Snap before = snap(); int id = fresh[o]; bool valid = i < O(o).GetCount();
		std::string opline = fmt("updrow %c %zu %d %d %d", on(o), i, a, b, d);
		std::optional<TryResult> res;
		std::string ex = guard([&] { res.emplace(O(o).TryUpdate(i, makeRow(o, a, b, id))); });
		if (ex.empty()) { addResult(o, before, *res, true, d, opline, "TryUpdate(row number, row)"); j.judge(valid ? -1 : 1, ex, true, opline, "out-of-range row number", "row number"); }
		else verdictLine({ valid ? -1 : 1, "out-of-range row number" }, ex, before, opline, "", "row number");
	}
	void mRmNum(int o, size_t i) {
		Snap before = snap(); bool valid = i < O(o).GetCount();
		std::string ex = guard([&] { if (rng.below(2)) O(o).Remove(i); else { Row x = O(o).Extract(i); } });
		if (ex.empty()) { note(before, o, true, true); j.mut("Remove / Extract(row number)"); }
		std::string opline = fmt("rmnum %c %zu", on(o), i);
		j.line(opline, (ex.empty() ? std::string("ok") : ex) + tail());
		j.judge(valid ? -1 : 1, ex, !ex.empty() ? before == snap() : true, opline, "out-of-range row number", "row number");
	}
	void mClear(int o) { Snap b = snap(); O(o).Clear(); note(b, o, true, true); j.mut("Clear"); j.line(fmt("clear %c", on(o)), "ok" + tail()); }
	void mRmIf(int o, int m, int r) {
		Snap b = snap();
		size_t n = O(o).Remove([m, r](CRef ref) { return ref[CL::A()] % m == r; });
		note(b, o, true, true); j.mut(n ? "Remove(filter, some)" : "Remove(filter, none)");
		j.line(fmt("rmif %c %d %d", on(o), m, r), fmt("ok %zu", n) + tail());
	}
	void quietReserve(int o) { O(o).Reserve(O(o).GetCount() + 40); c.stats.count("entry point: Reserve (no operation line: the model has no such step)"); }

	// ---- uses of a row reference
	void uGet(int h) {
		RSlot sl = rs[h]; Snap before = snap(); int id = -1;
		int variant = (int)rng.below(CL::keep ? 4 : 3);
		std::string ex = guard([&] {
			switch (variant) {
			case 0: id = (*sl.ref)[CL::ID()]; break;
			case 1: id = sl.ref->Get(CL::ID()); break;
			case 2: (void)sl.ref->GetRaw(); id = sl.id; break;
			default: if constexpr (CL::keep) { (void)sl.ref->GetNumber(); } id = sl.id; break;
			} });
		if (ex.empty() && id != sl.id) c.fail("C15 %s: an accepted row reference reads row id %d, it was made for row id %d; history: %s", j.cfg.c_str(), id, sl.id, j.scen.c_str());
		verdictLine(refVerdict(sl, -1), ex, before, fmt("get %d", h), fmt("ok r%d", sl.id), sl.kind);
	}
	void uUpdB(int h, int o, int b) {
		RSlot sl = rs[h]; Snap before = snap(); Verdict v = refVerdict(sl, o);
		std::string ex = guard([&] { if (rng.below(2)) { TryResult r = O(o).TryUpdate(*sl.ref, CL::B(), (int)b); (void)r; } else (void)O(o).Update(*sl.ref, CL::B(), (int)b); });
		if (ex.empty()) { note(before, o, true, false); j.mut("TryUpdate / Update(reference, column, item)"); }
		std::string opline = fmt("updb %c %d %d", on(o), h, b);
		j.line(opline, (ex.empty() ? std::string("ok") : ex) + tail());
		j.judge(v.must, ex, !ex.empty() ? before == snap() : true, opline, v.why, sl.kind);
	}
	void uRmRef(int h, int o) {
		RSlot sl = rs[h]; Snap before = snap(); Verdict v = refVerdict(sl, o);
		std::string ex = guard([&] { if (rng.below(2)) O(o).Remove(*sl.ref); else { Row x = O(o).Extract(*sl.ref); } });
		if (ex.empty()) { note(before, o, true, true); j.mut("Remove / Extract(reference)"); }
		std::string opline = fmt("rmref %c %d", on(o), h);
		j.line(opline, (ex.empty() ? std::string("ok") : ex) + tail());
		j.judge(v.must, ex, !ex.empty() ? before == snap() : true, opline, v.why, sl.kind);
	}
	void uMkMut(int h, int o, int d) {
		RSlot sl = rs[h]; Snap before = snap(); Verdict v = refVerdict(sl, o);
		std::string ex = guard([&] { Ref r = O(o).MakeMutableReference(*sl.ref); storeRef(d, r, o, mods.serial, sl.id, "reference from MakeMutableReference"); });
		verdictLine(v, ex, before, fmt("mkmut %c %d %d", on(o), h, d), fmt("ok r%d", sl.id), sl.kind);
	}
	void uNewRow(int h) {
		RSlot sl = rs[h]; Snap before = snap(); Verdict v = refVerdict(sl, -1);
		std::string ex = guard([&] { CRef cr = *sl.ref; Row row = O(sl.tbl).NewRow(cr); });
		verdictLine(v, ex, before, fmt("newrow %d", h), "ok", sl.kind);
	}
	Verdict listVerdict(const std::vector<int>& hs, int o) {
		Verdict v{ -1, "" };
		for (int h : hs) { Verdict x = refVerdict(rs[h], o); if (x.must > v.must) v = x; }
		return v;
	}
	// Remove(begin, end) (keep = false) / Assign(begin, end) (keep = true) over a list of references
	void uRmRefs(int o, bool keep, const std::vector<int>& hs, std::function<void()> realCall = nullptr) {
		Snap before = snap(); Verdict v = listVerdict(hs, o);
		std::vector<Ref> refs; for (int h : hs) refs.push_back(*rs[h].ref);
		std::string ex = guard([&] { if (realCall) realCall(); else if (keep) O(o).Assign(refs.begin(), refs.end()); else O(o).Remove(refs.begin(), refs.end()); });
		if (ex.empty()) { note(before, o, true, true); j.mut(keep ? "Assign(begin, end)" : "Remove(begin, end)"); }
		std::string opline = fmt("rmrefs %c %d", on(o), (int)keep);
		for (int h : hs) opline += fmt(" %d", h);
		j.line(opline, (ex.empty() ? std::string("ok") : ex) + tail());
		j.judge(v.must, ex, !ex.empty() ? before == snap() : true, opline, v.why, hs.empty() ? "empty range" : rs[hs[0]].kind + " (range)");
	}

	// ---- selections and row pointers
	void hSelect(int o, int m, int r, int d) {
		Sel x = O(o).Select([m, r](CRef ref) { return ref[CL::A()] % m == r; });
		SSlot& sl = sslot(d); sl.ptr.reset(); sl.sel.reset(); sl.ids.clear();
		for (size_t i = 0; i < x.GetCount(); ++i) sl.ids.push_back(x[i][CL::ID()]);
		sl.sel.emplace(std::move(x)); sl.tbl = o; sl.born = mods.serial;
		j.line(fmt("select %c %d %d %d", on(o), m, r, d), "ok " + ilist(sl.ids) + tail());
	}
	void hFindU(int o, int v, int d) {
		int item = v;
		HPtr p = O(o).FindByUniqueHash(uIdx[o], Eq(CL::A(), item));
		SSlot& sl = sslot(d); sl.ptr.reset(); sl.sel.reset(); sl.ids.clear();
		if (!!p) sl.ids.push_back((*p)[CL::ID()]);
		sl.ptr.emplace(p); sl.tbl = o; sl.born = mods.serial;
		j.line(fmt("findu %c %d %d", on(o), v, d), "ok " + ilist(sl.ids) + tail());
	}
	bool selStale(const SSlot& sl) { return mods.stale(rcell(sl.tbl), sl.born); }
	bool selTouched(const SSlot& sl) { return mods.touched(rcell(sl.tbl), sl.born); }
	std::string selKind(const SSlot& sl) { return sl.ptr ? "row pointer of FindByUniqueHash" : "selection"; }
	void uSelAt(int h, size_t i, int d) {
		SSlot& sl = ss[h]; Snap before = snap(); bool valid = i < sl.ids.size();
		std::string ex = guard([&] {
			int id = valid ? sl.ids[i] : -1;
			if (sl.ptr) { if (i == 0 && rng.below(2)) { Ref r = **sl.ptr; storeRef(d, r, sl.tbl, sl.born, id, "reference from a row pointer"); } else { Ref r = (*sl.ptr)[i]; storeRef(d, r, sl.tbl, sl.born, id, "reference from a row pointer"); } }
			else { Ref r = (*sl.sel)[i]; storeRef(d, r, sl.tbl, sl.born, id, "reference from a selection"); } });
		// operator[] of a selection does not look at the rows: a stale selection still hands out (stale) references
		Verdict v = !valid ? Verdict{ 1, "out-of-range selection index" } : (selStale(sl) || selTouched(sl)) ? Verdict{ 0, "reference taken out of a stale selection (rejected when it is used)" } : Verdict{ -1, "" };
		verdictLine(v, ex, before, fmt("selat %d %zu %d", h, i, d), valid ? fmt("ok r%d", sl.ids[i]) : std::string("ok"), selKind(sl));
	}
	Verdict storeVerdict(const SSlot& sl, const RSlot& r, bool idxOk) {
		if (mods.stale(rcell(r.tbl), r.born)) return { 1, "stale row reference" };
		if (r.tbl != sl.tbl) return { 1, "row reference of another table" };
		if (!idxOk) return { 1, "out-of-range selection index" };
		if (mods.touched(rcell(r.tbl), r.born)) return { 0, "version incremented without a change" };
		return { -1, "" };
	}
	void uSelSet(int h, size_t i, int r) {
		SSlot& sl = ss[h]; RSlot ref = rs[r]; Snap before = snap(); Verdict v = storeVerdict(sl, ref, i < sl.ids.size());
		std::string ex = guard([&] { sl.sel->Set(i, *ref.ref); });
		if (ex.empty() && i < sl.ids.size()) sl.ids[i] = ref.id;
		verdictLine(v, ex, before, fmt("selset %d %zu %d", h, i, r), "ok " + ilist(sl.ids), ref.kind + " stored into a selection");
	}
	void uSelAdd(int h, int r) {
		SSlot& sl = ss[h]; RSlot ref = rs[r]; Snap before = snap(); Verdict v = storeVerdict(sl, ref, true);
		std::string ex = guard([&] { sl.sel->Add(*ref.ref); });
		if (ex.empty()) sl.ids.push_back(ref.id);
		verdictLine(v, ex, before, fmt("seladd %d %d", h, r), "ok " + ilist(sl.ids), ref.kind + " stored into a selection");
	}
	void uSelIns(int h, size_t i, int r) {
		SSlot& sl = ss[h]; RSlot ref = rs[r]; Snap before = snap(); Verdict v = storeVerdict(sl, ref, i <= sl.ids.size());
		std::string ex = guard([&] { sl.sel->Insert(i, *ref.ref); });
		if (ex.empty() && i <= sl.ids.size()) sl.ids.insert(sl.ids.begin() + i, ref.id);
		verdictLine(v, ex, before, fmt("selins %d %zu %d", h, i, r), "ok " + ilist(sl.ids), ref.kind + " stored into a selection");
	}
	void uSelRm(int h, size_t i, size_t n) {
		SSlot& sl = ss[h]; Snap before = snap(); bool valid = i <= sl.ids.size() && n <= sl.ids.size() - i;
		std::string ex = guard([&] { if (n == 1 && rng.below(2)) sl.sel->Remove(i); else sl.sel->Remove(i, n); });
		if (ex.empty() && valid) sl.ids.erase(sl.ids.begin() + i, sl.ids.begin() + i + n);
		verdictLine({ valid ? -1 : 1, "out-of-range selection index / count" }, ex, before, fmt("selrm %d %zu %zu", h, i, n), "ok " + ilist(sl.ids), "selection index");
	}
	// Sort / Group by columns (on a copy, which carries the same version keeper) and the binary searches read every row
	void uSelRead(int h) {
		SSlot& sl = ss[h]; Snap before = snap();
		bool nonEmpty = !sl.ids.empty();
		Verdict v = (nonEmpty && selStale(sl)) ? Verdict{ 1, "stale selection" } : (nonEmpty && selTouched(sl)) ? Verdict{ 0, "version incremented without a change" } : Verdict{ -1, "" };
		int item = 11;
		std::string ex = guard([&] {
			switch (rng.below(4)) {
			case 0: { Sel t = *sl.sel; t.Sort(CL::A()); break; }
			case 1: { Sel t = *sl.sel; t.Group(CL::B()); break; }
			case 2: (void)sl.sel->GetLowerBound(Eq(CL::A(), item)); break;
			default: (void)sl.sel->GetUpperBound(Eq(CL::A(), item)); break;
			} });
		verdictLine(v, ex, before, fmt("selread %d", h), "ok", "selection");
	}
	// table.Remove / Assign(selection.GetBegin() + i, selection.GetBegin() + i + n): for the model the references are taken out
	// of the selection first (slots dBase…)
	void uRmSelRange(int h, size_t i, size_t n, int o, bool keep, int dBase) {
		SSlot& sl = ss[h];
		if (!sl.sel || i + n > sl.ids.size()) return;
		std::vector<int> hs;
		for (size_t k = 0; k < n; ++k) {
			Ref r = (*sl.sel)[i + k];
			storeRef(dBase + (int)k, r, sl.tbl, sl.born, sl.ids[i + k], "reference from a selection");
			j.line(fmt("selat %d %zu %d", h, i + k, dBase + (int)k), fmt("ok r%d", sl.ids[i + k]) + tail());
			hs.push_back(dBase + (int)k);
		}
		Sel& sel = *sl.sel;
		uRmRefs(o, keep, hs, [&, i, n, o, keep] {
			auto b = momo::internal::UIntMath<>::Next(sel.GetBegin(), i), e = momo::internal::UIntMath<>::Next(sel.GetBegin(), i + n);
			if (keep) O(o).Assign(b, e); else O(o).Remove(b, e); });
	}

	// ---- row bounds of a multi hash index
	void hFindM(int o, int v, int d) {
		int item = v;
		HBounds x = O(o).FindByMultiHash(mIdx[o], Eq(CL::B(), item));
		BSlot& sl = bslot(d); sl.mb.reset(); sl.ids.clear(); sl.real.clear();
		for (size_t k = 0; k < x.GetCount(); ++k) sl.real.push_back(x[k][CL::ID()]);
		for (const RowV& r : rowsOf(o)) if (r.b == v) sl.ids.push_back(r.id);
		std::vector<int> s1 = sl.real, s2 = sl.ids; std::sort(s1.begin(), s1.end()); std::sort(s2.begin(), s2.end());
		if (s1 != s2) c.fail("C15 %s: FindByMultiHash(b == %d) on table %c yields rows %s, a scan finds %s; history: %s", j.cfg.c_str(), v, on(o), ilist(s1).c_str(), ilist(s2).c_str(), j.scen.c_str());
		sl.mb.emplace(x); sl.tbl = o; sl.born = mods.serial;
		j.line(fmt("findm %c %d %d", on(o), v, d), "ok " + ilist(s2) + tail());
	}
	void uMbAt(int h, size_t i, int d) {
		BSlot& sl = bs[h]; Snap before = snap(); bool valid = i < sl.ids.size();
		size_t realIdx = i;
		if (valid) realIdx = (size_t)(std::find(sl.real.begin(), sl.real.end(), sl.ids[i]) - sl.real.begin());
		Verdict v = !valid ? Verdict{ 1, "out-of-range bounds index" } : mods.stale(ccell(sl.tbl), sl.born) ? Verdict{ 1, "stale hash bounds" }
			: mods.touched(ccell(sl.tbl), sl.born) ? Verdict{ 0, "version incremented without a change" } : Verdict{ -1, "" };
		std::string ex = guard([&] { Ref r = (*sl.mb)[realIdx]; storeRef(d, r, sl.tbl, sl.born, valid ? sl.ids[i] : -1, "reference from hash bounds"); });
		verdictLine(v, ex, before, fmt("mbat %d %zu %d", h, i, d), "ok", "row bounds of FindByMultiHash");
	}

	// ---- entry points of Model/VerTableX.lean
	// TryUpdate / Update(row number, detached row made by table `src`) on table o
	void mUpdRowOf(int o, int src, size_t i, int a, int b, int d) {
		if (src == o) { mUpdRow(o, i, a, b, d); return; }
		Snap before = snap(); int id = fresh[src]; bool viaTry = rng.below(2) != 0;
		std::string opline = fmt("updrowof %c %c %zu %d %d %d", on(o), on(src), i, a, b, d);
		auto call = [&] { if (viaTry) { TryResult r = O(o).TryUpdate(i, makeRow(src, a, b, id)); (void)r; } else (void)O(o).Update(i, makeRow(src, a, b, id)); };
		if (!safeToRun(opline, call)) return;
		std::string ex = guard(call);
		verdictLine({ 1, "row of another table" }, ex, before, opline, "ok", "detached row");
	}
	Verdict boundsVerdict(const BSlot& sl) {
		return mods.stale(ccell(sl.tbl), sl.born) ? Verdict{ 1, "stale hash bounds" } : mods.touched(ccell(sl.tbl), sl.born) ? Verdict{ 0, "version incremented without a change" } : Verdict{ -1, "" };
	}
	// it = bounds.GetBegin(); it += i
	void uMbAdv(int h, size_t i) {
		BSlot& sl = bs[h]; Snap before = snap(); size_t k = sl.ids.size();
		Verdict v = i == 0 ? Verdict{ -1, "" } : (k == 0 || i > k) ? Verdict{ 1, "iterator moved out of its range" } : boundsVerdict(sl);
		std::string opline = fmt("mbadv %d %zu", h, i);
		auto plain = [&] { auto it = sl.mb->GetBegin(); it += (ptrdiff_t)i; if (i == k && !(it == sl.mb->GetEnd())) throw std::logic_error("not the end"); };
		if (v.must > 0 && v.why == "iterator moved out of its range" && !safeToRun(opline, plain)) return;
		std::string ex = guard(plain);
		verdictLine(v, ex, before, opline, "ok", "iterator of the row bounds of FindByMultiHash");
	}
	// it = bounds.GetBegin(); it += i; *it
	void uMbIt(int h, size_t i, int d) {
		BSlot& sl = bs[h]; Snap before = snap(); bool valid = i < sl.ids.size();
		size_t realIdx = i;
		if (valid) realIdx = (size_t)(std::find(sl.real.begin(), sl.real.end(), sl.ids[i]) - sl.real.begin());
		Verdict v = !valid ? Verdict{ 1, "end / empty iterator where an element is required" } : boundsVerdict(sl);
		std::string opline = fmt("mbit %d %zu %d", h, i, d);
		if (!valid && !safeToRun(opline, [&] { auto it = sl.mb->GetBegin(); it += (ptrdiff_t)realIdx; Ref r = *it; (void)r; })) return;
		std::string ex = guard([&] { auto it = sl.mb->GetBegin(); it += (ptrdiff_t)realIdx; Ref r = *it; storeRef(d, r, sl.tbl, sl.born, valid ? sl.ids[i] : -1, "reference from the iterator of hash bounds"); });
		verdictLine(v, ex, before, opline, "ok", "iterator of the row bounds of FindByMultiHash");
	}

	// ------------------------------------------------------------------------------------------------ directed misuse
	// Uses that are wrong whatever happened before (property level only, no operation line: nothing may change): a row of another
	// table, an index over a mutable column or over the same column twice, GetMutable of an immutable column, a row number past the
	// end through a const table, and every arithmetic / dereference / comparison check of the iterators of row pointers
	// (FindByUniqueHash), row bounds (FindByMultiHash), selections, the table and column item bounds.  All handles are fresh.
	size_t idxCount(int o) { return O(o).mIndexes.mUniqueHashes.GetCount() * 100 + O(o).mIndexes.mMultiHashes.GetCount(); }
	void expectUse(bool mustReject, const std::string& what, const std::string& why, const std::function<void()>& f, const std::function<bool()>& alsoUnchanged = nullptr) {
		Snap before = snap(); size_t ic[2] = { idxCount(0), idxCount(1) };
		std::string ex = guard(f);
		bool unchanged = before == snap() && ic[0] == idxCount(0) && ic[1] == idxCount(1) && (!alsoUnchanged || alsoUnchanged());
		directed(c, j.cfg, mustReject ? 1 : -1, ex, unchanged || ex.empty(), what, why);
		if (ex.empty() && !unchanged) c.fail("C15 %s: a directed use that must not modify anything changed a table: %s", j.cfg.c_str(), what.c_str());
	}
	// runs f in a forked child (it may corrupt memory when the misuse is not reported): 0 threw invalid_argument, 1 returned, 2 other exception, 3 crashed
	int inChild(const std::function<void()>& f) {
		fflush(nullptr);
		pid_t pid = fork();
		if (pid < 0) return 2;
		if (pid == 0) {
			int fd = open("/dev/null", O_WRONLY); if (fd >= 0) { dup2(fd, 1); dup2(fd, 2); }
			int rc = 1;
			try { f(); } catch (const std::invalid_argument&) { rc = 0; } catch (...) { rc = 2; }
			_exit(rc);
		}
		int status = 0; waitpid(pid, &status, 0);
		return WIFEXITED(status) ? WEXITSTATUS(status) : 3;
	}
	// a misuse whose omission would corrupt memory (repairs F31 / F32): first in a forked child; in this process only when the child
	// saw std::invalid_argument
	// (per kind of misuse - the first word of `what` - the first 25 cases are protected; a kind that failed once is skipped afterwards)
	std::map<std::string, int> protectedRuns;
	bool safeToRun(const std::string& what, const std::function<void()>& f) {
		int& runs = protectedRuns[what.substr(0, what.find(' '))];
		if (runs < 0) return false;
		if (runs >= 25) return true;
		int rc = inChild(f);
		c.stats.evaluations++; c.stats.count("misuse first tried in a child process");
		if (rc == 0) { ++runs; return true; }
		runs = -1;
		c.fail("C15 %s: misuse not reported (%s): %s; history: %s", j.cfg.c_str(), rc == 1 ? "the call returned normally" : rc == 3 ? "the call crashed" : "another exception",
			what.c_str(), j.scen.c_str());
		return false;
	}
	void expectRejectProtected(const std::string& what, const std::string& why, const std::function<void()>& f) {
		if (safeToRun(what, f)) expectUse(true, what, why, f);
	}
	void directedMisuse() {
		const Table& ct = O(0);
		size_t n = O(0).GetCount(), n1 = O(1).GetCount();
		std::vector<int> idsA; for (const RowV& r : rowsOf(0)) idsA.push_back(r.id);
		// ---- DataTable.h:487 operator[] const
		expectRejectProtected(fmt("constTable[count] (%zu)", n), "out-of-range row number", [&] { CRef r = ct[n]; (void)r; });
		expectRejectProtected("constTable[SIZE_MAX]", "out-of-range row number", [&] { CRef r = ct[SMAX]; (void)r; });
		if (n) expectUse(false, fmt("constTable[%zu]", n - 1), "", [&] { CRef r = ct[n - 1]; if ((int)r[CL::ID()] != idsA[n - 1]) throw std::logic_error("wrong row"); });
		// ---- DataTable.h:559 / 1544 / 1543: a detached row of the other table, an empty index
		expectUse(true, "A.TryAdd(row of B)", "row of another table", [&] { TryResult r = O(0).TryAdd(makeRow(1, 500, 5, 999)); (void)r; });
		expectUse(true, "A.Add(row of B)", "row of another table", [&] { O(0).Add(makeRow(1, 501, 5, 999)); });
		expectUse(true, "A.TryInsert(0, row of B)", "row of another table", [&] { TryResult r = O(0).TryInsert(0, makeRow(1, 502, 5, 999)); (void)r; });
		expectUse(true, "A.Insert(0, row of B)", "row of another table", [&] { O(0).Insert(0, makeRow(1, 503, 5, 999)); });
		expectUse(true, "A.FindByUniqueHash(index, row of B)", "row of another table", [&] { Row row = makeRow(1, 10, 5, 999); HPtr p = O(0).FindByUniqueHash(uIdx[0], row); (void)p; });
		expectUse(true, "A.FindByUniqueHash(empty index, row)", "empty index where an index is required", [&] { Row row = makeRow(0, 10, 5, 999); HPtr p = O(0).FindByUniqueHash(momo::DataUniqueHashIndex::empty, row); (void)p; });
		expectUse(false, "A.FindByUniqueHash(index, row of A)", "", [&] { Row row = makeRow(0, 10, 5, 999); HPtr p = O(0).FindByUniqueHash(uIdx[0], row); bool want = false; for (const RowV& r : rowsOf(0)) if (r.a == 10) want = true; if (!!p != want) throw std::logic_error("wrong answer"); });
		// ---- DataTable.h:1375 pvCheckImmutable, DataIndexes.h:1209 GetSortedOffsets, DataRow.h:343 GetMutableByOffset
		expectUse(true, "A.AddMultiHashIndex(id)", "index over a mutable column", [&] { (void)O(0).AddMultiHashIndex(CL::ID()); });
		expectUse(true, "A.AddUniqueHashIndex(a, id)", "index over a mutable column", [&] { (void)O(0).AddUniqueHashIndex(CL::A(), CL::ID()); });
		expectUse(true, "A.AddUniqueHashIndex(a, a)", "the same column twice in an index", [&] { (void)O(0).AddUniqueHashIndex(CL::A(), CL::A()); });
		expectUse(true, "A.AddMultiHashIndex(b, a, b)", "the same column twice in an index", [&] { (void)O(0).AddMultiHashIndex(CL::B(), CL::A(), CL::B()); });
		{ int i1 = 10, i2 = 11;
		  expectUse(true, "A.Select(filter, a == 10, a == 11)", "the same column twice in a query", [&] { Sel x = O(0).Select([](CRef) { return true; }, Eq(CL::A(), i1), Eq(CL::A(), i2)); (void)x; });
		  expectUse(true, "A.SelectCount(filter, b == 10, a == 10, b == 11)", "the same column twice in a query", [&] { (void)ct.SelectCount([](CRef) { return true; }, Eq(CL::B(), i1), Eq(CL::A(), i1), Eq(CL::B(), i2)); });
		  expectUse(false, "A.SelectCount(filter, b == 10, a == 10)", "", [&] { (void)ct.SelectCount([](CRef) { return true; }, Eq(CL::B(), i1), Eq(CL::A(), i1)); }); }
		expectUse(false, "A.AddMultiHashIndex(b) (exists)", "", [&] { if (O(0).AddMultiHashIndex(CL::B()) != mIdx[0]) throw std::logic_error("another index"); });
		if (n) {
			expectUse(true, "A[0].GetMutable(a)", "GetMutable of an immutable column", [&] { Ref r = O(0)[0]; (void)r.GetMutable(CL::A()); });
			expectUse(false, "A[0].GetMutable(id)", "", [&] { Ref r = O(0)[0]; int& x = r.GetMutable(CL::ID()); int y = x; x = y; if (y != idsA[0]) throw std::logic_error("wrong item"); });
		}
		// ---- DataIndexes.h:69-101 iterators of a row pointer
		{
			int present = n ? rowsOf(0)[0].a : -1, present2 = n > 1 ? rowsOf(0)[1].a : -1, absent = 7777;
			HPtr z = O(0).FindByUniqueHash(uIdx[0], Eq(CL::A(), absent));
			expectUse(true, "emptyRowPointer.GetBegin() += 1", "iterator moved out of its range", [&] { auto it = z.GetBegin(); it += 1; });
			expectUse(true, "*emptyRowPointer.GetBegin()", "end / empty iterator where an element is required", [&] { auto it = z.GetBegin(); Ref r = *it; (void)r; });
			expectUse(true, "*emptyRowPointer", "end / empty iterator where an element is required", [&] { Ref r = *z; (void)r; });
			expectUse(true, "emptyRowPointer->", "end / empty iterator where an element is required", [&] { (void)z->GetRaw(); });
			expectUse(false, "emptyRowPointer.GetBegin() += 0", "", [&] { auto it = z.GetBegin(); it += 0; if (!(it == z.GetEnd())) throw std::logic_error("begin != end"); });
			if (n) {
				HPtr p = O(0).FindByUniqueHash(uIdx[0], Eq(CL::A(), present));
				expectUse(true, "rowPointer.GetBegin() += 2", "iterator moved out of its range", [&] { auto it = p.GetBegin(); it += 2; });
				expectUse(true, "rowPointer.GetBegin() += -1", "iterator moved out of its range", [&] { auto it = p.GetBegin(); it += -1; });
				expectUse(true, "*rowPointer.GetEnd()", "end / empty iterator where an element is required", [&] { auto it = p.GetBegin(); it += 1; Ref r = *it; (void)r; });
				expectUse(false, "rowPointer.GetEnd() - rowPointer.GetBegin()", "", [&] { if (p.GetEnd() - p.GetBegin() != 1 || !(p.GetBegin() < p.GetEnd()) || (int)p->Get(CL::ID()) != idsA[0]) throw std::logic_error("wrong distance"); });
				expectUse(true, "rowPointer.GetBegin() - emptyRowPointer.GetBegin()", "iterators of different ranges", [&] { (void)(p.GetBegin() - z.GetBegin()); });
				expectUse(true, "rowPointer.GetBegin() < emptyRowPointer.GetBegin()", "iterators of different ranges", [&] { (void)(p.GetBegin() < z.GetBegin()); });
				if (n > 1) {
					HPtr q = O(0).FindByUniqueHash(uIdx[0], Eq(CL::A(), present2));
					expectUse(true, "rowPointer1.GetBegin() - rowPointer2.GetBegin()", "iterators of different ranges", [&] { (void)(p.GetBegin() - q.GetBegin()); });
				}
			}
		}
		// ---- DataIndexes.h:193-238 iterators of row bounds: no row, one row (a key without value array), several rows
		{
			std::map<int, int> byB; for (const RowV& r : rowsOf(0)) ++byB[r.b];
			int absent = 7777, single = -1, multi = -1;
			for (auto& kv : byB) { if (kv.second == 1 && single < 0) single = kv.first; if (kv.second > 1 && multi < 0) multi = kv.first; }
			HBounds e = O(0).FindByMultiHash(mIdx[0], Eq(CL::B(), absent));
			expectUse(true, "emptyBounds.GetBegin() += 1", "iterator moved out of its range", [&] { auto it = e.GetBegin(); it += 1; });
			expectUse(true, "*emptyBounds.GetBegin()", "end / empty iterator where an element is required", [&] { auto it = e.GetBegin(); Ref r = *it; (void)r; });
			expectUse(false, "emptyBounds.GetBegin() += 0", "", [&] { auto it = e.GetBegin(); it += 0; if (!(it == e.GetEnd())) throw std::logic_error("begin != end"); });
			if (single >= 0) {
				HBounds s1 = O(0).FindByMultiHash(mIdx[0], Eq(CL::B(), single));
				expectUse(true, "oneRowBounds.GetBegin() += 2", "iterator moved out of its range", [&] { auto it = s1.GetBegin(); it += 2; });
				expectUse(true, "oneRowBounds.GetBegin() += -1", "iterator moved out of its range", [&] { auto it = s1.GetBegin(); it += -1; });
				expectUse(true, "*oneRowBounds.GetEnd()", "end / empty iterator where an element is required", [&] { auto it = s1.GetBegin(); it += 1; Ref r = *it; (void)r; });
				expectUse(false, "*oneRowBounds.GetBegin()", "", [&] { Ref r = *s1.GetBegin(); if ((int)r[CL::B()] != single || s1.GetEnd() - s1.GetBegin() != 1) throw std::logic_error("wrong row"); });
				expectUse(true, "oneRowBounds.GetBegin() - emptyBounds.GetBegin()", "iterators of different ranges", [&] { (void)(s1.GetBegin() - e.GetBegin()); });
				expectUse(true, "oneRowBounds.GetBegin() < emptyBounds.GetBegin()", "iterators of different ranges", [&] { (void)(s1.GetBegin() < e.GetBegin()); });
			}
			if (multi >= 0) {
				HBounds m2 = O(0).FindByMultiHash(mIdx[0], Eq(CL::B(), multi));
				ptrdiff_t k = (ptrdiff_t)m2.GetCount();
				expectUse(true, "rowBounds.GetBegin() += -1", "iterator moved out of its range", [&] { auto it = m2.GetBegin(); it += -1; });
				expectUse(false, "rowBounds.GetEnd() - rowBounds.GetBegin()", "", [&] { if (m2.GetEnd() - m2.GetBegin() != k || !(m2.GetBegin() < m2.GetEnd())) throw std::logic_error("wrong distance"); auto it = m2.GetBegin(); it += k - 1; if ((int)(*it)[CL::B()] != multi) throw std::logic_error("wrong row"); });
				expectUse(true, "rowBounds.GetBegin() - emptyBounds.GetBegin()", "iterators of different ranges", [&] { (void)(m2.GetBegin() - e.GetBegin()); });
				// DataIndexes.h:197 / 213 (repair F31): above the end, and the end position where a row is required
				expectRejectProtected(fmt("rowBounds(%td rows).GetBegin() += %td", k, k + 1), "iterator moved out of its range", [&] { auto it = m2.GetBegin(); it += k + 1; });
				expectRejectProtected(fmt("*rowBounds(%td rows).GetEnd()", k), "end / empty iterator where an element is required", [&] { auto it = m2.GetEnd(); Ref r = *it; (void)r; });
				expectUse(false, "rowBounds.GetBegin() += count", "", [&] { auto it = m2.GetBegin(); it += k; if (!(it == m2.GetEnd())) throw std::logic_error("not the end"); });
			}
		}
		// ---- DataSelection.h:60-94, 163-188: iterators of selections and of the table; 332-355, 422: column item bounds; 650, 673: range Add / Insert
		{
			Sel all = O(0).Select(), all2 = O(0).Select(), other = O(1).Select();
			ptrdiff_t k = (ptrdiff_t)all.GetCount();
			auto same = [&] { if (all.GetCount() != idsA.size()) return false; for (size_t i = 0; i < idsA.size(); ++i) if ((int)all[i][CL::ID()] != idsA[i]) return false; return true; };
			expectUse(true, "selection.GetBegin() += count + 1", "iterator moved out of its range", [&] { auto it = all.GetBegin(); it += k + 1; });
			expectUse(true, "selection.GetBegin() += -1", "iterator moved out of its range", [&] { auto it = all.GetBegin(); it += -1; });
			expectUse(true, "*selection.GetEnd()", "end / empty iterator where an element is required", [&] { Ref r = *all.GetEnd(); (void)r; });
			expectUse(false, "selection.GetEnd() - selection.GetBegin()", "", [&] { if (all.GetEnd() - all.GetBegin() != k || (all.GetEnd() < all.GetBegin())) throw std::logic_error("wrong distance"); });
			expectUse(true, "selection1.GetBegin() - selection2.GetBegin() (same table)", "iterators of different ranges", [&] { (void)(all.GetBegin() - all2.GetBegin()); });
			expectUse(true, "selection1.GetBegin() < selection2.GetBegin() (same table)", "iterators of different ranges", [&] { (void)(all.GetBegin() < all2.GetBegin()); });
			expectUse(true, "selectionOfA.GetBegin() - selectionOfB.GetBegin()", "iterators of different ranges", [&] { (void)(all.GetBegin() - other.GetBegin()); });
			expectUse(true, "selectionOfA.GetBegin() < selectionOfB.GetBegin()", "iterators of different ranges", [&] { (void)(all.GetBegin() < other.GetBegin()); });
			typename Sel::ConstIterator dflt;
			expectUse(true, "defaultRowIterator += 1", "iterator moved out of its range", [&] { auto it = dflt; it += 1; });
			expectUse(false, "defaultRowIterator += 0", "", [&] { auto it = dflt; it += 0; });
			expectUse(true, "*defaultRowIterator", "end / empty iterator where an element is required", [&] { Ref r = *dflt; (void)r; });
			expectUse(true, "table.GetBegin() += count + 1", "iterator moved out of its range", [&] { auto it = O(0).GetBegin(); it += (ptrdiff_t)n + 1; });
			expectUse(true, "*table.GetEnd()", "end / empty iterator where an element is required", [&] { Ref r = *O(0).GetEnd(); (void)r; });
			expectUse(true, "constTable.GetBegin() - otherTable.GetBegin()", "iterators of different ranges", [&] { const Table& cb = O(1); (void)(ct.GetBegin() - cb.GetBegin()); });
			auto ia = all.GetColumnItems(CL::A()), ib = all.GetColumnItems(CL::B());
			expectUse(true, "itemsOfA.GetBegin() - itemsOfB.GetBegin()", "iterators of different ranges", [&] { (void)(ia.GetBegin() - ib.GetBegin()); });
			expectUse(true, "itemsOfA.GetBegin() < itemsOfB.GetBegin()", "iterators of different ranges", [&] { (void)(ia.GetBegin() < ib.GetBegin()); });
			expectUse(true, "columnItems[count]", "out-of-range selection index", [&] { (void)ia[(size_t)k]; });
			expectUse(true, "*columnItems.GetEnd()", "end / empty iterator where an element is required", [&] { (void)*ia.GetEnd(); });
			if (k) expectUse(false, "columnItems[count - 1]", "", [&] { int a = ia[(size_t)k - 1]; int want = rowsOf(0)[n - 1].a; if (a != want || ia.GetEnd() - ia.GetBegin() != k) throw std::logic_error("wrong item"); });
			expectUse(true, "selection.Insert(count + 1, begin, end)", "out-of-range selection index", [&] { all.Insert((size_t)k + 1, all2.GetBegin(), all2.GetEnd()); }, same);
			if (n1) {
				expectUse(true, "selectionOfA.Add(rows of B)", "row reference of another table", [&] { all.Add(other.GetBegin(), other.GetEnd()); }, same);
				expectUse(true, "selectionOfA.Assign(rows of B)", "row reference of another table", [&] { all.Assign(other.GetBegin(), other.GetEnd()); }, same);
				if (n) {	// two rows of A, then one of B: what was added is taken back
					std::vector<Ref> refs; refs.push_back(O(0)[0]); refs.push_back(O(0)[n - 1]); refs.push_back(O(1)[0]);
					expectUse(true, "selectionOfA.Add(row of A, row of A, row of B)", "row reference of another table", [&] { all.Add(refs.begin(), refs.end()); }, same);
					expectUse(true, "selectionOfA.Insert(0, row of A, row of A, row of B)", "row reference of another table", [&] { all.Insert(0, refs.begin(), refs.end()); }, same);
				}
			}
			expectUse(false, "selection.Add(begin, end) of the same table", "", [&] { Sel w = all; w.Add(all2.GetBegin(), all2.GetEnd()); if (w.GetCount() != (size_t)(2 * k)) throw std::logic_error("wrong count"); }, same);
		}
		// ---- DataTable.h:642 (repair F32): TryUpdate / Update(row number, row of the other table), valid and invalid row numbers
		expectRejectProtected("A.TryUpdate(0, row of B)", "row of another table", [&] { TryResult r = O(0).TryUpdate(0, makeRow(1, 600, 5, 999)); (void)r; });
		expectRejectProtected("A.Update(0, row of B)", "row of another table", [&] { (void)O(0).Update(0, makeRow(1, 601, 5, 999)); });
		expectRejectProtected("A.TryUpdate(count, row of B)", "row of another table", [&] { TryResult r = O(0).TryUpdate(O(0).GetCount(), makeRow(1, 602, 5, 999)); (void)r; });
		c.stats.count("directed misuse blocks");
	}

	// ------------------------------------------------------------------------------------------------ enumeration
	static const int NSTATE = 3, NHANDLE = 11, NOP = 25;
	void build(int st) {
		newScenario();
		if (st == 1) { mAdd(0, 10, 5, 30); mAdd(1, 10, 5, 30); }
		if (st == 2) { int bsv[5] = { 5, 5, 6, 6, 7 }; for (int k = 0; k < 5; ++k) mAdd(0, 10 + k, bsv[k], 30); mAdd(1, 10, 5, 30); mAdd(1, 11, 6, 30); }
	}
	// returns 'R' (reference in rs[0]), 'S' (selection in ss[0]), 'P' (row pointer in ss[0]), 'B' (bounds in bs[0]) or 0
	char makeHandle(int hk, int st) {
		size_t n = O(0).GetCount();
		switch (hk) {
		case 0: if (st < 1) return 0; hAt(0, 0, 0); return 'R';
		case 1: if (st < 2) return 0; hAt(0, n - 1, 0); return 'R';
		case 2: mAdd(0, 99, 5, 0); return 'R';
		case 3: if (st < 1) return 0; hAt(1, 0, 0); return 'R';
		case 4: hSelect(0, 1, 0, 0); return 'S';
		case 5: hSelect(0, 2, 0, 0); return 'S';
		case 6: hFindU(0, 10, 0); return 'P';
		case 7: hFindM(0, 5, 0); return 'B';
		case 8: if (st < 1) return 0; hSelect(0, 1, 0, 1); uSelAt(1, 0, 0); return 'R';
		case 9: if (st < 1) return 0; hFindM(0, 5, 1); uMbAt(1, 0, 0); return 'R';
		default: if (st < 1) return 0; mAdd(0, 10, 8, 0); return 'R';                  // refused: the reference denotes the existing row
		}
	}
	bool applyOp(int op, int st) {
		size_t n = O(0).GetCount();
		switch (op) {
		case 0: return true;
		case 1: mAdd(0, 50, 5, 31); return true;
		case 2: if (n < 1) return false; mAdd(0, 10, 9, 31); return true;                 // refused: nothing happens
		case 3: mInsert(0, 0, 51, 6, 31); return true;
		case 4: if (n < 2) return false; mUpdRow(0, 1, 52, 6, 31); return true;           // a row is replaced
		case 5: if (n < 2) return false; mUpdRow(0, 1, 10, 6, 31); return true;           // refused
		case 6: if (n < 1) return false; hAt(0, n - 1, 20); uUpdB(20, 0, 77); return true;
		case 7: if (n < 1) return false; hAt(0, n - 1, 20); uUpdB(20, 0, O(0)[n - 1][CL::B()]); return true;   // same item: change version moves, nothing changes
		case 8: if (n < 2) return false; mRmNum(0, 1); return true;
		case 9: if (n < 1) return false; mRmNum(0, 0); return true;
		case 10: if (n < 1) return false; hAt(0, n - 1, 20); uRmRef(20, 0); return true;
		case 11: mClear(0); return true;
		case 12: mRmIf(0, 2, 1); return true;
		case 13: mRmIf(0, 1000, 999); return true;                                        // nothing removed: both versions move
		case 14: if (n < 2) return false; hAt(0, 1, 20); uRmRefs(0, false, { 20 }); return true;
		case 15: uRmRefs(0, false, {}); return true;                                      // empty range: both versions move
		case 16: if (n < 2) return false; { std::vector<int> hs; for (size_t i = 0; i < n; ++i) { hAt(0, n - 1 - i, 20 + (int)i); hs.push_back(20 + (int)i); } uRmRefs(0, true, hs); } return true;   // Assign: same rows, reversed
		case 17: if (n < 2) return false; hAt(0, 0, 20); uRmRefs(0, true, { 20, 20 }); return true;   // Assign: only the first row stays
		case 18: mAdd(1, 60, 5, 31); return true;                                         // the OTHER table
		case 19: mClear(1); return true;
		case 20: if (O(1).GetCount() < 1) return false; mRmNum(1, 0); return true;
		case 21: hSelect(0, 1, 0, 22); hFindM(0, 5, 22); hFindU(0, 10, 23); if (n) hAt(0, 0, 24); (void)O(0).SelectCount(); return true;   // const entry points only
		case 22: quietReserve(0); return true;
		case 24: mUpdRowOf(0, 1, n ? n - 1 : 0, 53, 6, 31); return true;                  // refused (row of the other table): nothing happens
		default: mAdd(0, 70, 5, 31); mRmNum(0, O(0).GetCount() - 1); return true;         // a row comes and goes: every older reference is invalid
		}
	}
	void applyUse(char kind, int u) {
		size_t n = O(0).GetCount();
		if (kind == 'R') {
			switch (u) {
			case 0: uGet(0); break;
			case 1: uUpdB(0, 0, 77); break;
			case 2: uUpdB(0, 1, 78); break;
			case 3: uRmRef(0, 0); break;
			case 4: uRmRef(0, 1); break;
			case 5: uMkMut(0, 0, 40); if (hasRef(40)) uGet(40); break;
			case 6: uMkMut(0, 1, 40); break;
			case 7: uNewRow(0); break;
			case 8: uRmRefs(0, false, { 0 }); break;
			case 9: uRmRefs(0, true, { 0 }); break;
			case 10: uRmRefs(1, false, { 0 }); break;
			case 11: hSelect(0, 1, 0, 20); uSelAdd(20, 0); break;
			case 12: hSelect(0, 1, 0, 20); uSelSet(20, 0, 0); break;
			case 13: hSelect(0, 1, 0, 20); uSelIns(20, 1, 0); break;
			case 14: hSelect(1, 1, 0, 20); uSelAdd(20, 0); break;
			case 15: if (n) { hAt(0, 0, 21); uRmRefs(0, false, { 21, 0 }); } break;       // a fresh reference first, then the one under test
			case 16: if (n) { hAt(0, 0, 21); uRmRefs(0, true, { 21, 0 }); } break;
			default: break;
			}
		} else if (kind == 'S') {
			size_t k = ss[0].ids.size();
			switch (u) {
			case 0: uSelAt(0, 0, 40); if (hasRef(40)) uGet(40); break;
			case 1: uSelAt(0, k, 40); break;
			case 2: uSelRead(0); break;
			case 3: uSelRm(0, 0, 1); break;
			case 4: uSelRm(0, 1, SMAX); break;
			case 5: uSelRm(0, k, SMAX - (k ? k - 1 : 0)); break;                          // index + count wraps around to a small number
			case 6: if (n) { hAt(0, 0, 21); uSelSet(0, 0, 21); } break;
			case 7: if (n) { hAt(0, 0, 21); uSelAdd(0, 21); uSelIns(0, 99, 21); } break;
			case 8: if (k) uRmSelRange(0, k - 1, 1, 0, false, 41); break;
			case 9: if (k) uRmSelRange(0, 0, k, 0, true, 41); break;
			case 10: if (k) { uSelAt(0, k - 1, 40); uRmRef(40, 0); } break;
			case 11: if (k) { uSelAt(0, 0, 40); uUpdB(40, 0, 79); uMkMut(40, 0, 41); } break;
			default: break;
			}
		} else if (kind == 'P') {
			switch (u) {
			case 0: uSelAt(0, 0, 40); if (hasRef(40)) uGet(40); break;
			case 1: uSelAt(0, 1, 40); break;
			case 2: uSelAt(0, 0, 40); if (hasRef(40)) uRmRef(40, 0); break;
			default: break;
			}
		} else {
			size_t k = bs[0].ids.size();
			switch (u) {
			case 0: uMbAt(0, 0, 40); if (hasRef(40)) uGet(40); break;
			case 1: uMbAt(0, k, 40); break;
			case 2: if (k) { uMbAt(0, k - 1, 40); if (hasRef(40)) uRmRef(40, 0); } break;
			case 3: uMbIt(0, 0, 40); if (hasRef(40)) uGet(40); break;
			case 4: uMbIt(0, k, 40); break;                                               // the end position
			case 5: uMbAdv(0, k); uMbAdv(0, 0); break;
			case 6: uMbAdv(0, k + 1); if (k) { uMbIt(0, k - 1, 40); if (hasRef(40)) uGet(40); } break;
			default: break;
			}
		}
	}
	void enumerate() {
		for (int st = 0; st < NSTATE; ++st)
			for (int op = 0; op < NOP; ++op)
				for (int hk = 0; hk < NHANDLE; ++hk) {
					int nuse = (hk == 6) ? 3 : (hk == 7) ? 7 : (hk == 4 || hk == 5) ? 12 : 17;
					for (int u = 0; u < nuse; ++u) {
						build(st);
						char kind = makeHandle(hk, st);
						if (!kind) continue;
						if (!applyOp(op, st)) continue;
						applyUse(kind, u);
						c.stats.count("triples executed");
					}
				}
		for (int st = 0; st < NSTATE; ++st) { build(st); directedMisuse(); }
	}
	void randomHistory(int steps) {
		newScenario();
		const int N = 5;
		for (int i = 0; i < steps; ++i) {
			int o = (int)rng.below(2), d = (int)rng.below(N), h = (int)rng.below(N), h2 = (int)rng.below(N);
			size_t n = O(o).GetCount();
			int a = (int)rng.below(12), b = (int)rng.below(4);
			size_t any = rng.below(6) == 0 ? (rng.below(2) ? SMAX - rng.below(3) : n + 1 + rng.below(3)) : rng.below(n + 1);
			switch (rng.below(33)) {
			case 28: mUpdRowOf(o, (int)rng.below(2), any, a, b, d); break;
			case 29: if (hasB(h)) uMbAdv(h, rng.below(bs[h].ids.size() + 3)); break;
			case 30: if (hasB(h)) uMbIt(h, rng.below(bs[h].ids.size() + 2), d); break;
			case 0: case 1: case 2: case 3: mAdd(o, a, b, d); break;
			case 4: mInsert(o, any, a, b, d); break;
			case 5: mUpdRow(o, any, a, b, d); break;
			case 6: hAt(o, any, d); break;
			case 7: mRmNum(o, any); break;
			case 8: if (rng.below(4) == 0) mClear(o); break;
			case 9: mRmIf(o, 3 + (int)rng.below(3), (int)rng.below(3)); break;
			case 10: if (hasRef(h)) uGet(h); break;
			case 11: if (hasRef(h)) uUpdB(h, o, b); break;
			case 12: if (hasRef(h)) uRmRef(h, o); break;
			case 13: if (hasRef(h)) uMkMut(h, o, d); break;
			case 14: if (hasRef(h)) uNewRow(h); break;
			case 15: { std::vector<int> hs; for (int k = 0; k < N; ++k) if (hasRef(k) && rng.below(3) == 0) hs.push_back(k); if (rng.below(3) == 0) uRmRefs(o, rng.below(2) != 0, hs); break; }
			case 16: hSelect(o, 1 + (int)rng.below(3), 0, d); break;
			case 17: hFindU(o, a, d); break;
			case 18: if (hasSel(h)) uSelAt(h, rng.below(ss[h].ids.size() + 2), d); break;
			case 19: if (isSel(h) && hasRef(h2)) uSelSet(h, rng.below(ss[h].ids.size() + 2), h2); break;
			case 20: if (isSel(h) && hasRef(h2)) uSelAdd(h, h2); break;
			case 21: if (isSel(h) && hasRef(h2)) uSelIns(h, rng.below(ss[h].ids.size() + 2), h2); break;
			case 22: if (isSel(h)) { size_t k = ss[h].ids.size(); uSelRm(h, rng.below(k + 2), rng.below(5) == 0 ? SMAX - rng.below(k + 2) : rng.below(k + 2)); } break;
			case 23: if (isSel(h)) uSelRead(h); break;
			case 24: hFindM(o, b, d); break;
			case 25: if (hasB(h)) uMbAt(h, rng.below(bs[h].ids.size() + 2), d); break;
			case 26: if (isSel(h) && !ss[h].ids.empty() && rng.below(2) == 0) { size_t k = ss[h].ids.size(); size_t i = rng.below(k); uRmSelRange(h, i, 1 + rng.below(k - i), o, rng.below(2) != 0, N + 1); } break;
			case 27: quietReserve(o); break;
			default: mAdd(o, 20 + (int)rng.below(40), b, d); break;
			}
		}
		c.stats.count("random histories");
		if (rng.below(4) == 0) directedMisuse();
	}
};

template<typename CL>
static void runTable(Ctx& c, Rng& rng, const std::string& suite, const std::string& cfg) {
	TableRun<CL> r(c, rng, suite, cfg);
	r.enumerate();
	int n = c.thorough ? 600 : 100;
	for (int i = 0; i < n; ++i) r.randomHistory(c.thorough ? 200 : 100);
}
#endif

int main(int argc, char** argv) {
	Ctx c = parseArgs(argc, argv);
	Rng rng(c.seed * 0x1000 + 15 + VF_PART * 0x100);
#if VF_PART == 0
	runHash<SetAd<ModTraits<momo::HashBucketDefault, true>>>(c, rng, "set_default", "HashSet<default bucket>");
	runHash<SetAd<ModTraits<momo::HashBucketOpen8, true>>>(c, rng, "set_open8", "HashSet<Open8>");
	runHash<SetAd<ModTraits<momo::HashBucketLimP4<2>, false>>>(c, rng, "set_limp4_slowhash", "HashSet<LimP4<2>, slow hash>");
	runGrowthChecks<SetAd<GrowTraits<momo::HashBucketDefault>>>(c, "HashSet<default bucket>");
	runGrowthChecks<SetAd<GrowTraits<momo::HashBucketOpen8>>>(c, "HashSet<Open8>");
	runHolderChecks<SetAd<ModTraits<momo::HashBucketDefault, true>>>(c, "HashSet<default bucket>");
#elif VF_PART == 1
	runHash<MapAd<ModTraits<momo::HashBucketDefault, true>>>(c, rng, "map_default", "HashMap<default bucket>");
	runHash<MapAd<ModTraits<momo::HashBucketOpenN1<>, true>>>(c, rng, "map_openn1", "HashMap<OpenN1>");
	runGrowthChecks<MapAd<GrowTraits<momo::HashBucketDefault>>>(c, "HashMap<default bucket>");
	runGrowthChecks<MapAd<GrowTraits<momo::HashBucketLimP4<2>>>>(c, "HashMap<LimP4<2>>");
	runHolderChecks<MapAd<ModTraits<momo::HashBucketDefault, true>>>(c, "HashMap<default bucket>");
#elif VF_PART == 2
	runTree<TSetAd<momo::TreeTraits<uint32_t, false>>>(c, rng, "tset_default", "TreeSet<default node>");
	runTree<TSetAd<momo::TreeTraits<uint32_t, false, momo::TreeNode<4, 2>>>>(c, rng, "tset_small", "TreeSet<TreeNode<4,2>>");
	runHolderChecks<TSetAd<momo::TreeTraits<uint32_t, false>>>(c, "TreeSet<default node>");
#elif VF_PART == 6
	runTree<TSetAd<momo::TreeTraits<uint32_t, true, momo::TreeNode<4, 1>>>>(c, rng, "tmultiset_small", "TreeMultiSet<TreeNode<4,1>>");
	runTree<TMapAd<momo::TreeTraits<uint32_t, false, momo::TreeNode<6, 3>>>>(c, rng, "tmap_small", "TreeMap<TreeNode<6,3>>");
	runHolderChecks<TMapAd<momo::TreeTraits<uint32_t, false, momo::TreeNode<6, 3>>>>(c, "TreeMap<TreeNode<6,3>>");
#elif VF_PART == 8
	runTreeNV<TSetAd<momo::TreeTraits<uint32_t, false>, XTSetNV>>(c, rng, "tset_default_noversion", "TreeSet<default node, checkVersion=false>");
	runTreeNV<TSetAd<momo::TreeTraits<uint32_t, false, momo::TreeNode<4, 2>>, XTSetNV>>(c, rng, "tset_small_noversion", "TreeSet<TreeNode<4,2>, checkVersion=false>");
	runTreeNV<TSetAd<momo::TreeTraits<uint32_t, true, momo::TreeNode<4, 1>>, XTSetNV>>(c, rng, "tmultiset_small_noversion", "TreeMultiSet<TreeNode<4,1>, checkVersion=false>");
	runTreeNV<TMapAd<momo::TreeTraits<uint32_t, false, momo::TreeNode<6, 3>>, XTMapNV>>(c, rng, "tmap_small_noversion", "TreeMap<TreeNode<6,3>, checkVersion=false>");
#elif VF_PART == 3
	runMulti<ModTraitsM<momo::HashBucketDefault>>(c, rng, "mmap_default", "HashMultiMap<default bucket>");
	runMulti<ModTraitsM<momo::HashBucketOpen8>>(c, rng, "mmap_open8", "HashMultiMap<Open8>");
#elif VF_PART == 4
	{
		typedef momo::Array<uint32_t, MM, momo::ArrayItemTraits<uint32_t, MM>, XArr<0>> A0;
		typedef momo::Array<uint32_t, MM, momo::ArrayItemTraits<uint32_t, MM>, XArr<4>> A4;
		typedef momo::SegmentedArray<uint32_t, MM, momo::SegmentedArrayItemTraits<uint32_t, MM>, XSeg<momo::SegmentedArrayItemCountFunc::sqrt, 1>> S1;
		typedef momo::SegmentedArray<uint32_t, MM, momo::SegmentedArrayItemTraits<uint32_t, MM>, XSeg<momo::SegmentedArrayItemCountFunc::cnst, 2>> S2;
		{ ArrRun<A0, S1> r(c, rng, "arr_heap_segsqrt", "Array<index iterators> / SegmentedArray<sqrt,1>"); r.run(c.thorough); }
		{ ArrRun<A4, S2> r(c, rng, "arr_internal4_segcnst", "Array<internal capacity 4> / SegmentedArray<cnst,2>"); r.run(c.thorough); }
	}
#elif VF_PART == 5
	runTable<CLStatic>(c, rng, "table_static_rownumbers", "DataTable<static columns, keepRowNumber>");
#elif VF_PART == 7
	runTable<CLDynamic>(c, rng, "table_dynamic_nonumbers", "DataTable<dynamic columns, no row numbers>");
#endif
	return c.finish();
}
