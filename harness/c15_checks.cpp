// C15 correspondence harness: containers built with settings classes
//     checkMode = CheckMode::exception, checkVersion = true, extraCheckMode = nothing
// are driven through (state, invalidating operation, subsequent use) triples and through random histories.
// Every call is mirrored by an operation line for the Lean model `ver` (lean/Driver/Ver.lean); the model must
// print the same outcome (ok … / E:invalid_argument) and the same contents of both container objects after
// every line (model level).  Independently the harness keeps its own record of which crew (container state)
// was modified after a handle was made, by comparing snapshots of the real containers (property level):
//   * a handle whose container changed (contents, capacity, layout flags) since it was made, a handle of another
//     container, an end/empty handle where an element is required, an out-of-range index
//         => the call must throw std::invalid_argument and leave both containers exactly as they were
//   * a handle made after the last modifying entry point and used with valid arguments => must not throw
//   * in between (an entry point that increments a version without changing anything): model level only.
// What the abstract model cannot know (iteration order of a hash table, capacity chosen by a growth) is read from
// the real container after the call and written into the operation line.
// VF_PART: 0 HashSet, 1 HashMap, 2 TreeSet/TreeMap, 3 HashMultiMap, 4 Array (index iterators) / SegmentedArray, 5 DataTable
#ifndef VF_PART
#define VF_PART 0
#endif

#include "momo/HashSet.h"
#include "momo/HashMap.h"
#include "momo/TreeSet.h"
#include "momo/TreeMap.h"
#include "momo/HashMultiMap.h"
#include "momo/Array.h"
#include "momo/SegmentedArray.h"
#include "momo/DataTable.h"
#include "common/verif_common.h"

#include <algorithm>
#include <functional>
#include <memory>
#include <set>
#include <map>
#include <unistd.h>
#include <sys/wait.h>

using namespace vf;
typedef momo::MemManagerDefault MM;

static const std::string BAD = "E:invalid_argument";

// runs f; returns "" when it returned normally, the canonical exception tag otherwise
template<typename F> static std::string guard(F&& f) {
	try { f(); return ""; }
	catch (const std::invalid_argument&) { return BAD; }
	catch (const std::bad_alloc&) { return "E:bad_alloc"; }
	catch (const std::length_error&) { return "E:length"; }
	catch (const std::out_of_range&) { return "E:out_of_range"; }
	catch (const std::runtime_error&) { return "E:runtime"; }
	catch (const std::exception&) { return "E:other"; }
}

static std::string listStr(const std::vector<uint32_t>& v) {
	std::string r = "[";
	for (size_t i = 0; i < v.size(); ++i) { if (i) r += ' '; r += std::to_string(v[i]); }
	return r + "]";
}

// ------------------------------------------------------------------------------------------------------------
// bookkeeping shared by all parts: op/answer lines, property-level judgement of every use
struct Judge {
	Ctx& c; Suite& s; std::string cfg;
	std::string scen;          // op lines of the current scenario (for FAIL messages)
	std::string lastMut;       // name of the last mutating entry point (coverage key)
	Judge(Ctx& c_, Suite& s_, const std::string& cfg_) : c(c_), s(s_), cfg(cfg_) {}
	void begin() { scen.clear(); lastMut = "none"; }
	void line(const std::string& op, const std::string& res) { s.op(op); s.res(res); if (scen.size() < 3000) { scen += op; scen += "; "; } }
	void mut(const std::string& name) { lastMut = name; c.stats.count("entry point: " + name); }
	// must: +1 must reject, -1 must accept, 0 no property-level judgement
	void judge(int must, const std::string& outcome, bool unchanged, const std::string& op, const std::string& why, const std::string& handleKind) {
		bool rejected = outcome == BAD;
		c.stats.evaluations++;
		if (!outcome.empty() && !rejected)
			c.fail("C15 %s: unexpected exception %s from %s; history: %s", cfg.c_str(), outcome.c_str(), op.c_str(), scen.c_str());
		if (rejected && !unchanged)
			c.fail("C15 %s: a call that threw invalid_argument changed a container: %s (%s); history: %s", cfg.c_str(), op.c_str(), why.c_str(), scen.c_str());
		if (must > 0 && !rejected)
			c.fail("C15 %s: misuse not reported (%s): %s; history: %s", cfg.c_str(), why.c_str(), op.c_str(), scen.c_str());
		if (must < 0 && rejected)
			c.fail("C15 %s: valid use rejected: %s; history: %s", cfg.c_str(), op.c_str(), scen.c_str());
		if (must > 0) c.stats.count("must reject: " + why);
		else if (must < 0) c.stats.count("must accept (fresh handle / valid argument)");
		else c.stats.count("model only: " + why);
		std::string use = op.substr(0, op.find(' '));
		c.stats.nontrivial(cfg + "|" + lastMut + "|" + use + "|" + handleKind + "|" + (must > 0 ? why : must < 0 ? "accept" : "model"));
		if (must > 0 && c.stats.samples.size() < 10) c.stats.sample(cfg + ": " + scen);
	}
};

// crews are identified by the address of their version cell; `Mods` records, per crew, the serial number of the last
// entry point that changed it (`mod`) and of the last one that ran a version increment without changing it (`touch`)
struct Mods {
	std::map<const void*, uint64_t> mod, touch;
	uint64_t serial = 0;
	void clear() { mod.clear(); touch.clear(); serial = 0; }
	bool stale(const void* cell, uint64_t born) const { auto it = mod.find(cell); return it != mod.end() && it->second > born; }
	bool touched(const void* cell, uint64_t born) const { auto it = touch.find(cell); return it != touch.end() && it->second > born; }
};

// ============================================================================================================
#if VF_PART == 0 || VF_PART == 1
// ---------------------------------------------------------------- HashSet / HashMap

struct XSet : public momo::HashSetSettings {
	static const momo::CheckMode checkMode = momo::CheckMode::exception;
	static const momo::ExtraCheckMode extraCheckMode = momo::ExtraCheckMode::nothing;
	static const bool checkVersion = true;
};
struct XMap : public momo::HashMapSettings {
	static const momo::CheckMode checkMode = momo::CheckMode::exception;
	static const momo::ExtraCheckMode extraCheckMode = momo::ExtraCheckMode::nothing;
	static const bool checkVersion = true;
};

// keys k and k + 1000 are equal for the traits (ResetKey needs an equal key that is a different value)
template<typename HashBucket, bool tFast>
struct ModTraits : public momo::HashTraits<uint32_t, HashBucket> {
	static const bool isFastNothrowHashable = tFast;
	template<typename ItemTraits>
	using Bucket = typename HashBucket::template Bucket<ItemTraits, !isFastNothrowHashable>;
	size_t GetHashCode(const uint32_t& key) const { return (size_t)(key % 1000) * 0x9E3779B97F4A7C15ull; }
	bool IsEqual(const uint32_t& a, const uint32_t& b) const { return a % 1000 == b % 1000; }
};

template<typename Traits>
struct SetAd {
	typedef momo::HashSet<uint32_t, Traits, MM, momo::HashSetItemTraits<uint32_t, MM>, XSet> C;
	typedef typename C::ConstIterator It;
	typedef typename C::ConstPosition Pos;
	typedef typename C::ExtractedItem Ext;
	typedef C HS;
	static HS& hs(C& c) { return c; }
	static const typename HS::ConstIterator& sit(const It& it) { return it; }
	static uint32_t key(const It& it) { return *it; }
	static std::pair<Pos, bool> insert(C& c, uint32_t k, int variant) {
		switch (variant % 4) {
		case 0: { auto r = c.Insert(k); return { r.position, r.inserted }; }
		case 1: { uint32_t t = k; auto r = c.Insert(std::move(t)); return { r.position, r.inserted }; }
		case 2: { auto r = c.InsertVar(k, k); return { r.position, r.inserted }; }
		default: { auto r = c.InsertCrt(k, [k](uint32_t* p) { *p = k; }); return { r.position, r.inserted }; }
		}
	}
	static std::pair<Pos, bool> insertExt(C& c, Ext& e) { auto r = c.Insert(std::move(e)); return { r.position, r.inserted }; }
	static void insertRange(C& c, const std::vector<uint32_t>& ks, int variant) {
		if (variant % 2 == 1 && ks.size() == 2) c.Insert({ ks[0], ks[1] });
		else c.Insert(ks.begin(), ks.end());
	}
	static Pos add(C& c, Pos p, uint32_t k, int variant) {
		switch (variant % 4) {
		case 0: return c.Add(p, k);
		case 1: { uint32_t t = k; return c.Add(p, std::move(t)); }
		case 2: return c.AddVar(p, k);
		default: return c.AddCrt(p, [k](uint32_t* q) { *q = k; });
		}
	}
	static Pos addExt(C& c, Pos p, Ext& e) { return c.Add(p, std::move(e)); }
	static It removeExt(C& c, It it, Ext& e) { return c.Remove(it, e); }
	static void extract(C& c, Pos p) { Ext x = c.Extract(p); }
	static size_t removeIf(C& c, uint32_t m, uint32_t r) { return c.Remove([m, r](const uint32_t& x) { return x % m == r; }); }
	static void fillExt(Ext& e, uint32_t k) { e.Clear(); e.Create([k](uint32_t* q) { *q = k; }); }
};

template<typename Traits>
struct MapAd {
	typedef momo::HashMap<uint32_t, uint32_t, Traits, MM, momo::HashMapKeyValueTraits<uint32_t, uint32_t, MM>, XMap> C;
	typedef typename C::ConstIterator It;
	typedef typename C::ConstPosition Pos;
	typedef typename C::ExtractedPair Ext;
	typedef decltype(C::mHashSet) HS;
	static HS& hs(C& c) { return c.mHashSet; }
	static const typename HS::ConstIterator& sit(const It& it) { return it.mHashSetIterator; }
	static uint32_t key(const It& it) { return it->key; }
	static std::pair<Pos, bool> insert(C& c, uint32_t k, int variant) {
		switch (variant % 5) {
		case 0: { auto r = c.Insert(k, k + 1); return { r.position, r.inserted }; }
		case 1: { uint32_t t = k; auto r = c.Insert(std::move(t), k + 1); return { r.position, r.inserted }; }
		case 2: { auto r = c.InsertVar(k, k + 1); return { r.position, r.inserted }; }
		case 3: { bool had = c.ContainsKey(k); if (!had) c[k] = k + 1; return { c.Find(k), !had }; }
		default: { auto r = c.InsertCrt(k, [k](uint32_t* p) { *p = k + 1; }); return { r.position, r.inserted }; }
		}
	}
	static std::pair<Pos, bool> insertExt(C& c, Ext& e) { auto r = c.Insert(std::move(e)); return { r.position, r.inserted }; }
	static void insertRange(C& c, const std::vector<uint32_t>& ks, int variant) {
		std::vector<std::pair<uint32_t, uint32_t>> ps;
		for (uint32_t k : ks) ps.push_back({ k, k + 1 });
		if (variant % 2 == 1 && ps.size() == 2) c.Insert({ ps[0], ps[1] });
		else c.Insert(ps.begin(), ps.end());
	}
	static Pos add(C& c, Pos p, uint32_t k, int variant) {
		switch (variant % 3) {
		case 0: return c.Add(p, k, k + 1);
		case 1: return c.AddVar(p, k, k + 1);
		default: return c.AddCrt(p, k, [k](uint32_t* q) { *q = k + 1; });
		}
	}
	static Pos addExt(C& c, Pos p, Ext& e) { return c.Add(p, std::move(e)); }
	static It removeExt(C& c, It it, Ext& e) { return c.Remove(it, e); }
	static void extract(C& c, Pos p) { Ext x = c.Extract(p); }
	static size_t removeIf(C& c, uint32_t m, uint32_t r) { return c.Remove([m, r](const uint32_t& x, const uint32_t&) { return x % m == r; }); }
	static void fillExt(Ext& e, uint32_t k) { e.Clear(); e.Create([k](uint32_t* q, uint32_t* v) { *q = k; *v = k + 1; }); }
};

enum { H_ELEM = 0, H_EMPTY = 1, H_NULL = 2 };
static const char* hkName(int k) { return k == H_ELEM ? "element" : k == H_EMPTY ? "empty-position" : "null"; }

template<typename Ad>
struct HashRun {
	typedef typename Ad::C C;
	typedef typename Ad::It It;
	typedef typename Ad::Pos Pos;
	typedef typename Ad::Ext Ext;
	Ctx& c; Rng& rng; Suite s; Judge j; Mods mods;
	std::unique_ptr<C> obj[2];
	std::unique_ptr<Ext> ext[2];
	struct Slot { It it; const void* cell = nullptr; int kind = H_NULL; uint64_t born = 0; };
	std::vector<Slot> slots;

	HashRun(Ctx& c_, Rng& r, const std::string& suite, const std::string& cfg)
		: c(c_), rng(r), s(c_, suite, "model ver fam=hash"), j(c_, s, cfg) {}

	C& O(int o) { return *obj[o]; }
	static char on(int o) { return o ? 'B' : 'A'; }
	const void* cellOf(int o) { return Ad::hs(O(o)).mCrew.GetVersion(); }
	std::vector<uint32_t> keys(int o) { std::vector<uint32_t> v; for (auto it = O(o).GetBegin(); !!it; ++it) v.push_back(Ad::key(it)); std::sort(v.begin(), v.end()); return v; }
	std::string tail() {
		return " | A=" + listStr(keys(0)) + " c" + std::to_string(O(0).GetCapacity()) + " B=" + listStr(keys(1)) + " c" + std::to_string(O(1).GetCapacity());
	}
	static bool hasElem(const It& it) { const auto& si = Ad::sit(it); return si.mBucketIterator != decltype(si.mBucketIterator)(); }
	static int kindOf(const It& it) { if (hasElem(it)) return H_ELEM; return Ad::sit(it).mContainerVersion == nullptr ? H_NULL : H_EMPTY; }
	// description of a handle that was just produced (its element is alive)
	static std::string desc(const It& it) {
		if (hasElem(it)) return "e" + std::to_string(Ad::key(it)) + (Ad::sit(it).mBuckets != nullptr ? "m" : "");
		return kindOf(it) == H_NULL ? "null" : "empty";
	}
	void store(int d, const It& it) {
		if ((int)slots.size() <= d) slots.resize(d + 1);
		Slot& sl = slots[d];
		sl.it = it; sl.cell = Ad::sit(it).mContainerVersion; sl.kind = kindOf(it); sl.born = mods.serial;
	}
	struct Snap {
		std::vector<uint32_t> k[2]; size_t cap[2]; const void* cell[2];
		bool operator==(const Snap& o) const { return k[0] == o.k[0] && k[1] == o.k[1] && cap[0] == o.cap[0] && cap[1] == o.cap[1] && cell[0] == o.cell[0] && cell[1] == o.cell[1]; }
	};
	Snap snap() { Snap x; for (int o = 0; o < 2; ++o) { x.k[o] = keys(o); x.cap[o] = O(o).GetCapacity(); x.cell[o] = cellOf(o); } return x; }
	// after a mutating entry point on the objects in `objs`: which crews changed; `quiet` = the entry point does not
	// increment a version when nothing changes
	void note(const Snap& before, bool quiet, int objMask) {
		Snap after = snap();
		++mods.serial;
		for (int o = 0; o < 2; ++o) {
			int p = (after.cell[o] == before.cell[o]) ? o : 1 - o;    // Swap exchanges the crews
			if (after.k[o] != before.k[p] || after.cap[o] != before.cap[p]) mods.mod[after.cell[o]] = mods.serial;
			else if (!quiet && (objMask & (1 << o))) mods.touch[after.cell[o]] = mods.serial;
		}
	}

	void newScenario() {
		slots.clear(); mods.clear();
		ext[0].reset(); ext[1].reset(); obj[0].reset(); obj[1].reset();
		obj[0].reset(new C()); obj[1].reset(new C());
		ext[0].reset(new Ext()); ext[1].reset(new Ext());
		j.begin();
		j.line("new", "ok" + tail());
	}

	// ---- handle creation (const entry points)
	void hFind(int o, uint32_t k, int d) { It it = It(O(o).Find(k)); store(d, it); j.line(fmt("find %c %u %d", on(o), k, d), "ok " + desc(it) + tail()); }
	void hBegin(int o, int d) {
		It it = O(o).GetBegin(); store(d, it);
		j.line(fmt("begin %c %s %d", on(o), (!!it ? std::to_string(Ad::key(it)) : std::string("0")).c_str(), d), "ok " + desc(it) + tail());
	}
	void hEnd(int o, int d) { It it = O(o).GetEnd(); store(d, it); j.line(fmt("end %c %d", on(o), d), "ok " + desc(it) + tail()); }
	void hMakePos(int o, uint32_t k, int d) {
		It it = It(O(o).MakePosition(O(o).GetHashTraits().GetHashCode(k))); store(d, it);
		j.line(fmt("mkpos %c %d", on(o), d), "ok " + desc(it) + tail());
	}

	// ---- mutating entry points without a handle argument (never expected to throw)
	void mInsert(int o, uint32_t k, int d) {
		Snap b = snap();
		auto r = Ad::insert(O(o), k, (int)rng.below(20));
		note(b, true, 1 << o); store(d, It(r.first));
		j.mut(r.second ? "Insert(new key)" : "Insert(existing key)");
		j.line(fmt("ins %c %u %zu %d", on(o), k, O(o).GetCapacity(), d), fmt("ok %d ", (int)r.second) + desc(It(r.first)) + tail());
	}
	void mInsertRange(int o, const std::vector<uint32_t>& ks) {
		Snap b = snap();
		Ad::insertRange(O(o), ks, (int)rng.below(4));
		note(b, true, 1 << o);
		std::string l = fmt("insr %c %zu", on(o), O(o).GetCapacity());
		for (uint32_t k : ks) l += " " + std::to_string(k);
		j.mut(b.k[o] == keys(o) ? "Insert(range, nothing new)" : "Insert(range)");
		j.line(l, "ok" + tail());
	}
	void mRemoveKey(int o, uint32_t k) {
		Snap b = snap(); bool r = O(o).Remove(k); note(b, true, 1 << o);
		j.mut(r ? "Remove(key present)" : "Remove(key absent)");
		j.line(fmt("rmk %c %u", on(o), k), fmt("ok %d", (int)r) + tail());
	}
	void mRemoveIf(int o, uint32_t m, uint32_t r) {
		Snap b = snap(); size_t n = Ad::removeIf(O(o), m, r); note(b, true, 1 << o);
		j.mut(n ? "Remove(filter, some)" : "Remove(filter, none)");
		j.line(fmt("rmif %c %u %u", on(o), m, r), fmt("ok %zu", n) + tail());
	}
	void mClear(int o, bool shrink) {
		Snap b = snap(); O(o).Clear(shrink); note(b, false, 1 << o);
		j.mut(shrink ? "Clear(shrink)" : "Clear(keep buckets)");
		j.line(fmt("clear %c %d", on(o), (int)shrink), "ok" + tail());
	}
	void mReserve(int o, size_t n) {
		Snap b = snap(); O(o).Reserve(n); note(b, true, 1 << o);
		j.mut(n > b.cap[o] ? "Reserve(growth)" : "Reserve(no growth)");
		j.line(fmt("reserve %c %zu %zu", on(o), n, O(o).GetCapacity()), "ok" + tail());
	}
	void mSwap() {
		Snap b = snap(); if (rng.below(2)) O(0).Swap(O(1)); else swap(O(0), O(1)); note(b, true, 3);
		j.mut("Swap"); j.line("swap", "ok" + tail());
	}
	void mMerge(int src) {
		Snap b = snap();
		if (rng.below(2)) O(src).MergeTo(O(1 - src)); else O(1 - src).MergeFrom(O(src));
		note(b, true, 3);
		j.mut(b.k[src] == keys(src) ? (src ? "MergeFrom(nothing moved)" : "MergeTo(nothing moved)") : (src ? "MergeFrom(keys moved)" : "MergeTo(keys moved)"));
		j.line(fmt("merge %c %zu", on(src), O(1 - src).GetCapacity()), "ok" + tail());
	}
	void mMergeSelf(int o) { Snap b = snap(); O(o).MergeTo(O(o)); note(b, true, 1 << o); j.mut("MergeTo(itself)"); j.line(fmt("mergeself %c", on(o)), "ok" + tail()); }
	void mInsertExt(int o, uint32_t k, bool full, int d) {
		if (full) Ad::fillExt(*ext[o], k); else ext[o]->Clear();
		Snap before = snap();
		std::string res;
		std::string ex = guard([&] { auto r = Ad::insertExt(O(o), *ext[o]); store(d, It(r.first)); res = fmt("ok %d ", (int)r.second) + desc(It(r.first)); });
		if (ex.empty()) note(before, true, 1 << o);
		std::string opline = fmt("insx %c %d %u %zu %d", on(o), (int)full, k, O(o).GetCapacity(), d);
		j.mut(full ? "Insert(extracted item)" : "Insert(empty extracted item)");
		j.line(opline, (ex.empty() ? res : ex) + tail());
		j.judge(full ? -1 : 1, ex, before == snap(), opline, "empty extracted-item holder", "none");
	}
	void uBuckets(int o, size_t idx) {
		size_t bc = O(o).GetBucketCount();
		Snap before = snap();
		std::string ex = guard([&] { (void)O(o).GetBucketBounds(idx); });
		std::string opline = fmt("bb %c %zu %zu", on(o), idx, bc);
		j.line(opline, (ex.empty() ? "ok" : ex) + tail());
		j.judge(idx < bc ? -1 : 1, ex, before == snap(), opline, "out-of-range bucket index", "index");
		std::string ex2 = guard([&] { (void)O(o).GetBucketIndex(5); });
		std::string op2 = fmt("bi %c", on(o));
		j.line(op2, (ex2.empty() ? "ok" : ex2) + tail());
		j.judge(O(o).GetCapacity() != 0 ? -1 : 1, ex2, before == snap(), op2, "bucket index of a table without buckets", "index");
	}

	// ---- entry points that take a handle.  elemNeed: +1 needs an element handle, -1 an empty position, 0 any;
	// `mkline` builds the op line after the call (it may contain what the call produced)
	bool use(int h, int target, int elemNeed, bool nullAllowed, bool extOk, bool mutating, bool bumps,
		std::function<std::string()> call, std::function<std::string(bool)> mkline) {
		Slot sl = slots[h];
		Snap before = snap();
		bool foreign = target >= 0 && sl.kind != H_NULL && sl.cell != before.cell[target];
		bool stale = sl.kind != H_NULL && mods.stale(sl.cell, sl.born);
		bool touched = sl.kind != H_NULL && mods.touched(sl.cell, sl.born);
		std::string res;
		std::string ex = guard([&] { res = call(); });
		Snap after = snap();
		if (mutating && ex.empty() && bumps) note(before, true, target >= 0 ? (1 << target) : 0);
		std::string opline = mkline(ex.empty());
		j.line(opline, (ex.empty() ? res : ex) + tail());
		int must; std::string why;
		if (stale) { must = 1; why = "stale handle"; }
		else if (foreign) { must = 1; why = "handle of another container"; }
		else if (sl.kind == H_NULL && !nullAllowed) { must = 1; why = "end/null iterator where an element is required"; }
		else if (elemNeed > 0 && sl.kind == H_EMPTY) { must = 1; why = "empty position where an element is required"; }
		else if (elemNeed < 0 && sl.kind == H_ELEM) { must = 1; why = "element position where an empty one is required"; }
		else if (!extOk) { must = 1; why = "extracted-item holder in the wrong state"; }
		else if (target >= 0 && elemNeed > 0 && before.cap[target] == 0) { must = 1; why = "table without buckets"; }
		else if (touched) { must = 0; why = "version incremented without a change"; }
		else { must = -1; }
		j.judge(must, ex, before == after, opline, why, hkName(sl.kind));
		return ex == BAD;
	}
	std::string nxt(const It& r) { return !!r ? std::to_string(Ad::key(r)) : std::string("-"); }

	bool uDeref(int h) {
		return use(h, -1, +1, false, true, false, false, [&] { return "ok " + std::to_string(Ad::key(slots[h].it)); }, [&](bool) { return fmt("deref %d", h); });
	}
	bool uInc(int h, int d) {
		It r;
		return use(h, -1, +1, false, true, false, false,
			[&] { It it = slots[h].it; if (rng.below(2)) ++it; else it++; r = it; store(d, it); return "ok " + desc(it); },
			[&](bool ok) { return fmt("inc %d %s %d", h, ok ? nxt(r).c_str() : "-", d); });
	}
	bool uCheck(int h, int o, bool ae) {
		return use(h, o, 0, ae, true, false, false, [&] { O(o).CheckIterator(slots[h].it, ae); return std::string("ok"); }, [&](bool) { return fmt("check %c %d %d", on(o), h, (int)ae); });
	}
	bool uAdd(int h, int o, uint32_t k, int d) {
		bool r = use(h, o, -1, false, true, true, true,
			[&] { Pos p = Ad::add(O(o), Pos(slots[h].it), k, (int)rng.below(12)); store(d, It(p)); return "ok " + desc(It(p)); },
			[&](bool) { return fmt("add %c %d %u %zu %d", on(o), h, k, O(o).GetCapacity(), d); });
		if (!r) j.mut("Add(position)");
		return r;
	}
	bool uAddExt(int h, int o, uint32_t k, bool full, int d) {
		if (full) Ad::fillExt(*ext[o], k); else ext[o]->Clear();
		bool r = use(h, o, -1, false, full, true, true,
			[&] { Pos p = Ad::addExt(O(o), Pos(slots[h].it), *ext[o]); store(d, It(p)); return "ok " + desc(It(p)); },
			[&](bool) { return fmt("addx %c %d %d %u %zu %d", on(o), h, (int)full, k, O(o).GetCapacity(), d); });
		if (!r) j.mut("Add(position, extracted item)");
		return r;
	}
	bool uRemove(int h, int o, int d) {
		It r;
		bool rej = use(h, o, +1, false, true, true, true,
			[&] { r = O(o).Remove(slots[h].it); store(d, r); return "ok " + desc(r); },
			[&](bool ok) { return fmt("rm %c %d %s %d", on(o), h, ok ? nxt(r).c_str() : "-", d); });
		if (!rej) j.mut("Remove(iterator)");
		return rej;
	}
	bool uRemovePos(int h, int o, int d) {
		bool rej = use(h, o, +1, false, true, true, true,
			[&] { Pos p = slots[h].it; O(o).Remove(p); store(d, It()); return std::string("ok null"); },
			[&](bool) { return fmt("rm %c %d - %d", on(o), h, d); });
		if (!rej) j.mut("Remove(position)");
		return rej;
	}
	bool uExtract(int h, int o, int d) {
		bool rej = use(h, o, +1, false, true, true, true,
			[&] { Pos p = slots[h].it; Ad::extract(O(o), p); store(d, It()); return std::string("ok null"); },
			[&](bool) { return fmt("rm %c %d - %d", on(o), h, d); });
		if (!rej) j.mut("Extract(position)");
		return rej;
	}
	bool uRemoveExt(int h, int o, bool holderFull, int d) {
		if (holderFull) Ad::fillExt(*ext[o], 777); else ext[o]->Clear();
		It r;
		bool rej = use(h, o, +1, false, !holderFull, true, true,
			[&] { r = Ad::removeExt(O(o), slots[h].it, *ext[o]); store(d, r); return "ok " + desc(r); },
			[&](bool ok) { return fmt("rmx %c %d %d %s %d", on(o), h, (int)holderFull, ok ? nxt(r).c_str() : "-", d); });
		if (!rej) j.mut("Remove(iterator, extracted item)");
		return rej;
	}
	bool uResetKey(int h, int o, uint32_t k) {
		bool rej = use(h, o, +1, false, true, true, false,
			[&] { O(o).ResetKey(Pos(slots[h].it), k); return std::string("ok"); },
			[&](bool) { return fmt("rk %c %d %u", on(o), h, k); });
		if (!rej) j.mut("ResetKey");
		return rej;
	}

	// ------------------------------------------------------------------------------------------------ enumeration
	static const int NSTATE = 5, NHANDLE = 8, NOP = 34, NUSE = 18;
	std::vector<uint32_t> stateKeys(int st) {
		switch (st) {
		case 0: case 1: return {};
		case 2: return { 5 };
		case 3: return { 5, 12, 23, 31, 40 };
		default: { std::vector<uint32_t> v; for (uint32_t i = 0; i < 14; ++i) v.push_back(3 + 7 * i); return v; }
		}
	}
	void build(int st) {
		newScenario();
		std::vector<uint32_t> ks = stateKeys(st);
		int d = 30;
		for (uint32_t k : ks) mInsert(0, k, d);
		if (st == 1) { mInsert(0, 5, d); mRemoveKey(0, 5); }          // empty, but with buckets
		if (st >= 3) { mInsert(1, 12, d); mInsert(1, 50, d); mInsert(1, 61, d); }   // B overlaps A in key 12
	}
	// makes the handle under test in slot 0; false when the kind does not exist in this state
	bool makeHandle(int hk, int st) {
		std::vector<uint32_t> ks = stateKeys(st);
		switch (hk) {
		case 0: if (ks.empty()) return false; hFind(0, ks[ks.size() / 2], 0); return true;      // element position
		case 1: hFind(0, 77, 0); return true;                                                  // empty position
		case 2: hBegin(0, 0); return true;                                                     // movable iterator (or null)
		case 3: hEnd(0, 0); return true;                                                       // null
		case 4: if (ks.empty()) return false; mInsert(0, ks[0], 0); return true;               // position returned by a failed insert
		case 5: hMakePos(0, 78, 0); return true;                                               // MakePosition
		case 6: hFind(1, 50, 0); return true;                                                  // element / empty position of B
		default: if (ks.size() < 2) return false; hBegin(0, 1); uInc(1, 0); return true;       // advanced iterator
		}
	}
	// the (possibly) invalidating operation; false when not applicable in this state
	bool applyOp(int op, int st) {
		std::vector<uint32_t> ks = stateKeys(st);
		bool hasB = st >= 3;
		switch (op) {
		case 0: return true;                                                   // nothing
		case 1: mInsert(0, 90, 31); return true;
		case 2: if (ks.empty()) return false; mInsert(0, ks.back(), 31); return true;
		case 3: mInsertRange(0, { 91, 92 }); return true;
		case 4: if (ks.size() < 2) return false; mInsertRange(0, { ks[0], ks[1] }); return true;
		case 5: mInsertExt(0, 93, true, 31); return true;
		case 6: if (ks.empty()) return false; mInsertExt(0, ks[0], true, 31); return true;
		case 7: mInsertExt(0, 94, false, 31); return true;
		case 8: hFind(0, 95, 20); uAdd(20, 0, 95, 21); return true;
		case 9: hFind(0, 96, 20); uAddExt(20, 0, 96, true, 21); return true;
		case 10: if (ks.empty()) return false; hBegin(0, 20); uRemove(20, 0, 21); return true;
		case 11: if (ks.empty()) return false; hFind(0, ks.back(), 20); uRemovePos(20, 0, 21); return true;
		case 12: if (ks.empty()) return false; hFind(0, ks.back(), 20); uRemoveExt(20, 0, false, 21); return true;
		case 13: if (ks.empty()) return false; hFind(0, ks.back(), 20); uExtract(20, 0, 21); return true;
		case 14: if (ks.empty()) return false; mRemoveKey(0, ks.back()); return true;
		case 15: mRemoveKey(0, 97); return true;
		case 16: if (ks.empty()) return false; mRemoveIf(0, 2, ks.back() % 2); return true;
		case 17: mRemoveIf(0, 1000, 999); return true;
		case 18: {   // ResetKey of an element other than the one the handle under test points at
			if (ks.size() < 2) return false;
			uint32_t mine = (slots[0].kind == H_ELEM && slots[0].cell == cellOf(0)) ? Ad::key(slots[0].it) : 0xFFFFFFFFu;
			uint32_t k = ks.back() != mine ? ks.back() : ks[0];
			hFind(0, k, 20); uResetKey(20, 0, k + 1000); return true; }
		case 19: mClear(0, true); return true;
		case 20: mClear(0, false); return true;
		case 21: mReserve(0, O(0).GetCapacity()); return true;
		case 22: mReserve(0, O(0).GetCapacity() + 1); return true;
		case 23: mReserve(0, 200); return true;
		case 24: mMerge(0); return true;                                        // A is the source
		case 25: mMerge(1); return true;                                        // A is the destination
		case 26: mMergeSelf(0); return true;
		case 27: mSwap(); return true;
		case 28: mSwap(); mSwap(); return true;
		case 29: (void)O(0).ContainsKey(5); { size_t n = 0; for (auto it = O(0).GetBegin(); !!it; ++it) ++n; (void)n; } hFind(0, 12, 22); return true;   // const entry points only
		case 30: if (!hasB) return false; mInsert(1, 98, 31); return true;      // modification of the OTHER container
		case 31: if (!hasB) return false; mClear(1, true); return true;
		case 32: if (ks.empty()) return false; mRemoveKey(0, ks[0]); mInsert(0, ks[0], 31); return true;    // same contents again
		default: { size_t n = ks.size(); for (uint32_t i = 0; i < 12; ++i) mInsert(0, 200 + i, 31); (void)n; return true; }   // several growth steps
		}
	}
	void applyUse(int u) {
		switch (u) {
		case 0: uDeref(0); break;
		case 1: uInc(0, 40); break;
		case 2: uCheck(0, 0, true); break;
		case 3: uCheck(0, 0, false); break;
		case 4: uCheck(0, 1, false); break;
		case 5: uAdd(0, 0, slots[0].kind == H_EMPTY ? addKey() : 77, 40); break;
		case 6: uAddExt(0, 0, addKey(), true, 40); break;
		case 7: uAddExt(0, 0, addKey(), false, 40); break;
		case 8: uRemove(0, 0, 40); break;
		case 9: uRemovePos(0, 0, 40); break;
		case 10: uRemoveExt(0, 0, false, 40); break;
		case 11: uRemoveExt(0, 0, true, 40); break;
		case 12: uExtract(0, 0, 40); break;
		case 13: uResetKey(0, 0, resetTarget()); break;
		case 14: uRemove(0, 1, 40); break;
		case 15: uAdd(0, 1, 77, 40); break;
		case 16: uBuckets(0, O(0).GetBucketCount()); break;
		default: uBuckets(0, O(0).GetBucketCount() > 0 ? O(0).GetBucketCount() - 1 : 0); break;
		}
	}
	// the key a fresh empty position of kind 1 / 5 stands for (a stale one is rejected before the key matters)
	uint32_t addKey() { return handleKeyHint; }
	uint32_t resetTarget() { return slots[0].kind == H_ELEM && !mods.stale(slots[0].cell, slots[0].born) && hasElem(slots[0].it) && slots[0].cell == cellOf(0) ? Ad::key(slots[0].it) + 1000 : 1005; }
	uint32_t handleKeyHint = 77;

	void enumerate(bool thorough) {
		for (int st = 0; st < NSTATE; ++st)
			for (int op = 0; op < NOP; ++op)
				for (int hk = 0; hk < NHANDLE; ++hk)
					for (int u = 0; u < NUSE; ++u) {
						if (!thorough && st == 4 && (u % 3 != (op + hk) % 3)) continue;    // quick tier: a third of the uses on the large state
						build(st);
						handleKeyHint = hk == 5 ? 78 : 77;
						if (!makeHandle(hk, st)) continue;
						if (!applyOp(op, st)) continue;
						applyUse(u);
						c.stats.count("triples executed");
					}
	}

	// random histories: a pool of handles made at random moments, used at random later moments
	void randomHistory(int steps) {
		newScenario();
		int nslots = 6;
		for (int d = 0; d < nslots; ++d) hEnd(0, d);
		for (int i = 0; i < steps; ++i) {
			int o = (int)rng.below(2);
			uint32_t k = (uint32_t)rng.below(24);
			int d = (int)rng.below(nslots);
			switch (rng.below(22)) {
			case 0: case 1: case 2: mInsert(o, k, d); break;
			case 3: hFind(o, k, d); break;
			case 4: hBegin(o, d); break;
			case 5: mRemoveKey(o, k); break;
			case 6: if (rng.below(4) == 0) mClear(o, rng.below(2)); break;
			case 7: mReserve(o, rng.below(40)); break;
			case 8: if (rng.below(3) == 0) mSwap(); break;
			case 9: if (rng.below(3) == 0) mMerge(o); break;
			case 10: uDeref(d); break;
			case 11: uInc(d, (int)rng.below(nslots)); break;
			case 12: uRemove(d, o, (int)rng.below(nslots)); break;
			case 13: { // Add needs the key of the position: only positions made by Find(k) of an absent key carry one
				hFind(o, k, nslots); if (slots[nslots].kind == H_EMPTY) uAdd(nslots, o, k, d); break; }
			case 14: uCheck(d, o, rng.below(2)); break;
			case 15: uRemoveExt(d, o, rng.below(3) == 0, (int)rng.below(nslots)); break;
			case 16: if (slots[d].kind != H_EMPTY) uAdd(d, o, 500 + (uint32_t)i, (int)rng.below(nslots)); break;   // (an empty position stands for one hash code only)
			case 17: mRemoveIf(o, 3, (uint32_t)rng.below(3)); break;
			case 18: mInsertRange(o, { k, k + 1 }); break;
			case 19: uExtract(d, o, (int)rng.below(nslots)); break;
			case 20: hMakePos(o, k, d); break;
			default: uBuckets(o, rng.below(40)); break;
			}
		}
		c.stats.count("random histories");
	}
};

template<typename Ad>
static void runHash(Ctx& c, Rng& rng, const std::string& suite, const std::string& cfg) {
	HashRun<Ad> r(c, rng, suite, cfg);
	r.enumerate(c.thorough);
	int n = c.thorough ? 400 : 60;
	for (int i = 0; i < n; ++i) r.randomHistory(c.thorough ? 160 : 80);
}
#endif

int main(int argc, char** argv) {
	Ctx c = parseArgs(argc, argv);
	Rng rng(c.seed * 0x1000 + 15 + VF_PART * 0x100);
#if VF_PART == 0
	runHash<SetAd<ModTraits<momo::HashBucketDefault, true>>>(c, rng, "set_default", "HashSet<default bucket>");
	runHash<SetAd<ModTraits<momo::HashBucketOpen8, true>>>(c, rng, "set_open8", "HashSet<Open8>");
	runHash<SetAd<ModTraits<momo::HashBucketLimP4<2>, false>>>(c, rng, "set_limp4_slowhash", "HashSet<LimP4<2>, slow hash>");
#elif VF_PART == 1
	runHash<MapAd<ModTraits<momo::HashBucketDefault, true>>>(c, rng, "map_default", "HashMap<default bucket>");
	runHash<MapAd<ModTraits<momo::HashBucketOpenN1<>, true>>>(c, rng, "map_openn1", "HashMap<OpenN1>");
#endif
	return c.finish();
}
