// C03 / C04 correspondence harness for the ledger layer over the hash-table model (lean/Momo/Model/HTLedger.lean,
// engine `htledger`): momo::HashSet / HashMap under a recording, fault-injecting memory manager and instrumented
// element types. After EVERY operation the implementation line carries, besides the result and the table summary of the
// C01 harness (count, capacity, generations, layout checksum):
//   k / kb   number / bytes of the outstanding manager blocks of known purpose - the bucket array of every generation of
//            both containers, their BucketParams blocks, their crew blocks - each looked up BY ADDRESS in the manager's
//            ledger and checked against the size the container must have requested (pvGetBufferSize(logCount),
//            sizeof(BucketParams), sizeof(Crew::Data))
//   x / xb   number / bytes of all other outstanding blocks (= memory-pool buffers of the chained bucket kinds; must be 0
//            for the open-addressing kinds and One). Which buffers a pool holds is MemPool's business (C09): buffers obtained /
//            given back during an operation are reported to the model as tokens (ag= af= bg= bf=), EXCEPT where the hash
//            table's own code determines them - Clear (with and without shrink), destruction, a failed copy construction,
//            the old contents of an assigned-to container: there the model gives back every buffer without being told
//   el       live element objects (instrumented key types), dc / dd constructor / destructor runs during the operation
//            (open-addressing kinds and One; the chained kinds also relocate a bucket's items when its storage grows)
// and the model must print the same line. Faults: bucket array / BucketParams / crew block / pool buffer refused, throwing
// copy, throwing assignment (Replace), throwing hash and equality functors, failures inside the migration to a larger table
// (several generations alive), copy construction failing at every stage. Property-level oracle: the manager's ledger
// (unknown / wrong-size deallocation, outstanding blocks at the end), element counters, strong guarantee (count and
// ledger unchanged after a failed single-element operation), reference std::map.
#define MOMO_INCLUDE_OLD_HASH_BUCKETS
#include <cstring>
#include "momo/HashSet.h"
#include "momo/HashMap.h"
#include "common/verif_elems.h"

#include <map>
#include <set>
#include <optional>
#include <algorithm>

#ifndef VF_PART
#define VF_PART 0
#endif

using namespace vf;

// ---------------------------------------------------------------- recording memory manager
struct Blk { size_t size; uint64_t serial; };
struct LMState {
	std::map<void*, Blk> live;
	uint64_t serial = 0;
	size_t refuseSize = 0;	// one-shot: the next allocation of exactly this size is refused
	long refuseAfter = -1;	// one-shot: the (n+1)-th allocation of another size is refused
	std::vector<size_t> refusedSizes;
	size_t badDealloc = 0;
	void disarm() { refuseSize = 0; refuseAfter = -1; refusedSizes.clear(); }
	bool refused(size_t size) const { for (size_t x : refusedSizes) if (x == size) return true; return false; }
	size_t bytes() const { size_t b = 0; for (auto& kv : live) b += kv.second.size; return b; }
};
inline LMState& lm() { static LMState s; return s; }

class LedMM {
public:
	explicit LedMM() noexcept {}
	LedMM(LedMM&&) = default;
	LedMM(const LedMM&) = default;
	~LedMM() = default;
	LedMM& operator=(const LedMM&) = delete;
	void* Allocate(size_t size) {
		LMState& s = lm();
		if (s.refuseSize != 0 && size == s.refuseSize) { s.refuseSize = 0; s.refusedSizes.push_back(size); throw std::bad_alloc(); }
		if (s.refuseAfter >= 0 && size != s.refuseSize) {
			if (s.refuseAfter == 0) { s.refuseAfter = -1; s.refusedSizes.push_back(size); throw std::bad_alloc(); }
			--s.refuseAfter;
		}
		void* p = std::malloc(size);
		if (!p) throw std::bad_alloc();
		s.live[p] = Blk{ size, ++s.serial };
		return p;
	}
	void Deallocate(void* p, size_t size) noexcept {
		LMState& s = lm();
		auto it = s.live.find(p);
		if (it == s.live.end() || it->second.size != size) { ++s.badDealloc; return; }
		s.live.erase(it);
		std::free(p);
	}
};

// ---------------------------------------------------------------- a copy-only element whose assignment can throw
struct AssignCtl { long countdown = -1; bool fired = false; };
inline AssignCtl& ac() { static AssignCtl a; return a; }
struct ElemTA {
	uint32_t id; uint32_t state;
	explicit ElemTA(uint32_t i = 0) : id(i), state(0xA11CE) { ++ec().live; ++ec().constructed; }
	ElemTA(const ElemTA& o) : id((copyPoint(), o.id)), state(0xA11CE) { ++ec().live; ++ec().constructed; ++ec().copies; }
	ElemTA& operator=(const ElemTA& o) {
		if (ac().countdown == 0) { ac().countdown = -1; ac().fired = true; throw std::runtime_error("assign"); }
		if (ac().countdown > 0) --ac().countdown;
		id = o.id; state = 0xA11CE; return *this;
	}
	~ElemTA() { state = 0xDEAD; --ec().live; ++ec().destroyed; }
};

struct EqCtl { long countdown = -1; bool fired = false; };
inline EqCtl& qc() { static EqCtl q; return q; }

struct NoExtra : public momo::HashSetSettings { static const momo::ExtraCheckMode extraCheckMode = momo::ExtraCheckMode::nothing; };
struct NoExtraMap : public momo::HashMapSettings { static const momo::ExtraCheckMode extraCheckMode = momo::ExtraCheckMode::nothing; };

template<typename Key, typename HashBucket, bool tFast, unsigned tLogStart>
struct FamTraits : public momo::HashTraits<Key, HashBucket>
{
	static const bool isFastNothrowHashable = tFast;
	template<typename ItemTraits>
	using Bucket = typename HashBucket::template Bucket<ItemTraits, !isFastNothrowHashable>;
	size_t GetLogStartBucketCount() const noexcept { return tLogStart; }
	size_t GetHashCode(const Key& key) const { return famHash(idOf(key)); }
	bool IsEqual(const Key& a, const Key& b) const {
		if (qc().countdown == 0) { qc().countdown = -1; qc().fired = true; throw std::domain_error("equal"); }
		if (qc().countdown > 0) --qc().countdown;
		return idOf(a) == idOf(b);
	}
};

static uint64_t mixh(uint64_t h, uint64_t x) { return h * 1000003ull + x + 1; }

template<typename T> struct IsCounted : std::false_type {};
template<> struct IsCounted<ElemNM> : std::true_type {};
template<> struct IsCounted<ElemCO> : std::true_type {};
template<> struct IsCounted<ElemTA> : std::true_type {};

// ---------------------------------------------------------------- adapters (temporaries are made by the caller, outside the measured operation)
template<typename Key, typename Traits>
struct SetAd {
	typedef momo::HashSet<Key, Traits, LedMM, momo::HashSetItemTraits<Key, LedMM>, NoExtra> C;
	typedef C HS;
	static const bool isMap = false;
	C c;
	HS& hs() { return c; }
	bool insert(Key&& key, uint32_t) { return c.Insert(std::move(key)).inserted; }
	std::optional<uint32_t> find(const Key& key) { auto p = c.Find(key); if (!p) return std::nullopt; return 0u; }
	bool remove(const Key& key) { return c.Remove(key); }
	size_t removePred(uint32_t m, uint32_t r) { return c.Remove([m, r](const Key& x) { return idOf(x) % m == r; }); }
	template<typename Item> static uint32_t keyOf(const Item& it) { return idOf(it); }
	template<typename Item> static uint32_t valOf(const Item&) { return 0; }
	typename C::ExtractedItem handle;
	std::optional<uint32_t> extract(const Key& key) { auto p = c.Find(key); if (!p) return std::nullopt; c.Remove(typename C::ConstIterator(p), handle); return 0u; }
	bool hasHandle() { return !handle.IsEmpty(); }
	uint32_t handleKey() { return idOf(handle.GetItem()); }
	bool reinsert() { return c.Insert(std::move(handle)).inserted; }
	void dropHandle() { handle.Clear(); }
};

template<typename Key, typename Traits>
struct MapAd {
	typedef momo::HashMap<Key, uint32_t, Traits, LedMM, momo::HashMapKeyValueTraits<Key, uint32_t, LedMM>, NoExtraMap> C;
	typedef decltype(C::mHashSet) HS;
	static const bool isMap = true;
	C c;
	HS& hs() { return c.mHashSet; }
	bool insert(Key&& key, uint32_t v) { return c.Insert(std::move(key), v).inserted; }
	std::optional<uint32_t> find(const Key& key) { auto p = c.Find(key); if (!p) return std::nullopt; return p->value; }
	bool remove(const Key& key) { return c.Remove(key); }
	size_t removePred(uint32_t m, uint32_t r) { return c.Remove([m, r](const Key& x, const uint32_t&) { return idOf(x) % m == r; }); }
	template<typename Item> static uint32_t keyOf(const Item& it) { return idOf(*it.GetKeyPtr()); }
	template<typename Item> static uint32_t valOf(const Item& it) { return *it.GetValuePtr(); }
	typename C::ExtractedPair handle;
	std::optional<uint32_t> extract(const Key& key) { auto p = c.Find(key); if (!p) return std::nullopt; c.Remove(typename C::ConstIterator(p), handle); return handle.GetValue(); }
	bool hasHandle() { return !handle.IsEmpty(); }
	uint32_t handleKey() { return idOf(handle.GetKey()); }
	bool reinsert() { return c.Insert(std::move(handle)).inserted; }
	void dropHandle() { handle.Clear(); }
};

// ---------------------------------------------------------------- layout of the real table (as in c01_hash.cpp)
struct GenInfo { size_t L; size_t count; };

template<typename Ad, typename HS>
static uint64_t layoutSum(HS& s, std::vector<GenInfo>* gens)
{
	typedef typename HS::Bucket Bucket;
	uint64_t h = 0;
	Bucket fresh;
	for (auto* bk = s.mBuckets; bk != nullptr; bk = bk->GetNextBuckets()) {
		size_t L = bk->GetLogCount(), n = bk->GetCount(), cnt = 0;
		h = mixh(mixh(h, 7777), L);
		auto& params = bk->GetBucketParams();
		for (size_t i = 0; i < n; ++i) {
			Bucket& b = (*bk)[i];
			auto bounds = b.GetBounds(params);
			size_t c = bounds.GetCount();
			cnt += c;
			bool wf = b.WasFull();
			size_t mp = b.GetMaxProbe(L);
			if (c == 0 && wf == fresh.WasFull() && mp == fresh.GetMaxProbe(L)) continue;
			h = mixh(mixh(h, i), wf ? 1 : 0);
			h = mixh(h, mp);
			for (size_t j = 0; j < c; ++j) h = mixh(mixh(h, Ad::keyOf(bounds[j])), Ad::valOf(bounds[j]));
		}
		if (gens) gens->push_back(GenInfo{L, cnt});
	}
	return h;
}

template<typename Ad>
static std::string summary(Ad& a)
{
	std::vector<GenInfo> gens;
	uint64_t s = layoutSum<Ad>(a.hs(), &gens);
	std::string g;
	for (size_t i = 0; i < gens.size(); ++i) g += fmt(i ? ",%zu" : "%zu", gens[i].L);
	return fmt("c=%zu cap=%zu g=%s s=%llu", a.hs().GetCount(), a.hs().GetCapacity(), g.c_str(), (unsigned long long)s);
}

template<typename Bucket>
static size_t fullFromByPools()
{
	Bucket fresh;
	if (fresh.WasFull()) return 0;
	size_t top = Bucket::pvGetMemPoolIndex(Bucket::maxCount);
	for (size_t c = 1; c <= Bucket::maxCount; ++c) if (Bucket::pvGetMemPoolIndex(c) == top) return c;
	return Bucket::maxCount;
}

// LimP4: every non-empty bucket owns exactly one block of one of the four memory pools of BucketParams
template<typename Params, typename = void> struct LiveBlocks { static long get(Params&) { return -1; } };
template<typename Params> struct LiveBlocks<Params, std::void_t<decltype(std::declval<Params&>().template GetMemPool<4>())>> {
	static long get(Params& p) {
		return (long)(p.template GetMemPool<1>().GetAllocateCount() + p.template GetMemPool<2>().GetAllocateCount()
			+ p.template GetMemPool<3>().GetAllocateCount() + p.template GetMemPool<4>().GetAllocateCount());
	}
};
template<typename HS> static long poolBlocks(HS& s) {
	if (s.mBuckets == nullptr) return 0;
	return LiveBlocks<typename HS::BucketParams>::get(s.mBuckets->GetBucketParams());
}

template<typename Crew> static auto crewPtrOf(Crew& c, int) -> decltype((void*)c.mData) { return (void*)c.mData; }
template<typename Crew> static void* crewPtrOf(Crew&, long) { return nullptr; }

// ---------------------------------------------------------------- the manager's ledger seen from the containers
struct Extra { void* p; uint64_t serial; size_t size; };

struct LedView {
	size_t known = 0, knownBytes = 0, extra = 0, extraBytes = 0;
	std::set<void*> knownPtrs;
};

// every block the container must own, looked up by address; a missing block or a wrong size is a violation of C03
template<typename Ad>
static void ownBlocks(Ctx& c, const char* suite, const char* which, Ad& a, LedView& v, size_t crewSize)
{
	typedef typename Ad::HS HS;
	auto need = [&](void* p, size_t size, const char* what) {
		auto it = lm().live.find(p);
		if (it == lm().live.end()) { c.fail("C03 ownership: %s: the %s of container %s is not an outstanding block of the memory manager", suite, what, which); return; }
		if (it->second.size != size) c.fail("C03 ownership: %s: the %s of container %s was requested with %zu bytes, the container expects %zu", suite, what, which, it->second.size, size);
		if (v.knownPtrs.insert(p).second) { ++v.known; v.knownBytes += it->second.size; }
	};
	HS& s = a.hs();
	for (auto* bk = s.mBuckets; bk != nullptr; bk = bk->GetNextBuckets()) need((void*)bk, HS::Buckets::pvGetBufferSize(bk->GetLogCount()), "bucket array");
	if (s.mBuckets != nullptr) need((void*)&s.mBuckets->GetBucketParams(), sizeof(typename HS::BucketParams), "BucketParams block");
	void* crew = crewPtrOf(s.mCrew, 0);
	if (crew != nullptr) need(crew, crewSize, "crew block");
}

struct Cfg { const char* kind; unsigned n; const char* elem; const char* cat; bool fast; bool isMap; unsigned logStart; size_t fullFrom; bool chained; };

// ---------------------------------------------------------------- one run
template<typename Ad, typename Key>
static void runConfig(Ctx& c, Rng& rng, const Cfg& cfg, unsigned fam, unsigned keyRange, unsigned nOps, unsigned runNo)
{
	typedef typename Ad::HS HS;
	hc().fam = fam; hc().throwCountdown = -1; hc().fired = false;
	lm().disarm(); ec().copyCountdown = -1; ac().countdown = -1; qc().countdown = -1;
	const bool relocatable = HS::ItemTraits::isNothrowRelocatable;
	const bool counted = IsCounted<Key>::value;
	const bool assignable = momo::internal::ObjectManager<Key, LedMM>::isNothrowAnywayAssignable;
	const size_t bsz = HS::Buckets::pvGetBufferSize(1) - HS::Buckets::pvGetBufferSize(0);
	const size_t hdr = HS::Buckets::pvGetBufferSize(0) - bsz;
	const size_t psz = sizeof(typename HS::BucketParams);
	size_t csz = 0;
	{ size_t before = lm().live.size(); uint64_t ser = lm().serial; Ad probe; if (lm().live.size() == before + 1) for (auto& kv : lm().live) if (kv.second.serial > ser) csz = kv.second.size; }
	std::string suiteName = fmt("%s%u_%s_%s%s_h%u_r%u", cfg.kind, cfg.n, cfg.elem, cfg.isMap ? "map" : "set", cfg.fast ? "" : "_slow", fam, runNo);
	const bool hasPb = std::strcmp(cfg.kind, "LimP4") == 0;
	Suite s(c, suiteName, fmt("model htledger kind=%s n=%u isz=%zu ial=%zu part=%d fast=%d reloc=%d fullFrom=%zu logstart=%u hash=%u cat=%s assign=%d hdr=%zu bsz=%zu psz=%zu csz=%zu chained=%d counted=%d pb=%d",
		cfg.kind, cfg.n, sizeof(typename HS::Item), (size_t)HS::ItemTraits::alignment, cfg.fast ? 0 : 1, cfg.fast ? 1 : 0,
		relocatable ? 1 : 0, cfg.fullFrom, cfg.logStart, fam, cfg.cat, assignable ? 1 : 0, hdr, bsz, psz, csz, cfg.chained ? 1 : 0, counted ? 1 : 0, hasPb ? 1 : 0));
	if (HS::areItemsNothrowRelocatable != (cfg.fast && relocatable && HS::Bucket::isNothrowAddableIfNothrowCreatable))
		c.fail("harness: areItemsNothrowRelocatable mismatch in %s", suiteName.c_str());
	if (cfg.chained == HS::Bucket::isNothrowAddableIfNothrowCreatable)
		c.fail("harness: 'chained' flag of %s does not match the bucket kind", suiteName.c_str());
	const size_t baseBlocks = lm().live.size();
	std::string history;
	{
		Ad A, B;
		std::map<uint32_t, uint32_t> refA, refB;
		std::optional<std::pair<uint32_t, uint32_t>> refHandle;
		uint32_t serial = 1;
		std::vector<Extra> extraA, extraB;	// pool buffers attributed to A / B, newest first (the order of the model's books)
		long ctor0 = 0, dtor0 = 0, opDc = 0, opDd = 0;
		uint64_t serial0 = 0;
		// begin() .. freeze() bracket the operation itself: temporaries of the harness are made before and die after
		auto begin = [&]() { ctor0 = ec().constructed; dtor0 = ec().destroyed; serial0 = lm().serial; opDc = opDd = -1; };
		auto freeze = [&]() { opDc = ec().constructed - ctor0; opDd = ec().destroyed - dtor0; };
		// which list new extra blocks of the operation go to, which lists are given up wholesale by the operation
		enum Owner { toA, toB };
		auto tail = [&](Owner newTo, std::string& opToks) {
			LedView v;
			ownBlocks(c, suiteName.c_str(), "A", A, v, csz);
			ownBlocks(c, suiteName.c_str(), "B", B, v, csz);
			// extra blocks now
			std::map<void*, Blk> extraNow;
			for (auto& kv : lm().live) if (!v.knownPtrs.count(kv.first)) extraNow.insert(kv);
			v.extra = extraNow.size() - baseBlocks; for (auto& kv : extraNow) v.extraBytes += kv.second.size;
			if (cfg.chained) {
				// gets: blocks allocated during the operation that are still outstanding
				std::vector<Extra>& dst = (newTo == toA) ? extraA : extraB;
				std::vector<std::pair<uint64_t, Extra>> fresh;
				for (auto& kv : extraNow) if (kv.second.serial > serial0) fresh.push_back({ kv.second.serial, Extra{ kv.first, kv.second.serial, kv.second.size } });
				std::sort(fresh.begin(), fresh.end(), [](auto& x, auto& y) { return x.first < y.first; });
				for (auto& f : fresh) { dst.insert(dst.begin(), f.second); opToks += fmt(newTo == toA ? " ag=%zu" : " bg=%zu", f.second.size); }
				// frees: attributed blocks that are gone
				for (int side = 0; side < 2; ++side) {
					std::vector<Extra>& lst = side == 0 ? extraA : extraB;
					for (size_t i = 0; i < lst.size();) {
						auto it = lm().live.find(lst[i].p);
						if (it == lm().live.end() || it->second.serial != lst[i].serial) { opToks += fmt(side == 0 ? " af=%zu" : " bf=%zu", i); lst.erase(lst.begin() + (long)i); }
						else ++i;
					}
				}
			}
			if (opDc < 0) freeze();
			long dc = opDc, dd = opDd;
			std::string cnt = counted ? fmt("el=%ld dc=%s dd=%s", ec().live, cfg.chained ? "~" : fmt("%ld", dc).c_str(), cfg.chained ? "~" : fmt("%ld", dd).c_str()) : std::string("el=~ dc=~ dd=~");
			// LimP4: live memory-pool blocks (MemPool::GetAllocateCount of the four pools of both containers) = non-empty buckets
			std::string pb = hasPb ? fmt(" pb=%ld", poolBlocks(A.hs()) + poolBlocks(B.hs())) : std::string(" pb=~");
			return " | A " + summary(A) + " | B " + summary(B) + fmt(" | led k=%zu kb=%zu x=%zu xb=%zu ", v.known, v.knownBytes, v.extra, v.extraBytes) + cnt + pb;
		};
		auto ledgerSnapshot = [&]() { return std::make_pair(lm().live.size(), (long)ec().live); };
		auto fullCheck = [&](const char* when) {
			if (A.hs().GetCount() != refA.size()) c.fail("C01 count: %s %s: GetCount=%zu expected %zu", suiteName.c_str(), when, A.hs().GetCount(), refA.size());
			for (auto& kv : refA) { Key key(kv.first); auto f = A.find(key); if (!f) { c.fail("C01 lookup: %s %s: present key %u not found", suiteName.c_str(), when, kv.first); break; } }
			if (counted && (size_t)ec().live != refA.size() + refB.size() + (refHandle ? 1 : 0))
				c.fail("C03 elements: %s %s: %ld element objects alive, the containers and the handle hold %zu", suiteName.c_str(), when, ec().live, refA.size() + refB.size() + (refHandle ? 1 : 0));
		};
		// scripted prologue: generations pile up (migration failing at once), as in the C11 harness
		std::vector<std::pair<uint32_t, long>> script;
		if (!relocatable && runNo % 2 == 0) {
			unsigned nPile = 30 + (unsigned)rng.below(40);
			for (unsigned i = 0; i < nPile; ++i) script.push_back({ keyRange + 1000 + i, 1 });
			for (unsigned i = 0; i < 8; ++i) script.push_back({ keyRange + 2000 + i, 2 + (long)rng.below(6) });
			std::reverse(script.begin(), script.end());
		}
		const unsigned totalOps = nOps + (unsigned)script.size();
		for (unsigned step = 0; step < totalOps; ++step) {
			unsigned r = (unsigned)rng.below(100);
			uint32_t k = (uint32_t)rng.below(keyRange);
			long forcedCopy = -1;
			if (!script.empty()) { r = 0; k = script.back().first; forcedCopy = script.back().second; script.pop_back(); }
			std::string op, res, toks;
			Owner newTo = toA;
			std::vector<GenInfo> before; layoutSum<Ad>(A.hs(), &before);
			size_t gensBefore = before.size();
			if (forcedCopy < 0 && gensBefore >= 2 && rng.chance(3, 4)) {
				r = 0;
				for (unsigned t = 0; t < 8 && refA.count(k); ++t) k = (uint32_t)rng.below(keyRange);
			}
			if (r < 40) {
				// ---- insert into A (or, one time in eight, into B), possibly under a fault
				bool intoB = forcedCopy < 0 && gensBefore < 2 && rng.chance(1, 8);
				Ad& T = intoB ? B : A; auto& ref = intoB ? refB : refA;
				if (intoB) { before.clear(); layoutSum<Ad>(T.hs(), &before); newTo = toB; }
				uint32_t v = Ad::isMap ? serial++ : 0;
				bool present = ref.count(k) != 0;
				size_t countBefore = T.hs().GetCount();
				const size_t growSize = HS::Buckets::pvGetBufferSize(T.hs().pvGetNewLogBucketCount());
				if (forcedCopy >= 0) ec().copyCountdown = forcedCopy;
				else if (before.size() >= 2 && (!relocatable || !cfg.fast) && rng.chance(4, 5)) {
					if (!relocatable && (cfg.fast || rng.chance(1, 2))) ec().copyCountdown = 1 + (long)rng.below(3);
					else if (!cfg.fast) hc().throwCountdown = 1 + (long)rng.below(4);
				}
				else if (rng.chance(1, 3)) {
					unsigned w = (unsigned)rng.below(12);
					if (w < 4 || w == 8) lm().refuseSize = growSize;
					if ((w >= 4 && w < 7) || w == 8) lm().refuseAfter = (long)rng.below(4);
					if (w == 7) ec().copyCountdown = (long)rng.below(3);
					if (w == 9 && !cfg.fast) hc().throwCountdown = (long)rng.below(6);
					if (w == 10) qc().countdown = (long)rng.below(3);
					if (w == 11 && !cfg.fast) hc().throwCountdown = 0;
				}
				else if (T.hs().GetCount() >= T.hs().GetCapacity() && T.hs().GetCount() > 0 && rng.chance(1, 2)) {
					long inside = 1 + (long)rng.below(T.hs().GetCount());
					if (!cfg.fast && rng.chance(1, 2)) hc().throwCountdown = inside;
					else if (!relocatable) ec().copyCountdown = inside;
					else lm().refuseAfter = 1 + (long)rng.below(3);
				}
				auto snap = ledgerSnapshot();
				std::string out;
				bool threwUser = false;
				{
					Key key(k);
					auto snapIn = ledgerSnapshot();
					begin();
					try { bool ins = T.insert(std::move(key), v); out = ins ? "1" : "0"; if (ins) ref[k] = v; }
					catch (const std::bad_alloc&) { out = "E:throw"; }
					catch (const std::runtime_error& e) { std::string w = e.what(); out = (w == "copy" || w == "assign") ? "E:throw" : "E:runtime"; }
					catch (const std::domain_error&) { out = "E:user"; threwUser = true; }
					freeze();
					bool firedG = lm().refused(growSize), firedP = before.empty() && lm().refused(psz) && psz != growSize, firedC = ec().firedCopy;
					bool firedOther = false; for (size_t x : lm().refusedSizes) if (x != growSize && !(before.empty() && x == psz)) firedOther = true;
					bool firedH = hc().fired, firedE = qc().fired;
					lm().disarm(); ec().copyCountdown = -1; ec().firedCopy = false; hc().throwCountdown = -1; hc().fired = false; qc().countdown = -1; qc().fired = false;
					std::vector<GenInfo> after; layoutSum<Ad>(T.hs(), &after);
					if (threwUser) toks += firedE ? " fe" : " fh";
					else {
						if (firedG) toks += " fg";
						if (firedP) toks += " fp";
						if (out == "E:throw" && (firedC || firedOther)) toks += " fa";
						if (out == "1" && after.size() >= 2) {
							bool grew = before.empty() || after[0].L != before[0].L;
							size_t oldBefore = 0;
							if (grew) oldBefore = countBefore; else for (size_t i = 1; i < before.size(); ++i) oldBefore += before[i].count;
							size_t oldAfter = 0; for (size_t i = 1; i < after.size(); ++i) oldAfter += after[i].count;
							toks += fmt(" rs=%zu", oldBefore - oldAfter);
							c.stats.count("fault.migration_interrupted");
						}
					}
					if (firedG) c.stats.count("fault.array_refused");
					if (firedP) c.stats.count("fault.params_refused");
					if (firedOther) c.stats.count("fault.pool_buffer_refused");
					if (firedC) c.stats.count("fault.copy_threw");
					if (firedH) c.stats.count("fault.hash_threw");
					if (firedE) c.stats.count("fault.equal_threw");
					if (out == "E:runtime") c.stats.count("fault.table_full");
					// C04: a failed insertion leaves count, element objects and - for buckets without pools - the manager's blocks as they were
					if (out != "1" && out != "0") {
						c.stats.nontrivial(fmt("%s insert %s", cfg.kind, out.c_str()) + toks);
						if (T.hs().GetCount() != countBefore) c.fail("C04 strong: %s insert %u failed (%s) but the count changed %zu -> %zu", suiteName.c_str(), k, out.c_str(), countBefore, T.hs().GetCount());
						if (counted && ledgerSnapshot().second != snapIn.second) c.fail("C04 strong: %s insert %u failed (%s) but %ld element objects are alive, %ld before", suiteName.c_str(), k, out.c_str(), ledgerSnapshot().second, snapIn.second);
						if (!cfg.chained && ledgerSnapshot().first != snap.first) c.fail("C04 strong: %s insert %u failed (%s) but %zu blocks are outstanding, %zu before", suiteName.c_str(), k, out.c_str(), ledgerSnapshot().first, snap.first);
					}
					if (present && out != "0" && !threwUser) c.fail("C01 insert: %s key %u present but insert answered %s", suiteName.c_str(), k, out.c_str());
					if (!present && out == "0") c.fail("C01 insert: %s key %u absent but insert answered 0", suiteName.c_str(), k);
					if (after.size() >= 2 || before.size() >= 2) c.stats.count("state.ops_with_2plus_generations");
					if (after.size() >= 3) c.stats.count("state.ops_with_3plus_generations");
					res = out;
				}
				op = fmt(intoB ? "insb %u %u" : "ins %u %u", k, v);
			}
			else if (r < 52) {
				Key key(k);
				begin();
				if (rng.chance(1, 8) && !cfg.fast) hc().throwCountdown = 0;
				else if (rng.chance(1, 8)) qc().countdown = 0;
				std::string out;
				try { auto f = A.find(key); out = f ? "1" : "0"; auto it = refA.find(k); if ((it != refA.end()) != (bool)f) c.fail("C01 lookup: %s key %u", suiteName.c_str(), k); }
				catch (const std::domain_error&) { out = "E:user"; }
				freeze();
				if (out == "E:user") toks += qc().fired ? " fe" : " fh";
				hc().throwCountdown = -1; hc().fired = false; qc().countdown = -1; qc().fired = false;
				op = fmt("find %u", k); res = out;
			}
			else if (r < 68) {
				Key key(k);
				begin();
				if (!assignable && rng.chance(1, 3)) ac().countdown = 0;
				else if (rng.chance(1, 10)) qc().countdown = (long)rng.below(2);
				size_t countBefore = A.hs().GetCount(); auto snap = ledgerSnapshot();
				std::string out;
				try { bool rem = A.remove(key); out = rem ? "1" : "0"; if (rem != (refA.count(k) != 0)) c.fail("C01 remove: %s key %u: Remove answered %d", suiteName.c_str(), k, rem ? 1 : 0); if (rem) refA.erase(k); }
				catch (const std::runtime_error&) { out = "E:throw"; toks += " fr"; c.stats.count("fault.assign_threw"); }
				catch (const std::domain_error&) { out = "E:user"; toks += " fe"; c.stats.count("fault.equal_threw"); }
				freeze();
				ac().countdown = -1; ac().fired = false; qc().countdown = -1; qc().fired = false;
				if (out != "1" && out != "0") {
					c.stats.nontrivial(fmt("%s remove %s", cfg.kind, out.c_str()));
					if (A.hs().GetCount() != countBefore || ledgerSnapshot() != snap) c.fail("C04 strong: %s remove %u failed (%s) but count / blocks / elements changed", suiteName.c_str(), k, out.c_str());
				}
				op = fmt("rem %u", k); res = out;
			}
			else if (r < 71) {
				uint32_t m = (uint32_t)rng.range(2, 5), rr = (uint32_t)rng.below(m);
				begin();
				if (!assignable && rng.chance(1, 2)) ac().countdown = (long)rng.below(4);
				size_t countBefore = A.hs().GetCount();
				std::string out;
				try { size_t n = A.removePred(m, rr); out = fmt("%zu", n); }
				catch (const std::runtime_error&) { size_t n = countBefore - A.hs().GetCount(); out = fmt("E:throw %zu", n); toks += fmt(" at=%zu fr", n); c.stats.count("fault.assign_threw"); }
				freeze();
				ac().countdown = -1; ac().fired = false;
				// the reference follows the container (which elements went is checked through the model's layout checksum)
				{ size_t gone = 0; for (auto it = refA.begin(); it != refA.end();) { Key key(it->first); if (!A.find(key)) { if (it->first % m != rr) c.fail("C10 remove-if: %s removed key %u which the filter rejects", suiteName.c_str(), it->first); it = refA.erase(it); ++gone; } else ++it; }
				  (void)gone; }
				op = fmt("rempred %u %u", m, rr); res = out;
			}
			else if (r < 75) {
				size_t cap = (size_t)rng.below(keyRange * 2 + 8);
				size_t countBefore = A.hs().GetCount();
				size_t rnl = A.hs().pvGetNewLogBucketCount();
				while (A.hs().GetHashTraits().CalcCapacity(size_t{1} << rnl, HS::bucketMaxItemCount) < cap) ++rnl;
				const size_t growSize = HS::Buckets::pvGetBufferSize(rnl);
				begin();
				if (rng.chance(1, 3) && cap > A.hs().GetCapacity()) {
					unsigned w = (unsigned)rng.below(4);
					if (w == 0) lm().refuseSize = growSize;
					else if (w == 1 && before.empty()) lm().refuseSize = psz;
					else { lm().refuseAfter = (long)rng.range(1, 4); if (!cfg.fast) hc().throwCountdown = (long)rng.below(5); if (!relocatable) ec().copyCountdown = (long)rng.below(5); }
				}
				auto snap = ledgerSnapshot();
				std::string out = "1";
				try { A.hs().Reserve(cap); } catch (const std::bad_alloc&) { out = "E:throw"; }
				bool firedG = lm().refused(growSize), firedP = before.empty() && lm().refused(psz) && psz != growSize;
				lm().disarm(); hc().throwCountdown = -1; hc().fired = false; ec().copyCountdown = -1; ec().firedCopy = false;
				std::vector<GenInfo> after; layoutSum<Ad>(A.hs(), &after);
				if (firedG) toks += " fg";
				if (firedP) toks += " fp";
				if (out == "1" && after.size() >= 2) {
					bool grew = before.empty() || after[0].L != before[0].L;
					size_t oldBefore = 0;
					if (grew) oldBefore = countBefore; else for (size_t i = 1; i < before.size(); ++i) oldBefore += before[i].count;
					size_t oldAfter = 0; for (size_t i = 1; i < after.size(); ++i) oldAfter += after[i].count;
					toks += fmt(" rs=%zu", oldBefore - oldAfter);
					c.stats.count("fault.migration_interrupted");
				}
				if (out == "E:throw") {
					c.stats.nontrivial(fmt("%s reserve E:throw", cfg.kind) + toks);
					if (A.hs().GetCount() != countBefore || ledgerSnapshot() != snap) c.fail("C04 strong: %s Reserve(%zu) failed but count / blocks / elements changed", suiteName.c_str(), cap);
				}
				op = fmt("reserve %zu", cap); res = out;
			}
			else if (r < 78) {
				bool shrink = rng.chance(1, 2);
				begin();
				A.hs().Clear(shrink); refA.clear();
				extraA.clear();	// Clear gives back every pool buffer: the model is not told, it must know
				op = fmt("clear %d", shrink ? 1 : 0); res = "ok";
				if (shrink) {
					c.stats.count("clear_with_shrink");
					LedView v; ownBlocks(c, suiteName.c_str(), "A", A, v, csz);
					if (v.known != (csz ? 1u : 0u)) c.fail("C03 clear: %s Clear(true) left %zu blocks of container A besides its crew", suiteName.c_str(), v.known - (csz ? 1 : 0));
				}
			}
			else if (r < 84) {
				if (!refHandle) {
					Key key(k);
					begin();
					if (!relocatable && rng.chance(1, 3)) { if (rng.chance(1, 2)) ec().copyCountdown = 0; else if (!assignable) ac().countdown = 0; }
					size_t countBefore = A.hs().GetCount(); auto snap = ledgerSnapshot();
					std::string out;
					try { auto e = A.extract(key); out = e ? "1" : "0"; if (e) { refHandle = std::make_pair(k, refA[k]); refA.erase(k); } }
					catch (const std::runtime_error& e) { out = "E:throw"; toks += std::string(e.what()) == "assign" ? " fr" : " fa"; }
					freeze();
					ec().copyCountdown = -1; ec().firedCopy = false; ac().countdown = -1; ac().fired = false;
					if (out == "E:throw") {
						c.stats.nontrivial(fmt("%s extract E:throw", cfg.kind) + toks);
						if (A.hs().GetCount() != countBefore || ledgerSnapshot() != snap || A.hasHandle()) c.fail("C04 strong: %s extract %u failed but count / blocks / elements / handle changed", suiteName.c_str(), k);
					}
					op = fmt("ext %u", k); res = out;
				} else if (rng.chance(1, 5)) {
					begin();
					A.dropHandle(); refHandle.reset();
					op = "drop"; res = "ok";
				} else {
					const size_t growSize = HS::Buckets::pvGetBufferSize(A.hs().pvGetNewLogBucketCount());
					size_t countBefore = A.hs().GetCount();
					begin();
					if (rng.chance(1, 3)) { unsigned w = (unsigned)rng.below(3); if (w == 0) lm().refuseSize = growSize; else if (w == 1 && !relocatable) ec().copyCountdown = 0; else lm().refuseAfter = (long)rng.below(2); }
					auto snap = ledgerSnapshot();
					bool ins = false; std::string out;
					try { ins = A.reinsert(); out = ins ? "1" : "0"; }
					catch (const std::bad_alloc&) { out = "E:throw"; } catch (const std::runtime_error& e) { out = std::string(e.what()) == "copy" ? "E:throw" : "E:runtime"; }
					bool firedG = lm().refused(growSize), firedP = before.empty() && lm().refused(psz) && psz != growSize, firedC = ec().firedCopy;
					bool firedOther = false; for (size_t x : lm().refusedSizes) if (x != growSize && !(before.empty() && x == psz)) firedOther = true;
					lm().disarm(); ec().copyCountdown = -1; ec().firedCopy = false;
					std::vector<GenInfo> after; layoutSum<Ad>(A.hs(), &after);
					if (firedG) toks += " fg";
					if (firedP) toks += " fp";
					if (out == "E:throw" && (firedC || firedOther)) toks += " fa";
					if (out == "1" && after.size() >= 2) {
						bool grew = before.empty() || after[0].L != before[0].L;
						size_t oldBefore = 0;
						if (grew) oldBefore = countBefore; else for (size_t i = 1; i < before.size(); ++i) oldBefore += before[i].count;
						size_t oldAfter = 0; for (size_t i = 1; i < after.size(); ++i) oldAfter += after[i].count;
						toks += fmt(" rs=%zu", oldBefore - oldAfter);
					}
					if (out != "1" && out != "0") {
						c.stats.nontrivial(fmt("%s reinsert %s", cfg.kind, out.c_str()) + toks);
						if (A.hs().GetCount() != countBefore || (counted && ledgerSnapshot().second != snap.second) || !A.hasHandle()) c.fail("C04 strong: %s re-insertion of the extracted item failed (%s) but count / elements / handle changed", suiteName.c_str(), out.c_str());
						if (!cfg.chained && ledgerSnapshot().first != snap.first) c.fail("C04 strong: %s re-insertion failed (%s) but the outstanding blocks changed", suiteName.c_str(), out.c_str());
					}
					if (ins) { refA[refHandle->first] = refHandle->second; refHandle.reset(); }
					else if (out == "0" && !A.hasHandle()) c.fail("C10 reinsert: %s a refused item left the handle", suiteName.c_str());
					op = "reins"; res = out;
				}
			}
			else if (r < 90) {
				// ---- B = A (copy construction + Swap + destruction of B's old contents), with faults at every stage
				size_t L = cfg.logStart; while (A.hs().GetHashTraits().CalcCapacity(size_t{1} << L, HS::bucketMaxItemCount) < A.hs().GetCount()) ++L;
				const size_t arrSize = HS::Buckets::pvGetBufferSize(L);
				begin();
				newTo = toB;
				uint64_t calls0 = hc().calls;
				if (rng.chance(1, 2)) {
					unsigned w = (unsigned)rng.below(6);
					if (w == 0 && csz) lm().refuseSize = csz;
					else if (w == 1) lm().refuseSize = arrSize;
					else if (w == 2) lm().refuseSize = psz;
					else if (w == 3 && counted) ec().copyCountdown = (long)rng.below(A.hs().GetCount() + 1);
					else if (w == 4 && !cfg.fast) hc().throwCountdown = (long)rng.below(A.hs().GetCount() + 1);
					else if (cfg.chained) lm().refuseAfter = 2 + (long)rng.below(4);
				}
				auto snap = ledgerSnapshot();
				std::string summaryB = summary(B);
				std::string out = "ok";
				try { B.c = A.c; refB = refA; }
				catch (const std::bad_alloc&) { out = "E:throw"; } catch (const std::runtime_error&) { out = "E:throw"; } catch (const std::domain_error&) { out = "E:throw"; }
				bool firedW = csz && lm().refused(csz), firedG = lm().refused(arrSize) && A.hs().GetCount() > 0, firedP = lm().refused(psz) && A.hs().GetCount() > 0 && !firedG;
				lm().disarm(); ec().copyCountdown = -1; ec().firedCopy = false; hc().throwCountdown = -1; hc().fired = false;
				if (out == "E:throw") {
					if (firedW && !(csz == arrSize && A.hs().GetCount() > 0)) toks += " fw";
					else if (firedG) toks += " fg";
					else if (firedP) toks += " fp";
					else toks += fmt(" cs=%llu", (unsigned long long)(hc().calls - calls0 - 1));
					c.stats.nontrivial(fmt("%s copy E:throw", cfg.kind) + toks.substr(0, 3));
					c.stats.count("fault.copy_construction_failed");
					// C04: a constructor that fails leaves nothing allocated and nothing constructed; the assigned-to container is untouched
					if (ledgerSnapshot() != snap) c.fail("C04 constructor: %s copy construction failed (%s) and left %zu blocks / %ld elements, %zu / %ld before", suiteName.c_str(), toks.c_str(), ledgerSnapshot().first, ledgerSnapshot().second, snap.first, snap.second);
					if (summary(B) != summaryB) c.fail("C04 strong: %s copy assignment failed but the assigned-to container changed", suiteName.c_str());
				} else {
					extraB.clear();	// B's old pools died with the temporary
					if (B.hs().GetCount() != refB.size()) c.fail("C14 copy: %s count", suiteName.c_str());
				}
				op = "copyto"; res = out;
			}
			else if (r < 92) {
				begin();
				B.c = std::move(A.c); refB = refA; refA.clear();
				if (A.hs().GetCount() != 0) c.fail("C14 move: %s source not empty", suiteName.c_str());
				A.c = typename Ad::C();
				extraB = extraA; extraA.clear();
				op = "moveto"; res = "ok";
			}
			else if (r < 95) { begin(); std::swap(refA, refB); A.c.Swap(B.c); std::swap(extraA, extraB); op = "swap"; res = "ok"; }
			else if (r < 98 && std::strcmp(cfg.kind, "UnlimP") != 0) {
				// (UnlimP: a removal can shrink - reallocate - the source bucket's array, so blocks obtained during a merge cannot be
				// attributed to one container from outside; the merge is exercised for that kind by c03_hash.cpp at property level)
				begin();
				newTo = toB;
				A.c.MergeTo(B.c);
				for (auto it = refA.begin(); it != refA.end();) { if (!refB.count(it->first)) { refB[it->first] = it->second; it = refA.erase(it); } else ++it; }
				if (B.hs().GetCount() != refB.size() || A.hs().GetCount() != refA.size()) c.fail("C10 merge: %s counts src=%zu dst=%zu expected %zu %zu", suiteName.c_str(), A.hs().GetCount(), B.hs().GetCount(), refA.size(), refB.size());
				op = "mergeto"; res = "ok";
			}
			else { begin(); op = "monitor"; res = ""; }
			if (op == "monitor") {
				// the verified monitor, run by the model over ALL events of the history so far, must have accepted them and hold exactly
				// the blocks outstanding at the real manager and one element object per stored / extracted item
				s.op(op); s.res(fmt("accepted blocks=%zu elems=%zu", lm().live.size() - baseBlocks, refA.size() + refB.size() + (refHandle ? 1 : 0)));
			} else {
				std::string t = tail(newTo, toks);
				s.op(op + toks); s.res(res + t);
			}
			c.stats.evaluations++;
			if (history.size() < 200) history += op + toks + "; ";
			if (step % 16 == 15 || step + 1 == totalOps) fullCheck(op.c_str());
		}
		c.stats.sample(suiteName + ": " + history);
		c.stats.nontrivial(suiteName);
		if (A.hasHandle()) A.dropHandle();
		if (B.hasHandle()) B.dropHandle();
	}
	// the end of the history: everything is destroyed; the model's monitor must have accepted every event and hold nothing
	s.op("finish"); s.res("accepted blocks=0 elems=0");
	if (lm().live.size() != baseBlocks) c.fail("C03 leak: %s: %zu blocks outstanding after destruction", suiteName.c_str(), lm().live.size() - baseBlocks);
	if (lm().badDealloc) { c.fail("C03 dealloc: %s: %zu deallocations of unknown blocks / wrong size", suiteName.c_str(), lm().badDealloc); lm().badDealloc = 0; }
	if (ec().live != 0) { c.fail("C03 elements: %s: %ld element objects still alive", suiteName.c_str(), ec().live); ec().live = 0; }
	for (auto& kv : lm().live) std::free(kv.first);
	lm().live.clear();
}

template<typename HashBucket, typename Key, bool fast, bool isMap, unsigned logStart>
static void runKind(Ctx& c, Rng& rng, const char* kind, unsigned n, const char* elem, const char* cat, bool chained, size_t (*ff)(), unsigned runs)
{
	typedef FamTraits<Key, HashBucket, fast, logStart> Traits;
	typedef typename std::conditional<isMap, MapAd<Key, Traits>, SetAd<Key, Traits>>::type Ad;
	Cfg cfg{ kind, n, elem, cat, fast, isMap, logStart, ff ? ff() : n, chained };
	for (unsigned run = 0; run < runs; ++run) {
		unsigned fam = (unsigned)rng.below(8);
		static const unsigned ranges[] = { 12, 40, 150, 600 };
		unsigned keyRange = ranges[rng.below(4)];
		unsigned nOps = c.thorough ? 900 : 220;
		runConfig<Ad, Key>(c, rng, cfg, fam, keyRange, nOps, run);
	}
}

template<typename HashBucket, typename Key, bool fast, bool isMap, unsigned logStart>
static size_t ffPools()
{
	typedef FamTraits<Key, HashBucket, fast, logStart> Traits;
	typedef typename std::conditional<isMap, MapAd<Key, Traits>, SetAd<Key, Traits>>::type Ad;
	return fullFromByPools<typename Ad::HS::Bucket>();
}

#define KIND(HB, KEY, FAST, MAP, LS, NAME, N, ELEM, CAT, CHAINED, FF) runKind<HB, KEY, FAST, MAP, LS>(c, rng, NAME, N, ELEM, CAT, CHAINED, FF, runs)
#define POOLS(HB, KEY, FAST, MAP, LS) (&ffPools<HB, KEY, FAST, MAP, LS>)

int main(int argc, char** argv)
{
	Ctx c = parseArgs(argc, argv);
	Rng rng(c.seed * 0x1000 + 0x3A + VF_PART * 100);
	unsigned runs = c.thorough ? 24 : 8;
	typedef ElemT<16, 8> E16;
#if VF_PART == 0
	// open addressing and One: no pools - every outstanding block is a bucket array, a BucketParams block or a crew block
	KIND(momo::HashBucketOpen2N2<1>, Elem4, true, false, 3, "Open2N2", 1, "e4", "triv", false, nullptr);
	KIND(momo::HashBucketOpen2N2<3>, ElemNM, true, false, 2, "Open2N2", 3, "nm", "nmove", false, nullptr);
	KIND(momo::HashBucketOpen2N2<3>, ElemNM, false, true, 2, "Open2N2", 3, "nm", "nmove", false, nullptr);
	KIND(momo::HashBucketOpen2N2<2>, ElemCO, true, false, 2, "Open2N2", 2, "co", "copy", false, nullptr);
	KIND(momo::HashBucketOpen2N2<3>, ElemTA, false, false, 2, "Open2N2", 3, "ca", "copy", false, nullptr);
#elif VF_PART == 1
	typedef momo::HashBucketOpenN1<3, true> ON3; typedef momo::HashBucketOpenN1<7, false> ON7;
	KIND(ON3, E16, true, true, 2, "OpenN1", 3, "e16", "triv", false, nullptr);
	KIND(ON7, ElemNM, true, false, 1, "OpenN1", 7, "nm", "nmove", false, nullptr);
	KIND(ON3, ElemTA, true, false, 1, "OpenN1", 3, "ca", "copy", false, nullptr);
	KIND(momo::HashBucketOpen8, ElemNM, true, false, 2, "Open8", 7, "nm", "nmove", false, nullptr);
	KIND(ON3, ElemNM, false, true, 2, "OpenN1", 3, "nm", "nmove", false, nullptr);
	KIND(momo::HashBucketOpen8, ElemCO, true, true, 1, "Open8", 7, "co", "copy", false, nullptr);
	KIND(momo::HashBucketOne<>, ElemNM, true, false, 3, "One", 1, "nm", "nmove", false, nullptr);
	KIND(momo::HashBucketOne<>, ElemTA, false, true, 3, "One", 1, "ca", "copy", false, nullptr);
#else
	// chained kinds: the items live in memory-pool blocks; pool buffers are the manager blocks of unknown purpose
	KIND(momo::HashBucketLimP4<4>, ElemNM, true, false, 2, "LimP4", 4, "nm", "nmove", true, nullptr);
	KIND(momo::HashBucketLimP4<4>, ElemNM, false, true, 2, "LimP4", 4, "nm", "nmove", true, nullptr);
	KIND(momo::HashBucketLimP4<2>, ElemCO, true, false, 2, "LimP4", 2, "co", "copy", true, nullptr);
	KIND(momo::HashBucketLimP4<3>, E16, true, true, 1, "LimP4", 3, "e16", "triv", true, nullptr);
	typedef momo::HashBucketLimP<3> LimP3;
	KIND(LimP3, ElemNM, true, false, 2, "LimP", 3, "nm", "nmove", true, POOLS(LimP3, ElemNM, true, false, 2));
	typedef momo::HashBucketLimP1<3> LimP1_3;
	KIND(LimP1_3, ElemCO, true, false, 2, "LimP1", 3, "co", "copy", true, POOLS(LimP1_3, ElemCO, true, false, 2));
	KIND(momo::HashBucketUnlimP<>, ElemNM, true, false, 2, "UnlimP", 0, "nm", "nmove", true, nullptr);
#endif
	return c.finish();
}
