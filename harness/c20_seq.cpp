// C20 correspondence harness (std::list), part 2: std::list / std::forward_list with momo's pool allocator against twins with
// std::allocator and against the Lean model (allocator level and container level).  See c20_alloc.h / c20_world.h.
#include "c20_world.h"

using namespace c20;

int main(int argc, char** argv)
{
	Ctx c = parseArgs(argc, argv);
	Rng rng(c.seed * 0x1000 + 21);
	arena().init(c); arena().rng = &rng; installCrashReporter();
	const unsigned steps = c.thorough ? 1500 : 500;
	const unsigned rounds = c.thorough ? 12 : 4;
	for (unsigned round = 0; round < rounds; ++round) {
		std::string r = fmt("r%u_", round);
		runTraced<KList<int>, Cfg<32, 16>>(c, rng, r + "list_int_a", steps);
		runTraced<KList<int>, Cfg<1, 0>>(c, rng, r + "list_int_b", steps);
		runTraced<KList<int>, Cfg<2, 1>>(c, rng, r + "list_int_c", steps);
		runTraced<KList<Big>, Cfg<3, 0>>(c, rng, r + "list_big_a", steps);
		runTraced<KList<Big>, Cfg<13, 2>>(c, rng, r + "list_big_b", steps);
		runTraced<KList<std::string>, Cfg<8, 16>>(c, rng, r + "list_str_a", steps);
		runTraced<KList<std::string>, Cfg<1, 16>>(c, rng, r + "list_str_b", steps);
		runTraced<KList<Al16>, Cfg<21, 4>>(c, rng, r + "list_al16", steps);
		// the momo allocator itself, without the reporting shell (default parameters and two others)
		runPlain<KList<int>, Cfg<momo::MemPoolConst::defaultBlockCount, momo::MemPoolConst::defaultCachedFreeBlockCount>>(c, rng, r + "list_int", steps);
	}
	dumpTracerStats(c);
	return c.finish();
}
