// C09 correspondence harness: momo::MemPool against the Lean model `Momo.Pool` (engine "pool").
//   layout suite  function level: the real pvNewBuffer / pvGetBlock / pvGetBlockIndex / pvGetBufferSize* /
//                 pvNewBlock1 / position functions on pools whose memory manager returns CHOSEN addresses
//                 carved from a big arena, so that every residue of the base address modulo S*N (hence
//                 modulo 2A) is exercised;
//   dll suite     function level: the real pvMoveBufferToHead / pvDeleteBuffer / MergeFrom on hand-linked
//                 real buffers against the pointer-level model;
//   state suite   random Allocate / Deallocate / DeallocateIf / DeallocateAll / MergeFrom / destructor
//                 histories: every answer, every memory-manager call, the buffer list, the cache and (at
//                 dumps) every byte of pool metadata are compared with the model.
//   world suite   (part 5) several real pools with TAGGED memory managers: Swap / move construction / move assignment /
//                 MergeFrom / Allocate / Deallocate / DeallocateAll / destruction against the model engine "poolworld";
//                 every manager call is compared together with the manager that was called.
//   u32 suite     (part 6) the real momo::internal::MemPoolUInt32 against the model engine "poolu32": indices returned, every
//                 manager call (buffers and the storage of the buffer array), real pointers, head, count, free chain.
//   edge suites   (part 7) `edge` (engine "poolworld"): a pool type with RUN-TIME parameters and CheckMode::exception - DeallocateIf on
//                 pools without a live block, MergeFrom(self), MergeFrom refused by each of its four checks, the constructor with illegal /
//                 boundary parameter sets (pvCheckParams), MemPool() / MemPool(MemManager), const GetMemManager; `u32edge` (engine
//                 "poolu32"): the constructor of MemPoolUInt32 around SIZE_MAX / blockCount.
// Property-level oracle (FAIL lines): alignment, blocks inside memory obtained from the manager, pairwise
// disjoint, pattern bytes of live blocks intact, canary bytes outside owned memory intact, allocated count
// = number of live blocks, DeallocateIf asks about exactly the live blocks, ledger of the manager exact and
// empty at the end.  Under ASan every live block and all memory not owned by the pool is poisoned while
// the pool code runs.
#include "momo/MemPool.h"
#include "common/verif_common.h"

#include <sys/mman.h>
#include <algorithm>
#include <deque>
#include <map>
#include <memory>
#include <new>
#include <set>
#include <string>
#include <vector>

#if defined(__SANITIZE_ADDRESS__)
# include <sanitizer/asan_interface.h>
# define VF_POISON(p, n) __asan_poison_memory_region((p), (n))
# define VF_UNPOISON(p, n) __asan_unpoison_memory_region((p), (n))
# define VF_NOASAN __attribute__((no_sanitize("address")))
#else
# define VF_POISON(p, n) ((void)0)
# define VF_UNPOISON(p, n) ((void)0)
# define VF_NOASAN
#endif

using namespace vf;
typedef momo::internal::Byte Byte;

// ------------------------------------------------------------------------------------------------ arena

struct Arena {
	static constexpr uintptr_t wantedBase = 0x200000000000ull;	// fixed, so that op files are reproducible
	static constexpr size_t arenaSize = size_t{96} << 20;
	uint8_t* mem = nullptr;
	bool fixedBase = false;
	Ctx* c = nullptr;
	std::map<size_t, size_t> live;		// outstanding allocations of the manager: offset -> size
	std::vector<std::string> events;	// calls since the last clearEvents()
	std::deque<long long> answers;		// chosen offsets for the next Allocate calls; -1 = throw
	uint64_t requests = 0, faults = 0, frees = 0;
	uint64_t garbage = 0x1234567;
	bool tagEvents = false;				// world suite: events carry the tag of the manager that was called
	std::map<size_t, int> liveTag;		// world suite: which manager handed out an outstanding allocation

	static uint8_t canary(size_t off) { return (uint8_t)(0xA5u ^ (off * 37u) ^ (off >> 9)); }

	void init(Ctx& ctx) {
		c = &ctx;
		void* p = mmap((void*)wantedBase, arenaSize, PROT_READ | PROT_WRITE,
			MAP_PRIVATE | MAP_ANONYMOUS | MAP_NORESERVE | MAP_FIXED_NOREPLACE, -1, 0);
		fixedBase = (p == (void*)wantedBase);
		if (p == MAP_FAILED || !fixedBase) {
			if (p != MAP_FAILED) munmap(p, arenaSize);
			p = mmap(nullptr, arenaSize, PROT_READ | PROT_WRITE, MAP_PRIVATE | MAP_ANONYMOUS | MAP_NORESERVE, -1, 0);
			if (p == MAP_FAILED) { fprintf(stderr, "cannot map the arena\n"); exit(3); }
		}
		mem = (uint8_t*)p;
		for (size_t i = 0; i < arenaSize; ++i) mem[i] = canary(i);
		VF_POISON(mem, arenaSize);
	}
	long long rel(const void* p) const { return (long long)((const uint8_t*)p - mem); }
	uintptr_t abs(size_t off) const { return (uintptr_t)mem + off; }

	bool overlaps(size_t off, size_t size) const {
		auto it = live.upper_bound(off);
		if (it != live.end() && it->first < off + size) return true;
		if (it != live.begin()) { --it; if (it->first + it->second > off) return true; }
		return false;
	}
	// the allocation that contains [off, off+size), or live.end()
	std::map<size_t, size_t>::const_iterator owner(size_t off, size_t size) const {
		auto it = live.upper_bound(off);
		if (it == live.begin()) return live.end();
		--it;
		return (it->first <= off && off + size <= it->first + it->second) ? it : live.end();
	}

	VF_NOASAN void fillRaw(size_t off, size_t size, bool asCanary) {
		for (size_t i = 0; i < size; ++i) {
			if (asCanary) mem[off + i] = canary(off + i);
			else { garbage = garbage * 6364136223846793005ull + 1442695040888963407ull; mem[off + i] = (uint8_t)(garbage >> 56); }
		}
	}
	// bytes of [from, to) that no outstanding allocation owns must still hold the canary
	VF_NOASAN void checkCanary(size_t from, size_t to, const char* when) {
		if (to > arenaSize) to = arenaSize;
		size_t off = from;
		while (off < to) {
			auto it = live.upper_bound(off);
			if (it != live.begin()) { auto pr = std::prev(it); if (pr->first + pr->second > off) { off = pr->first + pr->second; continue; } }
			size_t stop = (it == live.end()) ? to : std::min(to, it->first);
			for (; off < stop; ++off)
				if (mem[off] != canary(off)) {
					c->fail("C09 write outside owned memory: arena offset %zu changed (%s)", off, when);
					mem[off] = canary(off);
				}
		}
	}

	void* allocate(size_t size, int tag = 0) {
		++requests;
		if (tag < 0) c->fail("C09 manager: Allocate(%zu) through a moved-from memory manager", size);
		long long ans = -1;
		if (!answers.empty()) { ans = answers.front(); answers.pop_front(); }
		else c->fail("harness: the pool asked the memory manager more often than addresses were prepared");
		if (ans < 0) { ++faults; throw std::bad_alloc(); }
		size_t off = (size_t)ans;
		if (off + size > arenaSize || overlaps(off, size)) { c->fail("harness: chosen address %zu+%zu is not free", off, size); throw std::bad_alloc(); }
		live[off] = size;
		VF_UNPOISON(mem + off, size);
		fillRaw(off, size, false);
		if (tagEvents) { events.push_back(fmt("M%zu:%zu@%d", off, size, tag)); liveTag[off] = tag; }
		else events.push_back(fmt("M%zu:%zu", off, size));
		return mem + off;
	}
	void deallocate(void* ptr, size_t size, int tag = 0) noexcept {
		++frees;
		long long r = rel(ptr);
		if (tagEvents) {
			events.push_back(fmt("F%lld:%zu@%d", r, size, tag));
			auto lt = (r >= 0) ? liveTag.find((size_t)r) : liveTag.end();
			if (tag < 0) c->fail("C09 manager: Deallocate(arena+%lld, %zu) through a moved-from memory manager", r, size);
			else if (lt != liveTag.end() && lt->second != tag)
				c->fail("C09 manager: memory arena+%lld obtained from memory manager %d is given back to memory manager %d", r, lt->second, tag);
			if (lt != liveTag.end()) liveTag.erase(lt);
		}
		else events.push_back(fmt("F%lld:%zu", r, size));
		auto it = (r >= 0) ? live.find((size_t)r) : live.end();
		if (it == live.end() || it->second != size) {
			c->fail("C09 ledger: Deallocate(arena+%lld, %zu) matches no outstanding Allocate", r, size);
			return;
		}
		size_t off = it->first;
		live.erase(it);
		fillRaw(off, size, true);
		VF_POISON(mem + off, size);
		size_t lo = off > 4096 ? off - 4096 : 0;
		checkCanary(lo, off + size + 4096, "at Deallocate");
	}
	// after a reported leak: hand the leaked memory back to the arena so that later checks stay meaningful
	void forgetAll() {
		for (auto& kv : live) { fillRaw(kv.first, kv.second, true); VF_POISON(mem + kv.first, kv.second); }
		live.clear();
		liveTag.clear();
	}
	std::string takeEvents() {
		std::string s;
		for (auto& e : events) { if (!s.empty()) s += ' '; s += e; }
		events.clear();
		return s.empty() ? "-" : s;
	}
};

static Arena g_arena;

// A memory manager with an identity: `tag` (0 in the suites that use one manager). Managers with different tags are
// different managers (not IsEqual): memory must go back to the manager it came from. A moved-from manager gets tag -1 in the
// world suite (`g_markMovedFrom`), so that any later call through it is visible.
static bool g_markMovedFrom = false;
class Mgr {
public:
	explicit Mgr(Arena* a, int t = 0) noexcept : ar(a), tag(t) { ++alive; }
	Mgr(Mgr&& m) noexcept : ar(m.ar), tag(m.tag) { ++alive; if (g_markMovedFrom) m.tag = -1; }
	Mgr(const Mgr& m) noexcept : ar(m.ar), tag(m.tag) { ++alive; }
	~Mgr() noexcept { --alive; }
	static inline long alive = 0;		// manager objects in existence (edge suite: a failed constructor must destroy its manager)
	Mgr& operator=(const Mgr&) = delete;
	void* Allocate(size_t size) { return ar->allocate(size, tag); }
	void Deallocate(void* ptr, size_t size) noexcept { ar->deallocate(ptr, size, tag); }
	bool IsEqual(const Mgr& m) const noexcept { return ar == m.ar && tag == m.tag; }
	Arena* ar;
	int tag;
};

struct PoolSettings : public momo::MemPoolSettings {
	static const momo::CheckMode checkMode = momo::CheckMode::assertion;
	static const momo::ExtraCheckMode extraCheckMode = momo::ExtraCheckMode::assertion;
};

template<size_t N, size_t C>
using PoolNC = momo::MemPool<momo::MemPoolParams<N, C>, Mgr, PoolSettings>;

static size_t allocAlignOf(size_t A) { size_t low = A & (~A + 1); return std::min<size_t>(alignof(std::max_align_t), low); }

static std::string joinRel(const std::vector<long long>& v) {
	std::string s;
	for (size_t i = 0; i < v.size(); ++i) { if (i) s += ','; s += std::to_string(v[i]); }
	return s;
}

// an offset in [lo, hi) that is a multiple of g (absolute address), free for `size` bytes
static long long chooseFree(Arena& ar, Rng& rng, size_t g, size_t size, size_t lo, size_t hi, long long hint = -1) {
	auto roundUp = [&](size_t off) { uintptr_t a = ar.abs(off); a = (a + g - 1) / g * g; return (size_t)(a - (uintptr_t)ar.mem); };
	if (hint >= 0) { size_t off = roundUp((size_t)hint); if (off + size <= hi && !ar.overlaps(off, size)) return (long long)off; }
	for (int attempt = 0; attempt < 200; ++attempt) {
		size_t off = roundUp(lo + (size_t)rng.below(hi - lo - size));
		if (off + size <= hi && !ar.overlaps(off, size)) return (long long)off;
	}
	for (size_t off = roundUp(lo); off + size <= hi; off += g)
		if (!ar.overlaps(off, size)) return (long long)off;
	return -1;
}

// ------------------------------------------------------------------------------------------------ layout suite

struct LayoutCfg { size_t reqSize, A; };

template<size_t N>
static void layoutConfig(Ctx& c, Rng& rng, Suite& s, size_t reqSize, size_t A, size_t budget)
{
	typedef PoolNC<N, 0> Pool;
	Arena& ar = g_arena;
	Pool pool(momo::MemPoolParams<N, 0>(reqSize, A), Mgr(&ar));
	const size_t S = pool.GetBlockSize();
	s.op(fmt("cbs %zu %zu %zu", reqSize, A, N)); s.res(fmt("%zu", S));
	s.op(fmt("cfg %zu %zu %zu 0", S, A, N));
	s.res(fmt("legal=1 addend=%zu size0=%zu size1=%zu size=%zu near=%d cache=0", pool.pvGetAlignmentAddend(), pool.pvGetBufferSize0(),
		pool.pvGetBufferSize1(), pool.pvGetBufferSize(), pool.pvIsBufferBytesNear() ? 1 : 0));
	const size_t g = allocAlignOf(A);
	if (pool.pvGetAlignmentAddend() != A - g) c.fail("C09 layout: alignment addend %zu != A - g for A=%zu", pool.pvGetAlignmentAddend(), A);
	c.stats.count("layout.configs");
	c.stats.count(fmt("layout.configs.N=%zu", N));
	const size_t period = S * N;			// the layout is a function of the base address modulo S*N
	const size_t r0 = ((size_t)rng.below(1 << 20) + 65536) / 4096 * 4096;
	std::vector<size_t> residues;
	if (period / g + 1 <= budget) {
		for (size_t r = 0; r < period + g; r += g) residues.push_back(r);
		c.stats.count("layout.full_sweeps");
	}
	else {
		std::set<size_t> pick;
		// boundaries of the period, of block-size multiples and of 2A multiples, then random residues
		for (size_t m = 0; m <= N && pick.size() < budget / 2; ++m)
			for (long long d = -(long long)(2 * A + g); d <= (long long)(2 * A + g); d += (long long)g) {
				long long r = (long long)(m * S) + d;
				if (r >= 0 && (size_t)r < period + g) pick.insert((size_t)r / g * g);
			}
		while (pick.size() < budget) pick.insert((size_t)rng.below(period + g) / g * g);
		residues.assign(pick.begin(), pick.end());
	}
	for (size_t r : residues) {
		size_t baseOff = r0 + r;
		// the arena start is page aligned, so offsets that are multiples of g are addresses that are multiples of g
		if (N > 1) {
			const size_t size = pool.pvGetBufferSize();
			ar.answers.assign(1, (long long)baseOff);
			Byte* buffer = pool.pvNewBuffer();
			ar.takeEvents();
			int first = pool.pvGetFirstBlockIndex(buffer);
			size_t beginOffset = pool.pvGetBeginOffset(buffer);
			uint64_t chk = 0;
			long long lowest = ar.rel(buffer), prevEnd = -1;
			long long metaPos[5] = { ar.rel(buffer), ar.rel(pool.pvGetBufferBytesPosition(buffer)), ar.rel(pool.pvGetPrevBufferPosition(buffer)),
				ar.rel(pool.pvGetNextBufferPosition(buffer)), ar.rel(pool.pvGetBeginOffsetPosition(buffer)) };
			size_t metaLen[5] = { 1, 2, sizeof(Byte*), sizeof(Byte*), 2 };
			if (first > 0 || first <= -(int)N) c.fail("C09 layout: S=%zu A=%zu N=%zu base=arena+%zu: first block index %d out of (-N, 0]", S, A, N, baseOff, first);
			for (size_t j = 0; j < N; ++j) {
				int8_t idx = (int8_t)(first + (int)j);
				Byte* blk = pool.pvGetBlock(buffer, idx);
				Byte* buf2 = nullptr;
				int8_t idx2 = pool.pvGetBlockIndex(blk, buf2);
				long long b = ar.rel(blk);
				chk = chk * 1000003ull + (uint64_t)b;
				chk = chk * 1000003ull + (uint64_t)(int64_t)idx2;
				chk = chk * 1000003ull + (uint64_t)ar.rel(buf2);
				// property level
				if ((uintptr_t)blk % A != 0) c.fail("C09 alignment: S=%zu A=%zu N=%zu base=arena+%zu block %d at arena+%lld is not %zu-aligned", S, A, N, baseOff, (int)idx, b, A);
				if (b < (long long)baseOff || b + (long long)S > (long long)(baseOff + size))
					c.fail("C09 inside: S=%zu A=%zu N=%zu base=arena+%zu block %d = [%lld,%lld) leaves the buffer memory [%zu,%zu)", S, A, N, baseOff, (int)idx, b, b + (long long)S, baseOff, baseOff + size);
				if (b < prevEnd) c.fail("C09 disjoint: S=%zu A=%zu N=%zu base=arena+%zu block %d at %lld overlaps its predecessor ending at %lld", S, A, N, baseOff, (int)idx, b, prevEnd);
				prevEnd = b + (long long)S;
				if (idx2 != idx || buf2 != buffer) c.fail("C09 recover: S=%zu A=%zu N=%zu base=arena+%zu pvGetBlockIndex(block %d) = (%d, arena+%lld), buffer is arena+%lld", S, A, N, baseOff, (int)idx, (int)idx2, ar.rel(buf2), ar.rel(buffer));
				for (int m = 0; m < 5; ++m)
					if (b < metaPos[m] + (long long)metaLen[m] && metaPos[m] < b + (long long)S)
						c.fail("C09 metadata: S=%zu A=%zu N=%zu base=arena+%zu block %d = [%lld,%lld) overlaps metadata field %d at %lld", S, A, N, baseOff, (int)idx, b, b + (long long)S, m, metaPos[m]);
				lowest = std::min(lowest, b);
			}
			for (int m = 0; m < 5; ++m) {
				if (metaPos[m] < (long long)baseOff || metaPos[m] + (long long)metaLen[m] > (long long)(baseOff + size))
					c.fail("C09 inside: S=%zu A=%zu N=%zu base=arena+%zu metadata field %d at %lld leaves the buffer memory [%zu,%zu)", S, A, N, baseOff, m, metaPos[m], baseOff, baseOff + size);
				for (int m2 = m + 1; m2 < 5; ++m2)
					if (metaPos[m] < metaPos[m2] + (long long)metaLen[m2] && metaPos[m2] < metaPos[m] + (long long)metaLen[m])
						c.fail("C09 metadata: S=%zu A=%zu N=%zu base=arena+%zu metadata fields %d and %d overlap", S, A, N, baseOff, m, m2);
			}
			if (ar.rel(pool.pvGetBlock(buffer, (int8_t)first)) - (long long)beginOffset != (long long)baseOff)
				c.fail("C09 layout: S=%zu A=%zu N=%zu base=arena+%zu first block - beginOffset != base", S, A, N, baseOff);
			s.op(fmt("nb %zu", baseOff));
			s.res(fmt("%lld %d %zu %lld %lld %lld %lld %lld %llu", ar.rel(buffer), first, beginOffset, ar.rel(pool.pvGetBlocksEndPosition(buffer)),
				metaPos[1], metaPos[2], metaPos[3], metaPos[4], (unsigned long long)chk));
			c.stats.count(first == 0 ? "layout.first_index_zero" : "layout.first_index_negative");
			if (beginOffset >= 2 * A) c.stats.count("layout.begin_offset_ge_2A");
			if (N <= 5 && rng.chance(1, 16)) {
				std::string line = fmt("%lld %d %zu :", ar.rel(buffer), first, beginOffset);
				for (size_t j = 0; j < N; ++j) {
					Byte* blk = pool.pvGetBlock(buffer, (int8_t)(first + (int)j));
					Byte* buf2; int8_t idx2 = pool.pvGetBlockIndex(blk, buf2);
					line += fmt(" %lld>%d@%lld", ar.rel(blk), (int)idx2, ar.rel(buf2));
				}
				s.op(fmt("nbl %zu", baseOff)); s.res(line);
			}
			pool.pvDeleteBuffer(buffer);
			std::string ev = ar.takeEvents();
			if (ev != fmt("F%zu:%zu", baseOff, size)) c.fail("C09 ledger: S=%zu A=%zu N=%zu base=arena+%zu pvDeleteBuffer gave back '%s'", S, A, N, baseOff, ev.c_str());
		}
		else if (pool.pvGetAlignmentAddend() != 0) {
			const size_t size = pool.pvGetBufferSize1();
			ar.answers.assign(1, (long long)baseOff);
			Byte* blk = pool.pvNewBlock1();
			ar.takeEvents();
			long long b = ar.rel(blk);
			uint16_t off16 = momo::internal::MemCopyer::FromBuffer<uint16_t>(blk + S);
			if ((uintptr_t)blk % A != 0) c.fail("C09 alignment: single block S=%zu A=%zu base=arena+%zu block at arena+%lld", S, A, baseOff, b);
			if (b < (long long)baseOff || b + (long long)S + 2 > (long long)(baseOff + size))
				c.fail("C09 inside: single block S=%zu A=%zu base=arena+%zu block [%lld,%lld)+2 leaves [%zu,%zu)", S, A, baseOff, b, b + (long long)S, baseOff, baseOff + size);
			// (the stored offset itself is representation, compared with the model only: the nb1 answer line)
			s.op(fmt("nb1 %zu", baseOff)); s.res(fmt("%lld %u", b, (unsigned)off16));
			pool.pvDeleteBlock1(blk);
			std::string ev = ar.takeEvents();
			if (ev != fmt("F%zu:%zu", baseOff, size)) c.fail("C09 ledger: single block S=%zu A=%zu base=arena+%zu pvDeleteBlock1 gave back '%s'", S, A, baseOff, ev.c_str());
			if (off16 >= 256) c.stats.count("layout.single_offset_ge_256");
		}
		else {
			// addend == 0: the block is the manager's address itself
			ar.answers.assign(1, (long long)baseOff);
			void* blk = pool.Allocate();
			std::string ev = ar.takeEvents();
			if (ar.rel(blk) != (long long)baseOff || (uintptr_t)blk % A != 0) c.fail("C09 alignment: plain single block S=%zu A=%zu base=arena+%zu", S, A, baseOff);
			if (ev != fmt("M%zu:%zu", baseOff, pool.pvGetBufferSize0())) c.fail("C09 ledger: plain single block S=%zu A=%zu asked '%s'", S, A, ev.c_str());
			pool.Deallocate(blk);
			ar.takeEvents();
		}
		if (!ar.live.empty()) ar.forgetAll();	// a wrong Deallocate was reported above; keep the arena usable
		c.stats.evaluations++;
		c.stats.nontrivial(fmt("%zu/%zu/%zu/%zu", S, A, N, r % period));
	}
	// pvGetBlockIndex on arbitrary aligned addresses (not only on blocks of a buffer)
	if (N > 1)
		for (int i = 0; i < 24; ++i) {
			uintptr_t a = ar.abs((size_t)rng.below(Arena::arenaSize - 4096));
			a = a / A * A;
			Byte* buf2; int8_t idx2 = pool.pvGetBlockIndex((Byte*)a, buf2);
			s.op(fmt("blk %lld", ar.rel((void*)a))); s.res(fmt("%d %lld", (int)idx2, ar.rel(buf2)));
			c.stats.evaluations++;
		}
	if (!ar.live.empty()) { c.fail("C09 ledger: layout suite S=%zu A=%zu N=%zu left %zu allocations", S, A, N, ar.live.size()); ar.forgetAll(); }
	if (c.stats.samples.size() < 3) c.stats.sample(fmt("layout S=%zu A=%zu N=%zu: %zu base residues from arena+%zu", S, A, N, residues.size(), r0));
}

static void runLayout(Ctx& c, Rng& rng)
{
	Suite s(c, "layout", fmt("model pool arena=%llu", (unsigned long long)(uintptr_t)g_arena.mem));
	s.op("consts");
	s.res(fmt("%zu %zu %zu %zu %zu", (size_t)momo::internal::UIntConst::maxAllocAlignment, sizeof(PoolNC<2, 0>::BufferBytes), sizeof(Byte*), sizeof(uint16_t),
		(size_t)momo::internal::UIntConst::maxAlignment));
	for (size_t sz = 0; sz <= 40; ++sz) { s.op(fmt("gba %zu", sz)); s.res(fmt("%zu", momo::MemPoolConst::GetBlockAlignment(sz))); }
	// alignments: all of 1..32, the named ones, and every legal value in the thorough tier
	std::vector<size_t> aligns;
	for (size_t a = 1; a <= 32; ++a) aligns.push_back(a);
	for (size_t a : { 48, 64, 100, 128, 255, 256, 257, 272, 384, 512, 1000, 1023, 1024 }) aligns.push_back(a);
	// every legal alignment: sizes of the buffers and the addend (cheap, exhaustive)
	for (size_t A = 1; A <= 1024; ++A) {
		PoolNC<2, 0> pool(momo::MemPoolParams<2, 0>(3 * A, A), Mgr(&g_arena));
		s.op(fmt("cfg %zu %zu 2 0", 3 * A, A));
		s.res(fmt("legal=1 addend=%zu size0=%zu size1=%zu size=%zu near=%d cache=0", pool.pvGetAlignmentAddend(), pool.pvGetBufferSize0(),
			pool.pvGetBufferSize1(), pool.pvGetBufferSize(), pool.pvIsBufferBytesNear() ? 1 : 0));
		c.stats.evaluations++;
	}
	const size_t configs = c.thorough ? 1500 : 170;
	const size_t budget = c.thorough ? 2600 : 420;
	for (size_t i = 0; i < configs; ++i) {
		size_t A = (i < aligns.size()) ? aligns[i] : (rng.chance(2, 3) ? aligns[(size_t)rng.below(aligns.size())] : (size_t)rng.range(1, 1024));
		size_t reqSize;
		switch (rng.below(4)) {
		case 0: reqSize = (size_t)rng.range(0, 3 * A); break;		// around the 2A minimum
		case 1: reqSize = A * (size_t)rng.range(2, 9); break;		// exact multiples, both parities of S/A
		default: reqSize = (size_t)rng.range(1, 300); break;
		}
		switch ((i + rng.below(2)) % 6) {
		case 0: layoutConfig<1>(c, rng, s, reqSize, A, budget); break;
		case 1: layoutConfig<2>(c, rng, s, reqSize, A, budget); break;
		case 2: layoutConfig<3>(c, rng, s, reqSize, A, budget); break;
		case 3: layoutConfig<5>(c, rng, s, reqSize, A, budget); break;
		case 4: layoutConfig<32>(c, rng, s, reqSize, A, budget / 2); break;
		default: layoutConfig<127>(c, rng, s, reqSize, A, budget / 6); break;
		}
	}
	g_arena.checkCanary(0, Arena::arenaSize, "end of the layout suite");
}

// ------------------------------------------------------------------------------------------------ dll suite

static void runDll(Ctx& c, Rng& rng)
{
	typedef PoolNC<3, 0> Pool;
	Arena& ar = g_arena;
	Suite s(c, "dll", fmt("model pool arena=%llu", (unsigned long long)(uintptr_t)ar.mem));
	const unsigned rounds = c.thorough ? 4000 : 500;
	for (unsigned round = 0; round < rounds; ++round) {
		Pool a(momo::MemPoolParams<3, 0>(16, 8), Mgr(&ar)), b(momo::MemPoolParams<3, 0>(16, 8), Mgr(&ar));
		const size_t k = (size_t)rng.range(2, 9);
		std::vector<Byte*> node(k);
		std::vector<long long> nodeOff(k, -1);
		std::vector<bool> dead(k, false);
		const size_t size = a.pvGetBufferSize();
		for (size_t i = 0; i < k; ++i) {
			long long off = chooseFree(ar, rng, 8, size, 4096, 4096 + 64 * size);
			ar.answers.assign(1, off);
			nodeOff[i] = off;
			node[i] = a.pvNewBuffer();
		}
		ar.takeEvents();
		auto idOf = [&](Byte* p) -> long long { if (!p) return -1; for (size_t i = 0; i < k; ++i) if (node[i] == p) return (long long)i; return -2; };
		auto dump = [&]() {
			std::string line;
			for (size_t i = 0; i < k; ++i) {
				if (i) line += ' ';
				if (dead[i]) line += "x";
				else line += fmt("%lld,%lld", idOf(a.pvGetPrevBuffer(node[i])), idOf(a.pvGetNextBuffer(node[i])));
			}
			return line;
		};
		auto link = [&](const std::vector<size_t>& order) {
			for (size_t j = 0; j < order.size(); ++j) {
				long long p = j ? (long long)order[j - 1] : -1, n = (j + 1 < order.size()) ? (long long)order[j + 1] : -1;
				a.pvSetPrevBuffer(node[order[j]], p < 0 ? nullptr : node[p]);
				a.pvSetNextBuffer(node[order[j]], n < 0 ? nullptr : node[n]);
				s.op(fmt("pset %zu %lld %lld", order[j], p, n)); s.res(dump());
			}
		};
		std::vector<size_t> perm(k);
		for (size_t i = 0; i < k; ++i) perm[i] = i;
		for (size_t i = k; i > 1; --i) std::swap(perm[i - 1], perm[(size_t)rng.below(i)]);
		s.op(fmt("pinit %zu", k)); s.res("ok");
		unsigned kind = (unsigned)rng.below(3);
		std::string desc;
		if (kind == 0) {
			// pvMoveBufferToHead: head at position h >= 1, the moved buffer before it
			link(perm);
			size_t h = (size_t)rng.range(1, k - 1), m = (size_t)rng.below(h);
			a.mFreeBufferHead = node[perm[h]];
			a.pvMoveBufferToHead(node[perm[m]]);
			s.op(fmt("pmove %zu %zu", perm[h], perm[m])); s.res(dump());
			if (a.mFreeBufferHead != node[perm[m]]) c.fail("C09 list: pvMoveBufferToHead did not make the buffer the head");
			desc = fmt("pmove k=%zu head@%zu buffer@%zu", k, h, m);
			c.stats.count(m + 1 == h ? "dll.move.is_head_prev" : "dll.move.relinked");
		}
		else if (kind == 1) {
			// pvDeleteBuffer of every buffer but the head, in random order
			link(perm);
			size_t h = (size_t)rng.below(k);
			a.mFreeBufferHead = node[perm[h]];
			std::vector<size_t> victims;
			for (size_t j = 0; j < k; ++j) if (j != h && rng.chance(2, 3)) victims.push_back(perm[j]);
			for (size_t i = victims.size(); i > 1; --i) std::swap(victims[i - 1], victims[(size_t)rng.below(i)]);
			for (size_t v : victims) {
				a.pvDeleteBuffer(node[v]);
				dead[v] = true;
				s.op(fmt("punlink %zu", v)); s.res(dump());
				c.stats.count("dll.unlink");
			}
			desc = fmt("punlink k=%zu head@%zu victims=%zu", k, h, victims.size());
		}
		else {
			// MergeFrom: split the nodes into two lists with their heads
			size_t k1 = (size_t)rng.range(1, k - 1);
			std::vector<size_t> l1(perm.begin(), perm.begin() + k1), l2(perm.begin() + k1, perm.end());
			link(l1); link(l2);
			size_t h1 = (size_t)rng.below(l1.size()), h2 = (size_t)rng.below(l2.size());
			a.mFreeBufferHead = node[l1[h1]];
			b.mFreeBufferHead = node[l2[h2]];
			a.MergeFrom(b);
			s.op(fmt("pmerge %zu %zu", l1[h1], l2[h2])); s.res(dump());
			if (b.mFreeBufferHead != nullptr || a.mFreeBufferHead != node[l1[h1]]) c.fail("C09 merge: heads after MergeFrom are wrong");
			// property level: the list of `a` is a well-formed doubly linked list of exactly all k buffers
			Byte* first = a.mFreeBufferHead; size_t steps = 0;
			while (a.pvGetPrevBuffer(first) != nullptr && steps++ <= k) first = a.pvGetPrevBuffer(first);
			std::set<Byte*> seen; Byte* prev = nullptr; bool good = true;
			for (Byte* p = first; p != nullptr && seen.size() <= k; p = a.pvGetNextBuffer(p)) {
				if (idOf(p) < 0 || !seen.insert(p).second || a.pvGetPrevBuffer(p) != prev) { good = false; break; }
				prev = p;
			}
			if (!good || seen.size() != k)
				c.fail("C09 merge: list after MergeFrom is not a doubly linked list of all buffers: this=%zu buffers head@%zu, other=%zu buffers head@%zu", l1.size(), h1, l2.size(), h2);
			desc = fmt("pmerge this=%zu head@%zu other=%zu head@%zu", l1.size(), h1, l2.size(), h2);
			if (h2 > 0) c.stats.count("dll.merge.other_has_full_buffers");
			if (h1 > 0) c.stats.count("dll.merge.this_has_full_buffers");
			if (h2 > 1) c.stats.count("dll.merge.moved_2_or_more");
		}
		c.stats.evaluations++;
		c.stats.nontrivial("dll " + desc + " " + joinRel(std::vector<long long>(perm.begin(), perm.end())));
		if (round < 3) c.stats.sample("dll " + desc);
		// give everything back through the real DeallocateAll (needs an intact list); before that walk the real links from the
		// head (model op `pwalk`), then compare the ORDER in which DeallocateAll gives the buffers back (model op `pdall`)
		a.mData.allocCount = 0; b.mData.allocCount = 0;
		if (a.mFreeBufferHead != nullptr) {
			auto joinSp = [](const std::vector<long long>& v) { std::string r; for (size_t i = 0; i < v.size(); ++i) { if (i) r += ' '; r += std::to_string(v[i]); } return r; };
			std::vector<long long> fw, bw, order;
			size_t steps = 0;
			for (Byte* p = a.mFreeBufferHead; p != nullptr && steps++ <= k; p = a.pvGetNextBuffer(p)) fw.push_back(idOf(p));
			for (Byte* p = a.pvGetPrevBuffer(a.mFreeBufferHead); p != nullptr && steps++ <= 2 * k; p = a.pvGetPrevBuffer(p)) bw.push_back(idOf(p));
			long long headId = idOf(a.mFreeBufferHead);
			s.op(fmt("pwalk %lld", headId)); s.res("f=[" + joinSp(fw) + "] b=[" + joinSp(bw) + "]");
			ar.takeEvents();
			a.DeallocateAll();
			std::string ev = ar.takeEvents();
			for (size_t pos = 0; (pos = ev.find('F', pos)) != std::string::npos; ++pos) {
				long long off = atoll(ev.c_str() + pos + 1), id = -2;
				for (size_t i = 0; i < k; ++i) if (nodeOff[i] == off) id = (long long)i;
				order.push_back(id);
			}
			s.op(fmt("pdall %lld", headId)); s.res("[" + joinSp(order) + "]");
			std::vector<long long> want(bw); want.insert(want.end(), fw.begin(), fw.end());
			if (order != want) c.fail("C09 DeallocateAll: dll round '%s': buffers given back [%s], the list was pre=[%s] post=[%s]", desc.c_str(), joinSp(order).c_str(), joinSp(bw).c_str(), joinSp(fw).c_str());
			c.stats.count("dll.walk_and_dall");
		}
		ar.takeEvents();
		if (!ar.live.empty()) { c.fail("C09 returned: dll round '%s' left %zu buffers with the manager", desc.c_str(), ar.live.size()); ar.forgetAll(); }
	}
	ar.checkCanary(0, 4096 + 70 * 256, "end of the dll suite");
}

// ------------------------------------------------------------------------------------------------ state suite

struct UserBlock { long long rel; uint32_t tag; };

struct HistoryStats { unsigned maxBuffers = 0, buffersFreed = 0; };

template<size_t N, size_t C>
struct History {
	typedef PoolNC<N, C> Pool;
	Ctx& c; Rng& rng; Suite& s; Arena& ar;
	size_t reqSize, A, S = 0, g = 0, bufSize = 0, window = 0;
	std::map<int, std::unique_ptr<Pool>> pools;
	std::map<int, std::vector<UserBlock>> blocks;	// user-live blocks per pool
	std::map<long long, int> allLive;				// all user-live blocks of the history: rel -> pool id
	uint32_t nextTag = 1;
	int nextId = 1;
	long long lastFreed = -1;
	std::string cfgName;
	HistoryStats hs;
	unsigned opNo = 0;

	History(Ctx& c_, Rng& rng_, Suite& s_, size_t reqSize_, size_t A_) : c(c_), rng(rng_), s(s_), ar(g_arena), reqSize(reqSize_), A(A_) {}

	static uint8_t pat(uint32_t tag, size_t j) { return (uint8_t)(tag * 131u + j * 7u + 1u); }
	void writePattern(const UserBlock& ub) { uint8_t* p = ar.mem + ub.rel; for (size_t j = 0; j < S; ++j) p[j] = pat(ub.tag, j); }
	void checkPattern(int id, const UserBlock& ub, const char* when) {
		const uint8_t* p = ar.mem + ub.rel;
		for (size_t j = 0; j < S; ++j)
			if (p[j] != pat(ub.tag, j)) { c.fail("C09 live block overwritten: %s pool %d block arena+%lld byte %zu (%s, op %u)", cfgName.c_str(), id, ub.rel, j, when, opNo); return; }
	}
	void checkAllPatterns(const char* when) { for (auto& kv : blocks) for (auto& ub : kv.second) checkPattern(kv.first, ub, when); }
	// while pool code runs, every user-live block is poisoned (the pool must neither read nor write it)
	void guard(bool on) {
#if defined(__SANITIZE_ADDRESS__)
		for (auto& kv : allLive) { if (on) VF_POISON(ar.mem + kv.first, S); else VF_UNPOISON(ar.mem + kv.first, S); }
#else
		(void)on;
#endif
	}

	std::string digest(Pool& pool) {
		std::vector<long long> cache, pre, post;
		void* cb = pool.mCacheHead;
		for (size_t i = 0; i < pool.mCachedCount && i < 100000; ++i) { cache.push_back(ar.rel(cb)); cb = momo::internal::MemCopyer::FromBuffer<void*>(cb); }
		if (pool.mFreeBufferHead != nullptr) {
			size_t steps = 0;
			for (Byte* b = pool.pvGetPrevBuffer(pool.mFreeBufferHead); b != nullptr && steps++ < 100000; b = pool.pvGetPrevBuffer(b)) pre.push_back(ar.rel(b));
			for (Byte* b = pool.mFreeBufferHead; b != nullptr && steps++ < 100000; b = pool.pvGetNextBuffer(b)) post.push_back(ar.rel(b));
			if (steps >= 100000) c.fail("C09 list: %s buffer list is cyclic (op %u)", cfgName.c_str(), opNo);
		}
		hs.maxBuffers = std::max<unsigned>(hs.maxBuffers, (unsigned)(pre.size() + post.size()));
		return "n=" + std::to_string(pool.GetAllocateCount()) + " c=[" + joinRel(cache) + "] pre=[" + joinRel(pre) + "] post=[" + joinRel(post) + "]";
	}
	std::string dump(Pool& pool) {
		std::vector<long long> cache;
		void* cb = pool.mCacheHead;
		for (size_t i = 0; i < pool.mCachedCount && i < 100000; ++i) { cache.push_back(ar.rel(cb)); cb = momo::internal::MemCopyer::FromBuffer<void*>(cb); }
		std::vector<Byte*> order;
		size_t preCount = 0;
		if (pool.mFreeBufferHead != nullptr) {
			for (Byte* b = pool.pvGetPrevBuffer(pool.mFreeBufferHead); b != nullptr && order.size() < 100000; b = pool.pvGetPrevBuffer(b)) order.push_back(b);
			std::reverse(order.begin(), order.end());
			preCount = order.size();
			for (Byte* b = pool.mFreeBufferHead; b != nullptr && order.size() < 100000; b = pool.pvGetNextBuffer(b)) order.push_back(b);
		}
		std::string line = "n=" + std::to_string(pool.GetAllocateCount()) + " c=[" + joinRel(cache) + "] store=" + std::to_string(order.size()) + " head=" + std::to_string(preCount) + " ";
		bool firstOne = true;
		for (Byte* b : order) {
			if (!firstOne) line += ' ';
			firstOne = false;
			auto bytes = pool.pvGetBufferBytes(b);
			int first = pool.pvGetFirstBlockIndex(b);
			line += fmt("%lld(%d,%d,%d,%u)[", ar.rel(b), first, (int)bytes.firstFreeBlockIndex, (int)bytes.freeBlockCount, (unsigned)pool.pvGetBeginOffset(b));
			int8_t idx = bytes.firstFreeBlockIndex;
			for (int i = 0; i < bytes.freeBlockCount; ++i) {
				if (i) line += ',';
				line += std::to_string((int)idx);
				if (idx < first || idx >= first + (int)N) { c.fail("C09 free chain: %s buffer arena+%lld chain leaves the buffer at step %d (op %u)", cfgName.c_str(), ar.rel(b), i, opNo); break; }
				idx = pool.pvGetNextFreeBlockIndex(pool.pvGetBlock(b, idx));
			}
			line += "]";
		}
		return line;
	}

	// property-level checks after every operation
	void checkCounts(int id, Pool& pool) {
		if (pool.GetAllocateCount() != blocks[id].size())
			c.fail("C09 count: %s pool %d reports %zu allocated blocks, %zu are live (op %u)", cfgName.c_str(), id, pool.GetAllocateCount(), blocks[id].size(), opNo);
	}
	void prepareAnswers(bool fault) {
		ar.answers.clear();
		if (fault) { ar.answers.assign(2, -1); return; }
		long long a1 = -1;
		unsigned mode = (unsigned)rng.below(8);
		if (mode == 0 && lastFreed >= 0) a1 = chooseFree(ar, rng, g, bufSize, 0, window, lastFreed);	// reuse the address just given back
		else if (mode == 1 && !ar.live.empty()) {			// directly behind an existing allocation
			auto it = ar.live.begin(); std::advance(it, (long)rng.below(ar.live.size()));
			a1 = chooseFree(ar, rng, g, bufSize, 0, window, (long long)(it->first + it->second));
		}
		else if (mode == 2 && !ar.live.empty()) {			// directly in front of an existing allocation
			auto it = ar.live.begin(); std::advance(it, (long)rng.below(ar.live.size()));
			long long want = (long long)it->first - (long long)bufSize;
			if (want >= 0) { want = want / (long long)g * (long long)g; if (!ar.overlaps((size_t)want, bufSize)) a1 = want; }
		}
		if (a1 < 0) a1 = chooseFree(ar, rng, g, bufSize, 0, window);
		if (a1 < 0) { c.fail("harness: no free address in the window"); a1 = 0; }
		ar.answers.push_back(a1);
		// a second answer for a second request (never used when blockCount > 1; the model knows both)
		ar.live[(size_t)a1] = bufSize;
		long long a2 = chooseFree(ar, rng, g, bufSize, 0, window);
		ar.live.erase((size_t)a1);
		ar.answers.push_back(a2);
	}

	int newPool() {
		int id = nextId++;
		pools[id].reset(new Pool(momo::MemPoolParams<N, C>(reqSize, A), Mgr(&ar)));
		Pool& pool = *pools[id];
		if (S == 0) {
			S = pool.GetBlockSize();
			g = allocAlignOf(A);
			bufSize = (N > 1) ? pool.pvGetBufferSize() : (pool.pvGetAlignmentAddend() == 0 ? pool.pvGetBufferSize0() : pool.pvGetBufferSize1());
			window = std::min<size_t>(Arena::arenaSize - 4096, 65536 + bufSize * (N > 1 ? 48 : 400));
			cfgName = fmt("S=%zu A=%zu N=%zu C=%zu", S, A, N, C);
		}
		s.op(fmt("new %d %zu %zu %zu %zu", id, S, A, N, C));
		s.res(fmt("legal=1 size=%zu cache=%d", bufSize, pool.pvUseCache() ? 1 : 0));
		blocks[id];
		return id;
	}

	void opAlloc(int id, bool fault) {
		Pool& pool = *pools[id];
		prepareAnswers(fault);
		std::string opLine = fault ? fmt("alloc %d fail", id) : fmt("alloc %d %lld %lld", id, ar.answers[0], ar.answers[1]);
		uint64_t reqBefore = ar.requests;
		void* blk = nullptr; bool threw = false;
		guard(true);
		try { blk = pool.Allocate(); }
		catch (const std::bad_alloc&) { threw = true; }
		guard(false);
		std::string ev = ar.takeEvents();
		s.op(opLine);
		if (threw) {
			s.res("E:bad_alloc | " + ev + " | " + digest(pool));
			c.stats.count("state.fault_fired");
		}
		else {
			long long r = ar.rel(blk);
			s.res(std::to_string(r) + " | " + ev + " | " + digest(pool));
			// property level
			if ((uintptr_t)blk % A != 0) c.fail("C09 alignment: %s pool %d Allocate returned arena+%lld (op %u)", cfgName.c_str(), id, r, opNo);
			if (r < 0 || ar.owner((size_t)r, S) == ar.live.end()) c.fail("C09 inside: %s pool %d block [%lld,%lld) is not inside memory obtained from the manager (op %u)", cfgName.c_str(), id, r, r + (long long)S, opNo);
			auto nx = allLive.lower_bound(r);
			if (nx != allLive.end() && nx->first < r + (long long)S) c.fail("C09 disjoint: %s pool %d block arena+%lld overlaps live block arena+%lld (op %u)", cfgName.c_str(), id, r, nx->first, opNo);
			if (nx != allLive.begin()) { auto pv = std::prev(nx); if (pv->first + (long long)S > r) c.fail("C09 disjoint: %s pool %d block arena+%lld overlaps live block arena+%lld (op %u)", cfgName.c_str(), id, r, pv->first, opNo); }
			UserBlock ub{ r, nextTag++ };
			writePattern(ub);
			blocks[id].push_back(ub);
			allLive[r] = id;
			c.stats.count(ar.requests != reqBefore ? "state.alloc.new_memory" : "state.alloc.reuse");
		}
		if (fault && !threw) c.stats.count("state.fault_not_needed");
		checkCounts(id, pool);
		c.stats.count("state.op.alloc");
	}

	void opFree(int id) {
		Pool& pool = *pools[id];
		auto& v = blocks[id];
		if (v.empty()) return;
		size_t i = (size_t)rng.below(v.size());
		// bias: finish off buffers (free neighbours of recently freed blocks) so that buffers get returned
		if (lastBlockFreed >= 0 && rng.chance(1, 2)) {
			size_t best = i; long long bestD = -1;
			for (size_t j = 0; j < v.size(); ++j) { long long d = std::llabs(v[j].rel - lastBlockFreed); if (bestD < 0 || d < bestD) { bestD = d; best = j; } }
			i = best;
		}
		UserBlock ub = v[i];
		checkPattern(id, ub, "before Deallocate");
		v[i] = v.back(); v.pop_back();
		allLive.erase(ub.rel);
		lastBlockFreed = ub.rel;
		uint64_t freesBefore = ar.frees;
		guard(true);
		pool.Deallocate(ar.mem + ub.rel);
		guard(false);
		std::string ev = ar.takeEvents();
		s.op(fmt("free %d %lld", id, ub.rel));
		s.res("ok | " + ev + " | " + digest(pool));
		if (ar.frees != freesBefore) { c.stats.count("state.free.memory_returned", ar.frees - freesBefore); hs.buffersFreed += (unsigned)(ar.frees - freesBefore); noteLastFreed(ev); }
		checkCounts(id, pool);
		c.stats.count("state.op.free");
	}
	long long lastBlockFreed = -1;
	void noteLastFreed(const std::string& ev) {
		size_t p = ev.rfind('F');
		if (p != std::string::npos) lastFreed = atoll(ev.c_str() + p + 1);
	}

	void opDif(int id) {
		Pool& pool = *pools[id];
		auto& v = blocks[id];
		std::set<long long> sel;
		unsigned mode = (unsigned)rng.below(4);
		for (auto& ub : v) {
			bool pick = (mode == 0) ? rng.chance(1, 2) : (mode == 1) ? rng.chance(1, 8) : (mode == 2) ? rng.chance(7, 8) : ((ub.rel / (long long)(S * 3)) % 2 == 0);
			if (pick) sel.insert(ub.rel);
		}
		checkAllPatterns("before DeallocateIf");
		std::string opLine = "dif " + std::to_string(id);
		for (long long r : sel) { opLine += ' '; opLine += std::to_string(r); }
		std::vector<long long> asked;
		// the selected blocks stop being the user's when the call starts
		std::vector<UserBlock> kept;
		for (auto& ub : v) { if (sel.count(ub.rel)) allLive.erase(ub.rel); else kept.push_back(ub); }
		uint64_t freesBefore = ar.frees;
		guard(true);
		pool.DeallocateIf([&](void* p) { long long r = ar.rel(p); asked.push_back(r); return sel.count(r) > 0; });
		guard(false);
		std::string ev = ar.takeEvents();
		s.op(opLine);
		s.res("[" + joinRel(asked) + "] | " + ev + " | " + digest(pool));
		// property level: the filter is asked exactly once about every live block and about nothing else
		std::vector<long long> a2 = asked, want;
		for (auto& ub : v) want.push_back(ub.rel);
		std::sort(a2.begin(), a2.end()); std::sort(want.begin(), want.end());
		if (a2 != want) c.fail("C09 DeallocateIf: %s pool %d filter asked about %zu blocks, %zu are live (op %u)", cfgName.c_str(), id, a2.size(), want.size(), opNo);
		v = kept;
		checkCounts(id, pool);
		checkAllPatterns("after DeallocateIf");
		if (ar.frees != freesBefore) { c.stats.count("state.dif.memory_returned", ar.frees - freesBefore); hs.buffersFreed += (unsigned)(ar.frees - freesBefore); noteLastFreed(ev); }
		c.stats.count("state.op.dif");
		c.stats.count("state.dif.selected", sel.size());
	}

	// DeallocateIf whose filter throws when it is asked its (k+1)-th question (k answers were given). MemPool handles one
	// block completely before it asks about the next, so the call must leave the pool exactly as a complete call would whose
	// filter answers `false` from the (k+1)-th question on: that is what the model line `dift` computes.
	void opDifThrow(int id) {
		Pool& pool = *pools[id];
		auto& v = blocks[id];
		if (v.empty()) return;
		std::set<long long> sel;
		for (auto& ub : v) if (rng.chance(3, 4)) sel.insert(ub.rel);
		size_t k = (size_t)rng.below(v.size());
		checkAllPatterns("before DeallocateIf(throwing filter)");
		std::string opLine = "dift " + std::to_string(id) + " " + std::to_string(k);
		for (long long r : sel) { opLine += ' '; opLine += std::to_string(r); }
		std::vector<long long> asked;
		uint64_t freesBefore = ar.frees;
		bool threw = false;
		struct FilterThrow {};
		// every block may be deleted by the call: none of them is the user's while it runs
		for (auto& ub : v) allLive.erase(ub.rel);
		guard(true);
		try {
			pool.DeallocateIf([&](void* p) { if (asked.size() == k) throw FilterThrow(); long long r = ar.rel(p); asked.push_back(r); return sel.count(r) > 0; });
		} catch (const FilterThrow&) { threw = true; }
		guard(false);
		std::string ev = ar.takeEvents();
		s.op(opLine);
		s.res("[" + joinRel(asked) + "] | " + ev + " | " + digest(pool));
		if (!threw) c.fail("C09 DeallocateIf: %s pool %d: filter was asked only %zu questions about %zu live blocks (op %u)", cfgName.c_str(), id, asked.size(), v.size(), opNo);
		std::set<long long> askedSet(asked.begin(), asked.end());
		if (askedSet.size() != asked.size()) c.fail("C09 DeallocateIf: %s pool %d: a block was asked about twice (op %u)", cfgName.c_str(), id, opNo);
		std::vector<UserBlock> kept;
		for (auto& ub : v) {
			bool gone = askedSet.count(ub.rel) && sel.count(ub.rel);
			if (!gone) { kept.push_back(ub); allLive[ub.rel] = id; }
		}
		for (long long r : asked) { bool live = false; for (auto& ub : v) if (ub.rel == r) live = true; if (!live) c.fail("C09 DeallocateIf: %s pool %d: filter asked about arena+%lld which is not a live block (op %u)", cfgName.c_str(), id, r, opNo); }
		v = kept;
		checkCounts(id, pool);		// the reported allocated count = number of live blocks, also after the exception
		checkAllPatterns("after DeallocateIf(throwing filter)");
		if (ar.frees != freesBefore) { hs.buffersFreed += (unsigned)(ar.frees - freesBefore); noteLastFreed(ev); }
		c.stats.count("state.op.dif_throw");
		c.stats.count("state.dif_throw.deleted_before_throw", (uint64_t)(blocks[id].size() < v.size() ? 0 : 0) + (uint64_t)(askedSet.size()));
	}

	void opDall(int id) {
		Pool& pool = *pools[id];
		for (auto& ub : blocks[id]) allLive.erase(ub.rel);
		blocks[id].clear();
		uint64_t freesBefore = ar.frees;
		guard(true);
		pool.DeallocateAll();
		guard(false);
		std::string ev = ar.takeEvents();
		s.op(fmt("dall %d", id));
		s.res("ok | " + ev + " | " + digest(pool));
		hs.buffersFreed += (unsigned)(ar.frees - freesBefore);
		checkCounts(id, pool);
		c.stats.count("state.op.dall");
	}

	void opMerge(int id1, int id2) {
		Pool& a = *pools[id1]; Pool& b = *pools[id2];
		bool bothLists = a.mFreeBufferHead != nullptr && b.mFreeBufferHead != nullptr;
		bool otherFull = b.mFreeBufferHead != nullptr && b.pvGetPrevBuffer(b.mFreeBufferHead) != nullptr;
		guard(true);
		a.MergeFrom(b);
		guard(false);
		std::string ev = ar.takeEvents();
		for (auto& ub : blocks[id2]) { blocks[id1].push_back(ub); allLive[ub.rel] = id1; }
		blocks[id2].clear();
		s.op(fmt("merge %d %d", id1, id2));
		s.res("ok | " + ev + " | " + digest(a) + " || " + digest(b));
		checkCounts(id1, a); checkCounts(id2, b);
		checkAllPatterns("after MergeFrom");
		c.stats.count("state.op.merge");
		if (bothLists) c.stats.count("state.merge.both_have_buffers");
		if (bothLists && otherFull) c.stats.count("state.merge.moves_full_buffers");
	}

	void opDump(int id) {
		s.op(fmt("dump %d", id)); s.res(dump(*pools[id]));
		c.stats.count("state.op.dump");
	}

	// free everything that is live (through Deallocate or DeallocateAll), then destroy
	void opDestroy(int id) {
		Pool& pool = *pools[id];
		if (N > 1 && rng.chance(1, 2)) opDall(id);
		else {
			// shuffled frees
			while (!blocks[id].empty()) { lastBlockFreed = -1; opFree(id); }
		}
		opDump(id);
		guard(true);
		pools.erase(id);
		guard(false);
		(void)pool;
		std::string ev = ar.takeEvents();
		s.op(fmt("destroy %d", id));
		s.res("ok | " + ev + " | store=0 singles=0");
		blocks.erase(id);
		c.stats.count("state.op.destroy");
	}

	int randomPool() { auto it = pools.begin(); std::advance(it, (long)rng.below(pools.size())); return it->first; }

	void run(unsigned length) {
		newPool();
		if (rng.chance(1, 2)) newPool();
		unsigned target = (unsigned)rng.range(1, N > 1 ? (unsigned)std::min<size_t>(4 * N + 8, 260) : 40);
		for (opNo = 0; opNo < length; ++opNo) {
			int id = randomPool();
			size_t liveCount = blocks[id].size();
			unsigned r = (unsigned)rng.below(100);
			if (opNo % 24 == 23) target = (unsigned)rng.range(0, N > 1 ? (unsigned)std::min<size_t>(4 * N + 8, 260) : 40);
			if (r < 4) opDump(id);
			else if (r < 7 && N > 1 && liveCount > 0) { if (rng.chance(1, 3)) opDifThrow(id); else opDif(id); }
			else if (r < 8 && N > 1) opDall(id);
			else if (r < 11 && pools.size() >= 2) {
				int id2 = randomPool();
				if (id2 != id) { opMerge(id, id2); if (rng.chance(1, 2)) opDestroy(id2); }
			}
			else if (r < 13 && pools.size() < 3) newPool();
			else if (r < 14 && pools.size() >= 2) opDestroy(id);
			else if (r < 17) opAlloc(id, true);
			else {
				bool grow = liveCount < target ? rng.chance(3, 4) : rng.chance(1, 4);
				if (grow && allLive.size() < 300) opAlloc(id, false); else opFree(id);
			}
			if (opNo % 16 == 15) checkAllPatterns("periodic");
			c.stats.evaluations++;
		}
		while (!pools.empty()) opDestroy(pools.begin()->first);
		// property level: everything has been given back
		if (!ar.live.empty()) {
			c.fail("C09 returned: %s after all pools were destroyed the manager still holds %zu allocations (first arena+%zu)", cfgName.c_str(), ar.live.size(), ar.live.begin()->first);
			ar.forgetAll();
		}
		ar.checkCanary(0, window + 2 * bufSize + 8192, "end of history");
		if (hs.maxBuffers >= 2 && hs.buffersFreed >= 1) c.stats.count("state.histories_nontrivial");
		c.stats.count("state.histories");
	}
};

template<size_t N, size_t C>
static void runHistories(Ctx& c, Rng& rng, Suite& s, unsigned count, unsigned length)
{
	for (unsigned h = 0; h < count; ++h) {
		size_t A, reqSize;
		switch (rng.below(6)) {
		case 0: A = (size_t)rng.range(1, 16); break;
		case 1: A = size_t{1} << rng.below(11); break;
		case 2: { static const size_t odd[8] = { 3, 24, 48, 100, 272, 384, 1000, 1023 }; A = odd[rng.below(8)]; break; }
		case 3: A = (size_t)rng.range(1, 1024); break;
		default: { static const size_t common[5] = { 1, 2, 4, 8, 16 }; A = common[rng.below(5)]; break; }
		}
		switch (rng.below(3)) {
		case 0: reqSize = (size_t)rng.range(1, 40); break;
		case 1: reqSize = A * (size_t)rng.range(2, 5); break;
		default: reqSize = (size_t)rng.range(1, 300); break;
		}
		if (N == 127 && A > 64) A = (size_t)rng.range(1, 64);	// keep the buffers of the widest pools below 1 MB
		s.comment(fmt("history N=%zu C=%zu reqSize=%zu A=%zu #%u", N, C, reqSize, A, h));
		History<N, C> hist(c, rng, s, reqSize, A);
		hist.run(length);
		c.stats.nontrivial(fmt("hist %zu/%zu/%zu/%zu/%u", N, C, reqSize, A, h));
		if (h == 0) c.stats.sample(fmt("state history N=%zu C=%zu %s: %u ops, max %u buffers, %u buffers returned before the end", N, C, hist.cfgName.c_str(), length, hist.hs.maxBuffers, hist.hs.buffersFreed));
	}
}

template<size_t N>
static void runStateN(Ctx& c, Rng& rng, Suite& s, unsigned count, unsigned length)
{
	runHistories<N, 0>(c, rng, s, count, length);
	runHistories<N, 1>(c, rng, s, count, length);
	runHistories<N, 16>(c, rng, s, count, length);
}

// ------------------------------------------------------------------------------------------------ world suite (part 5)
// Several real pools with tagged memory managers (tags 1 and 2 = two different managers, tag -1 = moved-from). The pools of
// one history share blockCount / cache size (template constants) and use two (block size, alignment) settings, so that
// Swap and the move operations visibly carry parameters, manager, count, buffers and cache from one object to another.

template<size_t N, size_t C>
struct World {
	typedef PoolNC<N, C> Pool;
	struct Obj {
		std::unique_ptr<Pool> pool;
		std::vector<UserBlock> blocks;		// user-live blocks that must be freed through THIS object
		bool movedFrom = false;
	};
	Ctx& c; Rng& rng; Suite& s; Arena& ar;
	size_t reqSize[2], algn[2];
	std::map<int, Obj> objs;
	std::map<long long, size_t> allLive;	// rel -> block size
	uint32_t nextTag = 1;
	int nextId = 1;
	unsigned opNo = 0;
	std::string cfgName;
	unsigned swaps = 0, moves = 0, assigns = 0, merges = 0;

	World(Ctx& c_, Rng& rng_, Suite& s_) : c(c_), rng(rng_), s(s_), ar(g_arena) {}

	static uint8_t pat(uint32_t tag, size_t j) { return (uint8_t)(tag * 131u + j * 7u + 1u); }
	static size_t bufSizeOf(Pool& p) { return (N > 1) ? p.pvGetBufferSize() : (p.pvGetAlignmentAddend() == 0 ? p.pvGetBufferSize0() : p.pvGetBufferSize1()); }
	void guard(bool on) {
#if defined(__SANITIZE_ADDRESS__)
		for (auto& kv : allLive) { if (on) VF_POISON(ar.mem + kv.first, kv.second); else VF_UNPOISON(ar.mem + kv.first, kv.second); }
#else
		(void)on;
#endif
	}
	void writePattern(const UserBlock& ub, size_t S) { uint8_t* p = ar.mem + ub.rel; for (size_t j = 0; j < S; ++j) p[j] = pat(ub.tag, j); }
	void checkPattern(int id, const UserBlock& ub, size_t S, const char* when) {
		const uint8_t* p = ar.mem + ub.rel;
		for (size_t j = 0; j < S; ++j)
			if (p[j] != pat(ub.tag, j)) { c.fail("C09 live block overwritten: world %s object %d block arena+%lld byte %zu (%s, op %u)", cfgName.c_str(), id, ub.rel, j, when, opNo); return; }
	}
	void checkAllPatterns(const char* when) { for (auto& kv : objs) if (kv.second.pool) for (auto& ub : kv.second.blocks) checkPattern(kv.first, ub, kv.second.pool->GetBlockSize(), when); }

	std::string digest(Pool& pool) {
		std::vector<long long> cache, pre, post;
		void* cb = pool.mCacheHead;
		for (size_t i = 0; i < pool.mCachedCount && i < 100000; ++i) { cache.push_back(ar.rel(cb)); cb = momo::internal::MemCopyer::FromBuffer<void*>(cb); }
		if (pool.mFreeBufferHead != nullptr) {
			size_t steps = 0;
			for (Byte* b = pool.pvGetPrevBuffer(pool.mFreeBufferHead); b != nullptr && steps++ < 100000; b = pool.pvGetPrevBuffer(b)) pre.push_back(ar.rel(b));
			for (Byte* b = pool.mFreeBufferHead; b != nullptr && steps++ < 100000; b = pool.pvGetNextBuffer(b)) post.push_back(ar.rel(b));
		}
		return fmt("S=%zu A=%zu mgr=%d n=%zu c=[", pool.GetBlockSize(), pool.GetBlockAlignment(), pool.GetMemManager().tag, pool.GetAllocateCount())
			+ joinRel(cache) + "] pre=[" + joinRel(pre) + "] post=[" + joinRel(post) + "]";
	}
	void checkCount(int id) {
		Obj& o = objs[id];
		if (o.pool->GetAllocateCount() != o.blocks.size())
			c.fail("C09 count: world %s object %d reports %zu allocated blocks, %zu are live (op %u)", cfgName.c_str(), id, o.pool->GetAllocateCount(), o.blocks.size(), opNo);
	}

	int opNew() {
		int id = nextId++;
		unsigned k = (unsigned)rng.below(2);
		int tag = rng.chance(2, 3) ? 1 : 2;
		Obj& o = objs[id];
		o.pool.reset(new Pool(momo::MemPoolParams<N, C>(reqSize[k], algn[k]), Mgr(&ar, tag)));
		s.op(fmt("new %d %zu %zu %zu %zu %d", id, o.pool->GetBlockSize(), o.pool->GetBlockAlignment(), N, C, tag));
		s.res("legal=1 | " + digest(*o.pool));
		c.stats.count("world.op.new");
		return id;
	}
	void opAlloc(int id, bool fault) {
		Obj& o = objs[id]; Pool& pool = *o.pool;
		const size_t S = pool.GetBlockSize(), A = pool.GetBlockAlignment(), g = allocAlignOf(A), bufSize = bufSizeOf(pool);
		const size_t window = std::min<size_t>(Arena::arenaSize - 4096, 65536 + bufSize * 64);
		ar.answers.clear();
		long long a1 = -1, a2 = -1;
		if (fault) ar.answers.assign(2, -1);
		else {
			a1 = chooseFree(ar, rng, g, bufSize, 0, window);
			if (a1 < 0) { c.fail("harness: no free address in the window"); a1 = 0; }
			ar.live[(size_t)a1] = bufSize; a2 = chooseFree(ar, rng, g, bufSize, 0, window); ar.live.erase((size_t)a1);
			ar.answers.push_back(a1); ar.answers.push_back(a2);
		}
		void* blk = nullptr; bool threw = false;
		guard(true);
		try { blk = pool.Allocate(); } catch (const std::bad_alloc&) { threw = true; }
		guard(false);
		std::string ev = ar.takeEvents();
		s.op(fault ? fmt("alloc %d fail", id) : fmt("alloc %d %lld %lld", id, a1, a2));
		if (threw) { s.res("E:bad_alloc | " + ev + " | " + digest(pool)); c.stats.count("world.fault_fired"); }
		else {
			long long r = ar.rel(blk);
			s.res(std::to_string(r) + " | " + ev + " | " + digest(pool));
			if ((uintptr_t)blk % A != 0) c.fail("C09 alignment: world %s object %d Allocate returned arena+%lld (op %u)", cfgName.c_str(), id, r, opNo);
			if (r < 0 || ar.owner((size_t)r, S) == ar.live.end()) c.fail("C09 inside: world %s object %d block [%lld,%lld) is not inside memory obtained from a manager (op %u)", cfgName.c_str(), id, r, r + (long long)S, opNo);
			auto nx = allLive.lower_bound(r);
			if (nx != allLive.end() && nx->first < r + (long long)S) c.fail("C09 disjoint: world %s object %d block arena+%lld overlaps live block arena+%lld (op %u)", cfgName.c_str(), id, r, nx->first, opNo);
			if (nx != allLive.begin()) { auto pv = std::prev(nx); if (pv->first + (long long)pv->second > r) c.fail("C09 disjoint: world %s object %d block arena+%lld overlaps live block arena+%lld (op %u)", cfgName.c_str(), id, r, pv->first, opNo); }
			UserBlock ub{ r, nextTag++ };
			writePattern(ub, S);
			o.blocks.push_back(ub);
			allLive[r] = S;
		}
		checkCount(id);
		c.stats.count("world.op.alloc");
	}
	void opFree(int id) {
		Obj& o = objs[id]; Pool& pool = *o.pool;
		if (o.blocks.empty()) return;
		size_t i = (size_t)rng.below(o.blocks.size());
		UserBlock ub = o.blocks[i];
		checkPattern(id, ub, pool.GetBlockSize(), "before Deallocate");
		o.blocks[i] = o.blocks.back(); o.blocks.pop_back();
		allLive.erase(ub.rel);
		guard(true);
		pool.Deallocate(ar.mem + ub.rel);
		guard(false);
		std::string ev = ar.takeEvents();
		s.op(fmt("free %d %lld", id, ub.rel));
		s.res("ok | " + ev + " | " + digest(pool));
		checkCount(id);
		c.stats.count("world.op.free");
	}
	void freeAllOf(int id) { while (!objs[id].blocks.empty()) opFree(id); }
	void opDall(int id) {
		Obj& o = objs[id];
		for (auto& ub : o.blocks) allLive.erase(ub.rel);
		o.blocks.clear();
		guard(true);
		o.pool->DeallocateAll();
		guard(false);
		std::string ev = ar.takeEvents();
		s.op(fmt("dall %d", id)); s.res("ok | " + ev + " | " + digest(*o.pool));
		checkCount(id);
		c.stats.count("world.op.dall");
	}
	bool mergeable(int id1, int id2) {
		Pool& a = *objs[id1].pool; Pool& b = *objs[id2].pool;
		return id1 != id2 && !objs[id1].movedFrom && !objs[id2].movedFrom && a.GetBlockSize() == b.GetBlockSize() && a.GetBlockAlignment() == b.GetBlockAlignment()
			&& a.GetMemManager().IsEqual(b.GetMemManager());
	}
	void opMerge(int id1, int id2) {
		Obj& a = objs[id1]; Obj& b = objs[id2];
		guard(true);
		a.pool->MergeFrom(*b.pool);
		guard(false);
		std::string ev = ar.takeEvents();
		for (auto& ub : b.blocks) a.blocks.push_back(ub);
		b.blocks.clear();
		s.op(fmt("merge %d %d", id1, id2));
		s.res("ok | " + ev + " | " + digest(*a.pool) + " || " + digest(*b.pool));
		checkCount(id1); checkCount(id2);
		++merges; c.stats.count("world.op.merge");
	}
	void opSwap(int id1, int id2) {
		Obj& a = objs[id1]; Obj& b = objs[id2];
		guard(true);
		if (rng.chance(1, 2)) a.pool->Swap(*b.pool); else swap(*a.pool, *b.pool);
		guard(false);
		std::string ev = ar.takeEvents();
		std::swap(a.blocks, b.blocks); std::swap(a.movedFrom, b.movedFrom);
		s.op(fmt("swap %d %d", id1, id2));
		s.res("ok | " + ev + " | " + digest(*a.pool) + " || " + digest(*b.pool));
		checkCount(id1); checkCount(id2);
		++swaps; c.stats.count("world.op.swap");
		if (a.pool->GetMemManager().tag != b.pool->GetMemManager().tag) c.stats.count("world.swap.different_managers");
	}
	void opMoveCtor(int idSrc) {
		int id = nextId++;
		Obj& src = objs[idSrc];
		Obj& o = objs[id];
		guard(true);
		o.pool.reset(new Pool(std::move(*src.pool)));
		guard(false);
		std::string ev = ar.takeEvents();
		o.blocks.swap(src.blocks); o.movedFrom = src.movedFrom; src.movedFrom = true;
		s.op(fmt("mctor %d %d", id, idSrc));
		s.res("ok | " + ev + " | " + digest(*o.pool) + " || " + digest(*src.pool));
		checkCount(id); checkCount(idSrc);
		if (src.pool->mFreeBufferHead != nullptr || src.pool->mCachedCount != 0 || src.pool->GetAllocateCount() != 0)
			c.fail("C09 move: world %s object %d is not empty after it was moved from (op %u)", cfgName.c_str(), idSrc, opNo);
		++moves; c.stats.count("world.op.move_construct");
	}
	void opMoveAssign(int idDst, int idSrc) {
		freeAllOf(idDst);		// the destructor of the temporary checks allocCount == 0
		Obj& dst = objs[idDst]; Obj& src = objs[idSrc];
		size_t heldBefore = ar.live.size();
		bool dstHadMemory = dst.pool->mFreeBufferHead != nullptr || dst.pool->mCachedCount != 0;
		guard(true);
		*dst.pool = std::move(*src.pool);
		guard(false);
		std::string ev = ar.takeEvents();
		dst.blocks.swap(src.blocks); dst.movedFrom = src.movedFrom; src.movedFrom = true;
		s.op(fmt("massign %d %d", idDst, idSrc));
		s.res("ok | " + ev + " | " + digest(*dst.pool) + " || " + digest(*src.pool));
		checkCount(idDst); checkCount(idSrc);
		if (dstHadMemory && ar.live.size() >= heldBefore) c.fail("C09 returned: world %s move assignment to object %d gave nothing back although it held memory (op %u)", cfgName.c_str(), idDst, opNo);
		++assigns; c.stats.count("world.op.move_assign");
		if (dstHadMemory) c.stats.count("world.move_assign.target_held_memory");
	}
	void opDestroy(int id) {
		if (N > 1 && !objs[id].blocks.empty() && rng.chance(1, 2)) opDall(id); else freeAllOf(id);
		guard(true);
		objs[id].pool.reset();
		guard(false);
		std::string ev = ar.takeEvents();
		s.op(fmt("destroy %d", id)); s.res("ok | " + ev + " | store=0 singles=0");
		objs.erase(id);
		c.stats.count("world.op.destroy");
	}
	int randomObj() { auto it = objs.begin(); std::advance(it, (long)rng.below(objs.size())); return it->first; }

	void run(unsigned length) {
		ar.tagEvents = true; g_markMovedFrom = true;
		opNew(); opNew();
		for (opNo = 0; opNo < length; ++opNo) {
			int id = randomObj();
			Obj& o = objs[id];
			unsigned r = (unsigned)rng.below(100);
			if (r < 8 && objs.size() >= 2) { int id2 = randomObj(); if (id2 != id) opSwap(id, id2); }
			else if (r < 13 && objs.size() < 5) opMoveCtor(id);
			else if (r < 18 && objs.size() >= 2) { int id2 = randomObj(); if (id2 != id) opMoveAssign(id, id2); }
			else if (r < 24 && objs.size() >= 2) {
				std::vector<int> partners;
				for (auto& kv : objs) if (mergeable(id, kv.first)) partners.push_back(kv.first);
				if (!partners.empty()) opMerge(id, partners[(size_t)rng.below(partners.size())]);
			}
			else if (r < 28 && objs.size() < 5) opNew();
			else if (r < 31 && objs.size() >= 3) opDestroy(id);
			else if (r < 33 && N > 1 && !o.movedFrom) opDall(id);
			else if (r < 36 && !o.movedFrom) opAlloc(id, true);
			else if (!o.movedFrom) { if (rng.chance(o.blocks.size() < 3 * N + 2 ? 3u : 1u, 4) && allLive.size() < 200) opAlloc(id, false); else opFree(id); }
			if (opNo % 16 == 15) checkAllPatterns("periodic");
			c.stats.evaluations++;
		}
		while (!objs.empty()) opDestroy(objs.begin()->first);
		if (!ar.live.empty()) { c.fail("C09 returned: world %s after all pools were destroyed the managers still hold %zu allocations (first arena+%zu)", cfgName.c_str(), ar.live.size(), ar.live.begin()->first); ar.forgetAll(); }
		ar.checkCanary(0, 2 << 20, "end of world history");
		ar.tagEvents = false; g_markMovedFrom = false;
		if (swaps > 0 && moves + assigns > 0) c.stats.count("world.histories_nontrivial");
		c.stats.count("world.histories");
	}
};

template<size_t N, size_t C>
static void runWorlds(Ctx& c, Rng& rng, Suite& s, unsigned count, unsigned length)
{
	for (unsigned h = 0; h < count; ++h) {
		World<N, C> w(c, rng, s);
		for (int k = 0; k < 2; ++k) {
			switch (rng.below(4)) {
			case 0: w.algn[k] = (size_t)rng.range(1, 16); break;
			case 1: w.algn[k] = size_t{1} << rng.below(10); break;
			case 2: { static const size_t odd[6] = { 3, 24, 48, 100, 272, 384 }; w.algn[k] = odd[rng.below(6)]; break; }
			default: { static const size_t common[4] = { 4, 8, 16, 32 }; w.algn[k] = common[rng.below(4)]; break; }
			}
			w.reqSize[k] = rng.chance(1, 2) ? (size_t)rng.range(1, 80) : w.algn[k] * (size_t)rng.range(2, 4);
		}
		if (rng.chance(1, 2)) { w.algn[1] = w.algn[0]; w.reqSize[1] = w.reqSize[0]; }		// equal parameters: more merges
		w.cfgName = fmt("N=%zu C=%zu (%zu,%zu)/(%zu,%zu) #%u", N, C, w.reqSize[0], w.algn[0], w.reqSize[1], w.algn[1], h);
		s.comment("world " + w.cfgName);
		w.run(length);
		c.stats.nontrivial("world " + w.cfgName);
		if (h == 0) c.stats.sample(fmt("world %s: %u ops, %u swaps, %u move constructions, %u move assignments, %u merges", w.cfgName.c_str(), length, w.swaps, w.moves, w.assigns, w.merges));
	}
}

static void runWorld(Ctx& c, Rng& rng)
{
	Suite s(c, "world", fmt("model poolworld arena=%llu", (unsigned long long)(uintptr_t)g_arena.mem));
	const unsigned count = c.thorough ? 12 : 4;
	const unsigned length = c.thorough ? 1200 : 500;
	runWorlds<1, 0>(c, rng, s, count, length);
	runWorlds<1, 4>(c, rng, s, count, length);
	runWorlds<2, 0>(c, rng, s, count, length);
	runWorlds<3, 2>(c, rng, s, count, length);
	runWorlds<5, 16>(c, rng, s, count, length);
	runWorlds<32, 0>(c, rng, s, count, length);
}

// ------------------------------------------------------------------------------------------------ u32 suite (part 6)
// momo::internal::MemPoolUInt32<blockCount, Mgr>: blocks addressed by 32-bit indices. Every request of the pool to its manager
// (the buffers AND the storage of the buffer array `mBuffers`) gets a chosen address; the model predicts all of them.

template<size_t N>
struct U32History {
	typedef momo::internal::MemPoolUInt32<N, Mgr> Pool;
	Ctx& c; Rng& rng; Suite& s; Arena& ar;
	size_t blockSize, maxTotal, S = 0;
	std::unique_ptr<Pool> pool;
	std::map<uint32_t, uint32_t> liveIdx;		// live index -> pattern tag
	std::map<long long, uint32_t> liveAddr;		// real pointer (rel) -> index
	uint32_t nextTag = 1;
	unsigned opNo = 0, maxBuffers = 0, clears = 0, lengthErrors = 0;
	std::string cfgName;

	U32History(Ctx& c_, Rng& rng_, Suite& s_, size_t bs, size_t mt) : c(c_), rng(rng_), s(s_), ar(g_arena), blockSize(bs), maxTotal(mt) {}

	static uint8_t pat(uint32_t tag, size_t j) { return (uint8_t)(tag * 197u + j * 11u + 3u); }
	void guard(bool on) {
#if defined(__SANITIZE_ADDRESS__)
		for (auto& kv : liveAddr) { if (on) VF_POISON(ar.mem + kv.first, S); else VF_UNPOISON(ar.mem + kv.first, S); }
#else
		(void)on;
#endif
	}
	std::string digest() {
		std::vector<long long> bufs;
		for (Byte* b : pool->mBuffers) bufs.push_back(ar.rel(b));
		maxBuffers = std::max<unsigned>(maxBuffers, (unsigned)bufs.size());
		return fmt("n=%zu head=%u bufs=[", pool->mAllocCount, (unsigned)pool->mBlockHead) + joinRel(bufs) + fmt("] cap=%zu", pool->mBuffers.GetCapacity());
	}
	void checkLive(const char* when) {
		if (pool->mAllocCount != liveIdx.size()) c.fail("C09 count: u32 %s reports %zu allocated blocks, %zu are live (%s, op %u)", cfgName.c_str(), pool->mAllocCount, liveIdx.size(), when, opNo);
		for (auto& kv : liveIdx) {
			const uint8_t* p = pool->template GetRealPointer<uint8_t>(kv.first);
			for (size_t j = 0; j < S; ++j) if (p[j] != pat(kv.second, j)) { c.fail("C09 live block overwritten: u32 %s index %u byte %zu (%s, op %u)", cfgName.c_str(), kv.first, j, when, opNo); break; }
		}
	}
	void opAlloc(unsigned failAt) {		// failAt: 0 / 1 = the manager refuses its 1st / 2nd request of this call, 2 = no fault
		const size_t bufSize = pool->pvGetBufferSize();
		const size_t arrRoom = 8 * (2 * pool->mBuffers.GetCapacity() + 70);
		const size_t window = 65536 + 96 * (bufSize + 64);
		long long a[2];
		ar.answers.clear();
		std::vector<std::pair<size_t, size_t>> reserved;
		for (int k = 0; k < 2; ++k) {
			size_t room = std::max(bufSize, arrRoom);
			a[k] = ((unsigned)k == failAt) ? -1 : chooseFree(ar, rng, 16, room, 4096, 4096 + window);
			if (a[k] >= 0) { ar.live[(size_t)a[k]] = room; reserved.push_back({ (size_t)a[k], room }); }
			ar.answers.push_back(a[k]);
			if (a[k] < 0) { a[k] = -1; }
		}
		for (auto& r : reserved) ar.live.erase(r.first);
		uint64_t reqBefore = ar.requests;
		uint32_t idx = 0; int outcome = 0;
		guard(true);
		try { idx = pool->Allocate(); }
		catch (const std::bad_alloc&) { outcome = 1; }
		catch (const std::length_error&) { outcome = 2; }
		guard(false);
		std::string ev = ar.takeEvents();
		s.op(fmt("alloc %lld %lld", a[0], a[1]));
		if (outcome == 1) { s.res("E:bad_alloc | " + ev + " | " + digest()); c.stats.count("u32.fault_fired"); }
		else if (outcome == 2) { s.res("E:length | " + ev + " | " + digest()); ++lengthErrors; c.stats.count("u32.length_error"); }
		else {
			s.res(std::to_string(idx) + " | " + ev + " | " + digest());
			// property level
			const size_t bufferCount = pool->mBuffers.GetCount();
			if (idx == Pool::nullPtr || (size_t)idx >= bufferCount * N) c.fail("C09 u32: %s Allocate returned index %u outside the %zu buffers (op %u)", cfgName.c_str(), idx, bufferCount, opNo);
			else {
				if (liveIdx.count(idx)) c.fail("C09 u32: %s Allocate returned index %u which is live (op %u)", cfgName.c_str(), idx, opNo);
				uint8_t* p = pool->template GetRealPointer<uint8_t>(idx);
				long long r = ar.rel(p);
				auto own = (r >= 0) ? ar.owner((size_t)r, S) : ar.live.end();
				if (own == ar.live.end() || own->second != bufSize) c.fail("C09 inside: u32 %s index %u real block [%lld,%lld) is not inside a buffer obtained from the manager (op %u)", cfgName.c_str(), idx, r, r + (long long)S, opNo);
				auto nx = liveAddr.lower_bound(r);
				if (nx != liveAddr.end() && nx->first < r + (long long)S) c.fail("C09 disjoint: u32 %s index %u at arena+%lld overlaps live index %u (op %u)", cfgName.c_str(), idx, r, nx->second, opNo);
				if (nx != liveAddr.begin()) { auto pv = std::prev(nx); if (pv->first + (long long)S > r) c.fail("C09 disjoint: u32 %s index %u at arena+%lld overlaps live index %u (op %u)", cfgName.c_str(), idx, r, pv->second, opNo); }
				uint32_t tag = nextTag++;
				for (size_t j = 0; j < S; ++j) p[j] = pat(tag, j);
				liveIdx[idx] = tag; liveAddr[r] = idx;
				s.op(fmt("rp %u", idx)); s.res(fmt("%lld %zu %zu", r, (size_t)idx / N, (size_t)idx % N));
			}
			c.stats.count(ar.requests != reqBefore ? "u32.alloc.new_buffer" : "u32.alloc.from_chain");
		}
		if (failAt < 2 && outcome == 0) c.stats.count("u32.fault_not_needed");
		checkLive("after Allocate");
		c.stats.count("u32.op.alloc");
	}
	void opFree() {
		if (liveIdx.empty()) return;
		auto it = liveIdx.begin(); std::advance(it, (long)rng.below(liveIdx.size()));
		uint32_t idx = it->first;
		long long r = ar.rel(pool->template GetRealPointer<uint8_t>(idx));
		liveIdx.erase(it); liveAddr.erase(r);
		uint64_t freesBefore = ar.frees;
		guard(true);
		pool->Deallocate(idx);
		guard(false);
		std::string ev = ar.takeEvents();
		s.op(fmt("free %u", idx)); s.res("ok | " + ev + " | " + digest());
		if (ar.frees != freesBefore) { ++clears; c.stats.count("u32.free.cleared_everything"); }
		checkLive("after Deallocate");
		c.stats.count("u32.op.free");
	}
	void opDall() {
		liveIdx.clear(); liveAddr.clear();
		guard(true);
		pool->DeallocateAll();
		guard(false);
		std::string ev = ar.takeEvents();
		s.op("dall"); s.res("ok | " + ev + " | " + digest());
		if (!ar.live.empty()) c.fail("C09 returned: u32 %s DeallocateAll left %zu allocations with the manager (op %u)", cfgName.c_str(), ar.live.size(), opNo);
		checkLive("after DeallocateAll");
		c.stats.count("u32.op.dall");
	}
	void opDump() {
		std::vector<long long> chain, live;
		uint32_t h = pool->mBlockHead;
		for (size_t steps = 0; h != Pool::nullPtr && steps < 100000; ++steps) {
			if ((size_t)h >= pool->mBuffers.GetCount() * N) { c.fail("C09 free chain: u32 %s chain leaves the buffers at %u (op %u)", cfgName.c_str(), h, opNo); break; }
			if (liveIdx.count(h)) { c.fail("C09 free chain: u32 %s chain contains live index %u (op %u)", cfgName.c_str(), h, opNo); break; }
			chain.push_back(h);
			h = Pool::pvGetNextBlock(pool->GetRealPointer(h));
		}
		for (auto& kv : liveIdx) live.push_back(kv.first);
		s.op("dump"); s.res(digest() + " chain=[" + joinRel(chain) + "] live=[" + joinRel(live) + "]");
		c.stats.count("u32.op.dump");
	}
	void run(unsigned length) {
		pool.reset(new Pool(blockSize, Mgr(&ar), maxTotal));
		S = pool->mBlockSize;
		cfgName = fmt("N=%zu blockSize=%zu maxTotal=%zu", N, blockSize, maxTotal);
		s.op(fmt("new %zu %zu %zu", N, blockSize, maxTotal));
		s.res(fmt("S=%zu maxBuf=%zu bufSize=%zu", S, pool->mMaxBufferCount, pool->pvGetBufferSize()));
		unsigned target = (unsigned)rng.range(1, (unsigned)(3 * N + 4));
		for (opNo = 0; opNo < length; ++opNo) {
			unsigned r = (unsigned)rng.below(100);
			if (opNo % 20 == 19) target = (unsigned)rng.range(0, (unsigned)std::min<size_t>(6 * N + 6, 120));
			if (r < 5) opDump();
			else if (r < 7) opDall();
			else if (r < 12) opAlloc((unsigned)rng.below(2));
			else if (liveIdx.size() < target ? rng.chance(3, 4) : rng.chance(1, 4)) opAlloc(2); else opFree();
			c.stats.evaluations++;
		}
		opDump();
		while (!liveIdx.empty()) opFree();
		guard(true);
		pool.reset();
		guard(false);
		std::string ev = ar.takeEvents();
		s.op("destroy"); s.res("ok | " + ev + " | n=0 head=4294967295 bufs=[] cap=0");
		if (!ar.live.empty()) { c.fail("C09 returned: u32 %s after destruction the manager still holds %zu allocations (first arena+%zu)", cfgName.c_str(), ar.live.size(), ar.live.begin()->first); ar.forgetAll(); }
		ar.checkCanary(0, 4 << 20, "end of u32 history");
		if (maxBuffers >= 3 && clears >= 1) c.stats.count("u32.histories_nontrivial");
		c.stats.count("u32.histories");
	}
};

template<size_t N>
static void runU32N(Ctx& c, Rng& rng, Suite& s, unsigned count, unsigned length)
{
	for (unsigned h = 0; h < count; ++h) {
		size_t blockSize = rng.chance(1, 4) ? (size_t)rng.range(1, 4) : (size_t)rng.range(4, 48);
		size_t maxTotal = rng.chance(1, 2) ? N * (size_t)rng.range(1, 6) + (size_t)rng.below(N) : (size_t)rng.range(1000, 4000000000u);
		s.comment(fmt("u32 history N=%zu blockSize=%zu maxTotal=%zu #%u", N, blockSize, maxTotal, h));
		U32History<N> hist(c, rng, s, blockSize, maxTotal);
		hist.run(length);
		c.stats.nontrivial(fmt("u32 %zu/%zu/%zu/%u", N, blockSize, maxTotal, h));
		if (h == 0) c.stats.sample(fmt("u32 history %s: %u ops, max %u buffers, %u complete clears by Deallocate, %u length errors", hist.cfgName.c_str(), length, hist.maxBuffers, hist.clears, hist.lengthErrors));
	}
}

static void runU32(Ctx& c, Rng& rng)
{
	Suite s(c, "u32", fmt("model poolu32 arena=%llu", (unsigned long long)(uintptr_t)g_arena.mem));
	s.op("consts");
	s.res(fmt("%u %zu %zu", (unsigned)momo::internal::MemPoolUInt32<4, Mgr>::nullPtr, sizeof(uint32_t), sizeof(Byte*)));
	const unsigned count = c.thorough ? 14 : 5;
	const unsigned length = c.thorough ? 700 : 300;
	runU32N<1>(c, rng, s, count, length);
	runU32N<2>(c, rng, s, count, length);
	runU32N<3>(c, rng, s, count, length);
	runU32N<4>(c, rng, s, count, length);
	runU32N<16>(c, rng, s, count, length);
	runU32N<64>(c, rng, s, count, length);
}

// ------------------------------------------------------------------------------------------------ edge suites (part 7)
// Corners of MemPool.h that the random histories do not reach: DeallocateIf on a pool without a live block (fresh pool, every block
// freed - with and without cached free blocks -, after DeallocateAll), MergeFrom(self), the four MOMO_CHECKs of MergeFrom and the
// checks of pvCheckParams under CheckMode::exception, the default constructor, the const GetMemManager, the constructor of
// MemPoolUInt32. The pool type has RUN-TIME parameters (block size, alignment, blocks per buffer, cache size), so that two pools of
// the same C++ type can differ in each of them and illegal sets reach pvCheckParams (MemPoolParams normalises the block size and
// fixes the block count at compile time). Model engines: poolworld (ops new / alloc / free / dif / dall / mergex / destroy /
// params / sizemax) for the suite `edge`, poolu32 (op ctor) for the suite `u32edge`.

struct RtParams {
	size_t blockSize, blockAlignment, blockCount, cachedFreeBlockCount;
	explicit RtParams(size_t s, size_t a, size_t n, size_t cch) noexcept : blockSize(s), blockAlignment(a), blockCount(n), cachedFreeBlockCount(cch) {}
};
struct ExcSettings : public momo::MemPoolSettings {
	static const momo::CheckMode checkMode = momo::CheckMode::exception;
	static const momo::ExtraCheckMode extraCheckMode = momo::ExtraCheckMode::assertion;
};
typedef momo::MemPool<RtParams, Mgr, ExcSettings> RtPool;

// a default-constructible manager (tag 9) for MemPool() / MemPool(MemManager)
class DefMgr : public Mgr { public: DefMgr() noexcept : Mgr(&g_arena, 9) {} };
typedef momo::MemPool<momo::MemPoolParamsStatic<24, 8, 4, 2>, DefMgr, ExcSettings> DefPool;

// The legal parameter sets of the property ("every legal block size, alignment, blocks per buffer"), written independently of
// pvCheckParams: 1 <= blockCount <= 127, 1 <= alignment <= 1024, blockSize >= 1 and - when a buffer holds more than one block -
// blockSize a multiple of the alignment and at least twice the alignment. A legal set whose blockCount blocks do not fit into
// size_t is refused with length_error. kind: 0 = constructs, 1 = invalid_argument, 2 = length_error.
static const char* paramsVerdict(size_t S, size_t A, size_t N, int& kind)
{
	kind = 1;
	if (N < 1 || N > 127) return "block_count";
	if (A < 1 || A > 1024) return "alignment";
	if (S < 1) return "size_zero";
	if (N > 1 && S % A != 0) return "not_multiple";
	if (N > 1 && S < 2 * A) return "ratio";
	kind = 2;
	if ((unsigned __int128)S * N > (unsigned __int128)SIZE_MAX) return "overflow";
	kind = 0;
	return "legal";
}

struct Edge {
	template<typename Pool> struct Obj { int id = 0; std::unique_ptr<Pool> pool; std::vector<UserBlock> blocks; };
	struct Snap { std::string digest; size_t count, S, A, N; int tag; std::map<size_t, size_t> ledger; uint64_t requests, frees; };

	Ctx& c; Rng& rng; Suite& s; Arena& ar;
	std::map<long long, size_t> allLive;	// rel -> block size
	uint32_t nextTag = 1;
	int nextId = 1;
	std::string scen;
	bool broken = false;	// a pool misbehaved in a way after which the objects of the scenario cannot be used any more

	Edge(Ctx& c_, Rng& rng_, Suite& s_) : c(c_), rng(rng_), s(s_), ar(g_arena) {}

	static uint8_t pat(uint32_t tag, size_t j) { return (uint8_t)(tag * 131u + j * 7u + 1u); }
	void guard(bool on) {
#if defined(__SANITIZE_ADDRESS__)
		for (auto& kv : allLive) { if (on) VF_POISON(ar.mem + kv.first, kv.second); else VF_UNPOISON(ar.mem + kv.first, kv.second); }
#else
		(void)on;
#endif
	}
	template<typename Pool> static size_t bufSizeOf(Pool& p) {
		return p.GetBlockCount() > 1 ? p.pvGetBufferSize() : (p.pvGetAlignmentAddend() == 0 ? p.pvGetBufferSize0() : p.pvGetBufferSize1());
	}
	template<typename Pool> std::string digest(Pool& pool) {
		std::vector<long long> cache, pre, post;
		void* cb = pool.mCacheHead;
		for (size_t i = 0; i < pool.mCachedCount && i < 100000; ++i) { cache.push_back(ar.rel(cb)); cb = momo::internal::MemCopyer::FromBuffer<void*>(cb); }
		if (pool.mFreeBufferHead != nullptr) {
			size_t steps = 0;
			for (Byte* b = pool.pvGetPrevBuffer(pool.mFreeBufferHead); b != nullptr && steps++ < 100000; b = pool.pvGetPrevBuffer(b)) pre.push_back(ar.rel(b));
			for (Byte* b = pool.mFreeBufferHead; b != nullptr && steps++ < 100000; b = pool.pvGetNextBuffer(b)) post.push_back(ar.rel(b));
			if (steps >= 100000) { c.fail("C09 list: edge %s buffer list is cyclic", scen.c_str()); broken = true; }
		}
		return fmt("S=%zu A=%zu mgr=%d n=%zu c=[", pool.GetBlockSize(), pool.GetBlockAlignment(), pool.GetMemManager().tag, pool.GetAllocateCount())
			+ joinRel(cache) + "] pre=[" + joinRel(pre) + "] post=[" + joinRel(post) + "]";
	}
	template<typename Pool> Snap snap(Pool& pool) {
		return Snap{ digest(pool), pool.GetAllocateCount(), pool.GetBlockSize(), pool.GetBlockAlignment(), pool.GetBlockCount(), pool.GetMemManager().tag, ar.live, ar.requests, ar.frees };
	}
	// everything the property says stays as it was: parameters, manager, count, buffers, cache, the manager's ledger
	template<typename Pool> void checkUnchanged(Obj<Pool>& o, const Snap& before, const char* what) {
		Pool& pool = *o.pool;
		if (pool.GetAllocateCount() != before.count) c.fail("C09 %s: edge %s pool %d allocated count %zu became %zu", what, scen.c_str(), o.id, before.count, pool.GetAllocateCount());
		if (pool.GetBlockSize() != before.S || pool.GetBlockAlignment() != before.A || pool.GetBlockCount() != before.N || pool.GetMemManager().tag != before.tag)
			c.fail("C09 %s: edge %s pool %d parameters / manager (S=%zu A=%zu N=%zu mgr=%d) became (S=%zu A=%zu N=%zu mgr=%d)", what, scen.c_str(), o.id,
				before.S, before.A, before.N, before.tag, pool.GetBlockSize(), pool.GetBlockAlignment(), pool.GetBlockCount(), pool.GetMemManager().tag);
		if (ar.requests != before.requests || ar.frees != before.frees || ar.live != before.ledger)
			c.fail("C09 %s: edge %s pool %d the memory manager was called (%llu requests, %llu frees)", what, scen.c_str(), o.id,
				(unsigned long long)(ar.requests - before.requests), (unsigned long long)(ar.frees - before.frees));
		std::string now = digest(pool);
		if (now != before.digest) c.fail("C09 %s: edge %s pool %d changed from {%s} to {%s}", what, scen.c_str(), o.id, before.digest.c_str(), now.c_str());
	}
	template<typename Pool> void checkObj(Obj<Pool>& o, const char* when) {
		Pool& pool = *o.pool;
		if (pool.GetAllocateCount() != o.blocks.size())
			c.fail("C09 count: edge %s pool %d reports %zu allocated blocks, %zu are live (%s)", scen.c_str(), o.id, pool.GetAllocateCount(), o.blocks.size(), when);
		const size_t S = pool.GetBlockSize();
		for (auto& ub : o.blocks) {
			const uint8_t* p = ar.mem + ub.rel;
			for (size_t j = 0; j < S; ++j)
				if (p[j] != pat(ub.tag, j)) { c.fail("C09 live block overwritten: edge %s pool %d block arena+%lld byte %zu (%s)", scen.c_str(), o.id, ub.rel, j, when); break; }
		}
	}
	// tells the model about a pool that exists
	template<typename Pool> void announce(Obj<Pool>& o) {
		Pool& pool = *o.pool;
		o.id = nextId++;
		s.op(fmt("new %d %zu %zu %zu %zu %d", o.id, pool.GetBlockSize(), pool.GetBlockAlignment(), pool.GetBlockCount(), (size_t)pool.cachedFreeBlockCount, pool.GetMemManager().tag));
		s.res("legal=1 | " + digest(pool));
	}
	void newRt(Obj<RtPool>& o, size_t S, size_t A, size_t N, size_t C, int tag) {
		o.pool.reset(new RtPool(RtParams(S, A, N, C), Mgr(&ar, tag)));
		announce(o);
	}
	template<typename Pool> void alloc(Obj<Pool>& o) {
		Pool& pool = *o.pool;
		const size_t S = pool.GetBlockSize(), A = pool.GetBlockAlignment(), g = allocAlignOf(A), bufSize = bufSizeOf(pool);
		const size_t window = std::min<size_t>(Arena::arenaSize - 4096, 65536 + bufSize * 64);
		ar.answers.clear();
		long long a1 = chooseFree(ar, rng, g, bufSize, 0, window);
		if (a1 < 0) { c.fail("harness: no free address in the window"); a1 = 0; }
		ar.live[(size_t)a1] = bufSize; long long a2 = chooseFree(ar, rng, g, bufSize, 0, window); ar.live.erase((size_t)a1);
		ar.answers.push_back(a1); ar.answers.push_back(a2);
		guard(true);
		void* blk = pool.Allocate();
		guard(false);
		std::string ev = ar.takeEvents();
		long long r = ar.rel(blk);
		s.op(fmt("alloc %d %lld %lld", o.id, a1, a2));
		s.res(std::to_string(r) + " | " + ev + " | " + digest(pool));
		if ((uintptr_t)blk % A != 0) c.fail("C09 alignment: edge %s pool %d Allocate returned arena+%lld", scen.c_str(), o.id, r);
		if (r < 0 || ar.owner((size_t)r, S) == ar.live.end()) c.fail("C09 inside: edge %s pool %d block [%lld,%lld) is not inside memory obtained from a manager", scen.c_str(), o.id, r, r + (long long)S);
		auto nx = allLive.lower_bound(r);
		if (nx != allLive.end() && nx->first < r + (long long)S) c.fail("C09 disjoint: edge %s pool %d block arena+%lld overlaps live block arena+%lld", scen.c_str(), o.id, r, nx->first);
		if (nx != allLive.begin()) { auto pv = std::prev(nx); if (pv->first + (long long)pv->second > r) c.fail("C09 disjoint: edge %s pool %d block arena+%lld overlaps live block arena+%lld", scen.c_str(), o.id, r, pv->first); }
		UserBlock ub{ r, nextTag++ };
		uint8_t* p = ar.mem + ub.rel; for (size_t j = 0; j < S; ++j) p[j] = pat(ub.tag, j);
		o.blocks.push_back(ub);
		allLive[r] = S;
		checkObj(o, "after Allocate");
		c.stats.count("edge.op.alloc");
	}
	template<typename Pool> void freeAt(Obj<Pool>& o, size_t i) {
		Pool& pool = *o.pool;
		checkObj(o, "before Deallocate");
		UserBlock ub = o.blocks[i];
		o.blocks[i] = o.blocks.back(); o.blocks.pop_back();
		allLive.erase(ub.rel);
		guard(true);
		pool.Deallocate(ar.mem + ub.rel);
		guard(false);
		std::string ev = ar.takeEvents();
		s.op(fmt("free %d %lld", o.id, ub.rel));
		s.res("ok | " + ev + " | " + digest(pool));
		checkObj(o, "after Deallocate");
		c.stats.count("edge.op.free");
	}
	template<typename Pool> void freeAll(Obj<Pool>& o) { while (!o.blocks.empty() && !broken) freeAt(o, (size_t)rng.below(o.blocks.size())); }
	// DeallocateIf with a filter that counts its calls; `all`: the filter says yes to whatever it is asked about. Returns the calls.
	template<typename Pool> size_t dif(Obj<Pool>& o, std::set<long long> sel, bool all) {
		Pool& pool = *o.pool;
		checkObj(o, "before DeallocateIf");
		if (all) for (auto& ub : o.blocks) sel.insert(ub.rel);
		std::string opLine = "dif " + std::to_string(o.id);
		for (long long r : sel) { opLine += ' '; opLine += std::to_string(r); }
		std::vector<UserBlock> kept;
		for (auto& ub : o.blocks) { if (sel.count(ub.rel)) allLive.erase(ub.rel); else kept.push_back(ub); }
		std::vector<long long> asked;
		size_t calls = 0;
		guard(true);
		pool.DeallocateIf([&](void* p) { ++calls; long long r = ar.rel(p); asked.push_back(r); return all || sel.count(r) > 0; });
		guard(false);
		std::string ev = ar.takeEvents();
		s.op(opLine);
		s.res("[" + joinRel(asked) + "] | " + ev + " | " + digest(pool));
		std::vector<long long> a2 = asked, want;
		for (auto& ub : o.blocks) want.push_back(ub.rel);
		std::sort(a2.begin(), a2.end()); std::sort(want.begin(), want.end());
		if (a2 != want) c.fail("C09 DeallocateIf: edge %s pool %d filter asked about %zu blocks, %zu are live", scen.c_str(), o.id, a2.size(), want.size());
		o.blocks = kept;
		checkObj(o, "after DeallocateIf");
		c.stats.count("edge.op.dif");
		return calls;
	}
	template<typename Pool> void dall(Obj<Pool>& o) {
		for (auto& ub : o.blocks) allLive.erase(ub.rel);
		o.blocks.clear();
		guard(true);
		o.pool->DeallocateAll();
		guard(false);
		std::string ev = ar.takeEvents();
		s.op(fmt("dall %d", o.id)); s.res("ok | " + ev + " | " + digest(*o.pool));
		checkObj(o, "after DeallocateAll");
		c.stats.count("edge.op.dall");
	}
	template<typename Pool> void destroy(Obj<Pool>& o) {
		if (broken) { abandon(o); return; }
		freeAll(o);
		guard(true);
		o.pool.reset();
		guard(false);
		std::string ev = ar.takeEvents();
		s.op(fmt("destroy %d", o.id)); s.res("ok | " + ev + " | store=0 singles=0");
		c.stats.count("edge.op.destroy");
	}
	// after a reported failure that leaves a pool in an unknown state: do not run its code any more
	template<typename Pool> void abandon(Obj<Pool>& o) {
		for (auto& ub : o.blocks) allLive.erase(ub.rel);
		o.blocks.clear();
		static std::vector<void*>* graveyard = new std::vector<void*>();		// stays reachable: not a leak of the harness
		graveyard->push_back(o.pool.release());
	}
	void endScenario() {
		if (broken) { ar.forgetAll(); ar.takeEvents(); allLive.clear(); return; }
		if (!ar.live.empty()) {
			c.fail("C09 returned: edge %s after all pools were destroyed the managers still hold %zu allocations (first arena+%zu)", scen.c_str(), ar.live.size(), ar.live.begin()->first);
			ar.forgetAll();
		}
		if (!allLive.empty()) { c.fail("harness: edge %s lost track of %zu blocks", scen.c_str(), allLive.size()); allLive.clear(); }
		ar.checkCanary(0, 4 << 20, "end of edge scenario");
		c.stats.evaluations++;
	}

	// MergeFrom under CheckMode::exception. expect: 0 = merges, 1 = the pools differ: std::invalid_argument and nothing changes
	void mergex(Obj<RtPool>& a, Obj<RtPool>& b, int expect, const char* why) {
		const bool self = (&a == &b);
		const int failuresBefore = c.failures;
		Snap sa = snap(*a.pool), sb = snap(*b.pool);
		int outcome = 0;
		guard(true);
		try { a.pool->MergeFrom(*b.pool); }
		catch (const std::invalid_argument&) { outcome = 1; }
		catch (...) { outcome = 2; }
		guard(false);
		std::string ev = ar.takeEvents();
		s.op(fmt("mergex %d %d", a.id, b.id));
		s.res(std::string(outcome == 0 ? "ok" : outcome == 1 ? "E:invalid_argument" : "E:other") + " | " + ev + " | " + digest(*a.pool) + " || " + digest(*b.pool));
		if (outcome != expect) {
			c.fail("C09 MergeFrom: edge %s pool %d {%s} MergeFrom pool %d {%s} (%s): %s, expected %s", scen.c_str(), a.id, sa.digest.c_str(), b.id, sb.digest.c_str(), why,
				outcome == 0 ? "no exception" : outcome == 1 ? "std::invalid_argument" : "another exception", expect == 0 ? "a merge" : "std::invalid_argument");
			broken = true;
			return;
		}
		if (self || expect == 1) {
			checkUnchanged(a, sa, self ? "MergeFrom(self)" : "refused MergeFrom");
			if (!self) checkUnchanged(b, sb, "refused MergeFrom (argument)");
		}
		else {
			for (auto& ub : b.blocks) a.blocks.push_back(ub);
			b.blocks.clear();
		}
		checkObj(a, "after MergeFrom"); if (!self) checkObj(b, "after MergeFrom (argument)");
		if (c.failures != failuresBefore) broken = true;
		c.stats.count(self ? "edge.merge.self" : expect == 1 ? std::string("edge.merge.refused.") + why : std::string("edge.merge.accepted"));
	}

	// fills a pool: `count` blocks, then `drop` of them freed again (cached free blocks when the pool caches)
	void fill(Obj<RtPool>& o, size_t count, size_t drop) {
		for (size_t i = 0; i < count && !broken; ++i) alloc(o);
		for (size_t i = 0; i < drop && !o.blocks.empty() && !broken; ++i) freeAt(o, (size_t)rng.below(o.blocks.size()));
	}

	// ---- item 1: DeallocateIf on a pool without a live block
	void scenarioDifEmpty(size_t S, size_t A, size_t N, size_t C) {
		scen = fmt("dif-empty S=%zu A=%zu N=%zu C=%zu", S, A, N, C);
		s.comment(scen);
		Obj<RtPool> o;
		newRt(o, S, A, N, C, 1);
		auto expectNoCall = [&](const char* state) {
			uint64_t reqBefore = ar.requests;
			size_t heldBefore = ar.live.size();
			size_t calls = dif(o, {}, true);
			if (calls != 0) c.fail("C09 DeallocateIf: edge %s (%s) the filter was called %zu times although no block is live", scen.c_str(), state, calls);
			if (o.pool->GetAllocateCount() != 0) c.fail("C09 count: edge %s (%s) DeallocateIf on a pool without live blocks reports %zu allocated blocks", scen.c_str(), state, o.pool->GetAllocateCount());
			if (ar.requests != reqBefore || ar.live.size() > heldBefore) c.fail("C09 ledger: edge %s (%s) DeallocateIf on a pool without live blocks asked the manager for memory", scen.c_str(), state);
			c.stats.count(std::string("edge.dif_empty.") + state);
			if (ar.live.size() < heldBefore) c.stats.count("edge.dif_empty.flush_returned_buffers", heldBefore - ar.live.size());
		};
		expectNoCall("fresh");
		// every block freed again through Deallocate: without a cache one (entirely free) buffer stays, with a cache the last
		// min(C, count) blocks sit in the cache and DeallocateIf has to flush them before it looks at the count
		size_t count = N + 1 + (size_t)rng.below(2 * N + 2);
		fill(o, count, count);
		const bool cached = o.pool->mCachedCount > 0;
		expectNoCall(cached ? "all_freed_cached" : (o.pool->mFreeBufferHead != nullptr ? "all_freed_buffer_kept" : "all_freed_no_buffer"));
		if (o.pool->mCachedCount != 0) c.fail("C09 DeallocateIf: edge %s %zu cached free blocks survive DeallocateIf", scen.c_str(), o.pool->mCachedCount);
		// the pool is usable afterwards: Allocate (aligned, inside, disjoint), a DeallocateIf that does select, again without a live block
		fill(o, N + 2, 0);
		std::set<long long> sel;
		for (auto& ub : o.blocks) if (rng.chance(1, 2)) sel.insert(ub.rel);
		dif(o, sel, false);
		dif(o, {}, true);		// frees the rest through DeallocateIf
		expectNoCall("after_dif_freed_all");
		fill(o, N + 1, 1);
		dall(o);
		expectNoCall("after_deallocate_all");
		fill(o, 2, 1);
		destroy(o);
		endScenario();
		c.stats.nontrivial("edge " + scen);
		c.stats.sample("edge " + scen + fmt(": DeallocateIf without a live block on a fresh pool, after %zu blocks were freed (%s), after DeallocateIf freed all, after DeallocateAll: filter never called", count, cached ? "cached free blocks flushed" : "one free buffer kept"), 4);
	}

	// ---- item 2a: MergeFrom(self)
	void scenarioSelfMerge(size_t S, size_t A, size_t N, size_t C, bool severalBuffers) {
		scen = fmt("self-merge S=%zu A=%zu N=%zu C=%zu %s", S, A, N, C, severalBuffers ? "several buffers" : "one buffer");
		s.comment(scen);
		Obj<RtPool> o;
		newRt(o, S, A, N, C, 1);
		mergex(o, o, 0, "self, empty");
		if (!broken) {
			if (severalBuffers) fill(o, 3 * N + 2, N + 1);		// buffers before and behind the head, cached free blocks
			else fill(o, N > 1 ? N - 1 : 1, N > 2 ? 1 : 0);
			if (o.pool->mFreeBufferHead != nullptr && o.pool->pvGetPrevBuffer(o.pool->mFreeBufferHead) != nullptr) c.stats.count("edge.merge.self.full_buffers_before_head");
			if (o.pool->mCachedCount > 0) c.stats.count("edge.merge.self.cached_blocks");
		}
		if (!broken) mergex(o, o, 0, "self");
		if (!broken && severalBuffers) c.stats.sample("edge " + scen + ": MergeFrom(self) left {" + digest(*o.pool) + "} unchanged, then every block freed on its own", 2);
		// every live block is still the pool's: each one is given back on its own
		if (!broken) freeAll(o);
		if (!broken) { fill(o, 2, 0); mergex(o, o, 0, "self, again"); }
		destroy(o);
		endScenario();
		c.stats.nontrivial("edge " + scen);
	}

	// ---- item 2b: the MOMO_CHECKs of MergeFrom: two pools of one C++ type that differ in ONE respect
	void scenarioMergeRefused(const char* why, size_t S1, size_t A1, size_t N1, int tag1, size_t S2, size_t A2, size_t N2, int tag2, size_t C) {
		scen = fmt("merge-refused(%s) (S=%zu A=%zu N=%zu mgr=%d) / (S=%zu A=%zu N=%zu mgr=%d) C=%zu", why, S1, A1, N1, tag1, S2, A2, N2, tag2, C);
		s.comment(scen);
		Obj<RtPool> a, b, a2;
		newRt(a, S1, A1, N1, C, tag1);
		newRt(b, S2, A2, N2, C, tag2);
		mergex(a, b, 1, why);			// both empty
		if (!broken) { fill(a, 2 * N1 + 1 + (size_t)rng.below(3), (size_t)rng.below(N1 + 1)); fill(b, 2 * N2 + 1 + (size_t)rng.below(3), (size_t)rng.below(N2 + 1)); }
		if (!broken) mergex(a, b, 1, why);
		if (!broken) mergex(b, a, 1, why);
		// both pools still work: allocate, a legal merge with an equal pool, every block freeable on its own
		if (!broken) { alloc(a); alloc(b); }
		if (!broken) { newRt(a2, S1, A1, N1, C, tag1); fill(a2, N1 + 1, 1); mergex(a, a2, 0, "equal"); }
		if (!broken) mergex(b, a, 1, why);
		if (!broken) { freeAll(a); freeAll(b); }
		destroy(a2); destroy(b); destroy(a);
		endScenario();
		c.stats.nontrivial("edge " + scen);
		if (C == 0) c.stats.sample("edge " + scen + ": std::invalid_argument in both directions, both pools unchanged and usable", 9);
	}

	// ---- item 3: pvCheckParams
	void tryParams(size_t S, size_t A, size_t N, size_t C, bool use) {
		int kind = 0;
		const char* why = paramsVerdict(S, A, N, kind);
		scen = fmt("params S=%zu A=%zu N=%zu C=%zu", S, A, N, C);
		const long aliveBefore = Mgr::alive;
		const uint64_t reqBefore = ar.requests, freesBefore = ar.frees;
		const size_t heldBefore = ar.live.size();
		int outcome = 0;
		Obj<RtPool> o;
		try { o.pool.reset(new RtPool(RtParams(S, A, N, C), Mgr(&ar, 1))); }
		catch (const std::invalid_argument&) { outcome = 1; }
		catch (const std::length_error&) { outcome = 2; }
		catch (...) { outcome = 3; }
		static const char* const names[4] = { "ok", "E:invalid_argument", "E:length", "E:other" };
		s.op(fmt("params %zu %zu %zu", S, A, N));
		s.res(names[outcome]);
		if (outcome != kind)
			c.fail("C09 params: MemPool(blockSize=%zu, blockAlignment=%zu, blockCount=%zu) gives %s, the set is %s: expected %s", S, A, N, names[outcome], why, names[kind]);
		if (ar.requests != reqBefore || ar.frees != freesBefore || ar.live.size() != heldBefore || !ar.events.empty())
			c.fail("C09 params: the constructor MemPool(blockSize=%zu, blockAlignment=%zu, blockCount=%zu) called the memory manager (%s)", S, A, N, names[outcome]);
		ar.takeEvents();
		if (outcome != 0) {
			if (Mgr::alive != aliveBefore)
				c.fail("C09 params: after the failed construction MemPool(blockSize=%zu, blockAlignment=%zu, blockCount=%zu) %ld memory manager objects are left over", S, A, N, Mgr::alive - aliveBefore);
			c.stats.count(std::string("edge.params.refused.") + why);
		}
		else {
			RtPool& pool = *o.pool;
			const RtPool& cpool = pool;
			if (Mgr::alive != aliveBefore + 1) c.fail("C09 params: %s: %ld memory manager objects instead of the pool's one", scen.c_str(), Mgr::alive - aliveBefore);
			if (pool.GetBlockSize() != S || pool.GetBlockAlignment() != A || pool.GetBlockCount() != N || pool.GetAllocateCount() != 0 || cpool.GetParams().cachedFreeBlockCount != C)
				c.fail("C09 params: %s: the new pool reports S=%zu A=%zu N=%zu count=%zu", scen.c_str(), pool.GetBlockSize(), pool.GetBlockAlignment(), pool.GetBlockCount(), pool.GetAllocateCount());
			// const GetMemManager (272): the pool's own manager object
			if (&cpool.GetMemManager() != &pool.GetMemManager() || &cpool.GetMemManager() != static_cast<const Mgr*>(&pool.mData) || cpool.GetMemManager().tag != 1 || cpool.GetMemManager().ar != &ar)
				c.fail("C09 manager: %s: the const GetMemManager() is not the manager the pool holds", scen.c_str());
			c.stats.count("edge.params.constructed");
			if (kind == 0 && use && (unsigned __int128)S * N <= 40000) {
				announce(o);
				fill(o, N + 1 + (size_t)rng.below(N + 1), 1);
				if (N > 1 && rng.chance(1, 2)) dif(o, {}, true);
				destroy(o);
				if (!ar.live.empty()) { c.fail("C09 returned: %s after destruction the manager still holds %zu allocations", scen.c_str(), ar.live.size()); ar.forgetAll(); }
				c.stats.count("edge.params.constructed_and_used");
			}
			else {
				o.pool.reset();
				if (!ar.events.empty()) { c.fail("C09 params: %s: the destructor of an unused pool called the memory manager", scen.c_str()); ar.takeEvents(); }
			}
			if (Mgr::alive != aliveBefore) c.fail("C09 params: %s: %ld memory manager objects are left over after destruction", scen.c_str(), Mgr::alive - aliveBefore);
		}
		c.stats.nontrivial(fmt("params %zu/%zu/%zu", S, A, N));
		c.stats.evaluations++;
	}

	void sweepParams() {
		s.comment("params sweep");
		s.op("sizemax"); s.res(fmt("%zu", (size_t)momo::internal::UIntConst::maxSize));
		static const size_t Ns[] = { 0, 1, 2, 3, 5, 64, 126, 127, 128, 129, 255, 256, 65536, SIZE_MAX };
		static const size_t As[] = { 0, 1, 2, 3, 4, 7, 8, 16, 24, 100, 512, 1000, 1023, 1024, 1025, 2048, 65536, size_t{1} << 63, SIZE_MAX };
		unsigned caseNo = 0;
		for (size_t N : Ns) for (size_t A : As) {
			std::set<size_t> Ss;
			auto add = [&](unsigned __int128 v) { if (v <= (unsigned __int128)SIZE_MAX) Ss.insert((size_t)v); };
			for (size_t v : { size_t{0}, size_t{1}, size_t{2}, size_t{7}, size_t{8}, size_t{9}, SIZE_MAX, SIZE_MAX - 1, size_t{1} << 63, (size_t{1} << 63) - 1 }) add(v);
			if (A > 0) for (unsigned k = 1; k <= 5; ++k) { unsigned __int128 m = (unsigned __int128)A * k; add(m - 1); add(m); add(m + 1); }
			if (N > 0) {
				const size_t M = SIZE_MAX / N;		// the largest block size whose N blocks fit into size_t
				add(M); add((unsigned __int128)M + 1); if (M > 0) add(M - 1);
				if (A > 0) { const size_t f = M / A * A; add(f); add((unsigned __int128)f + A); add((unsigned __int128)f + 1); if (f >= A) add(f - A); }
			}
			for (size_t S : Ss) { tryParams(S, A, N, (caseNo % 3 == 0) ? 0 : (caseNo % 3 == 1) ? 2 : 16, caseNo % 4 == 0); ++caseNo; }
		}
		// random sets around the borders
		const unsigned extra = c.thorough ? 20000 : 2000;
		for (unsigned i = 0; i < extra; ++i) {
			size_t N = rng.chance(3, 4) ? (size_t)rng.range(0, 130) : (size_t)rng.biased(64);
			size_t A = rng.chance(3, 4) ? (size_t)rng.range(0, 1030) : (size_t)rng.biased(64);
			size_t S;
			switch (rng.below(4)) {
			case 0: S = A * (size_t)rng.below(6) + (rng.chance(1, 3) ? (size_t)rng.below(3) : 0); break;
			case 1: S = (N > 0 ? SIZE_MAX / N : SIZE_MAX) - (size_t)rng.below(3) + (size_t)rng.below(3); break;
			case 2: { size_t M = (N > 0 ? SIZE_MAX / N : SIZE_MAX); S = (A > 0 ? M / A * A : M) + (rng.chance(1, 2) ? A : 0) - (rng.chance(1, 4) ? A : 0); break; }
			default: S = (size_t)rng.biased(64); break;
			}
			tryParams(S, A, N, (size_t)rng.below(3) * 4, rng.chance(1, 4));
		}
		c.stats.sample(fmt("edge params: %llu parameter sets constructed (%llu of them used), refused: %llu block count, %llu alignment, %llu size 0, %llu not a multiple, %llu ratio < 2 (invalid_argument), %llu overflow (length_error)",
			(unsigned long long)c.stats.counters["edge.params.constructed"], (unsigned long long)c.stats.counters["edge.params.constructed_and_used"],
			(unsigned long long)c.stats.counters["edge.params.refused.block_count"], (unsigned long long)c.stats.counters["edge.params.refused.alignment"],
			(unsigned long long)c.stats.counters["edge.params.refused.size_zero"], (unsigned long long)c.stats.counters["edge.params.refused.not_multiple"],
			(unsigned long long)c.stats.counters["edge.params.refused.ratio"], (unsigned long long)c.stats.counters["edge.params.refused.overflow"]), 12);
	}

	// ---- MemPool() (190) and MemPool(MemManager) (195) of a pool with static parameters and a default-constructible manager
	void scenarioDefaultCtor() {
		scen = "default constructor";
		s.comment(scen);
		const long aliveBefore = Mgr::alive;
		{
			Obj<DefPool> o, o2;
			o.pool.reset(new DefPool());
			const DefPool& cp = *o.pool;
			if (cp.GetMemManager().tag != 9 || cp.GetMemManager().ar != &g_arena || &cp.GetMemManager() != &o.pool->GetMemManager() || Mgr::alive != aliveBefore + 1)
				c.fail("C09 manager: MemPool() does not hold one default-constructed memory manager (tag %d, %ld objects)", cp.GetMemManager().tag, Mgr::alive - aliveBefore);
			if (cp.GetBlockSize() != 24 || cp.GetBlockAlignment() != 8 || cp.GetBlockCount() != 4 || cp.GetAllocateCount() != 0)
				c.fail("C09 params: MemPool() of MemPoolParamsStatic<24, 8, 4, 2> reports S=%zu A=%zu N=%zu count=%zu", cp.GetBlockSize(), cp.GetBlockAlignment(), cp.GetBlockCount(), cp.GetAllocateCount());
			announce(o);
			for (int i = 0; i < 7; ++i) alloc(o);
			o2.pool.reset(new DefPool(DefMgr()));
			if (o2.pool->GetMemManager().tag != 9 || Mgr::alive != aliveBefore + 2) c.fail("C09 manager: MemPool(MemManager) does not hold the manager it was given (%ld objects)", Mgr::alive - aliveBefore);
			announce(o2);
			for (int i = 0; i < 5; ++i) alloc(o2);
			freeAt(o, 0); freeAt(o2, 1);
			destroy(o2); destroy(o);
		}
		if (Mgr::alive != aliveBefore) c.fail("C09 manager: %ld memory manager objects are left over after the default-constructed pools", Mgr::alive - aliveBefore);
		// MemPoolParams(blockSize) (73) and its getters (85-92): alignment = the largest power of two <= max(blockSize, 1), at most
		// maxAlignment (16); block size rounded up to a multiple of it, at least twice the alignment (blockCount > 1) / at least 1 (blockCount 1)
		for (size_t sz = 0; sz <= 130; ++sz) {
			size_t al = 1;
			while (al * 2 <= sz && al < momo::internal::UIntConst::maxAlignment) al *= 2;
			momo::MemPoolParams<4, 2> pn(sz);
			momo::MemPoolParams<1, 0> p1(sz);
			const size_t wantN = (sz <= al) ? 2 * al : (sz + al - 1) / al * al, want1 = (sz > 0) ? sz : 1;
			if (pn.GetBlockAlignment() != al || pn.GetBlockSize() != wantN || p1.GetBlockAlignment() != al || p1.GetBlockSize() != want1)
				c.fail("C09 params: MemPoolParams(%zu) gives (size %zu, alignment %zu) for blockCount 4 and (size %zu, alignment %zu) for blockCount 1, expected (%zu, %zu) / (%zu, %zu)",
					sz, pn.GetBlockSize(), pn.GetBlockAlignment(), p1.GetBlockSize(), p1.GetBlockAlignment(), wantN, al, want1, al);
			int kind = 0;
			paramsVerdict(pn.GetBlockSize(), pn.GetBlockAlignment(), 4, kind);
			if (kind != 0) c.fail("C09 params: MemPoolParams(%zu) gives the illegal set (size %zu, alignment %zu, blockCount 4)", sz, pn.GetBlockSize(), pn.GetBlockAlignment());
			c.stats.count("edge.params.default_alignment");
		}
		endScenario();
		c.stats.count("edge.default_ctor");
	}
};

static void runEdge(Ctx& c, Rng& rng)
{
	Suite s(c, "edge", fmt("model poolworld arena=%llu", (unsigned long long)(uintptr_t)g_arena.mem));
	g_arena.tagEvents = true; g_markMovedFrom = true;
	Edge e(c, rng, s);
	struct Cfg { size_t S, A, N, C; };
	std::vector<Cfg> cfgs = { { 16, 8, 2, 0 }, { 16, 8, 2, 4 }, { 24, 8, 3, 2 }, { 64, 16, 5, 16 }, { 8, 4, 32, 0 }, { 48, 16, 127, 1 }, { 6, 3, 2, 0 }, { 200, 100, 3, 16 }, { 2048, 1024, 2, 4 } };
	const unsigned extra = c.thorough ? 60 : 10;
	static const size_t countsN[] = { 2, 3, 5, 32, 127 }, caches[] = { 0, 1, 4, 16 };
	for (unsigned i = 0; i < extra; ++i) {
		size_t N = countsN[rng.below(5)], C = caches[rng.below(4)];
		size_t A = rng.chance(1, 2) ? (size_t{1} << rng.below(8)) : (size_t)rng.range(1, N > 32 ? 64 : 300);
		size_t S = A * (size_t)rng.range(2, 5);
		cfgs.push_back({ S, A, N, C });
	}
	// item 2a first with a single buffer: a MergeFrom(self) that is not a no-op is reported before it can run away
	for (auto& k : cfgs) { if (e.broken) break; e.scenarioSelfMerge(k.S, k.A, k.N, k.C, false); }
	for (auto& k : cfgs) { if (e.broken) break; e.scenarioSelfMerge(k.S, k.A, k.N, k.C, true); }
	for (size_t C : { size_t{0}, size_t{4} }) {			// single-block pools: MergeFrom(self) too
		if (e.broken) break;
		e.scenarioSelfMerge(40, 8, 1, C, false); e.scenarioSelfMerge(24, 32, 1, C, true);
	}
	for (auto& k : cfgs) { if (e.broken) break; e.scenarioDifEmpty(k.S, k.A, k.N, k.C); }
	for (size_t C : { size_t{0}, size_t{3} }) {
		if (e.broken) break;
		e.scenarioMergeRefused("block_size", 16, 8, 2, 1, 24, 8, 2, 1, C);
		e.scenarioMergeRefused("block_size", 64, 16, 5, 1, 32, 16, 5, 1, C);
		e.scenarioMergeRefused("block_alignment", 32, 8, 3, 1, 32, 16, 3, 1, C);
		e.scenarioMergeRefused("block_alignment", 48, 24, 2, 1, 48, 8, 2, 1, C);
		e.scenarioMergeRefused("block_count", 16, 8, 2, 1, 16, 8, 3, 1, C);
		e.scenarioMergeRefused("block_count", 32, 16, 32, 1, 32, 16, 5, 1, C);
		e.scenarioMergeRefused("block_count", 16, 8, 1, 1, 16, 8, 2, 1, C);
		e.scenarioMergeRefused("memory_manager", 16, 8, 2, 1, 16, 8, 2, 2, C);
		e.scenarioMergeRefused("memory_manager", 40, 8, 1, 2, 40, 8, 1, 1, C);
		e.scenarioMergeRefused("memory_manager", 96, 32, 5, 1, 96, 32, 5, 2, C);
	}
	if (!e.broken) e.scenarioDefaultCtor();
	if (!e.broken) e.sweepParams();
	g_arena.tagEvents = false; g_markMovedFrom = false;
}

// the constructor of MemPoolUInt32 (821-831): blockCount blocks of max(blockSize, 4) bytes must fit into size_t
template<size_t N>
static void u32Ctor(Ctx& c, Suite& s, size_t blockSize, size_t maxTotal)
{
	typedef momo::internal::MemPoolUInt32<N, Mgr> Pool;
	Arena& ar = g_arena;
	const size_t S = std::max(blockSize, sizeof(uint32_t));
	const bool expectThrow = (unsigned __int128)S * N > (unsigned __int128)SIZE_MAX;
	const long aliveBefore = Mgr::alive;
	const uint64_t reqBefore = ar.requests, freesBefore = ar.frees;
	int outcome = 0;
	std::unique_ptr<Pool> pool;
	try { pool.reset(new Pool(blockSize, Mgr(&ar, 0), maxTotal)); }
	catch (const std::length_error&) { outcome = 1; }
	catch (...) { outcome = 2; }
	s.op(fmt("ctor %zu %zu %zu", N, blockSize, maxTotal));
	if (outcome == 0) s.res(fmt("ok S=%zu maxBuf=%zu", pool->mBlockSize, pool->mMaxBufferCount));
	else s.res(outcome == 1 ? "E:length" : "E:other");
	if ((outcome != 0) != expectThrow || outcome == 2)
		c.fail("C09 u32 params: MemPoolUInt32<%zu>(blockSize=%zu, maxTotalBlockCount=%zu) %s, %zu blocks of %zu bytes %s size_t", N, blockSize, maxTotal,
			outcome == 0 ? "constructs" : outcome == 1 ? "throws std::length_error" : "throws another exception", N, S, expectThrow ? "do not fit into" : "fit into");
	if (outcome == 0) {
		const Pool& cp = *pool;
		if (&cp.GetMemManager() != &pool->GetMemManager() || &cp.GetMemManager() != &pool->mBuffers.GetMemManager() || cp.GetMemManager().ar != &ar || Mgr::alive != aliveBefore + 1)
			c.fail("C09 manager: u32 N=%zu blockSize=%zu: the const GetMemManager() is not the one manager the pool holds", N, blockSize);
		if (pool->mAllocCount != 0 || pool->mBlockHead != Pool::nullPtr || pool->mBuffers.GetCount() != 0)
			c.fail("C09 u32 params: N=%zu blockSize=%zu: the new pool is not empty", N, blockSize);
		pool.reset();
		c.stats.count("u32edge.constructed");
	}
	else c.stats.count("u32edge.length_error");
	if (Mgr::alive != aliveBefore) c.fail("C09 u32 params: N=%zu blockSize=%zu: %ld memory manager objects are left over", N, blockSize, Mgr::alive - aliveBefore);
	if (ar.requests != reqBefore || ar.frees != freesBefore || !ar.live.empty() || !ar.events.empty()) {
		c.fail("C09 u32 params: N=%zu blockSize=%zu: constructor / destructor of an unused pool called the memory manager", N, blockSize);
		ar.takeEvents();
	}
	c.stats.nontrivial(fmt("u32ctor %zu/%zu/%zu", N, blockSize, maxTotal));
	c.stats.evaluations++;
}

template<size_t N>
static void u32CtorN(Ctx& c, Rng& rng, Suite& s)
{
	const size_t M = SIZE_MAX / N;		// the largest block size that must construct
	std::set<size_t> sizes = { 0, 1, 3, 4, 5, 48, M, SIZE_MAX, SIZE_MAX - 1, size_t{1} << 63, (size_t{1} << 63) - 1, (size_t{1} << 63) + 1 };
	if (M > 0) sizes.insert(M - 1);
	if (M < SIZE_MAX) { sizes.insert(M + 1); sizes.insert(M + 2); }
	for (unsigned i = 0; i < (c.thorough ? 200u : 20u); ++i) sizes.insert(rng.chance(1, 2) ? M - (size_t)rng.below(1000) + (size_t)rng.below(1000) : (size_t)rng.biased(64));
	static const size_t totals[] = { 0, 1, 1000, 4000000000u, 4294967294u };
	unsigned k = 0;
	for (size_t bs : sizes) u32Ctor<N>(c, s, bs, totals[k++ % 5]);
}

static void runU32Edge(Ctx& c, Rng& rng)
{
	Suite s(c, "u32edge", fmt("model poolu32 arena=%llu", (unsigned long long)(uintptr_t)g_arena.mem));
	u32CtorN<1>(c, rng, s);
	u32CtorN<2>(c, rng, s);
	u32CtorN<3>(c, rng, s);
	u32CtorN<64>(c, rng, s);
	u32CtorN<(size_t{1} << 20)>(c, rng, s);
	u32CtorN<(size_t{1} << 61)>(c, rng, s);			// block sizes 4..7 construct
	u32CtorN<(size_t{1} << 62) + 1>(c, rng, s);		// no block size constructs
}

// (parts 5 and 6: the world suite and the u32 suite above; part 7: the edge suites.)
// The harness is compiled as four executables (registry flags -DC09_PART=1..4) so that the template
// instantiations compile in parallel: 1 = layout + dll suites, 2 = state suite for blockCount 1 and 2,
// 3 = blockCount 3 and 5, 4 = blockCount 32 and 127.  Without C09_PART everything runs in one process.
#ifndef C09_PART
# define C09_PART 0
#endif

static void runState(Ctx& c, Rng& rng)
{
	Suite s(c, "state", fmt("model pool arena=%llu", (unsigned long long)(uintptr_t)g_arena.mem));
	const unsigned count = c.thorough ? 16 : 5;
	const unsigned length = c.thorough ? 700 : 300;
#if C09_PART == 0 || C09_PART == 2
	runStateN<1>(c, rng, s, count, length);
	runStateN<2>(c, rng, s, count, length);
#endif
#if C09_PART == 0 || C09_PART == 3
	runStateN<3>(c, rng, s, count, length);
	runStateN<5>(c, rng, s, count, length);
#endif
#if C09_PART == 0 || C09_PART == 4
	runStateN<32>(c, rng, s, count, length);
	runStateN<127>(c, rng, s, count, length);
#endif
}

int main(int argc, char** argv)
{
	Ctx c = parseArgs(argc, argv);
	Rng rng(c.seed * 0x1000 + 9 + 0x100 * C09_PART);
	g_arena.init(c);
	c.stats.count(g_arena.fixedBase ? "arena.fixed_base" : "arena.floating_base");
#if C09_PART == 0 || C09_PART == 1
	runLayout(c, rng);
	runDll(c, rng);
#endif
#if C09_PART == 0 || (C09_PART >= 2 && C09_PART <= 4)
	runState(c, rng);
#endif
#if C09_PART == 0 || C09_PART == 5
	runWorld(c, rng);
#endif
#if C09_PART == 0 || C09_PART == 6
	runU32(c, rng);
#endif
#if C09_PART == 0 || C09_PART == 7
	runEdge(c, rng);
	runU32Edge(c, rng);
#endif
	c.stats.count("manager.requests", g_arena.requests);
	c.stats.count("manager.faults_injected", g_arena.faults);
	c.stats.count("manager.frees", g_arena.frees);
	return c.finish();
}
