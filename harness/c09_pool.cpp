// C09 correspondence harness: momo::MemPool against the Lean model `Momo.Pool` (engine "pool").
//   layout suite  function level: the real pvNewBuffer / pvGetBlock / pvGetBlockIndex / pvGetBufferSize* /
//                 pvNewBlock1 / position functions on pools whose memory manager returns CHOSEN addresses
//                 carved from a big arena, so that every residue of the base address modulo S*N (hence
//                 modulo 2A) is exercised;
//   dll suite     function level: the real pvMoveBufferToHead / pvDeleteBuffer / MergeFrom on hand-linked
//                 real buffers against the pointer-level model;
//   state suite   random Allocate / Deallocate / DeallocateIf / DeallocateAll / MergeFrom / destructor
//                 histories: every answer, every memory-manager call, the buffer list, the cache and (at
//                 dumps) every byte of pool metadata are compared with the model.
//   world suite   (part 5) several real pools with TAGGED memory managers: Swap / move construction / move assignment /
//                 MergeFrom / Allocate / Deallocate / DeallocateAll / destruction against the model engine "poolworld";
//                 every manager call is compared together with the manager that was called.
//   u32 suite     (part 6) the real momo::internal::MemPoolUInt32 against the model engine "poolu32": indices returned, every
//                 manager call (buffers and the storage of the buffer array), real pointers, head, count, free chain.
// Property-level oracle (FAIL lines): alignment, blocks inside memory obtained from the manager, pairwise
// disjoint, pattern bytes of live blocks intact, canary bytes outside owned memory intact, allocated count
// = number of live blocks, DeallocateIf asks about exactly the live blocks, ledger of the manager exact and
// empty at the end.  Under ASan every live block and all memory not owned by the pool is poisoned while
// the pool code runs.
#include "momo/MemPool.h"
#include "common/verif_common.h"

#include <sys/mman.h>
#include <algorithm>
#include <deque>
#include <map>
#include <memory>
#include <new>
#include <set>
#include <string>
#include <vector>

#if defined(__SANITIZE_ADDRESS__)
# include <sanitizer/asan_interface.h>
# define VF_POISON(p, n) __asan_poison_memory_region((p), (n))
# define VF_UNPOISON(p, n) __asan_unpoison_memory_region((p), (n))
# define VF_NOASAN __attribute__((no_sanitize("address")))
#else
# define VF_POISON(p, n) ((void)0)
# define VF_UNPOISON(p, n) ((void)0)
# define VF_NOASAN
#endif

using namespace vf;
typedef momo::internal::Byte Byte;

// ------------------------------------------------------------------------------------------------ arena

struct Arena {
	static constexpr uintptr_t wantedBase = 0x200000000000ull;	// fixed, so that op files are reproducible
	static constexpr size_t arenaSize = size_t{96} << 20;
	uint8_t* mem = nullptr;
	bool fixedBase = false;
	Ctx* c = nullptr;
	std::map<size_t, size_t> live;		// outstanding allocations of the manager: offset -> size
	std::vector<std::string> events;	// calls since the last clearEvents()
	std::deque<long long> answers;		// chosen offsets for the next Allocate calls; -1 = throw
	uint64_t requests = 0, faults = 0, frees = 0;
	uint64_t garbage = 0x1234567;
	bool tagEvents = false;				// world suite: events carry the tag of the manager that was called
	std::map<size_t, int> liveTag;		// world suite: which manager handed out an outstanding allocation

	static uint8_t canary(size_t off) { return (uint8_t)(0xA5u ^ (off * 37u) ^ (off >> 9)); }

	void init(Ctx& ctx) {
		c = &ctx;
		void* p = mmap((void*)wantedBase, arenaSize, PROT_READ | PROT_WRITE,
			MAP_PRIVATE | MAP_ANONYMOUS | MAP_NORESERVE | MAP_FIXED_NOREPLACE, -1, 0);
		fixedBase = (p == (void*)wantedBase);
		if (p == MAP_FAILED || !fixedBase) {
			if (p != MAP_FAILED) munmap(p, arenaSize);
			p = mmap(nullptr, arenaSize, PROT_READ | PROT_WRITE, MAP_PRIVATE | MAP_ANONYMOUS | MAP_NORESERVE, -1, 0);
			if (p == MAP_FAILED) { fprintf(stderr, "cannot map the arena\n"); exit(3); }
		}
		mem = (uint8_t*)p;
		for (size_t i = 0; i < arenaSize; ++i) mem[i] = canary(i);
		VF_POISON(mem, arenaSize);
	}
	long long rel(const void* p) const { return (long long)((const uint8_t*)p - mem); }
	uintptr_t abs(size_t off) const { return (uintptr_t)mem + off; }

	bool overlaps(size_t off, size_t size) const {
		auto it = live.upper_bound(off);
		if (it != live.end() && it->first < off + size) return true;
		if (it != live.begin()) { --it; if (it->first + it->second > off) return true; }
		return false;
	}
	// the allocation that contains [off, off+size), or live.end()
	std::map<size_t, size_t>::const_iterator owner(size_t off, size_t size) const {
		auto it = live.upper_bound(off);
		if (it == live.begin()) return live.end();
		--it;
		return (it->first <= off && off + size <= it->first + it->second) ? it : live.end();
	}

	VF_NOASAN void fillRaw(size_t off, size_t size, bool asCanary) {
		for (size_t i = 0; i < size; ++i) {
			if (asCanary) mem[off + i] = canary(off + i);
			else { garbage = garbage * 6364136223846793005ull + 1442695040888963407ull; mem[off + i] = (uint8_t)(garbage >> 56); }
		}
	}
	// bytes of [from, to) that no outstanding allocation owns must still hold the canary
	VF_NOASAN void checkCanary(size_t from, size_t to, const char* when) {
		if (to > arenaSize) to = arenaSize;
		size_t off = from;
		while (off < to) {
			auto it = live.upper_bound(off);
			if (it != live.begin()) { auto pr = std::prev(it); if (pr->first + pr->second > off) { off = pr->first + pr->second; continue; } }
			size_t stop = (it == live.end()) ? to : std::min(to, it->first);
			for (; off < stop; ++off)
				if (mem[off] != canary(off)) {
					c->fail("C09 write outside owned memory: arena offset %zu changed (%s)", off, when);
					mem[off] = canary(off);
				}
		}
	}

	void* allocate(size_t size, int tag = 0) {
		++requests;
		if (tag < 0) c->fail("C09 manager: Allocate(%zu) through a moved-from memory manager", size);
		long long ans = -1;
		if (!answers.empty()) { ans = answers.front(); answers.pop_front(); }
		else c->fail("harness: the pool asked the memory manager more often than addresses were prepared");
		if (ans < 0) { ++faults; throw std::bad_alloc(); }
		size_t off = (size_t)ans;
		if (off + size > arenaSize || overlaps(off, size)) { c->fail("harness: chosen address %zu+%zu is not free", off, size); throw std::bad_alloc(); }
		live[off] = size;
		VF_UNPOISON(mem + off, size);
		fillRaw(off, size, false);
		if (tagEvents) { events.push_back(fmt("M%zu:%zu@%d", off, size, tag)); liveTag[off] = tag; }
		else events.push_back(fmt("M%zu:%zu", off, size));
		return mem + off;
	}
	void deallocate(void* ptr, size_t size, int tag = 0) noexcept {
		++frees;
		long long r = rel(ptr);
		if (tagEvents) {
			events.push_back(fmt("F%lld:%zu@%d", r, size, tag));
			auto lt = (r >= 0) ? liveTag.find((size_t)r) : liveTag.end();
			if (tag < 0) c->fail("C09 manager: Deallocate(arena+%lld, %zu) through a moved-from memory manager", r, size);
			else if (lt != liveTag.end() && lt->second != tag)
				c->fail("C09 manager: memory arena+%lld obtained from memory manager %d is given back to memory manager %d", r, lt->second, tag);
			if (lt != liveTag.end()) liveTag.erase(lt);
		}
		else events.push_back(fmt("F%lld:%zu", r, size));
		auto it = (r >= 0) ? live.find((size_t)r) : live.end();
		if (it == live.end() || it->second != size) {
			c->fail("C09 ledger: Deallocate(arena+%lld, %zu) matches no outstanding Allocate", r, size);
			return;
		}
		size_t off = it->first;
		live.erase(it);
		fillRaw(off, size, true);
		VF_POISON(mem + off, size);
		size_t lo = off > 4096 ? off - 4096 : 0;
		checkCanary(lo, off + size + 4096, "at Deallocate");
	}
	// after a reported leak: hand the leaked memory back to the arena so that later checks stay meaningful
	void forgetAll() {
		for (auto& kv : live) { fillRaw(kv.first, kv.second, true); VF_POISON(mem + kv.first, kv.second); }
		live.clear();
		liveTag.clear();
	}
	std::string takeEvents() {
		std::string s;
		for (auto& e : events) { if (!s.empty()) s += ' '; s += e; }
		events.clear();
		return s.empty() ? "-" : s;
	}
};

static Arena g_arena;

// A memory manager with an identity: `tag` (0 in the suites that use one manager). Managers with different tags are
// different managers (not IsEqual): memory must go back to the manager it came from. A moved-from manager gets tag -1 in the
// world suite (`g_markMovedFrom`), so that any later call through it is visible.
static bool g_markMovedFrom = false;
class Mgr {
public:
	explicit Mgr(Arena* a, int t = 0) noexcept : ar(a), tag(t) {}
	Mgr(Mgr&& m) noexcept : ar(m.ar), tag(m.tag) { if (g_markMovedFrom) m.tag = -1; }
	Mgr(const Mgr& m) noexcept : ar(m.ar), tag(m.tag) {}
	~Mgr() noexcept {}
	Mgr& operator=(const Mgr&) = delete;
	void* Allocate(size_t size) { return ar->allocate(size, tag); }
	void Deallocate(void* ptr, size_t size) noexcept { ar->deallocate(ptr, size, tag); }
	bool IsEqual(const Mgr& m) const noexcept { return ar == m.ar && tag == m.tag; }
	Arena* ar;
	int tag;
};

struct PoolSettings : public momo::MemPoolSettings {
	static const momo::CheckMode checkMode = momo::CheckMode::assertion;
	static const momo::ExtraCheckMode extraCheckMode = momo::ExtraCheckMode::assertion;
};

template<size_t N, size_t C>
using PoolNC = momo::MemPool<momo::MemPoolParams<N, C>, Mgr, PoolSettings>;

static size_t allocAlignOf(size_t A) { size_t low = A & (~A + 1); return std::min<size_t>(alignof(std::max_align_t), low); }

static std::string joinRel(const std::vector<long long>& v) {
	std::string s;
	for (size_t i = 0; i < v.size(); ++i) { if (i) s += ','; s += std::to_string(v[i]); }
	return s;
}

// an offset in [lo, hi) that is a multiple of g (absolute address), free for `size` bytes
static long long chooseFree(Arena& ar, Rng& rng, size_t g, size_t size, size_t lo, size_t hi, long long hint = -1) {
	auto roundUp = [&](size_t off) { uintptr_t a = ar.abs(off); a = (a + g - 1) / g * g; return (size_t)(a - (uintptr_t)ar.mem); };
	if (hint >= 0) { size_t off = roundUp((size_t)hint); if (off + size <= hi && !ar.overlaps(off, size)) return (long long)off; }
	for (int attempt = 0; attempt < 200; ++attempt) {
		size_t off = roundUp(lo + (size_t)rng.below(hi - lo - size));
		if (off + size <= hi && !ar.overlaps(off, size)) return (long long)off;
	}
	for (size_t off = roundUp(lo); off + size <= hi; off += g)
		if (!ar.overlaps(off, size)) return (long long)off;
	return -1;
}

// ------------------------------------------------------------------------------------------------ layout suite

struct LayoutCfg { size_t reqSize, A; };

template<size_t N>
static void layoutConfig(Ctx& c, Rng& rng, Suite& s, size_t reqSize, size_t A, size_t budget)
{
	typedef PoolNC<N, 0> Pool;
	Arena& ar = g_arena;
	Pool pool(momo::MemPoolParams<N, 0>(reqSize, A), Mgr(&ar));
	const size_t S = pool.GetBlockSize();
	s.op(fmt("cbs %zu %zu %zu", reqSize, A, N)); s.res(fmt("%zu", S));
	s.op(fmt("cfg %zu %zu %zu 0", S, A, N));
	s.res(fmt("legal=1 addend=%zu size0=%zu size1=%zu size=%zu near=%d cache=0", pool.pvGetAlignmentAddend(), pool.pvGetBufferSize0(),
		pool.pvGetBufferSize1(), pool.pvGetBufferSize(), pool.pvIsBufferBytesNear() ? 1 : 0));
	const size_t g = allocAlignOf(A);
	if (pool.pvGetAlignmentAddend() != A - g) c.fail("C09 layout: alignment addend %zu != A - g for A=%zu", pool.pvGetAlignmentAddend(), A);
	c.stats.count("layout.configs");
	c.stats.count(fmt("layout.configs.N=%zu", N));
	const size_t period = S * N;			// the layout is a function of the base address modulo S*N
	const size_t r0 = ((size_t)rng.below(1 << 20) + 65536) / 4096 * 4096;
	std::vector<size_t> residues;
	if (period / g + 1 <= budget) {
		for (size_t r = 0; r < period + g; r += g) residues.push_back(r);
		c.stats.count("layout.full_sweeps");
	}
	else {
		std::set<size_t> pick;
		// boundaries of the period, of block-size multiples and of 2A multiples, then random residues
		for (size_t m = 0; m <= N && pick.size() < budget / 2; ++m)
			for (long long d = -(long long)(2 * A + g); d <= (long long)(2 * A + g); d += (long long)g) {
				long long r = (long long)(m * S) + d;
				if (r >= 0 && (size_t)r < period + g) pick.insert((size_t)r / g * g);
			}
		while (pick.size() < budget) pick.insert((size_t)rng.below(period + g) / g * g);
		residues.assign(pick.begin(), pick.end());
	}
	for (size_t r : residues) {
		size_t baseOff = r0 + r;
		// the arena start is page aligned, so offsets that are multiples of g are addresses that are multiples of g
		if (N > 1) {
			const size_t size = pool.pvGetBufferSize();
			ar.answers.assign(1, (long long)baseOff);
			Byte* buffer = pool.pvNewBuffer();
			ar.takeEvents();
			int first = pool.pvGetFirstBlockIndex(buffer);
			size_t beginOffset = pool.pvGetBeginOffset(buffer);
			uint64_t chk = 0;
			long long lowest = ar.rel(buffer), prevEnd = -1;
			long long metaPos[5] = { ar.rel(buffer), ar.rel(pool.pvGetBufferBytesPosition(buffer)), ar.rel(pool.pvGetPrevBufferPosition(buffer)),
				ar.rel(pool.pvGetNextBufferPosition(buffer)), ar.rel(pool.pvGetBeginOffsetPosition(buffer)) };
			size_t metaLen[5] = { 1, 2, sizeof(Byte*), sizeof(Byte*), 2 };
			if (first > 0 || first <= -(int)N) c.fail("C09 layout: S=%zu A=%zu N=%zu base=arena+%zu: first block index %d out of (-N, 0]", S, A, N, baseOff, first);
			for (size_t j = 0; j < N; ++j) {
				int8_t idx = (int8_t)(first + (int)j);
				Byte* blk = pool.pvGetBlock(buffer, idx);
				Byte* buf2 = nullptr;
				int8_t idx2 = pool.pvGetBlockIndex(blk, buf2);
				long long b = ar.rel(blk);
				chk = chk * 1000003ull + (uint64_t)b;
				chk = chk * 1000003ull + (uint64_t)(int64_t)idx2;
				chk = chk * 1000003ull + (uint64_t)ar.rel(buf2);
				// property level
				if ((uintptr_t)blk % A != 0) c.fail("C09 alignment: S=%zu A=%zu N=%zu base=arena+%zu block %d at arena+%lld is not %zu-aligned", S, A, N, baseOff, (int)idx, b, A);
				if (b < (long long)baseOff || b + (long long)S > (long long)(baseOff + size))
					c.fail("C09 inside: S=%zu A=%zu N=%zu base=arena+%zu block %d = [%lld,%lld) leaves the buffer memory [%zu,%zu)", S, A, N, baseOff, (int)idx, b, b + (long long)S, baseOff, baseOff + size);
				if (b < prevEnd) c.fail("C09 disjoint: S=%zu A=%zu N=%zu base=arena+%zu block %d at %lld overlaps its predecessor ending at %lld", S, A, N, baseOff, (int)idx, b, prevEnd);
				prevEnd = b + (long long)S;
				if (idx2 != idx || buf2 != buffer) c.fail("C09 recover: S=%zu A=%zu N=%zu base=arena+%zu pvGetBlockIndex(block %d) = (%d, arena+%lld), buffer is arena+%lld", S, A, N, baseOff, (int)idx, (int)idx2, ar.rel(buf2), ar.rel(buffer));
				for (int m = 0; m < 5; ++m)
					if (b < metaPos[m] + (long long)metaLen[m] && metaPos[m] < b + (long long)S)
						c.fail("C09 metadata: S=%zu A=%zu N=%zu base=arena+%zu block %d = [%lld,%lld) overlaps metadata field %d at %lld", S, A, N, baseOff, (int)idx, b, b + (long long)S, m, metaPos[m]);
				lowest = std::min(lowest, b);
			}
			for (int m = 0; m < 5; ++m) {
				if (metaPos[m] < (long long)baseOff || metaPos[m] + (long long)metaLen[m] > (long long)(baseOff + size))
					c.fail("C09 inside: S=%zu A=%zu N=%zu base=arena+%zu metadata field %d at %lld leaves the buffer memory [%zu,%zu)", S, A, N, baseOff, m, metaPos[m], baseOff, baseOff + size);
				for (int m2 = m + 1; m2 < 5; ++m2)
					if (metaPos[m] < metaPos[m2] + (long long)metaLen[m2] && metaPos[m2] < metaPos[m] + (long long)metaLen[m])
						c.fail("C09 metadata: S=%zu A=%zu N=%zu base=arena+%zu metadata fields %d and %d overlap", S, A, N, baseOff, m, m2);
			}
			if (ar.rel(pool.pvGetBlock(buffer, (int8_t)first)) - (long long)beginOffset != (long long)baseOff)
				c.fail("C09 layout: S=%zu A=%zu N=%zu base=arena+%zu first block - beginOffset != base", S, A, N, baseOff);
			s.op(fmt("nb %zu", baseOff));
			s.res(fmt("%lld %d %zu %lld %lld %lld %lld %lld %llu", ar.rel(buffer), first, beginOffset, ar.rel(pool.pvGetBlocksEndPosition(buffer)),
				metaPos[1], metaPos[2], metaPos[3], metaPos[4], (unsigned long long)chk));
			c.stats.count(first == 0 ? "layout.first_index_zero" : "layout.first_index_negative");
			if (beginOffset >= 2 * A) c.stats.count("layout.begin_offset_ge_2A");
			if (N <= 5 && rng.chance(1, 16)) {
				std::string line = fmt("%lld %d %zu :", ar.rel(buffer), first, beginOffset);
				for (size_t j = 0; j < N; ++j) {
					Byte* blk = pool.pvGetBlock(buffer, (int8_t)(first + (int)j));
					Byte* buf2; int8_t idx2 = pool.pvGetBlockIndex(blk, buf2);
					line += fmt(" %lld>%d@%lld", ar.rel(blk), (int)idx2, ar.rel(buf2));
				}
				s.op(fmt("nbl %zu", baseOff)); s.res(line);
			}
			pool.pvDeleteBuffer(buffer);
			std::string ev = ar.takeEvents();
			if (ev != fmt("F%zu:%zu", baseOff, size)) c.fail("C09 ledger: S=%zu A=%zu N=%zu base=arena+%zu pvDeleteBuffer gave back '%s'", S, A, N, baseOff, ev.c_str());
		}
		else if (pool.pvGetAlignmentAddend() != 0) {
			const size_t size = pool.pvGetBufferSize1();
			ar.answers.assign(1, (long long)baseOff);
			Byte* blk = pool.pvNewBlock1();
			ar.takeEvents();
			long long b = ar.rel(blk);
			uint16_t off16 = momo::internal::MemCopyer::FromBuffer<uint16_t>(blk + S);
			if ((uintptr_t)blk % A != 0) c.fail("C09 alignment: single block S=%zu A=%zu base=arena+%zu block at arena+%lld", S, A, baseOff, b);
			if (b < (long long)baseOff || b + (long long)S + 2 > (long long)(baseOff + size))
				c.fail("C09 inside: single block S=%zu A=%zu base=arena+%zu block [%lld,%lld)+2 leaves [%zu,%zu)", S, A, baseOff, b, b + (long long)S, baseOff, baseOff + size);
			// (the stored offset itself is representation, compared with the model only: the nb1 answer line)
			s.op(fmt("nb1 %zu", baseOff)); s.res(fmt("%lld %u", b, (unsigned)off16));
			pool.pvDeleteBlock1(blk);
			std::string ev = ar.takeEvents();
			if (ev != fmt("F%zu:%zu", baseOff, size)) c.fail("C09 ledger: single block S=%zu A=%zu base=arena+%zu pvDeleteBlock1 gave back '%s'", S, A, baseOff, ev.c_str());
			if (off16 >= 256) c.stats.count("layout.single_offset_ge_256");
		}
		else {
			// addend == 0: the block is the manager's address itself
			ar.answers.assign(1, (long long)baseOff);
			void* blk = pool.Allocate();
			std::string ev = ar.takeEvents();
			if (ar.rel(blk) != (long long)baseOff || (uintptr_t)blk % A != 0) c.fail("C09 alignment: plain single block S=%zu A=%zu base=arena+%zu", S, A, baseOff);
			if (ev != fmt("M%zu:%zu", baseOff, pool.pvGetBufferSize0())) c.fail("C09 ledger: plain single block S=%zu A=%zu asked '%s'", S, A, ev.c_str());
			pool.Deallocate(blk);
			ar.takeEvents();
		}
		if (!ar.live.empty()) ar.forgetAll();	// a wrong Deallocate was reported above; keep the arena usable
		c.stats.evaluations++;
		c.stats.nontrivial(fmt("%zu/%zu/%zu/%zu", S, A, N, r % period));
	}
	// pvGetBlockIndex on arbitrary aligned addresses (not only on blocks of a buffer)
	if (N > 1)
		for (int i = 0; i < 24; ++i) {
			uintptr_t a = ar.abs((size_t)rng.below(Arena::arenaSize - 4096));
			a = a / A * A;
			Byte* buf2; int8_t idx2 = pool.pvGetBlockIndex((Byte*)a, buf2);
			s.op(fmt("blk %lld", ar.rel((void*)a))); s.res(fmt("%d %lld", (int)idx2, ar.rel(buf2)));
			c.stats.evaluations++;
		}
	if (!ar.live.empty()) { c.fail("C09 ledger: layout suite S=%zu A=%zu N=%zu left %zu allocations", S, A, N, ar.live.size()); ar.forgetAll(); }
	if (c.stats.samples.size() < 3) c.stats.sample(fmt("layout S=%zu A=%zu N=%zu: %zu base residues from arena+%zu", S, A, N, residues.size(), r0));
}

static void runLayout(Ctx& c, Rng& rng)
{
	Suite s(c, "layout", fmt("model pool arena=%llu", (unsigned long long)(uintptr_t)g_arena.mem));
	s.op("consts");
	s.res(fmt("%zu %zu %zu %zu %zu", (size_t)momo::internal::UIntConst::maxAllocAlignment, sizeof(PoolNC<2, 0>::BufferBytes), sizeof(Byte*), sizeof(uint16_t),
		(size_t)momo::internal::UIntConst::maxAlignment));
	for (size_t sz = 0; sz <= 40; ++sz) { s.op(fmt("gba %zu", sz)); s.res(fmt("%zu", momo::MemPoolConst::GetBlockAlignment(sz))); }
	// alignments: all of 1..32, the named ones, and every legal value in the thorough tier
	std::vector<size_t> aligns;
	for (size_t a = 1; a <= 32; ++a) aligns.push_back(a);
	for (size_t a : { 48, 64, 100, 128, 255, 256, 257, 272, 384, 512, 1000, 1023, 1024 }) aligns.push_back(a);
	// every legal alignment: sizes of the buffers and the addend (cheap, exhaustive)
	for (size_t A = 1; A <= 1024; ++A) {
		PoolNC<2, 0> pool(momo::MemPoolParams<2, 0>(3 * A, A), Mgr(&g_arena));
		s.op(fmt("cfg %zu %zu 2 0", 3 * A, A));
		s.res(fmt("legal=1 addend=%zu size0=%zu size1=%zu size=%zu near=%d cache=0", pool.pvGetAlignmentAddend(), pool.pvGetBufferSize0(),
			pool.pvGetBufferSize1(), pool.pvGetBufferSize(), pool.pvIsBufferBytesNear() ? 1 : 0));
		c.stats.evaluations++;
	}
	const size_t configs = c.thorough ? 1500 : 170;
	const size_t budget = c.thorough ? 2600 : 420;
	for (size_t i = 0; i < configs; ++i) {
		size_t A = (i < aligns.size()) ? aligns[i] : (rng.chance(2, 3) ? aligns[(size_t)rng.below(aligns.size())] : (size_t)rng.range(1, 1024));
		size_t reqSize;
		switch (rng.below(4)) {
		case 0: reqSize = (size_t)rng.range(0, 3 * A); break;		// around the 2A minimum
		case 1: reqSize = A * (size_t)rng.range(2, 9); break;		// exact multiples, both parities of S/A
		default: reqSize = (size_t)rng.range(1, 300); break;
		}
		switch ((i + rng.below(2)) % 6) {
		case 0: layoutConfig<1>(c, rng, s, reqSize, A, budget); break;
		case 1: layoutConfig<2>(c, rng, s, reqSize, A, budget); break;
		case 2: layoutConfig<3>(c, rng, s, reqSize, A, budget); break;
		case 3: layoutConfig<5>(c, rng, s, reqSize, A, budget); break;
		case 4: layoutConfig<32>(c, rng, s, reqSize, A, budget / 2); break;
		default: layoutConfig<127>(c, rng, s, reqSize, A, budget / 6); break;
		}
	}
	g_arena.checkCanary(0, Arena::arenaSize, "end of the layout suite");
}

// ------------------------------------------------------------------------------------------------ dll suite

static void runDll(Ctx& c, Rng& rng)
{
	typedef PoolNC<3, 0> Pool;
	Arena& ar = g_arena;
	Suite s(c, "dll", fmt("model pool arena=%llu", (unsigned long long)(uintptr_t)ar.mem));
	const unsigned rounds = c.thorough ? 4000 : 500;
	for (unsigned round = 0; round < rounds; ++round) {
		Pool a(momo::MemPoolParams<3, 0>(16, 8), Mgr(&ar)), b(momo::MemPoolParams<3, 0>(16, 8), Mgr(&ar));
		const size_t k = (size_t)rng.range(2, 9);
		std::vector<Byte*> node(k);
		std::vector<long long> nodeOff(k, -1);
		std::vector<bool> dead(k, false);
		const size_t size = a.pvGetBufferSize();
		for (size_t i = 0; i < k; ++i) {
			long long off = chooseFree(ar, rng, 8, size, 4096, 4096 + 64 * size);
			ar.answers.assign(1, off);
			nodeOff[i] = off;
			node[i] = a.pvNewBuffer();
		}
		ar.takeEvents();
		auto idOf = [&](Byte* p) -> long long { if (!p) return -1; for (size_t i = 0; i < k; ++i) if (node[i] == p) return (long long)i; return -2; };
		auto dump = [&]() {
			std::string line;
			for (size_t i = 0; i < k; ++i) {
				if (i) line += ' ';
				if (dead[i]) line += "x";
				else line += fmt("%lld,%lld", idOf(a.pvGetPrevBuffer(node[i])), idOf(a.pvGetNextBuffer(node[i])));
			}
			return line;
		};
		auto link = [&](const std::vector<size_t>& order) {
			for (size_t j = 0; j < order.size(); ++j) {
				long long p = j ? (long long)order[j - 1] : -1, n = (j + 1 < order.size()) ? (long long)order[j + 1] : -1;
				a.pvSetPrevBuffer(node[order[j]], p < 0 ? nullptr : node[p]);
				a.pvSetNextBuffer(node[order[j]], n < 0 ? nullptr : node[n]);
				s.op(fmt("pset %zu %lld %lld", order[j], p, n)); s.res(dump());
			}
		};
		std::vector<size_t> perm(k);
		for (size_t i = 0; i < k; ++i) perm[i] = i;
		for (size_t i = k; i > 1; --i) std::swap(perm[i - 1], perm[(size_t)rng.below(i)]);
		s.op(fmt("pinit %zu", k)); s.res("ok");
		unsigned kind = (unsigned)rng.below(3);
		std::string desc;
		if (kind == 0) {
			// pvMoveBufferToHead: head at position h >= 1, the moved buffer before it
			link(perm);
			size_t h = (size_t)rng.range(1, k - 1), m = (size_t)rng.below(h);
			a.mFreeBufferHead = node[perm[h]];
			a.pvMoveBufferToHead(node[perm[m]]);
			s.op(fmt("pmove %zu %zu", perm[h], perm[m])); s.res(dump());
			if (a.mFreeBufferHead != node[perm[m]]) c.fail("C09 list: pvMoveBufferToHead did not make the buffer the head");
			desc = fmt("pmove k=%zu head@%zu buffer@%zu", k, h, m);
			c.stats.count(m + 1 == h ? "dll.move.is_head_prev" : "dll.move.relinked");
		}
		else if (kind == 1) {
			// pvDeleteBuffer of every buffer but the head, in random order
			link(perm);
			size_t h = (size_t)rng.below(k);
			a.mFreeBufferHead = node[perm[h]];
			std::vector<size_t> victims;
			for (size_t j = 0; j < k; ++j) if (j != h && rng.chance(2, 3)) victims.push_back(perm[j]);
			for (size_t i = victims.size(); i > 1; --i) std::swap(victims[i - 1], victims[(size_t)rng.below(i)]);
			for (size_t v : victims) {
				a.pvDeleteBuffer(node[v]);
				dead[v] = true;
				s.op(fmt("punlink %zu", v)); s.res(dump());
				c.stats.count("dll.unlink");
			}
			desc = fmt("punlink k=%zu head@%zu victims=%zu", k, h, victims.size());
		}
		else {
			// MergeFrom: split the nodes into two lists with their heads
			size_t k1 = (size_t)rng.range(1, k - 1);
			std::vector<size_t> l1(perm.begin(), perm.begin() + k1), l2(perm.begin() + k1, perm.end());
			link(l1); link(l2);
			size_t h1 = (size_t)rng.below(l1.size()), h2 = (size_t)rng.below(l2.size());
			a.mFreeBufferHead = node[l1[h1]];
			b.mFreeBufferHead = node[l2[h2]];
			a.MergeFrom(b);
			s.op(fmt("pmerge %zu %zu", l1[h1], l2[h2])); s.res(dump());
			if (b.mFreeBufferHead != nullptr || a.mFreeBufferHead != node[l1[h1]]) c.fail("C09 merge: heads after MergeFrom are wrong");
			// property level: the list of `a` is a well-formed doubly linked list of exactly all k buffers
			Byte* first = a.mFreeBufferHead; size_t steps = 0;
			while (a.pvGetPrevBuffer(first) != nullptr && steps++ <= k) first = a.pvGetPrevBuffer(first);
			std::set<Byte*> seen; Byte* prev = nullptr; bool good = true;
			for (Byte* p = first; p != nullptr && seen.size() <= k; p = a.pvGetNextBuffer(p)) {
				if (idOf(p) < 0 || !seen.insert(p).second || a.pvGetPrevBuffer(p) != prev) { good = false; break; }
				prev = p;
			}
			if (!good || seen.size() != k)
				c.fail("C09 merge: list after MergeFrom is not a doubly linked list of all buffers: this=%zu buffers head@%zu, other=%zu buffers head@%zu", l1.size(), h1, l2.size(), h2);
			desc = fmt("pmerge this=%zu head@%zu other=%zu head@%zu", l1.size(), h1, l2.size(), h2);
			if (h2 > 0) c.stats.count("dll.merge.other_has_full_buffers");
			if (h1 > 0) c.stats.count("dll.merge.this_has_full_buffers");
			if (h2 > 1) c.stats.count("dll.merge.moved_2_or_more");
		}
		c.stats.evaluations++;
		c.stats.nontrivial("dll " + desc + " " + joinRel(std::vector<long long>(perm.begin(), perm.end())));
		if (round < 3) c.stats.sample("dll " + desc);
		// give everything back through the real DeallocateAll (needs an intact list); before that walk the real links from the
		// head (model op `pwalk`), then compare the ORDER in which DeallocateAll gives the buffers back (model op `pdall`)
		a.mData.allocCount = 0; b.mData.allocCount = 0;
		if (a.mFreeBufferHead != nullptr) {
			auto joinSp = [](const std::vector<long long>& v) { std::string r; for (size_t i = 0; i < v.size(); ++i) { if (i) r += ' '; r += std::to_string(v[i]); } return r; };
			std::vector<long long> fw, bw, order;
			size_t steps = 0;
			for (Byte* p = a.mFreeBufferHead; p != nullptr && steps++ <= k; p = a.pvGetNextBuffer(p)) fw.push_back(idOf(p));
			for (Byte* p = a.pvGetPrevBuffer(a.mFreeBufferHead); p != nullptr && steps++ <= 2 * k; p = a.pvGetPrevBuffer(p)) bw.push_back(idOf(p));
			long long headId = idOf(a.mFreeBufferHead);
			s.op(fmt("pwalk %lld", headId)); s.res("f=[" + joinSp(fw) + "] b=[" + joinSp(bw) + "]");
			ar.takeEvents();
			a.DeallocateAll();
			std::string ev = ar.takeEvents();
			for (size_t pos = 0; (pos = ev.find('F', pos)) != std::string::npos; ++pos) {
				long long off = atoll(ev.c_str() + pos + 1), id = -2;
				for (size_t i = 0; i < k; ++i) if (nodeOff[i] == off) id = (long long)i;
				order.push_back(id);
			}
			s.op(fmt("pdall %lld", headId)); s.res("[" + joinSp(order) + "]");
			std::vector<long long> want(bw); want.insert(want.end(), fw.begin(), fw.end());
			if (order != want) c.fail("C09 DeallocateAll: dll round '%s': buffers given back [%s], the list was pre=[%s] post=[%s]", desc.c_str(), joinSp(order).c_str(), joinSp(bw).c_str(), joinSp(fw).c_str());
			c.stats.count("dll.walk_and_dall");
		}
		ar.takeEvents();
		if (!ar.live.empty()) { c.fail("C09 returned: dll round '%s' left %zu buffers with the manager", desc.c_str(), ar.live.size()); ar.forgetAll(); }
	}
	ar.checkCanary(0, 4096 + 70 * 256, "end of the dll suite");
}

// ------------------------------------------------------------------------------------------------ state suite

struct UserBlock { long long rel; uint32_t tag; };

struct HistoryStats { unsigned maxBuffers = 0, buffersFreed = 0; };

template<size_t N, size_t C>
struct History {
	typedef PoolNC<N, C> Pool;
	Ctx& c; Rng& rng; Suite& s; Arena& ar;
	size_t reqSize, A, S = 0, g = 0, bufSize = 0, window = 0;
	std::map<int, std::unique_ptr<Pool>> pools;
	std::map<int, std::vector<UserBlock>> blocks;	// user-live blocks per pool
	std::map<long long, int> allLive;				// all user-live blocks of the history: rel -> pool id
	uint32_t nextTag = 1;
	int nextId = 1;
	long long lastFreed = -1;
	std::string cfgName;
	HistoryStats hs;
	unsigned opNo = 0;

	History(Ctx& c_, Rng& rng_, Suite& s_, size_t reqSize_, size_t A_) : c(c_), rng(rng_), s(s_), ar(g_arena), reqSize(reqSize_), A(A_) {}

	static uint8_t pat(uint32_t tag, size_t j) { return (uint8_t)(tag * 131u + j * 7u + 1u); }
	void writePattern(const UserBlock& ub) { uint8_t* p = ar.mem + ub.rel; for (size_t j = 0; j < S; ++j) p[j] = pat(ub.tag, j); }
	void checkPattern(int id, const UserBlock& ub, const char* when) {
		const uint8_t* p = ar.mem + ub.rel;
		for (size_t j = 0; j < S; ++j)
			if (p[j] != pat(ub.tag, j)) { c.fail("C09 live block overwritten: %s pool %d block arena+%lld byte %zu (%s, op %u)", cfgName.c_str(), id, ub.rel, j, when, opNo); return; }
	}
	void checkAllPatterns(const char* when) { for (auto& kv : blocks) for (auto& ub : kv.second) checkPattern(kv.first, ub, when); }
	// while pool code runs, every user-live block is poisoned (the pool must neither read nor write it)
	void guard(bool on) {
#if defined(__SANITIZE_ADDRESS__)
		for (auto& kv : allLive) { if (on) VF_POISON(ar.mem + kv.first, S); else VF_UNPOISON(ar.mem + kv.first, S); }
#else
		(void)on;
#endif
	}

	std::string digest(Pool& pool) {
		std::vector<long long> cache, pre, post;
		void* cb = pool.mCacheHead;
		for (size_t i = 0; i < pool.mCachedCount && i < 100000; ++i) { cache.push_back(ar.rel(cb)); cb = momo::internal::MemCopyer::FromBuffer<void*>(cb); }
		if (pool.mFreeBufferHead != nullptr) {
			size_t steps = 0;
			for (Byte* b = pool.pvGetPrevBuffer(pool.mFreeBufferHead); b != nullptr && steps++ < 100000; b = pool.pvGetPrevBuffer(b)) pre.push_back(ar.rel(b));
			for (Byte* b = pool.mFreeBufferHead; b != nullptr && steps++ < 100000; b = pool.pvGetNextBuffer(b)) post.push_back(ar.rel(b));
			if (steps >= 100000) c.fail("C09 list: %s buffer list is cyclic (op %u)", cfgName.c_str(), opNo);
		}
		hs.maxBuffers = std::max<unsigned>(hs.maxBuffers, (unsigned)(pre.size() + post.size()));
		return "n=" + std::to_string(pool.GetAllocateCount()) + " c=[" + joinRel(cache) + "] pre=[" + joinRel(pre) + "] post=[" + joinRel(post) + "]";
	}
	std::string dump(Pool& pool) {
		std::vector<long long> cache;
		void* cb = pool.mCacheHead;
		for (size_t i = 0; i < pool.mCachedCount && i < 100000; ++i) { cache.push_back(ar.rel(cb)); cb = momo::internal::MemCopyer::FromBuffer<void*>(cb); }
		std::vector<Byte*> order;
		size_t preCount = 0;
		if (pool.mFreeBufferHead != nullptr) {
			for (Byte* b = pool.pvGetPrevBuffer(pool.mFreeBufferHead); b != nullptr && order.size() < 100000; b = pool.pvGetPrevBuffer(b)) order.push_back(b);
			std::reverse(order.begin(), order.end());
			preCount = order.size();
			for (Byte* b = pool.mFreeBufferHead; b != nullptr && order.size() < 100000; b = pool.pvGetNextBuffer(b)) order.push_back(b);
		}
		std::string line = "n=" + std::to_string(pool.GetAllocateCount()) + " c=[" + joinRel(cache) + "] store=" + std::to_string(order.size()) + " head=" + std::to_string(preCount) + " ";
		bool firstOne = true;
		for (Byte* b : order) {
			if (!firstOne) line += ' ';
			firstOne = false;
			auto bytes = pool.pvGetBufferBytes(b);
			int first = pool.pvGetFirstBlockIndex(b);
			line += fmt("%lld(%d,%d,%d,%u)[", ar.rel(b), first, (int)bytes.firstFreeBlockIndex, (int)bytes.freeBlockCount, (unsigned)pool.pvGetBeginOffset(b));
			int8_t idx = bytes.firstFreeBlockIndex;
			for (int i = 0; i < bytes.freeBlockCount; ++i) {
				if (i) line += ',';
				line += std::to_string((int)idx);
				if (idx < first || idx >= first + (int)N) { c.fail("C09 free chain: %s buffer arena+%lld chain leaves the buffer at step %d (op %u)", cfgName.c_str(), ar.rel(b), i, opNo); break; }
				idx = pool.pvGetNextFreeBlockIndex(pool.pvGetBlock(b, idx));
			}
			line += "]";
		}
		return line;
	}

	// property-level checks after every operation
	void checkCounts(int id, Pool& pool) {
		if (pool.GetAllocateCount() != blocks[id].size())
			c.fail("C09 count: %s pool %d reports %zu allocated blocks, %zu are live (op %u)", cfgName.c_str(), id, pool.GetAllocateCount(), blocks[id].size(), opNo);
	}
	void prepareAnswers(bool fault) {
		ar.answers.clear();
		if (fault) { ar.answers.assign(2, -1); return; }
		long long a1 = -1;
		unsigned mode = (unsigned)rng.below(8);
		if (mode == 0 && lastFreed >= 0) a1 = chooseFree(ar, rng, g, bufSize, 0, window, lastFreed);	// reuse the address just given back
		else if (mode == 1 && !ar.live.empty()) {			// directly behind an existing allocation
			auto it = ar.live.begin(); std::advance(it, (long)rng.below(ar.live.size()));
			a1 = chooseFree(ar, rng, g, bufSize, 0, window, (long long)(it->first + it->second));
		}
		else if (mode == 2 && !ar.live.empty()) {			// directly in front of an existing allocation
			auto it = ar.live.begin(); std::advance(it, (long)rng.below(ar.live.size()));
			long long want = (long long)it->first - (long long)bufSize;
			if (want >= 0) { want = want / (long long)g * (long long)g; if (!ar.overlaps((size_t)want, bufSize)) a1 = want; }
		}
		if (a1 < 0) a1 = chooseFree(ar, rng, g, bufSize, 0, window);
		if (a1 < 0) { c.fail("harness: no free address in the window"); a1 = 0; }
		ar.answers.push_back(a1);
		// a second answer for a second request (never used when blockCount > 1; the model knows both)
		ar.live[(size_t)a1] = bufSize;
		long long a2 = chooseFree(ar, rng, g, bufSize, 0, window);
		ar.live.erase((size_t)a1);
		ar.answers.push_back(a2);
	}

	int newPool() {
		int id = nextId++;
		pools[id].reset(new Pool(momo::MemPoolParams<N, C>(reqSize, A), Mgr(&ar)));
		Pool& pool = *pools[id];
		if (S == 0) {
			S = pool.GetBlockSize();
			g = allocAlignOf(A);
			bufSize = (N > 1) ? pool.pvGetBufferSize() : (pool.pvGetAlignmentAddend() == 0 ? pool.pvGetBufferSize0() : pool.pvGetBufferSize1());
			window = std::min<size_t>(Arena::arenaSize - 4096, 65536 + bufSize * (N > 1 ? 48 : 400));
			cfgName = fmt("S=%zu A=%zu N=%zu C=%zu", S, A, N, C);
		}
		s.op(fmt("new %d %zu %zu %zu %zu", id, S, A, N, C));
		s.res(fmt("legal=1 size=%zu cache=%d", bufSize, pool.pvUseCache() ? 1 : 0));
		blocks[id];
		return id;
	}

	void opAlloc(int id, bool fault) {
		Pool& pool = *pools[id];
		prepareAnswers(fault);
		std::string opLine = fault ? fmt("alloc %d fail", id) : fmt("alloc %d %lld %lld", id, ar.answers[0], ar.answers[1]);
		uint64_t reqBefore = ar.requests;
		void* blk = nullptr; bool threw = false;
		guard(true);
		try { blk = pool.Allocate(); }
		catch (const std::bad_alloc&) { threw = true; }
		guard(false);
		std::string ev = ar.takeEvents();
		s.op(opLine);
		if (threw) {
			s.res("E:bad_alloc | " + ev + " | " + digest(pool));
			c.stats.count("state.fault_fired");
		}
		else {
			long long r = ar.rel(blk);
			s.res(std::to_string(r) + " | " + ev + " | " + digest(pool));
			// property level
			if ((uintptr_t)blk % A != 0) c.fail("C09 alignment: %s pool %d Allocate returned arena+%lld (op %u)", cfgName.c_str(), id, r, opNo);
			if (r < 0 || ar.owner((size_t)r, S) == ar.live.end()) c.fail("C09 inside: %s pool %d block [%lld,%lld) is not inside memory obtained from the manager (op %u)", cfgName.c_str(), id, r, r + (long long)S, opNo);
			auto nx = allLive.lower_bound(r);
			if (nx != allLive.end() && nx->first < r + (long long)S) c.fail("C09 disjoint: %s pool %d block arena+%lld overlaps live block arena+%lld (op %u)", cfgName.c_str(), id, r, nx->first, opNo);
			if (nx != allLive.begin()) { auto pv = std::prev(nx); if (pv->first + (long long)S > r) c.fail("C09 disjoint: %s pool %d block arena+%lld overlaps live block arena+%lld (op %u)", cfgName.c_str(), id, r, pv->first, opNo); }
			UserBlock ub{ r, nextTag++ };
			writePattern(ub);
			blocks[id].push_back(ub);
			allLive[r] = id;
			c.stats.count(ar.requests != reqBefore ? "state.alloc.new_memory" : "state.alloc.reuse");
		}
		if (fault && !threw) c.stats.count("state.fault_not_needed");
		checkCounts(id, pool);
		c.stats.count("state.op.alloc");
	}

	void opFree(int id) {
		Pool& pool = *pools[id];
		auto& v = blocks[id];
		if (v.empty()) return;
		size_t i = (size_t)rng.below(v.size());
		// bias: finish off buffers (free neighbours of recently freed blocks) so that buffers get returned
		if (lastBlockFreed >= 0 && rng.chance(1, 2)) {
			size_t best = i; long long bestD = -1;
			for (size_t j = 0; j < v.size(); ++j) { long long d = std::llabs(v[j].rel - lastBlockFreed); if (bestD < 0 || d < bestD) { bestD = d; best = j; } }
			i = best;
		}
		UserBlock ub = v[i];
		checkPattern(id, ub, "before Deallocate");
		v[i] = v.back(); v.pop_back();
		allLive.erase(ub.rel);
		lastBlockFreed = ub.rel;
		uint64_t freesBefore = ar.frees;
		guard(true);
		pool.Deallocate(ar.mem + ub.rel);
		guard(false);
		std::string ev = ar.takeEvents();
		s.op(fmt("free %d %lld", id, ub.rel));
		s.res("ok | " + ev + " | " + digest(pool));
		if (ar.frees != freesBefore) { c.stats.count("state.free.memory_returned", ar.frees - freesBefore); hs.buffersFreed += (unsigned)(ar.frees - freesBefore); noteLastFreed(ev); }
		checkCounts(id, pool);
		c.stats.count("state.op.free");
	}
	long long lastBlockFreed = -1;
	void noteLastFreed(const std::string& ev) {
		size_t p = ev.rfind('F');
		if (p != std::string::npos) lastFreed = atoll(ev.c_str() + p + 1);
	}

	void opDif(int id) {
		Pool& pool = *pools[id];
		auto& v = blocks[id];
		std::set<long long> sel;
		unsigned mode = (unsigned)rng.below(4);
		for (auto& ub : v) {
			bool pick = (mode == 0) ? rng.chance(1, 2) : (mode == 1) ? rng.chance(1, 8) : (mode == 2) ? rng.chance(7, 8) : ((ub.rel / (long long)(S * 3)) % 2 == 0);
			if (pick) sel.insert(ub.rel);
		}
		checkAllPatterns("before DeallocateIf");
		std::string opLine = "dif " + std::to_string(id);
		for (long long r : sel) { opLine += ' '; opLine += std::to_string(r); }
		std::vector<long long> asked;
		// the selected blocks stop being the user's when the call starts
		std::vector<UserBlock> kept;
		for (auto& ub : v) { if (sel.count(ub.rel)) allLive.erase(ub.rel); else kept.push_back(ub); }
		uint64_t freesBefore = ar.frees;
		guard(true);
		pool.DeallocateIf([&](void* p) { long long r = ar.rel(p); asked.push_back(r); return sel.count(r) > 0; });
		guard(false);
		std::string ev = ar.takeEvents();
		s.op(opLine);
		s.res("[" + joinRel(asked) + "] | " + ev + " | " + digest(pool));
		// property level: the filter is asked exactly once about every live block and about nothing else
		std::vector<long long> a2 = asked, want;
		for (auto& ub : v) want.push_back(ub.rel);
		std::sort(a2.begin(), a2.end()); std::sort(want.begin(), want.end());
		if (a2 != want) c.fail("C09 DeallocateIf: %s pool %d filter asked about %zu blocks, %zu are live (op %u)", cfgName.c_str(), id, a2.size(), want.size(), opNo);
		v = kept;
		checkCounts(id, pool);
		checkAllPatterns("after DeallocateIf");
		if (ar.frees != freesBefore) { c.stats.count("state.dif.memory_returned", ar.frees - freesBefore); hs.buffersFreed += (unsigned)(ar.frees - freesBefore); noteLastFreed(ev); }
		c.stats.count("state.op.dif");
		c.stats.count("state.dif.selected", sel.size());
	}

	// DeallocateIf whose filter throws when it is asked its (k+1)-th question (k answers were given). MemPool handles one
	// block completely before it asks about the next, so the call must leave the pool exactly as a complete call would whose
	// filter answers `false` from the (k+1)-th question on: that is what the model line `dift` computes.
	void opDifThrow(int id) {
		Pool& pool = *pools[id];
		auto& v = blocks[id];
		if (v.empty()) return;
		std::set<long long> sel;
		for (auto& ub : v) if (rng.chance(3, 4)) sel.insert(ub.rel);
		size_t k = (size_t)rng.below(v.size());
		checkAllPatterns("before DeallocateIf(throwing filter)");
		std::string opLine = "dift " + std::to_string(id) + " " + std::to_string(k);
		for (long long r : sel) { opLine += ' '; opLine += std::to_string(r); }
		std::vector<long long> asked;
		uint64_t freesBefore = ar.frees;
		bool threw = false;
		struct FilterThrow {};
		// every block may be deleted by the call: none of them is the user's while it runs
		for (auto& ub : v) allLive.erase(ub.rel);
		guard(true);
		try {
			pool.DeallocateIf([&](void* p) { if (asked.size() == k) throw FilterThrow(); long long r = ar.rel(p); asked.push_back(r); return sel.count(r) > 0; });
		} catch (const FilterThrow&) { threw = true; }
		guard(false);
		std::string ev = ar.takeEvents();
		s.op(opLine);
		s.res("[" + joinRel(asked) + "] | " + ev + " | " + digest(pool));
		if (!threw) c.fail("C09 DeallocateIf: %s pool %d: filter was asked only %zu questions about %zu live blocks (op %u)", cfgName.c_str(), id, asked.size(), v.size(), opNo);
		std::set<long long> askedSet(asked.begin(), asked.end());
		if (askedSet.size() != asked.size()) c.fail("C09 DeallocateIf: %s pool %d: a block was asked about twice (op %u)", cfgName.c_str(), id, opNo);
		std::vector<UserBlock> kept;
		for (auto& ub : v) {
			bool gone = askedSet.count(ub.rel) && sel.count(ub.rel);
			if (!gone) { kept.push_back(ub); allLive[ub.rel] = id; }
		}
		for (long long r : asked) { bool live = false; for (auto& ub : v) if (ub.rel == r) live = true; if (!live) c.fail("C09 DeallocateIf: %s pool %d: filter asked about arena+%lld which is not a live block (op %u)", cfgName.c_str(), id, r, opNo); }
		v = kept;
		checkCounts(id, pool);		// the reported allocated count = number of live blocks, also after the exception
		checkAllPatterns("after DeallocateIf(throwing filter)");
		if (ar.frees != freesBefore) { hs.buffersFreed += (unsigned)(ar.frees - freesBefore); noteLastFreed(ev); }
		c.stats.count("state.op.dif_throw");
		c.stats.count("state.dif_throw.deleted_before_throw", (uint64_t)(blocks[id].size() < v.size() ? 0 : 0) + (uint64_t)(askedSet.size()));
	}

	void opDall(int id) {
		Pool& pool = *pools[id];
		for (auto& ub : blocks[id]) allLive.erase(ub.rel);
		blocks[id].clear();
		uint64_t freesBefore = ar.frees;
		guard(true);
		pool.DeallocateAll();
		guard(false);
		std::string ev = ar.takeEvents();
		s.op(fmt("dall %d", id));
		s.res("ok | " + ev + " | " + digest(pool));
		hs.buffersFreed += (unsigned)(ar.frees - freesBefore);
		checkCounts(id, pool);
		c.stats.count("state.op.dall");
	}

	void opMerge(int id1, int id2) {
		Pool& a = *pools[id1]; Pool& b = *pools[id2];
		bool bothLists = a.mFreeBufferHead != nullptr && b.mFreeBufferHead != nullptr;
		bool otherFull = b.mFreeBufferHead != nullptr && b.pvGetPrevBuffer(b.mFreeBufferHead) != nullptr;
		guard(true);
		a.MergeFrom(b);
		guard(false);
		std::string ev = ar.takeEvents();
		for (auto& ub : blocks[id2]) { blocks[id1].push_back(ub); allLive[ub.rel] = id1; }
		blocks[id2].clear();
		s.op(fmt("merge %d %d", id1, id2));
		s.res("ok | " + ev + " | " + digest(a) + " || " + digest(b));
		checkCounts(id1, a); checkCounts(id2, b);
		checkAllPatterns("after MergeFrom");
		c.stats.count("state.op.merge");
		if (bothLists) c.stats.count("state.merge.both_have_buffers");
		if (bothLists && otherFull) c.stats.count("state.merge.moves_full_buffers");
	}

	void opDump(int id) {
		s.op(fmt("dump %d", id)); s.res(dump(*pools[id]));
		c.stats.count("state.op.dump");
	}

	// free everything that is live (through Deallocate or DeallocateAll), then destroy
	void opDestroy(int id) {
		Pool& pool = *pools[id];
		if (N > 1 && rng.chance(1, 2)) opDall(id);
		else {
			// shuffled frees
			while (!blocks[id].empty()) { lastBlockFreed = -1; opFree(id); }
		}
		opDump(id);
		guard(true);
		pools.erase(id);
		guard(false);
		(void)pool;
		std::string ev = ar.takeEvents();
		s.op(fmt("destroy %d", id));
		s.res("ok | " + ev + " | store=0 singles=0");
		blocks.erase(id);
		c.stats.count("state.op.destroy");
	}

	int randomPool() { auto it = pools.begin(); std::advance(it, (long)rng.below(pools.size())); return it->first; }

	void run(unsigned length) {
		newPool();
		if (rng.chance(1, 2)) newPool();
		unsigned target = (unsigned)rng.range(1, N > 1 ? (unsigned)std::min<size_t>(4 * N + 8, 260) : 40);
		for (opNo = 0; opNo < length; ++opNo) {
			int id = randomPool();
			size_t liveCount = blocks[id].size();
			unsigned r = (unsigned)rng.below(100);
			if (opNo % 24 == 23) target = (unsigned)rng.range(0, N > 1 ? (unsigned)std::min<size_t>(4 * N + 8, 260) : 40);
			if (r < 4) opDump(id);
			else if (r < 7 && N > 1 && liveCount > 0) { if (rng.chance(1, 3)) opDifThrow(id); else opDif(id); }
			else if (r < 8 && N > 1) opDall(id);
			else if (r < 11 && pools.size() >= 2) {
				int id2 = randomPool();
				if (id2 != id) { opMerge(id, id2); if (rng.chance(1, 2)) opDestroy(id2); }
			}
			else if (r < 13 && pools.size() < 3) newPool();
			else if (r < 14 && pools.size() >= 2) opDestroy(id);
			else if (r < 17) opAlloc(id, true);
			else {
				bool grow = liveCount < target ? rng.chance(3, 4) : rng.chance(1, 4);
				if (grow && allLive.size() < 300) opAlloc(id, false); else opFree(id);
			}
			if (opNo % 16 == 15) checkAllPatterns("periodic");
			c.stats.evaluations++;
		}
		while (!pools.empty()) opDestroy(pools.begin()->first);
		// property level: everything has been given back
		if (!ar.live.empty()) {
			c.fail("C09 returned: %s after all pools were destroyed the manager still holds %zu allocations (first arena+%zu)", cfgName.c_str(), ar.live.size(), ar.live.begin()->first);
			ar.forgetAll();
		}
		ar.checkCanary(0, window + 2 * bufSize + 8192, "end of history");
		if (hs.maxBuffers >= 2 && hs.buffersFreed >= 1) c.stats.count("state.histories_nontrivial");
		c.stats.count("state.histories");
	}
};

template<size_t N, size_t C>
static void runHistories(Ctx& c, Rng& rng, Suite& s, unsigned count, unsigned length)
{
	for (unsigned h = 0; h < count; ++h) {
		size_t A, reqSize;
		switch (rng.below(6)) {
		case 0: A = (size_t)rng.range(1, 16); break;
		case 1: A = size_t{1} << rng.below(11); break;
		case 2: { static const size_t odd[8] = { 3, 24, 48, 100, 272, 384, 1000, 1023 }; A = odd[rng.below(8)]; break; }
		case 3: A = (size_t)rng.range(1, 1024); break;
		default: { static const size_t common[5] = { 1, 2, 4, 8, 16 }; A = common[rng.below(5)]; break; }
		}
		switch (rng.below(3)) {
		case 0: reqSize = (size_t)rng.range(1, 40); break;
		case 1: reqSize = A * (size_t)rng.range(2, 5); break;
		default: reqSize = (size_t)rng.range(1, 300); break;
		}
		if (N == 127 && A > 64) A = (size_t)rng.range(1, 64);	// keep the buffers of the widest pools below 1 MB
		s.comment(fmt("history N=%zu C=%zu reqSize=%zu A=%zu #%u", N, C, reqSize, A, h));
		History<N, C> hist(c, rng, s, reqSize, A);
		hist.run(length);
		c.stats.nontrivial(fmt("hist %zu/%zu/%zu/%zu/%u", N, C, reqSize, A, h));
		if (h == 0) c.stats.sample(fmt("state history N=%zu C=%zu %s: %u ops, max %u buffers, %u buffers returned before the end", N, C, hist.cfgName.c_str(), length, hist.hs.maxBuffers, hist.hs.buffersFreed));
	}
}

template<size_t N>
static void runStateN(Ctx& c, Rng& rng, Suite& s, unsigned count, unsigned length)
{
	runHistories<N, 0>(c, rng, s, count, length);
	runHistories<N, 1>(c, rng, s, count, length);
	runHistories<N, 16>(c, rng, s, count, length);
}

// ------------------------------------------------------------------------------------------------ world suite (part 5)
// Several real pools with tagged memory managers (tags 1 and 2 = two different managers, tag -1 = moved-from). The pools of
// one history share blockCount / cache size (template constants) and use two (block size, alignment) settings, so that
// Swap and the move operations visibly carry parameters, manager, count, buffers and cache from one object to another.

template<size_t N, size_t C>
struct World {
	typedef PoolNC<N, C> Pool;
	struct Obj {
		std::unique_ptr<Pool> pool;
		std::vector<UserBlock> blocks;		// user-live blocks that must be freed through THIS object
		bool movedFrom = false;
	};
	Ctx& c; Rng& rng; Suite& s; Arena& ar;
	size_t reqSize[2], algn[2];
	std::map<int, Obj> objs;
	std::map<long long, size_t> allLive;	// rel -> block size
	uint32_t nextTag = 1;
	int nextId = 1;
	unsigned opNo = 0;
	std::string cfgName;
	unsigned swaps = 0, moves = 0, assigns = 0, merges = 0;

	World(Ctx& c_, Rng& rng_, Suite& s_) : c(c_), rng(rng_), s(s_), ar(g_arena) {}

	static uint8_t pat(uint32_t tag, size_t j) { return (uint8_t)(tag * 131u + j * 7u + 1u); }
	static size_t bufSizeOf(Pool& p) { return (N > 1) ? p.pvGetBufferSize() : (p.pvGetAlignmentAddend() == 0 ? p.pvGetBufferSize0() : p.pvGetBufferSize1()); }
	void guard(bool on) {
#if defined(__SANITIZE_ADDRESS__)
		for (auto& kv : allLive) { if (on) VF_POISON(ar.mem + kv.first, kv.second); else VF_UNPOISON(ar.mem + kv.first, kv.second); }
#else
		(void)on;
#endif
	}
	void writePattern(const UserBlock& ub, size_t S) { uint8_t* p = ar.mem + ub.rel; for (size_t j = 0; j < S; ++j) p[j] = pat(ub.tag, j); }
	void checkPattern(int id, const UserBlock& ub, size_t S, const char* when) {
		const uint8_t* p = ar.mem + ub.rel;
		for (size_t j = 0; j < S; ++j)
			if (p[j] != pat(ub.tag, j)) { c.fail("C09 live block overwritten: world %s object %d block arena+%lld byte %zu (%s, op %u)", cfgName.c_str(), id, ub.rel, j, when, opNo); return; }
	}
	void checkAllPatterns(const char* when) { for (auto& kv : objs) if (kv.second.pool) for (auto& ub : kv.second.blocks) checkPattern(kv.first, ub, kv.second.pool->GetBlockSize(), when); }

	std::string digest(Pool& pool) {
		std::vector<long long> cache, pre, post;
		void* cb = pool.mCacheHead;
		for (size_t i = 0; i < pool.mCachedCount && i < 100000; ++i) { cache.push_back(ar.rel(cb)); cb = momo::internal::MemCopyer::FromBuffer<void*>(cb); }
		if (pool.mFreeBufferHead != nullptr) {
			size_t steps = 0;
			for (Byte* b = pool.pvGetPrevBuffer(pool.mFreeBufferHead); b != nullptr && steps++ < 100000; b = pool.pvGetPrevBuffer(b)) pre.push_back(ar.rel(b));
			for (Byte* b = pool.mFreeBufferHead; b != nullptr && steps++ < 100000; b = pool.pvGetNextBuffer(b)) post.push_back(ar.rel(b));
		}
		return fmt("S=%zu A=%zu mgr=%d n=%zu c=[", pool.GetBlockSize(), pool.GetBlockAlignment(), pool.GetMemManager().tag, pool.GetAllocateCount())
			+ joinRel(cache) + "] pre=[" + joinRel(pre) + "] post=[" + joinRel(post) + "]";
	}
	void checkCount(int id) {
		Obj& o = objs[id];
		if (o.pool->GetAllocateCount() != o.blocks.size())
			c.fail("C09 count: world %s object %d reports %zu allocated blocks, %zu are live (op %u)", cfgName.c_str(), id, o.pool->GetAllocateCount(), o.blocks.size(), opNo);
	}

	int opNew() {
		int id = nextId++;
		unsigned k = (unsigned)rng.below(2);
		int tag = rng.chance(2, 3) ? 1 : 2;
		Obj& o = objs[id];
		o.pool.reset(new Pool(momo::MemPoolParams<N, C>(reqSize[k], algn[k]), Mgr(&ar, tag)));
		s.op(fmt("new %d %zu %zu %zu %zu %d", id, o.pool->GetBlockSize(), o.pool->GetBlockAlignment(), N, C, tag));
		s.res("legal=1 | " + digest(*o.pool));
		c.stats.count("world.op.new");
		return id;
	}
	void opAlloc(int id, bool fault) {
		Obj& o = objs[id]; Pool& pool = *o.pool;
		const size_t S = pool.GetBlockSize(), A = pool.GetBlockAlignment(), g = allocAlignOf(A), bufSize = bufSizeOf(pool);
		const size_t window = std::min<size_t>(Arena::arenaSize - 4096, 65536 + bufSize * 64);
		ar.answers.clear();
		long long a1 = -1, a2 = -1;
		if (fault) ar.answers.assign(2, -1);
		else {
			a1 = chooseFree(ar, rng, g, bufSize, 0, window);
			if (a1 < 0) { c.fail("harness: no free address in the window"); a1 = 0; }
			ar.live[(size_t)a1] = bufSize; a2 = chooseFree(ar, rng, g, bufSize, 0, window); ar.live.erase((size_t)a1);
			ar.answers.push_back(a1); ar.answers.push_back(a2);
		}
		void* blk = nullptr; bool threw = false;
		guard(true);
		try { blk = pool.Allocate(); } catch (const std::bad_alloc&) { threw = true; }
		guard(false);
		std::string ev = ar.takeEvents();
		s.op(fault ? fmt("alloc %d fail", id) : fmt("alloc %d %lld %lld", id, a1, a2));
		if (threw) { s.res("E:bad_alloc | " + ev + " | " + digest(pool)); c.stats.count("world.fault_fired"); }
		else {
			long long r = ar.rel(blk);
			s.res(std::to_string(r) + " | " + ev + " | " + digest(pool));
			if ((uintptr_t)blk % A != 0) c.fail("C09 alignment: world %s object %d Allocate returned arena+%lld (op %u)", cfgName.c_str(), id, r, opNo);
			if (r < 0 || ar.owner((size_t)r, S) == ar.live.end()) c.fail("C09 inside: world %s object %d block [%lld,%lld) is not inside memory obtained from a manager (op %u)", cfgName.c_str(), id, r, r + (long long)S, opNo);
			auto nx = allLive.lower_bound(r);
			if (nx != allLive.end() && nx->first < r + (long long)S) c.fail("C09 disjoint: world %s object %d block arena+%lld overlaps live block arena+%lld (op %u)", cfgName.c_str(), id, r, nx->first, opNo);
			if (nx != allLive.begin()) { auto pv = std::prev(nx); if (pv->first + (long long)pv->second > r) c.fail("C09 disjoint: world %s object %d block arena+%lld overlaps live block arena+%lld (op %u)", cfgName.c_str(), id, r, pv->first, opNo); }
			UserBlock ub{ r, nextTag++ };
			writePattern(ub, S);
			o.blocks.push_back(ub);
			allLive[r] = S;
		}
		checkCount(id);
		c.stats.count("world.op.alloc");
	}
	void opFree(int id) {
		Obj& o = objs[id]; Pool& pool = *o.pool;
		if (o.blocks.empty()) return;
		size_t i = (size_t)rng.below(o.blocks.size());
		UserBlock ub = o.blocks[i];
		checkPattern(id, ub, pool.GetBlockSize(), "before Deallocate");
		o.blocks[i] = o.blocks.back(); o.blocks.pop_back();
		allLive.erase(ub.rel);
		guard(true);
		pool.Deallocate(ar.mem + ub.rel);
		guard(false);
		std::string ev = ar.takeEvents();
		s.op(fmt("free %d %lld", id, ub.rel));
		s.res("ok | " + ev + " | " + digest(pool));
		checkCount(id);
		c.stats.count("world.op.free");
	}
	void freeAllOf(int id) { while (!objs[id].blocks.empty()) opFree(id); }
	void opDall(int id) {
		Obj& o = objs[id];
		for (auto& ub : o.blocks) allLive.erase(ub.rel);
		o.blocks.clear();
		guard(true);
		o.pool->DeallocateAll();
		guard(false);
		std::string ev = ar.takeEvents();
		s.op(fmt("dall %d", id)); s.res("ok | " + ev + " | " + digest(*o.pool));
		checkCount(id);
		c.stats.count("world.op.dall");
	}
	bool mergeable(int id1, int id2) {
		Pool& a = *objs[id1].pool; Pool& b = *objs[id2].pool;
		return id1 != id2 && !objs[id1].movedFrom && !objs[id2].movedFrom && a.GetBlockSize() == b.GetBlockSize() && a.GetBlockAlignment() == b.GetBlockAlignment()
			&& a.GetMemManager().IsEqual(b.GetMemManager());
	}
	void opMerge(int id1, int id2) {
		Obj& a = objs[id1]; Obj& b = objs[id2];
		guard(true);
		a.pool->MergeFrom(*b.pool);
		guard(false);
		std::string ev = ar.takeEvents();
		for (auto& ub : b.blocks) a.blocks.push_back(ub);
		b.blocks.clear();
		s.op(fmt("merge %d %d", id1, id2));
		s.res("ok | " + ev + " | " + digest(*a.pool) + " || " + digest(*b.pool));
		checkCount(id1); checkCount(id2);
		++merges; c.stats.count("world.op.merge");
	}
	void opSwap(int id1, int id2) {
		Obj& a = objs[id1]; Obj& b = objs[id2];
		guard(true);
		if (rng.chance(1, 2)) a.pool->Swap(*b.pool); else swap(*a.pool, *b.pool);
		guard(false);
		std::string ev = ar.takeEvents();
		std::swap(a.blocks, b.blocks); std::swap(a.movedFrom, b.movedFrom);
		s.op(fmt("swap %d %d", id1, id2));
		s.res("ok | " + ev + " | " + digest(*a.pool) + " || " + digest(*b.pool));
		checkCount(id1); checkCount(id2);
		++swaps; c.stats.count("world.op.swap");
		if (a.pool->GetMemManager().tag != b.pool->GetMemManager().tag) c.stats.count("world.swap.different_managers");
	}
	void opMoveCtor(int idSrc) {
		int id = nextId++;
		Obj& src = objs[idSrc];
		Obj& o = objs[id];
		guard(true);
		o.pool.reset(new Pool(std::move(*src.pool)));
		guard(false);
		std::string ev = ar.takeEvents();
		o.blocks.swap(src.blocks); o.movedFrom = src.movedFrom; src.movedFrom = true;
		s.op(fmt("mctor %d %d", id, idSrc));
		s.res("ok | " + ev + " | " + digest(*o.pool) + " || " + digest(*src.pool));
		checkCount(id); checkCount(idSrc);
		if (src.pool->mFreeBufferHead != nullptr || src.pool->mCachedCount != 0 || src.pool->GetAllocateCount() != 0)
			c.fail("C09 move: world %s object %d is not empty after it was moved from (op %u)", cfgName.c_str(), idSrc, opNo);
		++moves; c.stats.count("world.op.move_construct");
	}
	void opMoveAssign(int idDst, int idSrc) {
		freeAllOf(idDst);		// the destructor of the temporary checks allocCount == 0
		Obj& dst = objs[idDst]; Obj& src = objs[idSrc];
		size_t heldBefore = ar.live.size();
		bool dstHadMemory = dst.pool->mFreeBufferHead != nullptr || dst.pool->mCachedCount != 0;
		guard(true);
		*dst.pool = std::move(*src.pool);
		guard(false);
		std::string ev = ar.takeEvents();
		dst.blocks.swap(src.blocks); dst.movedFrom = src.movedFrom; src.movedFrom = true;
		s.op(fmt("massign %d %d", idDst, idSrc));
		s.res("ok | " + ev + " | " + digest(*dst.pool) + " || " + digest(*src.pool));
		checkCount(idDst); checkCount(idSrc);
		if (dstHadMemory && ar.live.size() >= heldBefore) c.fail("C09 returned: world %s move assignment to object %d gave nothing back although it held memory (op %u)", cfgName.c_str(), idDst, opNo);
		++assigns; c.stats.count("world.op.move_assign");
		if (dstHadMemory) c.stats.count("world.move_assign.target_held_memory");
	}
	void opDestroy(int id) {
		if (N > 1 && !objs[id].blocks.empty() && rng.chance(1, 2)) opDall(id); else freeAllOf(id);
		guard(true);
		objs[id].pool.reset();
		guard(false);
		std::string ev = ar.takeEvents();
		s.op(fmt("destroy %d", id)); s.res("ok | " + ev + " | store=0 singles=0");
		objs.erase(id);
		c.stats.count("world.op.destroy");
	}
	int randomObj() { auto it = objs.begin(); std::advance(it, (long)rng.below(objs.size())); return it->first; }

	void run(unsigned length) {
		ar.tagEvents = true; g_markMovedFrom = true;
		opNew(); opNew();
		for (opNo = 0; opNo < length; ++opNo) {
			int id = randomObj();
			Obj& o = objs[id];
			unsigned r = (unsigned)rng.below(100);
			if (r < 8 && objs.size() >= 2) { int id2 = randomObj(); if (id2 != id) opSwap(id, id2); }
			else if (r < 13 && objs.size() < 5) opMoveCtor(id);
			else if (r < 18 && objs.size() >= 2) { int id2 = randomObj(); if (id2 != id) opMoveAssign(id, id2); }
			else if (r < 24 && objs.size() >= 2) {
				std::vector<int> partners;
				for (auto& kv : objs) if (mergeable(id, kv.first)) partners.push_back(kv.first);
				if (!partners.empty()) opMerge(id, partners[(size_t)rng.below(partners.size())]);
			}
			else if (r < 28 && objs.size() < 5) opNew();
			else if (r < 31 && objs.size() >= 3) opDestroy(id);
			else if (r < 33 && N > 1 && !o.movedFrom) opDall(id);
			else if (r < 36 && !o.movedFrom) opAlloc(id, true);
			else if (!o.movedFrom) { if (rng.chance(o.blocks.size() < 3 * N + 2 ? 3u : 1u, 4) && allLive.size() < 200) opAlloc(id, false); else opFree(id); }
			if (opNo % 16 == 15) checkAllPatterns("periodic");
			c.stats.evaluations++;
		}
		while (!objs.empty()) opDestroy(objs.begin()->first);
		if (!ar.live.empty()) { c.fail("C09 returned: world %s after all pools were destroyed the managers still hold %zu allocations (first arena+%zu)", cfgName.c_str(), ar.live.size(), ar.live.begin()->first); ar.forgetAll(); }
		ar.checkCanary(0, 2 << 20, "end of world history");
		ar.tagEvents = false; g_markMovedFrom = false;
		if (swaps > 0 && moves + assigns > 0) c.stats.count("world.histories_nontrivial");
		c.stats.count("world.histories");
	}
};

template<size_t N, size_t C>
static void runWorlds(Ctx& c, Rng& rng, Suite& s, unsigned count, unsigned length)
{
	for (unsigned h = 0; h < count; ++h) {
		World<N, C> w(c, rng, s);
		for (int k = 0; k < 2; ++k) {
			switch (rng.below(4)) {
			case 0: w.algn[k] = (size_t)rng.range(1, 16); break;
			case 1: w.algn[k] = size_t{1} << rng.below(10); break;
			case 2: { static const size_t odd[6] = { 3, 24, 48, 100, 272, 384 }; w.algn[k] = odd[rng.below(6)]; break; }
			default: { static const size_t common[4] = { 4, 8, 16, 32 }; w.algn[k] = common[rng.below(4)]; break; }
			}
			w.reqSize[k] = rng.chance(1, 2) ? (size_t)rng.range(1, 80) : w.algn[k] * (size_t)rng.range(2, 4);
		}
		if (rng.chance(1, 2)) { w.algn[1] = w.algn[0]; w.reqSize[1] = w.reqSize[0]; }		// equal parameters: more merges
		w.cfgName = fmt("N=%zu C=%zu (%zu,%zu)/(%zu,%zu) #%u", N, C, w.reqSize[0], w.algn[0], w.reqSize[1], w.algn[1], h);
		s.comment("world " + w.cfgName);
		w.run(length);
		c.stats.nontrivial("world " + w.cfgName);
		if (h == 0) c.stats.sample(fmt("world %s: %u ops, %u swaps, %u move constructions, %u move assignments, %u merges", w.cfgName.c_str(), length, w.swaps, w.moves, w.assigns, w.merges));
	}
}

static void runWorld(Ctx& c, Rng& rng)
{
	Suite s(c, "world", fmt("model poolworld arena=%llu", (unsigned long long)(uintptr_t)g_arena.mem));
	const unsigned count = c.thorough ? 12 : 4;
	const unsigned length = c.thorough ? 1200 : 500;
	runWorlds<1, 0>(c, rng, s, count, length);
	runWorlds<1, 4>(c, rng, s, count, length);
	runWorlds<2, 0>(c, rng, s, count, length);
	runWorlds<3, 2>(c, rng, s, count, length);
	runWorlds<5, 16>(c, rng, s, count, length);
	runWorlds<32, 0>(c, rng, s, count, length);
}

// ------------------------------------------------------------------------------------------------ u32 suite (part 6)
// momo::internal::MemPoolUInt32<blockCount, Mgr>: blocks addressed by 32-bit indices. Every request of the pool to its manager
// (the buffers AND the storage of the buffer array `mBuffers`) gets a chosen address; the model predicts all of them.

template<size_t N>
struct U32History {
	typedef momo::internal::MemPoolUInt32<N, Mgr> Pool;
	Ctx& c; Rng& rng; Suite& s; Arena& ar;
	size_t blockSize, maxTotal, S = 0;
	std::unique_ptr<Pool> pool;
	std::map<uint32_t, uint32_t> liveIdx;		// live index -> pattern tag
	std::map<long long, uint32_t> liveAddr;		// real pointer (rel) -> index
	uint32_t nextTag = 1;
	unsigned opNo = 0, maxBuffers = 0, clears = 0, lengthErrors = 0;
	std::string cfgName;

	U32History(Ctx& c_, Rng& rng_, Suite& s_, size_t bs, size_t mt) : c(c_), rng(rng_), s(s_), ar(g_arena), blockSize(bs), maxTotal(mt) {}

	static uint8_t pat(uint32_t tag, size_t j) { return (uint8_t)(tag * 197u + j * 11u + 3u); }
	void guard(bool on) {
#if defined(__SANITIZE_ADDRESS__)
		for (auto& kv : liveAddr) { if (on) VF_POISON(ar.mem + kv.first, S); else VF_UNPOISON(ar.mem + kv.first, S); }
#else
		(void)on;
#endif
	}
	std::string digest() {
		std::vector<long long> bufs;
		for (Byte* b : pool->mBuffers) bufs.push_back(ar.rel(b));
		maxBuffers = std::max<unsigned>(maxBuffers, (unsigned)bufs.size());
		return fmt("n=%zu head=%u bufs=[", pool->mAllocCount, (unsigned)pool->mBlockHead) + joinRel(bufs) + fmt("] cap=%zu", pool->mBuffers.GetCapacity());
	}
	void checkLive(const char* when) {
		if (pool->mAllocCount != liveIdx.size()) c.fail("C09 count: u32 %s reports %zu allocated blocks, %zu are live (%s, op %u)", cfgName.c_str(), pool->mAllocCount, liveIdx.size(), when, opNo);
		for (auto& kv : liveIdx) {
			const uint8_t* p = pool->template GetRealPointer<uint8_t>(kv.first);
			for (size_t j = 0; j < S; ++j) if (p[j] != pat(kv.second, j)) { c.fail("C09 live block overwritten: u32 %s index %u byte %zu (%s, op %u)", cfgName.c_str(), kv.first, j, when, opNo); break; }
		}
	}
	void opAlloc(unsigned failAt) {		// failAt: 0 / 1 = the manager refuses its 1st / 2nd request of this call, 2 = no fault
		const size_t bufSize = pool->pvGetBufferSize();
		const size_t arrRoom = 8 * (2 * pool->mBuffers.GetCapacity() + 70);
		const size_t window = 65536 + 96 * (bufSize + 64);
		long long a[2];
		ar.answers.clear();
		std::vector<std::pair<size_t, size_t>> reserved;
		for (int k = 0; k < 2; ++k) {
			size_t room = std::max(bufSize, arrRoom);
			a[k] = ((unsigned)k == failAt) ? -1 : chooseFree(ar, rng, 16, room, 4096, 4096 + window);
			if (a[k] >= 0) { ar.live[(size_t)a[k]] = room; reserved.push_back({ (size_t)a[k], room }); }
			ar.answers.push_back(a[k]);
			if (a[k] < 0) { a[k] = -1; }
		}
		for (auto& r : reserved) ar.live.erase(r.first);
		uint64_t reqBefore = ar.requests;
		uint32_t idx = 0; int outcome = 0;
		guard(true);
		try { idx = pool->Allocate(); }
		catch (const std::bad_alloc&) { outcome = 1; }
		catch (const std::length_error&) { outcome = 2; }
		guard(false);
		std::string ev = ar.takeEvents();
		s.op(fmt("alloc %lld %lld", a[0], a[1]));
		if (outcome == 1) { s.res("E:bad_alloc | " + ev + " | " + digest()); c.stats.count("u32.fault_fired"); }
		else if (outcome == 2) { s.res("E:length | " + ev + " | " + digest()); ++lengthErrors; c.stats.count("u32.length_error"); }
		else {
			s.res(std::to_string(idx) + " | " + ev + " | " + digest());
			// property level
			const size_t bufferCount = pool->mBuffers.GetCount();
			if (idx == Pool::nullPtr || (size_t)idx >= bufferCount * N) c.fail("C09 u32: %s Allocate returned index %u outside the %zu buffers (op %u)", cfgName.c_str(), idx, bufferCount, opNo);
			else {
				if (liveIdx.count(idx)) c.fail("C09 u32: %s Allocate returned index %u which is live (op %u)", cfgName.c_str(), idx, opNo);
				uint8_t* p = pool->template GetRealPointer<uint8_t>(idx);
				long long r = ar.rel(p);
				auto own = (r >= 0) ? ar.owner((size_t)r, S) : ar.live.end();
				if (own == ar.live.end() || own->second != bufSize) c.fail("C09 inside: u32 %s index %u real block [%lld,%lld) is not inside a buffer obtained from the manager (op %u)", cfgName.c_str(), idx, r, r + (long long)S, opNo);
				auto nx = liveAddr.lower_bound(r);
				if (nx != liveAddr.end() && nx->first < r + (long long)S) c.fail("C09 disjoint: u32 %s index %u at arena+%lld overlaps live index %u (op %u)", cfgName.c_str(), idx, r, nx->second, opNo);
				if (nx != liveAddr.begin()) { auto pv = std::prev(nx); if (pv->first + (long long)S > r) c.fail("C09 disjoint: u32 %s index %u at arena+%lld overlaps live index %u (op %u)", cfgName.c_str(), idx, r, pv->second, opNo); }
				uint32_t tag = nextTag++;
				for (size_t j = 0; j < S; ++j) p[j] = pat(tag, j);
				liveIdx[idx] = tag; liveAddr[r] = idx;
				s.op(fmt("rp %u", idx)); s.res(fmt("%lld %zu %zu", r, (size_t)idx / N, (size_t)idx % N));
			}
			c.stats.count(ar.requests != reqBefore ? "u32.alloc.new_buffer" : "u32.alloc.from_chain");
		}
		if (failAt < 2 && outcome == 0) c.stats.count("u32.fault_not_needed");
		checkLive("after Allocate");
		c.stats.count("u32.op.alloc");
	}
	void opFree() {
		if (liveIdx.empty()) return;
		auto it = liveIdx.begin(); std::advance(it, (long)rng.below(liveIdx.size()));
		uint32_t idx = it->first;
		long long r = ar.rel(pool->template GetRealPointer<uint8_t>(idx));
		liveIdx.erase(it); liveAddr.erase(r);
		uint64_t freesBefore = ar.frees;
		guard(true);
		pool->Deallocate(idx);
		guard(false);
		std::string ev = ar.takeEvents();
		s.op(fmt("free %u", idx)); s.res("ok | " + ev + " | " + digest());
		if (ar.frees != freesBefore) { ++clears; c.stats.count("u32.free.cleared_everything"); }
		checkLive("after Deallocate");
		c.stats.count("u32.op.free");
	}
	void opDall() {
		liveIdx.clear(); liveAddr.clear();
		guard(true);
		pool->DeallocateAll();
		guard(false);
		std::string ev = ar.takeEvents();
		s.op("dall"); s.res("ok | " + ev + " | " + digest());
		if (!ar.live.empty()) c.fail("C09 returned: u32 %s DeallocateAll left %zu allocations with the manager (op %u)", cfgName.c_str(), ar.live.size(), opNo);
		checkLive("after DeallocateAll");
		c.stats.count("u32.op.dall");
	}
	void opDump() {
		std::vector<long long> chain, live;
		uint32_t h = pool->mBlockHead;
		for (size_t steps = 0; h != Pool::nullPtr && steps < 100000; ++steps) {
			if ((size_t)h >= pool->mBuffers.GetCount() * N) { c.fail("C09 free chain: u32 %s chain leaves the buffers at %u (op %u)", cfgName.c_str(), h, opNo); break; }
			if (liveIdx.count(h)) { c.fail("C09 free chain: u32 %s chain contains live index %u (op %u)", cfgName.c_str(), h, opNo); break; }
			chain.push_back(h);
			h = Pool::pvGetNextBlock(pool->GetRealPointer(h));
		}
		for (auto& kv : liveIdx) live.push_back(kv.first);
		s.op("dump"); s.res(digest() + " chain=[" + joinRel(chain) + "] live=[" + joinRel(live) + "]");
		c.stats.count("u32.op.dump");
	}
	void run(unsigned length) {
		pool.reset(new Pool(blockSize, Mgr(&ar), maxTotal));
		S = pool->mBlockSize;
		cfgName = fmt("N=%zu blockSize=%zu maxTotal=%zu", N, blockSize, maxTotal);
		s.op(fmt("new %zu %zu %zu", N, blockSize, maxTotal));
		s.res(fmt("S=%zu maxBuf=%zu bufSize=%zu", S, pool->mMaxBufferCount, pool->pvGetBufferSize()));
		unsigned target = (unsigned)rng.range(1, (unsigned)(3 * N + 4));
		for (opNo = 0; opNo < length; ++opNo) {
			unsigned r = (unsigned)rng.below(100);
			if (opNo % 20 == 19) target = (unsigned)rng.range(0, (unsigned)std::min<size_t>(6 * N + 6, 120));
			if (r < 5) opDump();
			else if (r < 7) opDall();
			else if (r < 12) opAlloc((unsigned)rng.below(2));
			else if (liveIdx.size() < target ? rng.chance(3, 4) : rng.chance(1, 4)) opAlloc(2); else opFree();
			c.stats.evaluations++;
		}
		opDump();
		while (!liveIdx.empty()) opFree();
		guard(true);
		pool.reset();
		guard(false);
		std::string ev = ar.takeEvents();
		s.op("destroy"); s.res("ok | " + ev + " | n=0 head=4294967295 bufs=[] cap=0");
		if (!ar.live.empty()) { c.fail("C09 returned: u32 %s after destruction the manager still holds %zu allocations (first arena+%zu)", cfgName.c_str(), ar.live.size(), ar.live.begin()->first); ar.forgetAll(); }
		ar.checkCanary(0, 4 << 20, "end of u32 history");
		if (maxBuffers >= 3 && clears >= 1) c.stats.count("u32.histories_nontrivial");
		c.stats.count("u32.histories");
	}
};

template<size_t N>
static void runU32N(Ctx& c, Rng& rng, Suite& s, unsigned count, unsigned length)
{
	for (unsigned h = 0; h < count; ++h) {
		size_t blockSize = rng.chance(1, 4) ? (size_t)rng.range(1, 4) : (size_t)rng.range(4, 48);
		size_t maxTotal = rng.chance(1, 2) ? N * (size_t)rng.range(1, 6) + (size_t)rng.below(N) : (size_t)rng.range(1000, 4000000000u);
		s.comment(fmt("u32 history N=%zu blockSize=%zu maxTotal=%zu #%u", N, blockSize, maxTotal, h));
		U32History<N> hist(c, rng, s, blockSize, maxTotal);
		hist.run(length);
		c.stats.nontrivial(fmt("u32 %zu/%zu/%zu/%u", N, blockSize, maxTotal, h));
		if (h == 0) c.stats.sample(fmt("u32 history %s: %u ops, max %u buffers, %u complete clears by Deallocate, %u length errors", hist.cfgName.c_str(), length, hist.maxBuffers, hist.clears, hist.lengthErrors));
	}
}

static void runU32(Ctx& c, Rng& rng)
{
	Suite s(c, "u32", fmt("model poolu32 arena=%llu", (unsigned long long)(uintptr_t)g_arena.mem));
	s.op("consts");
	s.res(fmt("%u %zu %zu", (unsigned)momo::internal::MemPoolUInt32<4, Mgr>::nullPtr, sizeof(uint32_t), sizeof(Byte*)));
	const unsigned count = c.thorough ? 14 : 5;
	const unsigned length = c.thorough ? 700 : 300;
	runU32N<1>(c, rng, s, count, length);
	runU32N<2>(c, rng, s, count, length);
	runU32N<3>(c, rng, s, count, length);
	runU32N<4>(c, rng, s, count, length);
	runU32N<16>(c, rng, s, count, length);
	runU32N<64>(c, rng, s, count, length);
}

// (parts 5 and 6: the world suite and the u32 suite above.)
// The harness is compiled as four executables (registry flags -DC09_PART=1..4) so that the template
// instantiations compile in parallel: 1 = layout + dll suites, 2 = state suite for blockCount 1 and 2,
// 3 = blockCount 3 and 5, 4 = blockCount 32 and 127.  Without C09_PART everything runs in one process.
#ifndef C09_PART
# define C09_PART 0
#endif

static void runState(Ctx& c, Rng& rng)
{
	Suite s(c, "state", fmt("model pool arena=%llu", (unsigned long long)(uintptr_t)g_arena.mem));
	const unsigned count = c.thorough ? 16 : 5;
	const unsigned length = c.thorough ? 700 : 300;
#if C09_PART == 0 || C09_PART == 2
	runStateN<1>(c, rng, s, count, length);
	runStateN<2>(c, rng, s, count, length);
#endif
#if C09_PART == 0 || C09_PART == 3
	runStateN<3>(c, rng, s, count, length);
	runStateN<5>(c, rng, s, count, length);
#endif
#if C09_PART == 0 || C09_PART == 4
	runStateN<32>(c, rng, s, count, length);
	runStateN<127>(c, rng, s, count, length);
#endif
}

int main(int argc, char** argv)
{
	Ctx c = parseArgs(argc, argv);
	Rng rng(c.seed * 0x1000 + 9 + 0x100 * C09_PART);
	g_arena.init(c);
	c.stats.count(g_arena.fixedBase ? "arena.fixed_base" : "arena.floating_base");
#if C09_PART == 0 || C09_PART == 1
	runLayout(c, rng);
	runDll(c, rng);
#endif
#if C09_PART == 0 || (C09_PART >= 2 && C09_PART <= 4)
	runState(c, rng);
#endif
#if C09_PART == 0 || C09_PART == 5
	runWorld(c, rng);
#endif
#if C09_PART == 0 || C09_PART == 6
	runU32(c, rng);
#endif
	c.stats.count("manager.requests", g_arena.requests);
	c.stats.count("manager.faults_injected", g_arena.faults);
	c.stats.count("manager.frees", g_arena.frees);
	return c.finish();
}
