// C14 correspondence harness, shared part: identity-carrying memory managers / allocators with a ledger
// that records which manager identity allocated every block, type-erased slot boxes, and the scenario
// engine that drives {copy, move, swap, copy-assign, move-assign, self-assign, clear, destroy, mutate}
// over named objects of one container type, writing the operation lines for the Lean model `val`.
#pragma once
#include "common/verif_elems.h"

#include <algorithm>
#include <functional>
#include <memory>
#include <optional>
#include <set>
#include <unistd.h>
#include <fcntl.h>
#include <sys/wait.h>

namespace vf {

// ---------------------------------------------------------------- ledger of blocks, by manager identity
struct Ledger {
	struct Blk { int id; size_t size; };
	std::map<void*, Blk> live;
	std::set<int> opA, opF;        // identities that allocated / freed during the current operation
	long bad = 0;                  // deallocation through a manager that is not the allocating one, wrong size, unknown block
	std::string badText;
	unsigned long allocs = 0;
	void onAlloc(void* p, int id, size_t size) { live[p] = Blk{ id, size }; opA.insert(id); ++allocs; }
	void onFree(void* p, int id, size_t size) {
		opF.insert(id);
		auto it = live.find(p);
		if (it == live.end()) { ++bad; if (badText.empty()) badText = fmt("deallocation of an unknown block through manager %d (size %zu)", id, size); return; }
		if (it->second.id != id || it->second.size != size) {
			++bad;
			if (badText.empty()) badText = fmt("block allocated by manager %d (size %zu) deallocated through manager %d (size %zu)", it->second.id, it->second.size, id, size);
		}
		live.erase(it);
	}
	void beginOp() { opA.clear(); opF.clear(); }
	std::set<int> liveIds() const { std::set<int> s; for (auto& kv : live) s.insert(kv.second.id); return s; }
};
inline Ledger& led() { static Ledger l; return l; }

inline std::string showSet(const std::set<int>& s) {
	if (s.empty()) return "-";
	std::string r; for (int x : s) { if (!r.empty()) r += ","; r += std::to_string(x); } return r;
}

// stateful std allocator; all three propagation traits are template parameters
template<typename T, bool PCA, bool PMA, bool PS>
struct SA {
	typedef T value_type;
	int id;
	typedef std::integral_constant<bool, PCA> propagate_on_container_copy_assignment;
	typedef std::integral_constant<bool, PMA> propagate_on_container_move_assignment;
	typedef std::integral_constant<bool, PS> propagate_on_container_swap;
	typedef std::false_type is_always_equal;
	explicit SA(int i = 0) noexcept : id(i) {}
	template<typename U> SA(const SA<U, PCA, PMA, PS>& o) noexcept : id(o.id) {}
	template<typename U> struct rebind { typedef SA<U, PCA, PMA, PS> other; };
	T* allocate(size_t n) { void* p = ::operator new(n * sizeof(T)); led().onAlloc(p, id, n * sizeof(T)); return static_cast<T*>(p); }
	void deallocate(T* p, size_t n) noexcept { led().onFree(p, id, n * sizeof(T)); ::operator delete(p); }
	SA select_on_container_copy_construction() const { return SA(id + 100); }
	template<typename U> bool operator==(const SA<U, PCA, PMA, PS>& o) const noexcept { return id == o.id; }
	template<typename U> bool operator!=(const SA<U, PCA, PMA, PS>& o) const noexcept { return id != o.id; }
};

// stateless std allocator (is_empty): every instance is identity 0
template<typename T>
struct SL {
	typedef T value_type;
	typedef std::true_type is_always_equal;
	SL() noexcept {}
	template<typename U> SL(const SL<U>&) noexcept {}
	template<typename U> struct rebind { typedef SL<U> other; };
	T* allocate(size_t n) { void* p = ::operator new(n * sizeof(T)); led().onAlloc(p, 0, n * sizeof(T)); return static_cast<T*>(p); }
	void deallocate(T* p, size_t n) noexcept { led().onFree(p, 0, n * sizeof(T)); ::operator delete(p); }
	template<typename U> bool operator==(const SL<U>&) const noexcept { return true; }
	template<typename U> bool operator!=(const SL<U>&) const noexcept { return false; }
};

// native momo memory manager with an identity (not assignable: MemManagerProxy::Assign reconstructs it)
class IdMM {
public:
	int id;
	explicit IdMM(int i = 0) noexcept : id(i) {}
	IdMM(IdMM&& o) noexcept : id(o.id) {}
	IdMM(const IdMM& o) : id(o.id) {}
	~IdMM() = default;
	IdMM& operator=(const IdMM&) = delete;
	void* Allocate(size_t size) { void* p = std::malloc(size); if (!p) throw std::bad_alloc(); led().onAlloc(p, id, size); return p; }
	void Deallocate(void* p, size_t size) noexcept { led().onFree(p, id, size); std::free(p); }
	bool IsEqual(const IdMM& o) const noexcept { return id == o.id; }
};

// stateless native manager (empty class): identity 0
class SlMM {
public:
	explicit SlMM() noexcept {}
	SlMM(SlMM&&) = default;
	SlMM(const SlMM&) = default;
	~SlMM() = default;
	SlMM& operator=(const SlMM&) = delete;
	void* Allocate(size_t size) { void* p = std::malloc(size); if (!p) throw std::bad_alloc(); led().onAlloc(p, 0, size); return p; }
	void Deallocate(void* p, size_t size) noexcept { led().onFree(p, 0, size); std::free(p); }
};

// identity of a manager object (for printing) and construction from an identity
template<typename A> struct MgrId;
template<typename T, bool a, bool b, bool c> struct MgrId<momo::MemManagerStd<SA<T, a, b, c>>> {
	typedef momo::MemManagerStd<SA<T, a, b, c>> MM;
	static int get(const MM& m) { return m.GetByteAllocator().id; }
	static MM make(int id) { return MM(SA<T, a, b, c>(id)); }
	static const int sel = 100;
};
template<typename T> struct MgrId<momo::MemManagerStd<SL<T>>> {
	typedef momo::MemManagerStd<SL<T>> MM;
	static int get(const MM&) { return 0; }
	static MM make(int) { return MM(SL<T>()); }
	static const int sel = 0;
};
template<> struct MgrId<IdMM> { static int get(const IdMM& m) { return m.id; } static IdMM make(int id) { return IdMM(id); } static const int sel = 0; };
template<> struct MgrId<SlMM> { static int get(const SlMM&) { return 0; } static SlMM make(int) { return SlMM(); } static const int sel = 0; };

// ---------------------------------------------------------------- elements
inline bool operator<(const ElemNM& a, const ElemNM& b) { return a.id < b.id; }
inline bool operator==(const ElemNM& a, const ElemNM& b) { return a.id == b.id; }
inline bool operator<(const ElemCO& a, const ElemCO& b) { return a.id < b.id; }
inline bool operator==(const ElemCO& a, const ElemCO& b) { return a.id == b.id; }

template<typename E> struct ElemInfo { static const bool trivial = true; static const bool movable = true; static E make(uint32_t v) { return E(v); } };
template<> struct ElemInfo<ElemNM> { static const bool trivial = false; static const bool movable = true; static ElemNM make(uint32_t v) { return ElemNM(v); } };
template<> struct ElemInfo<ElemCO> { static const bool trivial = false; static const bool movable = false; static ElemCO make(uint32_t v) { return ElemCO(v); } };

struct IdHash { template<typename E> size_t operator()(const E& e) const { return (size_t)idOf(e) * 0x9E3779B97F4A7C15ull; } };

inline std::string showList(const std::vector<uint32_t>& v, bool sorted) {
	if (v.empty()) return "-";
	std::vector<uint32_t> w = v; if (sorted) std::sort(w.begin(), w.end());
	std::string r; for (uint32_t x : w) { if (!r.empty()) r += ","; r += std::to_string(x); } return r;
}
inline std::string showCell(const std::vector<uint32_t>& v, bool sorted) { return v.empty() ? std::string("_") : showList(v, sorted); }
inline std::string showCells(const std::vector<std::vector<uint32_t>>& cs, bool sorted) {
	if (cs.empty()) return "-";
	std::string r; for (size_t i = 0; i < cs.size(); ++i) { if (i) r += ";"; r += showCell(cs[i], sorted); } return r;
}

// what a box reports about one object
struct ObjState {
	int mgr = -1;                                  // -1 = crew pointer null
	size_t cap = 0;                                // Array: capacity while external
	std::vector<uint32_t> inl;                     // items of the internal buffer
	std::vector<std::vector<uint32_t>> cells;      // items of every body block
	const void* root = nullptr;                    // address of the first body block (never printed)
	size_t count = 0;
	std::vector<uint32_t> contents() const { std::vector<uint32_t> r = inl; for (auto& c : cells) r.insert(r.end(), c.begin(), c.end()); return r; }
};

struct BoxInfo {
	std::string name;          // suite prefix
	std::string kind;          // array | seg | hash | tree | one
	unsigned icap = 0; bool crew = false; unsigned aux = 0; bool trivial = false, movable = true;
	int sel = 0;               // identity added by the manager's copy constructor
	bool ordered = true;       // sequence container: contents compared as sequences
	bool exactMoves = false;   // number of element moves is predicted by the model
	std::string seg = "cnst"; unsigned l0 = 2;
	bool wrapper = false; bool pocca = false, pocma = false, pocs = false, empty = false;
	bool reusableNull = false; // a moved-from object may be mutated at once (array-like, inline stateless crew)
	bool counted = true;       // element constructions are counted (ElemNM / ElemCO)
	bool multimap = false;     // elements are key*1000+value, value 999 = key without values
	bool stateful = true;      // distinct manager identities exist
	bool canFaultGrow = false; // copy-only elements in a hash table: generations can be piled up
	bool exactFrees = true;    // F= set of value operations is predicted exactly
	bool exactCopies = true;   // number of element copies of a value operation is predicted exactly
	unsigned clearKeepModes = 1;
	bool hasCopyM = true;       // the type has a (const C&, MemManager) constructor
	bool nullOpsBroken = false; // escape hatch: keep Swap / assignment with a moved-from or equal-manager operand out of the in-process histories (unused since F26 was repaired)
};

// N named objects of one container type
struct IBox {
	virtual ~IBox() {}
	virtual const BoxInfo& info() const = 0;
	virtual bool alive(int i) const = 0;
	virtual void create(int i, int mgr) = 0;
	virtual void copyCtor(int j, int i) = 0;
	virtual void copyCtorM(int j, int i, int mgr) = 0;
	virtual void moveCtor(int j, int i) = 0;
	virtual void moveCtorA(int j, int i, int mgr) = 0;
	virtual void swap(int i, int j) = 0;
	virtual void copyAssign(int i, int j) = 0;
	virtual void moveAssign(int i, int j) = 0;
	virtual void destroy(int i) = 0;
	virtual unsigned clear(int i, unsigned mode) = 0;      // returns the number of body blocks kept
	virtual void add(int i, uint32_t e) = 0;
	virtual bool del(int i, uint32_t e) = 0;
	virtual void special(int i, Rng& rng, std::vector<uint32_t>& ref, uint32_t& nextElem) = 0;   // drive the object into an unusual state
	virtual ObjState state(int i) const = 0;
};

static const int NS = 5;

inline std::string stateStr(const BoxInfo& bi, const ObjState& st) {
	return fmt("m=%s cap=%zu x=%s b=%s", st.mgr < 0 ? "-" : std::to_string(st.mgr).c_str(), st.cap,
		showList(st.inl, !bi.ordered).c_str(), showCells(st.cells, !bi.ordered).c_str());
}

inline std::string header(const BoxInfo& bi) {
	return fmt("model val kind=%s icap=%u crew=%d aux=%u triv=%d mov=%d sel=%d ord=%d mv=%d seg=%s l0=%u pocca=%d pocma=%d pocs=%d empty=%d cnt=%d xf=%d slots=%d",
		bi.kind.c_str(), bi.icap, bi.crew ? 1 : 0, bi.aux, bi.trivial ? 1 : 0, bi.movable ? 1 : 0, bi.sel, bi.ordered ? 1 : 0,
		bi.exactMoves ? 1 : 0, bi.seg.c_str(), bi.l0, bi.pocca ? 1 : 0, bi.pocma ? 1 : 0, bi.pocs ? 1 : 0, bi.empty ? 1 : 0, (bi.counted && bi.exactCopies) ? 1 : 0, bi.exactFrees ? 1 : 0, NS);
}

// runs `f` in a forked child (stderr silenced); true = the child finished normally. Used for the operations
// that an open known finding makes crash: the harness must survive them to report them.
template<typename F>
inline bool survivesInChild(F f) {
	fflush(nullptr);
	pid_t p = fork();
	if (p == 0) {
		int dn = open("/dev/null", O_WRONLY); if (dn >= 0) { dup2(dn, 2); dup2(dn, 1); }
		f();
		_exit(0);
	}
	int st = 0; waitpid(p, &st, 0);
	return WIFEXITED(st) && WEXITSTATUS(st) == 0;
}

// ---------------------------------------------------------------- scenario engine
struct Scenario {
	Ctx& c; Rng& rng; IBox& box; Suite& su; const BoxInfo& bi;
	std::optional<std::vector<uint32_t>> ref[NS];   // expected contents of every live object
	int refMgr[NS];                                  // expected manager identity (-1 = null crew)
	bool isNull[NS];                                 // object is in the moved-from state
	uint32_t nextElem = 1;
	int nextMgr = 1;
	std::string history;
	unsigned opNo = 0;
	bool f15SwapProbed = false;
	std::string scen;

	Scenario(Ctx& c_, Rng& r_, IBox& b_, Suite& s_) : c(c_), rng(r_), box(b_), su(s_), bi(b_.info()) {
		for (int i = 0; i < NS; ++i) { refMgr[i] = -1; isNull[i] = false; }
	}

	int freshMgr() { return bi.stateful ? nextMgr++ : 0; }

	std::string world() {
		std::string r;
		for (int i = 0; i < NS; ++i) if (box.alive(i)) { if (!r.empty()) r += " "; r += fmt("%d:{%s}", i, stateStr(bi, box.state(i)).c_str()); }
		return r;
	}

	void begin() { led().beginOp(); ec().copies = 0; ec().moves = 0; }

	bool xferOp = false;   // element-wise transfer: relocations inside nodes copy copy-only elements again
	std::string events(bool exactFrees) {
		std::string mv = (bi.exactMoves && bi.counted && bi.exactCopies) ? std::to_string(ec().moves) : std::string("*");
		std::string cp = (bi.counted && bi.exactCopies && !(xferOp && !bi.movable)) ? std::to_string(ec().copies) : std::string("*");
		return fmt("c=%s m=%s A=%s F=%s", cp.c_str(), mv.c_str(), showSet(led().opA).c_str(),
			exactFrees ? showSet(led().opF).c_str() : "*");
	}

	// property-level oracle, after every operation
	void check(const std::string& op) {
		for (int i = 0; i < NS; ++i) {
			if (box.alive(i) != ref[i].has_value()) { c.fail("harness: slot bookkeeping broken in %s after %s", su.name.c_str(), op.c_str()); continue; }
			if (!ref[i]) continue;
			ObjState st = box.state(i);
			std::vector<uint32_t> got = st.contents(), exp = *ref[i];
			if (!bi.ordered) { std::sort(got.begin(), got.end()); std::sort(exp.begin(), exp.end()); }
			if (got != exp || st.count != exp.size())
				c.fail("C14 contents: %s after `%s` (history: %s): object %d holds [%s] (count %zu), expected [%s]", su.name.c_str(), op.c_str(),
					history.c_str(), i, showList(got, false).c_str(), st.count, showList(exp, false).c_str());
			if (st.mgr != refMgr[i])
				c.fail("C14 manager: %s after `%s` (history: %s): object %d holds manager %d, expected %d", su.name.c_str(), op.c_str(),
					history.c_str(), i, st.mgr, refMgr[i]);
		}
		if (led().bad) {
			c.fail("C14 ledger: %s after `%s` (history: %s): %s", su.name.c_str(), op.c_str(), history.c_str(), led().badText.c_str());
			led().bad = 0; led().badText.clear();
		}
	}

	void emit(const std::string& op, const std::string& status, bool withEvents, bool exactFrees, int src, int tgt, const void* rootBefore) {
		std::string line = status + " | " + world();
		if (withEvents) line += " | " + events(exactFrees);
		line += " L=" + showSet(led().liveIds());
		if (src >= 0) {
			const void* after = box.alive(tgt) ? box.state(tgt).root : nullptr;
			line += (rootBefore != nullptr && rootBefore == after) ? " st=1" : " st=0";
		}
		su.op(op); su.res(line);
		if (getenv("VF_FLUSH")) { fflush(su.ops); fflush(su.impl); }
		c.stats.evaluations++;
		if (history.size() < 400) history += op + "; ";
		++opNo;
		check(op);
	}

	std::string layHint(int i) {
		ObjState st = box.state(i);
		return fmt("%zu %s %s", st.cap, showList(st.inl, !bi.ordered).c_str(), showCells(st.cells, !bi.ordered).c_str());
	}

	// ---- operations
	void opNew(int i) {
		int m = freshMgr();
		begin(); box.create(i, m);
		ref[i] = std::vector<uint32_t>(); refMgr[i] = m; isNull[i] = false;
		emit(fmt("new %d %d", i, m), "ok", true, true, -1, -1, nullptr);
	}
	void mutated(int i) { if (getenv("VF_FLUSH")) { fflush(su.ops); fflush(su.impl); } if (bi.multimap) ref[i] = box.state(i).contents(); su.op(fmt("set %d %s", i, layHint(i).c_str())); su.res("ok | " + world() + " L=" + showSet(led().liveIds())); c.stats.evaluations++; ++opNo; }
	void opAdd(int i, unsigned n) {
		for (unsigned k = 0; k < n; ++k) { uint32_t e = nextElem++; box.add(i, e); ref[i]->push_back(e); }
		if (history.size() < 400) history += fmt("add %d x%u; ", i, n);
		mutated(i); check(fmt("add %d x%u", i, n));
	}
	void opDel(int i) {
		if (ref[i]->empty()) return;
		size_t k = rng.below(ref[i]->size()); uint32_t e = (*ref[i])[k];
		if (!box.del(i, e)) c.fail("C14 harness: %s del %u from object %d found nothing (history: %s)", su.name.c_str(), e, i, history.c_str());
		ref[i]->erase(ref[i]->begin() + k);
		if (history.size() < 400) history += fmt("del %d %u; ", i, e);
		mutated(i); check(fmt("del %d %u", i, e));
	}
	void opSpecial(int i) {
		box.special(i, rng, *ref[i], nextElem);
		if (history.size() < 400) history += fmt("special %d; ", i);
		mutated(i); check(fmt("special %d", i));
	}
	void opCopy(int j, int i) {
		begin(); box.copyCtor(j, i);
		ref[j] = *ref[i]; refMgr[j] = refMgr[i] + bi.sel; isNull[j] = false;
		emit(fmt("copy %d %d", j, i), "ok", true, bi.exactFrees, -1, -1, nullptr);
		c.stats.count("op.copy_ctor");
	}
	void opCopyM(int j, int i) {
		int m = freshMgr();
		begin(); box.copyCtorM(j, i, m);
		ref[j] = *ref[i]; refMgr[j] = m; isNull[j] = false;
		emit(fmt("copym %d %d %d", j, i, m), "ok", true, bi.exactFrees, -1, -1, nullptr);
		c.stats.count("op.copy_ctor_with_manager");
	}
	void noCopies(const char* what) {
		if (bi.counted && bi.movable && ec().copies != 0)
			c.fail("C14 move copies: %s %s copy-constructed %ld movable elements (history: %s)", su.name.c_str(), what, ec().copies, history.c_str());
	}
	void opMove(int j, int i) {
		const void* rb = box.state(i).root;
		begin(); box.moveCtor(j, i);
		noCopies("move construction");
		ref[j] = *ref[i]; refMgr[j] = refMgr[i]; isNull[j] = isNull[i];
		ref[i] = std::vector<uint32_t>(); if (bi.crew) refMgr[i] = -1; isNull[i] = true;
		emit(fmt("move %d %d", j, i), "ok", true, true, i, j, rb);
		c.stats.count("op.move_ctor");
	}
	void opSwap(int i, int j) {
		const void* rb = box.state(j).root;
		begin(); box.swap(i, j);
		noCopies("swap");
		if (i != j) { std::swap(ref[i], ref[j]); std::swap(refMgr[i], refMgr[j]); std::swap(isNull[i], isNull[j]); }
		emit(fmt("swap %d %d", i, j), "ok", true, true, j, i, rb);
		c.stats.count(i == j ? "op.self_swap" : "op.swap");
		if (i != j && (isNull[i] || isNull[j])) c.stats.count("null.swap");
	}
	void opCopyAssign(int i, int j) {
		bool tgtNull = isNull[i];
		std::vector<uint32_t> before = *ref[j];
		begin(); box.copyAssign(i, j);
		if (i != j) { ref[i] = *ref[j]; refMgr[i] = refMgr[j] + bi.sel; isNull[i] = false; }
		emit(fmt("cas %d %d", i, j), "ok", true, bi.exactFrees, -1, -1, nullptr);
		c.stats.count(i == j ? "op.self_copy_assign" : "op.copy_assign");
		if (i != j && tgtNull) c.stats.count("null.copy_assign_target");
	}
	void opMoveAssign(int i, int j) {
		bool tgtNull = isNull[i];
		const void* rb = box.state(j).root;
		begin(); box.moveAssign(i, j);
		noCopies("move assignment");
		if (i != j) {
			ref[i] = *ref[j]; refMgr[i] = refMgr[j]; isNull[i] = isNull[j];
			ref[j] = std::vector<uint32_t>(); if (bi.crew) refMgr[j] = -1; isNull[j] = true;
		}
		emit(fmt("mas %d %d", i, j), "ok", true, true, j, i, rb);
		c.stats.count(i == j ? "op.self_move_assign" : "op.move_assign");
		if (i != j && tgtNull) c.stats.count("null.move_assign_target");
	}
	void opDrop(int i) {
		bool wasNull = isNull[i];
		begin(); box.destroy(i);
		ref[i].reset(); refMgr[i] = -1; isNull[i] = false;
		emit(fmt("drop %d", i), "ok", true, true, -1, -1, nullptr);
		c.stats.count("op.destroy"); if (wasNull) c.stats.count("null.destroy");
	}
	void opClear(int i) {
		bool wasNull = isNull[i];
		unsigned mode = (unsigned)rng.below(bi.clearKeepModes);
		begin(); unsigned keep = box.clear(i, mode);
		ref[i] = std::vector<uint32_t>();
		emit(fmt("clear %d %u", i, keep), "ok", true, keep == 0 || bi.kind == "array" || bi.kind == "seg", -1, -1, nullptr);
		c.stats.count("op.clear"); if (wasNull) c.stats.count("null.clear");
	}

	// ---- stdish wrappers (allocator-aware operations)
	bool propagates(bool trait) const { return bi.empty || trait; }
	// `keep cap inl cells` observed after the operation: blocks the source kept, layout of the target
	std::string xferHint(int src, int tgt) {
		size_t keep = box.alive(src) ? box.state(src).cells.size() : 0;
		return fmt("%zu %s", keep, layHint(tgt).c_str());
	}
	void opWMoveCtorA(int j, int i) {
		int a = rng.chance(1, 2) ? refMgr[i] : freshMgr();      // equal allocator: steal; unequal: element by element
		if (!bi.stateful) a = 0;
		bool steal = (a == refMgr[i]);
		const void* rb = box.state(i).root;
		begin(); box.moveCtorA(j, i, a);
		noCopies("move construction with an allocator");
		ref[j] = *ref[i]; refMgr[j] = a; isNull[j] = false;
		ref[i] = std::vector<uint32_t>();
		if (steal) { if (bi.crew) refMgr[i] = -1; isNull[i] = true; } else isNull[i] = false;
		xferOp = true; emit(fmt("wmovea %d %d %d %s", j, i, a, xferHint(i, j).c_str()), "ok", true, false, i, j, rb); xferOp = false;
		c.stats.count(steal ? "op.move_ctor_alloc_equal" : "op.move_ctor_alloc_unequal_elementwise");
	}
	// known finding F15: operator= on a moved-from wrapper whose allocator does not propagate reads the stolen crew.
	// The operation is first tried in a forked child on the real objects; only if the child survives is it run here.
	bool f15Pattern(int i, bool trait) { return bi.crew && isNull[i] && !propagates(trait); }
	bool childSurvives(bool copy, int i, int j) {
		return survivesInChild([&]() { if (copy) box.copyAssign(i, j); else box.moveAssign(i, j); });
	}
	void opWCopyAssign(int i, int j) {
		bool tgtNull = isNull[i];
		if (i != j && f15Pattern(i, bi.pocca)) {
			if (!childSurvives(true, i, j)) {
				c.fail("C14 known-F15 moved-from-assign-nonpropagating: %s: copy assignment `obj%d = obj%d` with obj%d moved-from (allocator traits pocca=%d pocma=%d pocs=%d): child process died (history: %s)",
					su.name.c_str(), i, j, i, bi.pocca, bi.pocma, bi.pocs, history.c_str());
				c.stats.count("f15.copy_assign_crashed");
				su.op(fmt("wcas %d %d", i, j)); su.res("crash | " + world()); c.stats.evaluations++;
				return;
			}
			c.stats.count("f15.copy_assign_survived");
		}
		begin(); box.copyAssign(i, j);
		if (i != j) { ref[i] = *ref[j]; refMgr[i] = propagates(bi.pocca) ? refMgr[j] : refMgr[i]; isNull[i] = false; }
		emit(fmt("wcas %d %d", i, j), "ok", true, bi.exactFrees, -1, -1, nullptr);
		c.stats.count(i == j ? "op.self_copy_assign" : "op.copy_assign");
		if (i != j && tgtNull) c.stats.count("null.copy_assign_target");
	}
	void opWMoveAssign(int i, int j) {
		bool tgtNull = isNull[i];
		if (i != j && f15Pattern(i, bi.pocma)) {
			if (!childSurvives(false, i, j)) {
				c.fail("C14 known-F15 moved-from-assign-nonpropagating: %s: move assignment `obj%d = std::move(obj%d)` with obj%d moved-from (allocator traits pocca=%d pocma=%d pocs=%d): child process died (history: %s)",
					su.name.c_str(), i, j, i, bi.pocca, bi.pocma, bi.pocs, history.c_str());
				c.stats.count("f15.move_assign_crashed");
				su.op(fmt("wmas %d %d 0 0 - -", i, j)); su.res("crash | " + world()); c.stats.evaluations++;
				return;
			}
			c.stats.count("f15.move_assign_survived");
		}
		bool steal = propagates(bi.pocma) || refMgr[i] == refMgr[j];
		const void* rb = box.state(j).root;
		begin(); box.moveAssign(i, j);
		noCopies("move assignment");
		if (i != j) {
			ref[i] = *ref[j]; if (propagates(bi.pocma)) refMgr[i] = refMgr[j]; isNull[i] = false;
			ref[j] = std::vector<uint32_t>();
			if (steal) { if (bi.crew) refMgr[j] = -1; isNull[j] = true; } else isNull[j] = false;
		}
		xferOp = true; emit(fmt("wmas %d %d %s", i, j, xferHint(j, i).c_str()), "ok", true, false, j, i, rb); xferOp = false;
		c.stats.count(i == j ? "op.self_move_assign" : (steal ? "op.move_assign_steal" : "op.move_assign_unequal_elementwise"));
		if (i != j && tgtNull) c.stats.count("null.move_assign_target");
	}

	bool usableNow(int i) { return ref[i] && (!isNull[i] || bi.reusableNull); }
	int pick(std::function<bool(int)> pred) {
		int cand[NS], n = 0;
		for (int i = 0; i < NS; ++i) if (pred(i)) cand[n++] = i;
		return n ? cand[rng.below(n)] : -1;
	}

	// one random history
	void run(unsigned nOps) {
		su.op("reset"); su.res("ok");
		led().bad = 0; led().badText.clear();
		// two or three objects in chosen states
		unsigned nInit = 2 + (unsigned)rng.below(2);
		for (unsigned i = 0; i < nInit; ++i) {
			opNew((int)i);
			switch (rng.below(5)) {
			case 0: break;                                                  // empty
			case 1: opAdd((int)i, 1 + (unsigned)rng.below(3)); break;       // inside an internal capacity
			case 2: opAdd((int)i, 8 + (unsigned)rng.below(40)); break;      // grown several times
			case 3: opAdd((int)i, 5 + (unsigned)rng.below(30)); opSpecial((int)i); break;
			default: opAdd((int)i, 20 + (unsigned)rng.below(60)); for (unsigned k = rng.below(15); k > 0; --k) opDel((int)i); break;
			}
		}
		for (unsigned step = 0; step < nOps; ++step) {
			unsigned r = (unsigned)rng.below(100);
			auto live = [&](int i) { return ref[i].has_value(); };
			auto liveOk = [&](int i) { return ref[i].has_value() && !(bi.nullOpsBroken && isNull[i]); };
			auto dead = [&](int i) { return !ref[i].has_value(); };
			auto copyable = [&](int i) { return ref[i].has_value() && refMgr[i] >= 0; };
			if (r < 12) { int j = pick(dead), i = pick(copyable); if (j >= 0 && i >= 0) opCopy(j, i); }
			else if (r < 16) { int j = pick(dead), i = pick(copyable); if (j >= 0 && i >= 0) { if (bi.hasCopyM) opCopyM(j, i); else opCopy(j, i); } }
			else if (bi.wrapper && r < 22) { int j = pick(dead), i = pick(copyable); if (j >= 0 && i >= 0) opWMoveCtorA(j, i); }
			else if (r < 28) { int j = pick(dead), i = pick(live); if (j >= 0 && i >= 0) opMove(j, i); }
			// (nullOpsBroken only) keep equal managers apart in Swap
			else if (bi.wrapper && r < 40) {
				// swap of wrappers is defined only when the allocators propagate on swap or are equal
				int i = pick(live), j = pick(live);
				if (i >= 0 && j >= 0 && (bi.pocs || (refMgr[i] >= 0 && refMgr[j] >= 0 && (bi.empty || refMgr[i] == refMgr[j])))) opSwap(i, j);
				else if (i >= 0 && j >= 0 && bi.crew && (isNull[i] || isNull[j]) && (i == j || isNull[i] != isNull[j] || true) && !f15SwapProbed) {
					// same root as known finding F15: swap() of a moved-from wrapper evaluates get_allocator() of the stolen crew inside its
					// MOMO_ASSERT when the allocator does not propagate on swap (assert-enabled builds). Probed once per history, in a child.
					f15SwapProbed = true;
					bool ok = survivesInChild([&]() { box.swap(i, j); });
					c.stats.count(ok ? "f15.swap_survived" : "f15.swap_crashed");
					if (!ok) c.fail("C14 known-F15 moved-from-assign-nonpropagating (swap form): %s: `obj%d.swap(obj%d)` with a moved-from operand (allocator traits pocca=%d pocma=%d pocs=%d): child process died (history: %s)",
						su.name.c_str(), i, j, bi.pocca, bi.pocma, bi.pocs, history.c_str());
				}
			}
			else if (bi.wrapper && r < 54) { int i = pick(live), j = pick(copyable); if (i >= 0 && j >= 0) opWCopyAssign(i, j); }
			else if (bi.wrapper && r < 68) { int i = pick(live), j = pick(copyable); if (i >= 0 && j >= 0) opWMoveAssign(i, j); }
			else if (bi.wrapper && r < 71) { int i = pick(copyable); if (i >= 0) opWCopyAssign(i, i); }
			else if (bi.wrapper && r < 74) { int i = pick(copyable); if (i >= 0) opWMoveAssign(i, i); }
			else if (r < 40) { int i = pick(liveOk), j = pick(liveOk); if (i >= 0 && j >= 0 && !(bi.nullOpsBroken && i != j && refMgr[i] == refMgr[j])) opSwap(i, j); }
			else if (r < 54) { int i = pick(liveOk), j = pick(copyable); if (i >= 0 && j >= 0 && !(bi.nullOpsBroken && i != j && refMgr[i] == refMgr[j] + bi.sel)) opCopyAssign(i, j); }
			else if (r < 68) { int i = pick(liveOk), j = pick(liveOk); if (i >= 0 && j >= 0 && !(bi.nullOpsBroken && i != j && refMgr[i] == refMgr[j])) opMoveAssign(i, j); }
			else if (r < 71) { int i = pick(copyable); if (i >= 0) opCopyAssign(i, i); }
			else if (r < 74) { int i = pick(liveOk); if (i >= 0) opMoveAssign(i, i); }
			else if (r < 80) { int i = pick(live); if (i >= 0) opDrop(i); }
			else if (r < 85) { int i = pick(live); if (i >= 0) opClear(i); }
			else if (r < 88) { int i = pick(dead); if (i >= 0) opNew(i); }
			else if (r < 95) { int i = pick([&](int k) { return usableNow(k); }); if (i >= 0) { if (isNull[i]) c.stats.count("null.reused_at_once"); opAdd(i, 1 + (unsigned)rng.below(rng.chance(1, 4) ? 40 : 4)); isNull[i] = false; } }
			else if (r < 98) { int i = pick([&](int k) { return usableNow(k) && !ref[k]->empty(); }); if (i >= 0) opDel(i); }
			else { int i = pick([&](int k) { return usableNow(k) && !isNull[k]; }); if (i >= 0) opSpecial(i); }
		}
		// the end: destroy everything, nothing may remain
		for (int i = 0; i < NS; ++i) if (ref[i]) opDrop(i);
		if (!led().live.empty()) {
			c.fail("C14 leak: %s: %zu blocks (managers %s) outstanding after all objects were destroyed (history: %s)", su.name.c_str(),
				led().live.size(), showSet(led().liveIds()).c_str(), history.c_str());
			for (auto& kv : led().live) std::free(kv.first);
			led().live.clear();
		}
		if (bi.counted && ec().live != 0) { c.fail("C14 elements: %s: %ld element objects alive after all objects were destroyed (history: %s)", su.name.c_str(), ec().live, history.c_str()); ec().live = 0; }
		c.stats.sample(su.name + ": " + history);
	}
};

inline void runBox(Ctx& c, Rng& rng, IBox& box, unsigned runs, unsigned nOps) {
	const BoxInfo& bi = box.info();
	Suite su(c, bi.name, header(bi));
	for (unsigned r = 0; r < runs; ++r) {
		Scenario sc(c, rng, box, su);
		sc.run(nOps);
		c.stats.nontrivial(fmt("%s#%u", bi.name.c_str(), r));
	}
}

} // namespace vf
