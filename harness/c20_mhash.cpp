// C20 correspondence harness (std::unordered_multimap / std::unordered_multiset), part 4: std::unordered_map / set / multimap / multiset (node allocations and bucket arrays) with momo's pool allocator against twins with
// std::allocator and against the Lean model (allocator level and container level).  See c20_alloc.h / c20_world.h.
#include "c20_world.h"

using namespace c20;

int main(int argc, char** argv)
{
	Ctx c = parseArgs(argc, argv);
	Rng rng(c.seed * 0x1000 + 27);
	arena().init(c); arena().rng = &rng; installCrashReporter();
	const unsigned steps = c.thorough ? 1500 : 500;
	const unsigned rounds = c.thorough ? 12 : 4;
	for (unsigned round = 0; round < rounds; ++round) {
		std::string r = fmt("r%u_", round);
		runTraced<KUMap<int, int, true>, Cfg<9, 0>>(c, rng, r + "ummap_ii_a", steps);
		runTraced<KUMap<int, std::string, true>, Cfg<10, 16>>(c, rng, r + "ummap_is_a", steps);
		runTraced<KUSet<int, true>, Cfg<11, 1>>(c, rng, r + "umset_i_a", steps);
		runTraced<KUSet<int, true>, Cfg<1, 16>>(c, rng, r + "umset_i_b", steps);
		// the momo allocator itself, without the reporting shell
		runPlain<KUSet<std::string, false>, Cfg<5, 0>>(c, rng, r + "uset_s", steps);
		runPlain<KUMap<int, int, true>, Cfg<1, 1>>(c, rng, r + "ummap_ii", steps);
	}
	dumpTracerStats(c);
	return c.finish();
}
