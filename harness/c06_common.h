// Shared pieces of the C06 harnesses (c06_ordered.cpp, c06_unordered.cpp, c06_alloc.cpp):
// element types whose ordering / hashing looks at the key only (so that equivalent elements stay
// distinguishable by their tag), the stateful ledger allocator with the three propagation traits,
// and the bookkeeping of one differential run (history for FAIL texts, coverage counters).
#pragma once
#include "common/verif_elems.h"

#include <algorithm>
#include <deque>
#include <optional>
#include <stdexcept>
#include <string>
#include <utility>
#include <vector>

namespace c06 {
using namespace vf;

// ---------------------------------------------------------------- elements
struct KV {
	int k; int v;
	KV() : k(0), v(0) {}
	KV(int k_, int v_) : k(k_), v(v_) {}
	bool operator==(const KV& o) const { return k == o.k && v == o.v; }
	bool operator!=(const KV& o) const { return !(*this == o); }
	bool operator<(const KV& o) const { return k < o.k || (k == o.k && v < o.v); }
};
struct LessK { bool operator()(const KV& a, const KV& b) const { return a.k < b.k; } };
struct LessI { bool operator()(int a, int b) const { return a < b; } };
struct HashK { size_t operator()(const KV& x) const { return famHash((uint32_t)x.k); } };
struct EqK { bool operator()(const KV& a, const KV& b) const { return a.k == b.k; } };
struct HashI { size_t operator()(int k) const { return famHash((uint32_t)k); } };

typedef std::pair<int, int> P;	// (key, tag/mapped)

// ---------------------------------------------------------------- stateful allocator with a ledger
struct AllocLedger {
	struct Block { int id; size_t bytes; };
	std::map<void*, Block> live;
	size_t bad = 0;		// deallocation of an unknown block, through an unequal allocator, or with a wrong size
	size_t allocs = 0;
	std::string firstBad;
	long failCountdown = -1;	// one-shot fault: the (failCountdown+1)-th allocation from now throws std::bad_alloc
	bool fired = false;
};
inline AllocLedger& ledger() { static AllocLedger l; return l; }

template<typename T, bool PCA, bool PMA, bool PS>
struct SA {
	typedef T value_type;
	typedef std::integral_constant<bool, PCA> propagate_on_container_copy_assignment;
	typedef std::integral_constant<bool, PMA> propagate_on_container_move_assignment;
	typedef std::integral_constant<bool, PS> propagate_on_container_swap;
	typedef std::false_type is_always_equal;
	template<typename U> struct rebind { typedef SA<U, PCA, PMA, PS> other; };
	int id;
	explicit SA(int i = 0) noexcept : id(i) {}
	template<typename U> SA(const SA<U, PCA, PMA, PS>& o) noexcept : id(o.id) {}
	T* allocate(size_t n) {
		{ AllocLedger& l = ledger(); if (l.failCountdown == 0) { l.failCountdown = -1; l.fired = true; throw std::bad_alloc(); } if (l.failCountdown > 0) --l.failCountdown; }
		void* p = ::operator new(n * sizeof(T));
		ledger().live[p] = AllocLedger::Block{ id, n * sizeof(T) };
		++ledger().allocs;
		return static_cast<T*>(p);
	}
	void deallocate(T* p, size_t n) noexcept {
		AllocLedger& l = ledger();
		auto it = l.live.find(p);
		if (it == l.live.end()) { ++l.bad; if (l.firstBad.empty()) l.firstBad = "deallocate of unknown block"; return; }
		if (it->second.id != id || it->second.bytes != n * sizeof(T)) {
			++l.bad;
			if (l.firstBad.empty()) l.firstBad = fmt("block of allocator %d (%zu bytes) freed through allocator %d (%zu bytes)", it->second.id, it->second.bytes, id, n * sizeof(T));
		}
		l.live.erase(it);
		::operator delete(p);
	}
	template<typename U> bool operator==(const SA<U, PCA, PMA, PS>& o) const noexcept { return id == o.id; }
	template<typename U> bool operator!=(const SA<U, PCA, PMA, PS>& o) const noexcept { return id != o.id; }
};

template<typename A> inline A mkAlloc(int id) { if constexpr (std::is_constructible<A, int>::value) return A(id); else { (void)id; return A(); } }
template<typename A> inline int allocId(const A& a) { if constexpr (std::is_constructible<A, int>::value) return a.id; else { (void)a; return 0; } }

// a moved-from wrapper is only destroyed and constructed anew (assigning to it is the open finding F15
// when the allocator does not propagate on that assignment)
template<typename C, typename A> inline void recreate(C& c, const A& a) { c.~C(); ::new (static_cast<void*>(&c)) C(a); }

// ---------------------------------------------------------------- one differential run
struct Run {
	Ctx& c; Suite& s; std::string suite, kind;
	std::deque<std::string> hist;
	uint64_t steps = 0;
	bool diverged = false;	// after the first disagreement the two sides no longer share a history: the run stops
	Run(Ctx& c_, Suite& s_, const std::string& suite_, const std::string& kind_) : c(c_), s(s_), suite(suite_), kind(kind_) {}
	std::string tail() const { std::string t; for (auto& h : hist) { t += h; t += " ; "; } return t; }
	// one executed call: op line for the model, what momo answered, what libstdc++ answered
	void step(const std::string& op, const std::string& momo, const std::string& stdr) {
		s.op(op); s.res(momo);
		hist.push_back(op + " -> " + momo);
		if (hist.size() > 30) hist.pop_front();
		++steps; c.stats.evaluations++;
		size_t sp = op.find(' ');
		c.stats.count(kind + "." + op.substr(0, sp));
		if (momo != stdr) diverged = true;
		if (momo != stdr)
			c.fail("C06 %s/%s step %llu: `%s` momo answered [%s], libstdc++ answered [%s]; last calls: %s", suite.c_str(), kind.c_str(),
				(unsigned long long)steps, op.c_str(), momo.c_str(), stdr.c_str(), tail().c_str());
	}
	// a call that only the model is compared with (no libstdc++ counterpart for this output)
	void stepModelOnly(const std::string& op, const std::string& momo) {
		s.op(op); s.res(momo);
		hist.push_back(op + " -> " + momo);
		if (hist.size() > 30) hist.pop_front();
		++steps; c.stats.evaluations++;
		size_t sp = op.find(' ');
		c.stats.count(kind + "." + op.substr(0, sp));
	}
	void contents(const char* which, const std::string& momo, const std::string& stdr) {
		if (momo != stdr) diverged = true;
		if (momo != stdr)
			c.fail("C06 %s/%s step %llu: contents of %s differ: momo [%s] libstdc++ [%s]; last calls: %s", suite.c_str(), kind.c_str(),
				(unsigned long long)steps, which, momo.c_str(), stdr.c_str(), tail().c_str());
	}
};

inline std::string seqStr(const std::vector<P>& v) {
	std::string r = fmt("%zu:", v.size());
	for (auto& p : v) r += fmt(" %d:%d", p.first, p.second);
	return r;
}

// key generators: the distribution is fixed per run
struct KeyGen {
	Rng& rng; unsigned mode; int range; int counter;
	KeyGen(Rng& r, unsigned mode_, int range_) : rng(r), mode(mode_), range(range_), counter(mode_ == 2 ? range_ : 0) {}
	int next() {
		switch (mode) {
		case 0: return (int)rng.below((uint64_t)range);				// uniform
		case 1: return (counter++) % range;							// ascending
		case 2: { if (counter <= 0) counter = range; return --counter; }	// descending
		case 3: return (int)(rng.below(4) * (uint64_t)(range / 4 + 1) + rng.below(3));	// four clusters of three keys
		default: return (int)((rng.below((uint64_t)range) * 16) % (uint64_t)range);	// multiples (equal low bits)
		}
	}
	int any() { return rng.chance(1, 4) ? (int)rng.below((uint64_t)range + 3) : next(); }
};
inline const char* keyModeName(unsigned m) { static const char* n[] = { "uniform", "ascending", "descending", "clusters", "multiples" }; return n[m < 5 ? m : 4]; }

} // namespace c06
