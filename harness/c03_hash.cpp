// C03 harness, hash family: HashSet / HashMap over chained (LimP4, LimP1, LimP, UnlimP, One) and open-addressing
// (Open2N2, Open8, OpenN1) buckets, hash codes stored or recomputed, nothrow-move / copy-only / trivially relocatable
// keys. Random histories over two containers with equal or unequal managers; about one operation in three with an
// armed fault (k-th allocation refused, k-th element copy throws, k-th hash / equality call throws; functor faults only
// with extraCheckMode = nothing, DESIGN.md O1). Compiled in parts (-DC03_PART=n). See c03_ledger.h.
#define MOMO_INCLUDE_OLD_HASH_BUCKETS
#include <algorithm>
#include "momo/HashSet.h"
#include "momo/HashMap.h"
#include "c03_ledger.h"

using namespace c03;

// C03_PTRBITS = 48 / 32 (parts 6 / 7): the managers declare ptrUsefulBitCount; the build also defines
// MOMO_MEM_MANAGER_PTR_USEFUL_BIT_COUNT (momo ignores the declaration today: observation O3, common/verif_ptrbits.h) and, for 32,
// C03_ARENA32 (every block below 4 GB). BucketLimP4 then keeps pointer + state in 6 / 4 bytes and 6 / 8 metadata bytes.
#ifdef C03_PTRBITS
class LedgerMMB : public LedgerMM {
public:
	static const size_t ptrUsefulBitCount = C03_PTRBITS;
	explicit LedgerMMB(unsigned cls_ = 1) noexcept : LedgerMM(cls_) {}
	LedgerMMB(LedgerMMB&& o) noexcept : LedgerMM(o.cls) {}
	LedgerMMB(const LedgerMMB& o) noexcept : LedgerMM(o.cls) {}
	LedgerMMB& operator=(const LedgerMMB&) = delete;
	bool IsEqual(const LedgerMMB& o) const noexcept { return classOf(this, &cls, "IsEqual") == classOf(&o, &o.cls, "IsEqual"); }
};
typedef LedgerMMB HMM;
#else
typedef LedgerMM HMM;
#endif

struct NoExtraS : public momo::HashSetSettings { static const momo::ExtraCheckMode extraCheckMode = momo::ExtraCheckMode::nothing; };
struct NoExtraM : public momo::HashMapSettings { static const momo::ExtraCheckMode extraCheckMode = momo::ExtraCheckMode::nothing; };

// tStored: hash codes are kept in the buckets (hashing may throw); otherwise hashing is nothrow and recomputed on growth
template<typename Key, typename HashBucket, bool tStored>
struct LTraits : public momo::HashTraits<Key, HashBucket>
{
	static const bool isFastNothrowHashable = !tStored;
	template<typename ItemTraits> using Bucket = typename HashBucket::template Bucket<ItemTraits, tStored>;
	size_t GetLogStartBucketCount() const noexcept { return 2; }
	size_t GetHashCode(const Key& key) const noexcept(!tStored) { if (tStored) rec().funcPoint(); useKey(key); return hashVal(valOf(key)); }
	bool IsEqual(const Key& a, const Key& b) const { rec().funcPoint(); useKey(a); useKey(b); return valOf(a) == valOf(b); }
};

template<typename E> static E mk(uint32_t v) { return E(v); }
template<bool isMap, typename Pos> static uint32_t keyValAt(const Pos& pos) { if constexpr (isMap) { useKey(pos->key); return valOf(pos->key); } else { useKey(*pos); return valOf(*pos); } }

template<typename C, typename MM, typename Tr, bool isMap> struct Api;
template<typename C, typename MM, typename Tr> struct Api<C, MM, Tr, false> {
	typedef typename C::Key E;
	static void insC(C& c, uint32_t v) { E e = mk<E>(v); c.Insert(e); }
	static void insM(C& c, uint32_t v) { c.Insert(mk<E>(v)); }
	static void insRange(C& c, uint32_t v, unsigned n) { std::vector<E> xs; xs.reserve(n); for (unsigned i = 0; i < n; ++i) xs.push_back(mk<E>(v + i * 3)); c.Insert(xs.begin(), xs.end()); }
	static void remFilter(C& c, uint32_t m) { c.Remove([m](const E& e) { return valOf(e) % m == 0; }); }
	static void assignValue(C&, uint32_t) {}
	static void ctorList(C& dst, uint32_t v, unsigned cls) { C t({ mk<E>(v), mk<E>(v + 1), mk<E>(v + 2), mk<E>(v + 1) }, Tr(), MM(cls)); dst = std::move(t); }
};
template<typename C, typename MM, typename Tr> struct Api<C, MM, Tr, true> {
	typedef typename C::Key E;
	typedef typename C::Value V;
	static void insC(C& c, uint32_t v) { E e = mk<E>(v); V w = mk<V>(v + 1000); c.Insert(e, w); }
	static void insM(C& c, uint32_t v) { c.Insert(mk<E>(v), mk<V>(v + 1000)); }
	static void insRange(C& c, uint32_t v, unsigned n) { std::vector<std::pair<E, V>> xs; xs.reserve(n); for (unsigned i = 0; i < n; ++i) xs.emplace_back(mk<E>(v + i * 3), mk<V>(i)); c.Insert(xs.begin(), xs.end()); }
	static void remFilter(C& c, uint32_t m) { c.Remove([m](const E& e, const V&) { return valOf(e) % m == 0; }); }
	static void assignValue(C& c, uint32_t v) { E e = mk<E>(v); V w = mk<V>(v + 2000); c[e] = w; c[mk<E>(v + 1)] = mk<V>(v + 2001); }
	static void ctorList(C& dst, uint32_t v, unsigned cls) { C t({ { mk<E>(v), mk<V>(1) }, { mk<E>(v + 1), mk<V>(2) }, { mk<E>(v), mk<V>(3) } }, Tr(), MM(cls)); dst = std::move(t); }
};

template<typename C, typename MM, typename Tr, bool isMap, bool functorFaults>
static void hashHistories(Ctx& c, Rng& rng, const std::string& name, unsigned histories, unsigned opsPerHist)
{
	typedef typename C::Key E;
	typedef Api<C, MM, Tr, isMap> A;
	Rec& r = rec();
	for (unsigned h = 0; h < histories; ++h) {
		bool twoManagers = rng.chance(1, 2);
		unsigned clsA = 1, clsB = twoManagers ? 2 : 1;
		r.hashMode = (unsigned)rng.below(5) < 3 ? 0 : (rng.chance(3, 4) ? 1 : 2);
		uint32_t keyRange = rng.chance(1, 3) ? 24 : (rng.chance(1, 2) ? 300 : 4000);
		r.begin(name + fmt(" managers=1,%u hash=%s keys<%u", clsB, r.hashMode == 0 ? "multiplicative" : r.hashMode == 1 ? "mod5" : "highbits", keyRange));
		{
			std::unique_ptr<C> a(new C(Tr(), MM(clsA)));
			size_t fixedBlocks = r.live.size();
			std::unique_ptr<C> b(new C(Tr(), MM(clsB)));
			for (unsigned i = 0; i < opsPerHist; ++i) {
				int fault; long k; pickFault(rng, functorFaults, fault, k);
				C& x = rng.chance(2, 3) ? *a : *b;
				C& y = (&x == a.get()) ? *b : *a;
				const char* xn = (&x == a.get()) ? "a" : "b";
				unsigned cls = (&x == a.get()) ? clsA : clsB;
				size_t n = x.GetCount();
				uint32_t v = (uint32_t)rng.below(keyRange);
				unsigned sel = (unsigned)rng.below(56);
				switch (sel < 30 ? (sel % 5 < 2 ? 0 : sel % 5 < 4 ? 1 : 2) : sel - 30 + 3) {
				case 0: runOp(fmt("%s.Insert(const& %u) n=%zu", xn, v, n), fault, k, [&] { A::insC(x, v); }); break;
				case 1: runOp(fmt("%s.Insert(&& %u) n=%zu", xn, v, n), fault, k, [&] { A::insM(x, v); }); break;
				case 2: runOp(fmt("%s.Remove(key %u) n=%zu", xn, v, n), fault, k, [&] { E e = mk<E>(v); x.Remove(e); }); break;
				case 3: runOp(fmt("%s.ContainsKey(%u) n=%zu", xn, v, n), fault, k, [&] { E e = mk<E>(v); (void)x.ContainsKey(e); }); break;
				case 4: if (n > 0) { size_t steps = rng.below(std::min<size_t>(n, 5)); runOp(fmt("%s.Remove(iterator begin+%zu) n=%zu", xn, steps, n), fault, k, [&] { auto it = x.GetBegin(); for (size_t j = 0; j < steps; ++j) ++it; x.Remove(it); }); } break;
				case 5: if (rng.chance(1, 3)) { uint32_t m = (uint32_t)rng.range(2, 4); runOp(fmt("%s.Remove(filter key%%%u==0) n=%zu", xn, m, n), fault, k, [&] { A::remFilter(x, m); }); } break;
				case 6: { size_t cap = rng.below(4 * n + 40); runOp(fmt("%s.Reserve(%zu) n=%zu cap=%zu", xn, cap, n, x.GetCapacity()), fault, k, [&] { x.Reserve(cap); }); break; }
				case 7: if (rng.chance(1, 3)) { bool shrink = rng.chance(2, 3); runOp(fmt("%s.Clear(%s) n=%zu", xn, shrink ? "true" : "false", n), fault, k, [&] { x.Clear(shrink); }); if (shrink) c.stats.count("clear_with_shrink"); } break;
				case 8: { bool toOther = rng.chance(1, 2); bool drop = rng.chance(1, 4);
					runOp(fmt("%s.Extract(key %u) n=%zu, then %s", xn, v, n, drop ? "drop the extracted item" : toOther ? "insert it into the other container" : "insert it back"), fault, k, [&] {
						E e = mk<E>(v); auto pos = x.Find(e); if (!pos) return;
						auto ext = x.Extract(pos);
						if (drop) return;
						if (toOther) y.Insert(std::move(ext)); else x.Insert(std::move(ext)); });
					break; }
				case 9: runOp(fmt("%s.MergeTo(other) n=%zu other=%zu", xn, n, y.GetCount()), fault, k, [&] { x.MergeTo(y); }); c.stats.count("merge"); break;
				case 10: runOp(fmt("%s.MergeFrom(std::move(other)) n=%zu other=%zu", xn, n, y.GetCount()), fault, k, [&] { x.MergeFrom(std::move(y)); }); c.stats.count("merge"); break;
				case 11: runOp(fmt("copy-construct from %s n=%zu, destroy the copy", xn, n), fault, k, [&] { C t(x); (void)t; }); break;
				case 12: runOp(fmt("copy-construct from %s n=%zu with manager %u, destroy the copy", xn, n, clsB), fault, k, [&] { C t(x, MM(clsB)); (void)t; }); break;
				case 13: runOp(fmt("%s = copy of the other (n=%zu <- %zu)", xn, n, y.GetCount()), fault, k, [&] { x = y; }); break;
				case 14: { runOp(fmt("%s = std::move(other) (n=%zu <- %zu)", xn, n, y.GetCount()), fault, k, [&] { x = std::move(y); });
					// the moved-from container has a null crew: it may only be destroyed or assigned to (C14)
					bool yIsA = (&y == a.get()); unsigned clsY = yIsA ? clsA : clsB;
					runOp("destroy the moved-from container and construct an empty one in its place", F_NONE, 0, [&] { std::unique_ptr<C> t(new C(Tr(), MM(clsY))); if (yIsA) a = std::move(t); else b = std::move(t); });
					break; }
				case 15: runOp(fmt("%s.Swap(other)", xn), fault, k, [&] { x.Swap(y); }); break;
				case 16: runOp(fmt("move-construct from %s n=%zu and move back", xn, n), fault, k, [&] { C t(std::move(x)); x = std::move(t); }); break;
				case 17: { unsigned cnt = (unsigned)rng.range(2, 40); runOp(fmt("%s.Insert(range of %u keys from %u step 3) n=%zu", xn, cnt, v, n), fault, k, [&] { A::insRange(x, v, cnt); }); break; }
				case 18: if (rng.chance(1, 3)) { runOp(fmt("%s = container(init-list {%u,%u,%u,dup}, traits, manager %u) (old n=%zu)", xn, v, v + 1, v + 2, cls, n), fault, k, [&] { A::ctorList(x, v, cls); }); } break;
				case 19: if (isMap) { runOp(fmt("%s[%u] = value; %s[&& %u] = value n=%zu", xn, v, xn, v + 1, n), fault, k, [&] { A::assignValue(x, v); }); } break;
				case 20: runOp(fmt("%s.ResetKey(Find(%u), equal key) n=%zu", xn, v, n), fault, k, [&] { E e = mk<E>(v); auto pos = x.Find(e); if (!pos) return; x.ResetKey(pos, mk<E>(v)); }); break;
				case 21: if (rng.chance(1, 4)) { runOp(fmt("destroy %s (n=%zu) and construct an empty one with manager %u", xn, n, cls), fault, k, [&] {
						std::unique_ptr<C> t(new C(Tr(), MM(cls))); if (&x == a.get()) a = std::move(t); else b = std::move(t); }); } break;
				default: runOp(fmt("%s.Find(%u) n=%zu", xn, v, n), fault, k, [&] { E e = mk<E>(v); auto pos = x.Find(e); if (!!pos) (void)keyValAt<isMap>(pos); }); break;
				}
				size_t na = a->GetCount();
				c.stats.count(std::string("count_ge_") + (na >= 64 ? "64" : na >= 16 ? "16" : "0"));
			}
			runOp("destroy b", F_NONE, 0, [&] { b.reset(); });
			runOp("a.Clear(true)", F_NONE, 0, [&] { a->Clear(true); });
			c.stats.count("clear_with_shrink");
			if (r.live.size() != fixedBlocks || !r.liveElems.empty())
				r.violation(fmt("Clear(true) of the only remaining container left %zu block(s) (an empty container holds %zu) and %zu element(s) outstanding", r.live.size(), fixedBlocks, r.liveElems.size()));
			runOp("destroy a", F_NONE, 0, [&] { a.reset(); });
		}
		r.end();
		if (h < 1) c.stats.sample(r.histText().substr(0, 600));
	}
}

int main(int argc, char** argv)
{
	Ctx c = parseArgs(argc, argv);
#ifndef C03_PART
# define C03_PART 0
#endif
	Rng rng(c.seed * 0x1000 + 0x03B + C03_PART);
	static const char* suiteName[] = { "c03_hashset", "c03_hashmap", "c03_hashopen", "c03_hashold", "c03_hashcfg", "c03_hashpool1", "c03_hashp48", "c03_hashp32" };
	Suite s(c, suiteName[C03_PART], "model ledger");
	Rec& r = rec(); r.c = &c; r.s = &s; r.family = suiteName[C03_PART];
	unsigned H = c.thorough ? 200 : 30, N = c.thorough ? 120 : 80;
	using namespace momo;
#define SET(E, B, stored) HashSet<E, LTraits<E, B, stored>, HMM, HashSetItemTraits<E, HMM>, NoExtraS>, HMM, LTraits<E, B, stored>, false
#define MAP(K, V, B, stored) HashMap<K, V, LTraits<K, B, stored>, HMM, HashMapKeyValueTraits<K, V, HMM>, NoExtraM>, HMM, LTraits<K, B, stored>, true
#if C03_PART == 0
	hashHistories<SET(ElemL, HashBucketLimP4<>, true), true>(c, rng, "HashSet<LimP4, nothrow-move, stored hash>", H, N);
	hashHistories<SET(ElemC, HashBucketLimP4<2>, true), true>(c, rng, "HashSet<LimP4<2>, copy-only, stored hash>", H, N);
	hashHistories<SET(ElemT, HashBucketLimP4<>, false), true>(c, rng, "HashSet<LimP4, triv-reloc, recomputed hash>", H, N);
#elif C03_PART == 1
	hashHistories<MAP(ElemL, ElemL, HashBucketLimP4<>, true), true>(c, rng, "HashMap<LimP4, nothrow-move -> nothrow-move, stored hash>", H, N);
	hashHistories<MAP(ElemC, ElemL, HashBucketLimP4<>, false), true>(c, rng, "HashMap<LimP4, copy-only -> nothrow-move, recomputed hash>", H, N);
	hashHistories<MAP(ElemL, ElemC, HashBucketOpen8, true), true>(c, rng, "HashMap<Open8, nothrow-move -> copy-only, stored hash>", H, N);
#elif C03_PART == 2
	hashHistories<SET(ElemL, HashBucketOpen8, true), true>(c, rng, "HashSet<Open8, nothrow-move, stored hash>", H, N);
	hashHistories<SET(ElemC, HashBucketOpen2N2<1>, false), true>(c, rng, "HashSet<Open2N2<1>, copy-only, recomputed hash>", H, N);
	typedef HashBucketOpenN1<3, true> BOpenN1;
	hashHistories<SET(ElemL, BOpenN1, true), true>(c, rng, "HashSet<OpenN1<3>, nothrow-move, stored hash>", H, N);
#elif C03_PART == 4
	// HashBucketLimP<5..15> with pointer state: items pointer, count and pool index share one word (decoded with divisors > 4)
	typedef HashBucketLimP<7> BLimP7; typedef HashBucketLimP<15> BLimP15;
	static_assert(internal::BucketLimP<internal::HashSetBucketItemTraits<HashSetItemTraits<ElemL, HMM>>, 7, MemPoolParams<>, true>::usePtrState, "");
	hashHistories<SET(ElemL, BLimP7, true), true>(c, rng, "HashSet<LimP<7> ptr-state, nothrow-move 24 bytes, stored hash>", H, N);
	hashHistories<SET(ElemC, BLimP7, false), true>(c, rng, "HashSet<LimP<7> ptr-state, copy-only 24 bytes, recomputed hash>", H, N);
	hashHistories<MAP(ElemT, ElemT, BLimP15, false), true>(c, rng, "HashMap<LimP<15> ptr-state, triv-reloc -> triv-reloc (32-byte pairs), recomputed hash>", H, N);
#elif C03_PART == 5
	// memory pools with one block per buffer: CanDeallocateAll() is false, Clear / destruction give the bucket arrays back one by one
	typedef MemPoolParams<1> Pool1;
	typedef HashBucketLimP<3, Pool1> BLimP3x1; typedef HashBucketLimP<5, Pool1, false> BLimP5x1; typedef HashBucketLimP1<3, Pool1> BLimP1x1; typedef HashBucketLimP4<4, Pool1> BLimP4x1;
	hashHistories<SET(ElemC, BLimP3x1, true), true>(c, rng, "HashSet<LimP<3, pool blockCount 1> ptr-state, copy-only, stored hash>", H, N);
	hashHistories<SET(ElemL, BLimP5x1, true), true>(c, rng, "HashSet<LimP<5, pool blockCount 1> no ptr-state, nothrow-move, stored hash>", H, N);
	hashHistories<SET(ElemL, BLimP1x1, true), true>(c, rng, "HashSet<LimP1<3, pool blockCount 1>, nothrow-move, stored hash>", H, N);
	hashHistories<SET(ElemT, BLimP4x1, false), true>(c, rng, "HashSet<LimP4<4, pool blockCount 1>, triv-reloc, recomputed hash>", H, N);
#elif C03_PART == 6 || C03_PART == 7
# ifndef C03_PTRBITS
#  error "parts 6 / 7 need -DC03_PTRBITS=48 / 32 and -DMOMO_MEM_MANAGER_PTR_USEFUL_BIT_COUNT"
# endif
	static_assert(internal::MemManagerProxy<HMM>::ptrUsefulBitCount == C03_PTRBITS, "pointer width of the build");
	hashHistories<SET(ElemL, HashBucketLimP4<>, true), true>(c, rng, fmt("HashSet<LimP4, nothrow-move, stored hash, %d-bit pointers>", (int)C03_PTRBITS), H, N);
	hashHistories<SET(ElemT, HashBucketLimP4<2>, false), true>(c, rng, fmt("HashSet<LimP4<2>, triv-reloc, recomputed hash, %d-bit pointers>", (int)C03_PTRBITS), H, N);
	hashHistories<MAP(ElemC, ElemL, HashBucketLimP4<3>, true), true>(c, rng, fmt("HashMap<LimP4<3>, copy-only -> nothrow-move, stored hash, %d-bit pointers>", (int)C03_PTRBITS), H, N);
#else
	hashHistories<SET(ElemL, HashBucketOne<>, true), true>(c, rng, "HashSet<One, nothrow-move, stored hash>", H, N);
	hashHistories<SET(ElemC, HashBucketLimP1<3>, true), true>(c, rng, "HashSet<LimP1<3>, copy-only, stored hash>", H, N);
	hashHistories<SET(ElemL, HashBucketLimP<3>, true), true>(c, rng, "HashSet<LimP<3>, nothrow-move, stored hash>", H, N);
	hashHistories<SET(ElemL, HashBucketUnlimP<>, true), true>(c, rng, "HashSet<UnlimP, nothrow-move, stored hash>", H, N);
#endif
	return c.finish();
}
