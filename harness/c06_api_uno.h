// c06_api.cpp, VF_PART == 2: unordered_set / unordered_map / unordered_multimap (and the _open variants)
#if VF_PART == 2
enum UKind { USET, UMAP, UMMAP };
static bool g_f33Reported = false, g_f33RehashReported = false;	// the open finding F33 is reported once per executable run

// what the standard guarantees about the bucket interface ([unord.req]); evaluated on momo AND on libstdc++ (the latter only
// validates the oracle itself). Returns "" or the violated sentence.
template<typename C, typename GetP>
static std::string bucketInvariants(C& c, GetP get)
{
	const C& cc = c;
	size_t bc = cc.bucket_count(), n = cc.size();
	if (cc.max_bucket_count() < bc) return fmt("max_bucket_count() %zu < bucket_count() %zu", (size_t)cc.max_bucket_count(), bc);
	if (n > 0 && bc == 0) return "elements stored but bucket_count() == 0";
	size_t sum = 0;
	std::vector<P> viaBuckets;
	for (size_t b = 0; b < bc; ++b) {
		size_t bs = cc.bucket_size(b), d1 = 0, d2 = 0, d3 = 0;
		for (auto it = c.begin(b); it != c.end(b); ++it) { ++d1; viaBuckets.push_back(get(it)); }
		for (auto it = cc.begin(b); it != cc.end(b); ++it) ++d2;
		for (auto it = cc.cbegin(b); it != cc.cend(b); ++it) ++d3;
		if (d1 != bs || d2 != bs || d3 != bs) return fmt("bucket %zu: bucket_size %zu but begin(n)..end(n) has %zu / const %zu / cbegin(n)..cend(n) %zu elements", b, bs, d1, d2, d3);
		sum += bs;
	}
	if (sum != n) return fmt("sum of bucket_size over all %zu buckets is %zu, size() is %zu", bc, sum, n);
	std::vector<P> all; for (auto it = cc.begin(); it != cc.end(); ++it) all.push_back(get(it));
	std::sort(all.begin(), all.end()); std::sort(viaBuckets.begin(), viaBuckets.end());
	if (all != viaBuckets) return "the local iterators of all buckets do not enumerate exactly the elements of begin()..end()";
	for (auto it = cc.begin(); it != cc.end(); ++it) {
		P p = get(it);
		const CKey key(p.first);
		size_t b = cc.bucket(key);
		if (b >= bc) return fmt("bucket(%d) = %zu >= bucket_count() %zu", p.first, b, bc);
		bool found = false;
		for (auto li = cc.begin(b); li != cc.end(b); ++li) if (get(li) == p) found = true;
		if (!found) return fmt("element %d:%d is not in bucket(%d) = %zu", p.first, p.second, p.first, b);
	}
	float lf = cc.load_factor(), want = bc == 0 ? 0.0f : (float)n / (float)bc;
	if (std::fabs(lf - want) > 1e-4f * (1.0f + want)) return fmt("load_factor() %g but size() / bucket_count() = %zu / %zu", (double)lf, n, bc);
	// (load_factor() <= max_load_factor() is only promised after an insertion / rehash / reserve: checked at those calls)
	return "";
}

template<typename C, UKind kind, bool isMomo>
struct UA {
	typedef typename C::const_iterator CIt;
	typedef typename C::iterator It;
	typedef typename C::value_type V;
	typedef typename C::allocator_type A;
	static const bool isMap = kind != USET;
	struct GetP { template<typename I> P operator()(I it) const { if constexpr (kind == USET) return P(it->k, 0); else return P(it->first.k, it->second.v); } };
	template<typename I> static P get(I it) { return GetP()(it); }
	static std::vector<P> sorted(const C& c) { std::vector<P> v; for (auto it = c.begin(); it != c.end(); ++it) v.push_back(get(it)); std::sort(v.begin(), v.end()); return v; }
	static V mk(int k, int v) { if constexpr (isMap) return mkMV(k, v); else { (void)v; return CKey(k); } }
	static std::string el(const C& c, CIt it) { if (it == c.end()) return "none"; P p = get(it); return fmt("%d:%d", p.first, p.second); }
	static std::string ret(const C& c, It it) { return "e=" + el(c, it) + " 1"; }
	static std::string ret(const C& c, const std::pair<It, bool>& r) { return "e=" + el(c, r.first) + fmt(" %d", (int)r.second); }
	// unordered_multimap: which of the equal-key elements an iterator denotes is fixed for insert results (the new element)

	static const unsigned insHows = 10;
	static std::string ins(C& c, unsigned how, bool hinted, bool hintEnd, int k, int v) {
		CIt hint = hintEnd ? c.cend() : c.cbegin();
#define VF_INS(CALL, HCALL) (hinted ? ("e=" + el(c, c.HCALL)) : ret(c, c.CALL))
		if constexpr (isMap) {
			switch (how) {
			case 0: { const V x = mkMV(k, v); return VF_INS(insert(x), insert(hint, x)); }
			case 1: return VF_INS(insert(mkMV(k, v)), insert(hint, mkMV(k, v)));
			case 2: return VF_INS(insert(mkMP(k, v)), insert(hint, mkMP(k, v)));
			case 3: { const MP x = mkMP(k, v); return VF_INS(insert(x), insert(hint, x)); }
			case 4: return VF_INS(emplace(std::piecewise_construct, std::forward_as_tuple(k / 16, k % 16), std::forward_as_tuple(v / 1000, v % 1000)),
				emplace_hint(hint, std::piecewise_construct, std::forward_as_tuple(k / 16, k % 16), std::forward_as_tuple(v / 1000, v % 1000)));
			case 5: return VF_INS(emplace(std::piecewise_construct, std::forward_as_tuple(k), std::forward_as_tuple(v)),
				emplace_hint(hint, std::piecewise_construct, std::forward_as_tuple(k), std::forward_as_tuple(v)));
			case 6: return VF_INS(emplace(std::piecewise_construct, std::forward_as_tuple(CKey(k)), std::tuple<>()),
				emplace_hint(hint, std::piecewise_construct, std::forward_as_tuple(CKey(k)), std::tuple<>()));
			case 7: return VF_INS(emplace(), emplace_hint(hint));
			case 8: return VF_INS(emplace(mkMP(k, v)), emplace_hint(hint, mkMP(k, v)));
			default: { const CKey key(k); return VF_INS(emplace(key, CVal(v)), emplace_hint(hint, key, CVal(v))); }
			}
		} else {
			switch (how) {
			case 0: case 3: { const CKey x(k); return VF_INS(insert(x), insert(hint, x)); }
			case 1: case 2: return VF_INS(insert(CKey(k)), insert(hint, CKey(k)));
			case 4: return VF_INS(emplace(k / 16, k % 16), emplace_hint(hint, k / 16, k % 16));
			case 5: case 6: return VF_INS(emplace(k), emplace_hint(hint, k));
			case 7: return VF_INS(emplace(), emplace_hint(hint));
			case 8: return VF_INS(emplace(CKey(k)), emplace_hint(hint, CKey(k)));
			default: { const CKey key(k); return VF_INS(emplace(key), emplace_hint(hint, key)); }
			}
		}
#undef VF_INS
	}
	// a mapped constructor that throws inside a piecewise emplace; an allocation fault during such an emplace (see c06_api.cpp OA)
	static std::string insThrow(C& c, unsigned how, int k) {
		if constexpr (isMap) {
			try {
				switch (how % 4) {
				case 0: c.emplace(std::piecewise_construct, std::forward_as_tuple(k / 16, k % 16), std::forward_as_tuple(777, 1)); break;
				case 1: c.emplace_hint(c.cbegin(), std::piecewise_construct, std::forward_as_tuple(k / 16, k % 16), std::forward_as_tuple(777, 1)); break;
				case 2: c.emplace(std::piecewise_construct, std::forward_as_tuple(CKey(k)), std::forward_as_tuple(777, 2)); break;
				default: { if constexpr (kind == UMAP) { CKey key(k); c.try_emplace(std::move(key), 777, 3); } else c.emplace(std::piecewise_construct, std::forward_as_tuple(k), std::forward_as_tuple(777, 3)); break; }
				}
				return "no exception";
			}
			catch (const std::runtime_error&) { return "E:user"; }
		} else return "";
	}
	static bool insAllocFail(C& c, unsigned how, int k, int v, long countdown) {
		ledger().failCountdown = countdown; ledger().fired = false;
		bool threw = false;
		try {
			if constexpr (isMap) {
				switch (how % 3) {
				case 0: c.emplace(std::piecewise_construct, std::forward_as_tuple(k / 16, k % 16), std::forward_as_tuple(v / 1000, v % 1000)); break;
				case 1: c.emplace_hint(c.cend(), std::piecewise_construct, std::forward_as_tuple(k / 16, k % 16), std::forward_as_tuple(v / 1000, v % 1000)); break;
				default: c.emplace(std::piecewise_construct, std::forward_as_tuple(k), std::forward_as_tuple(v)); break;
				}
			} else {
				if (how % 2) c.emplace(k / 16, k % 16); else c.emplace_hint(c.cbegin(), k / 16, k % 16);
			}
		}
		catch (const std::bad_alloc&) { threw = true; }
		catch (const std::runtime_error&) { threw = true; }	// "Hash table is full": no room left to overload (see the caller)
		ledger().failCountdown = -1;	// (ledger().fired stays: the caller wants to know whether the fault was reached)
		return threw;
	}
	static std::string tryE(C& c, unsigned how, int k, int v) {
		if constexpr (kind == UMAP) {
			CKey key(k); CVal val(v);
			std::string r;
			switch (how) {
			case 0: r = ret(c, c.try_emplace(std::move(key), std::move(val))); break;
			case 1: r = "e=" + el(c, c.try_emplace(c.cbegin(), std::move(key), std::move(val))); break;
			case 2: r = ret(c, c.try_emplace(static_cast<const CKey&>(key), v / 1000, v % 1000)); break;
			case 3: r = "e=" + el(c, c.try_emplace(c.cend(), static_cast<const CKey&>(key), v / 1000, v % 1000)); break;
			case 4: r = ret(c, c.try_emplace(std::move(key))); break;
			default: r = "e=" + el(c, c.try_emplace(c.cend(), std::move(key))); break;
			}
			return r + fmt(" keymoved=%d valmoved=%d", key.moved, val.moved);
		} else return "";
	}
	static std::string ioa(C& c, unsigned how, int k, int v) {
		if constexpr (kind == UMAP) {
			CKey key(k); CVal val(v);
			std::string r;
			switch (how) {
			case 0: r = ret(c, c.insert_or_assign(std::move(key), std::move(val))); break;
			case 1: r = "e=" + el(c, c.insert_or_assign(c.cbegin(), std::move(key), std::move(val))); break;
			case 2: r = ret(c, c.insert_or_assign(static_cast<const CKey&>(key), static_cast<const CVal&>(val))); break;
			default: r = "e=" + el(c, c.insert_or_assign(c.cend(), static_cast<const CKey&>(key), static_cast<const CVal&>(val))); break;
			}
			return r + fmt(" keymoved=%d", key.moved);
		} else return "";
	}
	static std::string idx(C& c, unsigned how, int k, int v) {
		if constexpr (kind == UMAP) {
			CKey key(k);
			switch (how) {
			case 0: { int x = static_cast<const CVal&>(c[std::move(key)]).v; return fmt("v=%d keymoved=%d", x, key.moved); }
			case 1: { c[std::move(key)] = CVal(v); return fmt("ok keymoved=%d", key.moved); }
			case 2: { int x = static_cast<const CVal&>(c[static_cast<const CKey&>(key)]).v; return fmt("v=%d", x); }
			default: { c[static_cast<const CKey&>(key)] = CVal(v); return "ok"; }
			}
		} else return "";
	}
	static std::string atKey(C& c, bool viaConst, int k) {
		if constexpr (kind == UMAP) {
			try {
				const CKey key(k);
				if (viaConst) { const C& cc = c; return fmt("v=%d", cc.at(key).v); }
				return fmt("v=%d", c.at(key).v);
			}
			catch (const std::out_of_range&) { return "E:out_of_range"; }
		} else return "";
	}
	// lookups; hetero: the key is an int (momo: transparent hash + equality; libstdc++ in C++17: a CKey built from it)
	template<typename K> static std::string lookupWith(C& c, bool nonConst, const K& key, int k) {
		const C& cc = c;
		std::vector<P> rng; std::string f; bool has;
		if (nonConst) {
			auto it = c.find(key); f = it == c.end() ? "none" : (kind == UMMAP ? (get(it).first == k ? "somevalue" : "OTHER-KEY") : el(c, it));
			auto r = c.equal_range(key);
			if constexpr (kind == UMMAP || !isMomo) { for (auto i = r.first; i != r.second; ++i) rng.push_back(get(i)); }
			else { if (r.first != c.end()) rng.push_back(get(r.first)); if (!(r.second == c.end())) return "equal_range.second is not end()"; }
		} else {
			auto it = cc.find(key); f = it == cc.end() ? "none" : (kind == UMMAP ? (get(it).first == k ? "somevalue" : "OTHER-KEY") : el(c, it));
			auto r = cc.equal_range(key);
			if constexpr (kind == UMMAP || !isMomo) { for (auto i = r.first; i != r.second; ++i) rng.push_back(get(i)); }
			else { if (r.first != cc.end()) rng.push_back(get(r.first)); if (!(r.second == cc.end())) return "equal_range.second is not end()"; }
		}
		std::sort(rng.begin(), rng.end());
		if constexpr (isMomo) has = cc.contains(key); else has = cc.find(key) != cc.end();
		return fmt("find=%s cnt=%zu has=%d eqr=%s", f.c_str(), (size_t)cc.count(key), (int)has, pairsStr(rng).c_str());
	}
	static std::string lookup(C& c, bool hetero, bool nonConst, int k) {
		if constexpr (isMomo) { if (hetero) return lookupWith(c, nonConst, k, k); }
		const CKey key(k); return lookupWith(c, nonConst, key, k);
	}
	// erase(iterator) / erase(const_iterator) at the element p, the iterator found by traversal (viaFind: as a lookup result, unique keys only)
	static std::string ere(C& c, bool viaIterator, bool viaFind, P p) {
		const C& cc = c;
		const CKey key(p.first);
		if (viaIterator) {
			if constexpr (kind == USET) { auto it = viaFind ? c.find(key) : c.begin(); if (!viaFind) while (get(it) != p) ++it; c.erase(it); }
			else { It it = viaFind ? c.find(key) : c.begin(); if (!viaFind) while (get(it) != p) ++it; c.erase(it); }
		} else { CIt it = viaFind ? cc.find(key) : cc.begin(); if (!viaFind) while (get(it) != p) ++it; c.erase(it); }
		return "ok";
	}
	static std::string erk(C& c, int k) { const CKey key(k); return fmt("n=%zu", (size_t)c.erase(key)); }
	static std::string erif(C& c, int m, int r) {
		size_t n = 0;
		if constexpr (isMomo) {
			if constexpr (kind == USET) n = erase_if(c, [m, r](const CKey& x) { return x.k % m == r; });
			else n = erase_if(c, [m, r](typename C::const_reference ref) { return ref.first.k % m == r; });
		} else { for (auto it = c.begin(); it != c.end(); ) { if (get(it).first % m == r) { it = c.erase(it); ++n; } else ++it; } }
		return fmt("n=%zu", n);
	}
	static std::string observers(const C& c, int k1, int k2) {
		CKey a(k1), b(k2);
		auto hf = c.hash_function(); auto ke = c.key_eq();
		return fmt("salt=%u hash_ok=%d key_eq=%d eqid=%d alloc=%d max_size_ok=%d", hf.salt, (int)(hf(a) == HashCK(hf.salt)(a)), (int)ke(a, b), ke.id,
			c.get_allocator().id, (int)(c.max_size() >= c.size() && c.max_size() > 1000));
	}
	static std::string cmp(const C& a, const C& b) { return fmt("c=%d %d", (int)(a == b), (int)(a != b)); }
	static std::string node(C& src, C& dst, int k, int k2, int v2) {
		if constexpr (kind != UMMAP) {
			const CKey key(k);
			auto nh = src.extract(key);
			bool full = static_cast<bool>(nh);
			if (full != !nh.empty()) return "operator bool contradicts empty()";
			if (!full) return "empty";
			std::string r;
			if constexpr (isMap) { r = fmt("%d:%d", nh.key().k, nh.mapped().v); nh.key() = CKey(k2); nh.mapped() = CVal(v2); }
			else { r = fmt("%d", nh.value().k); nh.value() = CKey(k2); }
			auto res = dst.insert(std::move(nh));
			r += fmt(" -> e=%s %d node=%s", el(dst, res.position).c_str(), (int)res.inserted, res.node.empty() ? "empty" : "kept");
			if (!res.node.empty()) { if constexpr (isMap) r += fmt(" %d:%d", res.node.key().k, res.node.mapped().v); else r += fmt(" %d", res.node.value().k); }
			return r;
		} else return "";
	}
	static std::string state(const C& c) {
		return fmt("%s salt=%u eqid=%d alloc=%d", pairsStr(sorted(c)).c_str(), c.hash_function().salt, c.key_eq().id, c.get_allocator().id);
	}
	// constructor forms 0..7: () | (alloc) | (n) | (n, alloc) | (n, hash) | (n, hash, alloc) | (n, hash, eq) | (n, hash, eq, alloc)
	static void constructEmpty(C& c, unsigned form, size_t n, const HashCK& hf, const EqCK& eq, const A& alloc) {
		c.~C();
		void* p = static_cast<void*>(&c);
		switch (form) {
		case 0: ::new (p) C(); break;
		case 1: ::new (p) C(alloc); break;
		case 2: ::new (p) C(n); break;
		case 3: ::new (p) C(n, alloc); break;
		case 4: ::new (p) C(n, hf); break;
		case 5: ::new (p) C(n, hf, alloc); break;
		case 6: ::new (p) C(n, hf, eq); break;
		default: ::new (p) C(n, hf, eq, alloc); break;
		}
	}
	// range forms 0..6: (f, l) | (f, l, n) | (f, l, n, alloc) | (f, l, n, hash) | (f, l, n, hash, alloc) | (f, l, n, hash, eq) | (f, l, n, hash, eq, alloc)
	template<typename I> static void construct(C& c, unsigned form, I first, I last, size_t n, const HashCK& hf, const EqCK& eq, const A& alloc) {
		c.~C();
		void* p = static_cast<void*>(&c);
		switch (form) {
		case 0: ::new (p) C(first, last); break;
		case 1: ::new (p) C(first, last, n); break;
		case 2: ::new (p) C(first, last, n, alloc); break;
		case 3: ::new (p) C(first, last, n, hf); break;
		case 4: ::new (p) C(first, last, n, hf, alloc); break;
		case 5: ::new (p) C(first, last, n, hf, eq); break;
		default: ::new (p) C(first, last, n, hf, eq, alloc); break;
		}
	}
#define VF_IL0 {}
#define VF_IL1 { mk(ys[0].first, ys[0].second) }
#define VF_IL2 { mk(ys[0].first, ys[0].second), mk(ys[1].first, ys[1].second) }
#define VF_IL3 { mk(ys[0].first, ys[0].second), mk(ys[1].first, ys[1].second), mk(ys[2].first, ys[2].second) }
	static void constructList(C& c, unsigned form, const std::vector<P>& ys, size_t n, const HashCK& hf, const EqCK& eq, const A& alloc) {
		c.~C();
		void* p = static_cast<void*>(&c);
#define VF_CTOR(IL) switch (form) { \
		case 0: ::new (p) C(std::initializer_list<V> IL); break; \
		case 1: ::new (p) C(std::initializer_list<V> IL, n); break; \
		case 2: ::new (p) C(std::initializer_list<V> IL, n, alloc); break; \
		case 3: ::new (p) C(std::initializer_list<V> IL, n, hf); break; \
		case 4: ::new (p) C(std::initializer_list<V> IL, n, hf, alloc); break; \
		case 5: ::new (p) C(std::initializer_list<V> IL, n, hf, eq); break; \
		default: ::new (p) C(std::initializer_list<V> IL, n, hf, eq, alloc); break; }
		switch (ys.size()) {
		case 0: VF_CTOR(VF_IL0) break;
		case 1: VF_CTOR(VF_IL1) break;
		case 2: VF_CTOR(VF_IL2) break;
		default: VF_CTOR(VF_IL3) break;
		}
#undef VF_CTOR
	}
	static void assignList(C& c, const std::vector<P>& ys) {
		switch (ys.size()) {
		case 0: c = std::initializer_list<V> VF_IL0; break;
		case 1: c = VF_IL1; break;
		case 2: c = VF_IL2; break;
		default: c = VF_IL3; break;
		}
	}
	static void insertList(C& c, const std::vector<P>& ys) {
		switch (ys.size()) {
		case 0: c.insert(std::initializer_list<V> VF_IL0); break;
		case 1: c.insert(VF_IL1); break;
		case 2: c.insert(VF_IL2); break;
		default: c.insert(VF_IL3); break;
		}
	}
#undef VF_IL0
#undef VF_IL1
#undef VF_IL2
#undef VF_IL3
	template<typename F> static void withRange(const std::vector<P>& ys, unsigned iterKind, F&& f) {
		if (isMap && iterKind == 3) {
			if constexpr (isMap) { std::vector<MP> src; src.reserve(ys.size()); for (auto& y : ys) src.push_back(mkMP(y.first, y.second)); f(src.begin(), src.end()); }
			return;
		}
		std::vector<V> src; src.reserve(ys.size());
		for (auto& y : ys) src.push_back(mk(y.first, y.second));
		switch (iterKind) {
		case 1: f(InputIt<V>(src, 0), InputIt<V>(src, src.size())); break;
		case 2: f(InputIt<V, true>(src, 0), InputIt<V, true>(src, src.size())); break;
		default: f(src.begin(), src.end()); break;
		}
	}
};

template<typename M, typename S, UKind kind>
static void runUnorderedApi(Ctx& c, Rng& rng, const char* kindName, unsigned runs, unsigned opsPerRun)
{
	typedef UA<M, kind, true> OM;
	typedef UA<S, kind, false> OS;
	typedef typename M::allocator_type AM;
	typedef typename S::allocator_type AS;
	std::string tag = std::string(kindName) + (VF_OPEN ? "_open" : "");
	for (unsigned run = 0; run < runs; ++run) {
		Chk R(c, tag);
		static const int ranges[] = { 6, 40, 300, 3000 };
		int range = ranges[rng.below(4)];
		if (kind == UMMAP && rng.chance(1, 2)) range = 4 + (int)rng.below(8);
		static const size_t targets[] = { 0, 10, 60, 300 };
		size_t target = targets[rng.below(4)];
		hc().fam = (unsigned)rng.below(8);
		if (target >= 300 && hc().fam == 0) hc().fam = 4;	// a constant hash makes large tables quadratic
		{
			M ma, mb; S sa, sb;
			int nextV = 1;
			int freshKey = 100000;
			{
				unsigned form = (unsigned)rng.below(8); size_t bn = (size_t)rng.below(3) * 37;
				HashCK hf(form >= 4 ? 0x55u : 0u); EqCK eq(form >= 6 ? 3 : 0);
				OM::constructEmpty(ma, form, bn, hf, eq, AM(5)); OS::constructEmpty(sa, form, bn, hf, eq, AS(5));
				OM::constructEmpty(mb, form, bn, hf, eq, AM(5)); OS::constructEmpty(sb, form, bn, hf, eq, AS(5));
				R.step(fmt("cempty form=%u n=%zu", form, bn), OM::state(ma), OS::state(sa));
				if constexpr (kind != UMMAP) {
					// [unord.req]: X(n, ...) constructs an empty container with at least n buckets. momo allocates the bucket array at the
					// first insertion (open finding F33: bucket_count() == 0 while empty) - reported once per executable, and ONLY for
					// "empty and bucket_count() == 0"; any other shortfall is an ordinary failure
					if (form >= 2 && ma.bucket_count() < bn) {
						c.stats.count("api.ctor_bucket_count_below_n");
						if (ma.bucket_count() == 0 && ma.empty()) {
							if (!g_f33Reported) {
								g_f33Reported = true;
								c.fail("C06 api/%s known-F33 ctor-bucket-count-zero: constructor(bucket_count n=%zu) of an empty container: bucket_count() = 0 < n (std: at least n buckets; libstdc++ %zu)", tag.c_str(), bn, (size_t)sa.bucket_count());
							}
						} else R.inv(false, "cempty", fmt("constructed with bucket count %zu, bucket_count() = %zu", bn, (size_t)ma.bucket_count()));
					}
					// after the first insertion the requested bucket count must be there
					if (form >= 2) {
						M t; S u;
						OM::constructEmpty(t, form, bn, hf, eq, AM(5)); OS::constructEmpty(u, form, bn, hf, eq, AS(5));
						R.step(fmt("cempty+ins form=%u n=%zu", form, bn), OM::ins(t, 1, false, false, 1, 1), OS::ins(u, 1, false, false, 1, 1));
						R.inv(t.bucket_count() >= bn, "cempty+ins", fmt("constructed with bucket count %zu, after the first insertion bucket_count() = %zu", bn, (size_t)t.bucket_count()));
					}
				}
			}
			auto someItems = [&](size_t maxN) { std::vector<P> ys; size_t cnt = (size_t)rng.below(maxN + 1); for (size_t i = 0; i < cnt; ++i) ys.push_back(P((int)rng.below((uint64_t)range), kind != USET ? nextV++ : 0)); return ys; };
			for (unsigned step = 0; step < opsPerRun && !R.diverged; ++step) {
				bool grow = ma.size() < target && rng.chance(2, 3);
				bool onA = grow || rng.chance(3, 4);
				M& m = onA ? ma : mb; S& st = onA ? sa : sb;
				M& mo = onA ? mb : ma; S& so = onA ? sb : sa;
				const char* cn = onA ? "a" : "b";
				size_t n = m.size();
				int k = rng.chance(1, 5) ? (int)rng.below((uint64_t)range + 3) : (int)rng.below((uint64_t)range);
				int v = nextV++;
				unsigned op = (unsigned)rng.below(100);
				if (grow) op = (unsigned)rng.below(24);
				else if (n > target + 40 && op < 24) op = 50 + op % 8;
				if (op < 24) {
					unsigned how = (unsigned)rng.below(OM::insHows); bool hinted = rng.chance(1, 3), he = rng.chance(1, 2);
					R.step(fmt("ins%u hint=%d%d %s %d %d", how, (int)hinted, (int)he, cn, k, v), OM::ins(m, how, hinted, he, k, v), OS::ins(st, how, hinted, he, k, v));
					// [unord.req]: insertions keep the load factor at or below max_load_factor()
					if constexpr (kind != UMMAP) R.inv(m.load_factor() <= m.max_load_factor() * 1.0001f, "ins", fmt("after an insertion load_factor() %g > max_load_factor() %g (size %zu, %zu buckets)", (double)m.load_factor(), (double)m.max_load_factor(), (size_t)m.size(), (size_t)m.bucket_count()));
				}
				else if (op < 36 && kind == UMAP) {
					switch (rng.below(4)) {
					case 0: { unsigned how = (unsigned)rng.below(6); R.step(fmt("try%u %s %d %d", how, cn, k, v), OM::tryE(m, how, k, v), OS::tryE(st, how, k, v)); break; }
					case 1: { unsigned how = (unsigned)rng.below(4); R.step(fmt("ioa%u %s %d %d", how, cn, k, v), OM::ioa(m, how, k, v), OS::ioa(st, how, k, v)); break; }
					case 2: { unsigned how = (unsigned)rng.below(4); R.step(fmt("idx%u %s %d %d", how, cn, k, v), OM::idx(m, how, k, v), OS::idx(st, how, k, v)); break; }
					default: { bool vc = rng.chance(1, 2); std::string a = OM::atKey(m, vc, k); if (a == "E:out_of_range") c.stats.count(vc ? "api.uat_const.out_of_range" : "api.uat.out_of_range"); R.step(fmt("at%d %s %d", (int)vc, cn, k), a, OS::atKey(st, vc, k)); break; }
					}
				}
				else if (op < 50) { bool het = rng.chance(1, 2), nc = rng.chance(1, 2); R.step(fmt("look hetero=%d nc=%d %s %d", (int)het, (int)nc, cn, k), OM::lookup(m, het, nc, k), OS::lookup(st, het, nc, k)); }
				else if (op < 54) {
					if (n == 0) continue;
					auto lay = OS::sorted(st); P p = lay[rng.below(lay.size())];
					bool vi = rng.chance(1, 2), vf = kind != UMMAP && rng.chance(1, 2);
					R.step(fmt("ere it=%d find=%d %s %d:%d", (int)vi, (int)vf, cn, p.first, p.second), OM::ere(m, vi, vf, p), OS::ere(st, vi, vf, p));
				}
				else if (op < 57) R.step(fmt("erk %s %d", cn, k), OM::erk(m, k), OS::erk(st, k));
				else if (op < 59) { int mm = 2 + (int)rng.below(4), rr = (int)rng.below((uint64_t)mm); R.step(fmt("erif %s %d %d", cn, mm, rr), OM::erif(m, mm, rr), OS::erif(st, mm, rr)); }
				else if (op < 62) { int k2 = (int)rng.below((uint64_t)range); R.step(fmt("obs %s %d %d", cn, k, k2), OM::observers(m, k, k2), OS::observers(st, k, k2)); }
				else if (op < 65) {
					// [unord.req]: == is undefined unless both containers hash / compare keys alike
					if (ma.hash_function().salt != mb.hash_function().salt) continue;
					R.step("cmp", OM::cmp(ma, mb), OS::cmp(sa, sb));
				}
				else if (op < 67) { if (rng.chance(1, 2)) { swap(ma, mb); swap(sa, sb); } else { ma.swap(mb); sa.swap(sb); } R.step("swap", OM::state(ma) + " | " + OM::state(mb), OS::state(sa) + " | " + OS::state(sb)); }
				else if (op < 70) {
					if constexpr (kind != UMMAP) {
						if (!(m.get_allocator() == mo.get_allocator())) continue;	// a node may only enter a container with an equal allocator
						int pk = k;
						if (!mo.empty() && rng.chance(3, 4)) { auto lay = OS::sorted(so); pk = lay[rng.below(lay.size())].first; }
						int k2 = (int)rng.below((uint64_t)range);
						R.step(fmt("node %s->%s %d newkey=%d", onA ? "b" : "a", cn, pk, k2), OM::node(mo, m, pk, k2, v), OS::node(so, st, pk, k2, v));
					}
				}
				else if (op < 74) {
					auto ys = someItems(rng.chance(1, 4) ? 60 : 5);
					unsigned form = (unsigned)rng.below(7), ik = (unsigned)rng.below(kind != USET ? 4 : 3); size_t bn = (size_t)rng.below(4) * 21;
					HashCK hf(form >= 3 ? 0x99u : 0u); EqCK eq(form >= 5 ? 4 : 0);
					OM::withRange(ys, ik, [&](auto f, auto l) { OM::construct(m, form, f, l, bn, hf, eq, AM(6)); });
					OS::withRange(ys, ik, [&](auto f, auto l) { OS::construct(st, form, f, l, bn, hf, eq, AS(6)); });
					R.step(fmt("crange form=%u iter=%u n=%zu %s %s", form, ik, bn, cn, pairsStr(ys).c_str()), OM::state(m), OS::state(st));
					if constexpr (kind != UMMAP) { if (form >= 1 && !m.empty()) R.inv(m.bucket_count() >= bn, "crange", fmt("constructed with bucket count %zu, bucket_count() = %zu", bn, (size_t)m.bucket_count())); }
				}
				else if (op < 77) {
					auto ys = someItems(3); unsigned form = (unsigned)rng.below(7); size_t bn = (size_t)rng.below(4) * 21;
					HashCK hf(form >= 3 ? 0x77u : 0u); EqCK eq(form >= 5 ? 8 : 0);
					OM::constructList(m, form, ys, bn, hf, eq, AM(4)); OS::constructList(st, form, ys, bn, hf, eq, AS(4));
					R.step(fmt("clist form=%u n=%zu %s %s", form, bn, cn, pairsStr(ys).c_str()), OM::state(m), OS::state(st));
				}
				else if (op < 80) {
					auto ys = someItems(rng.chance(1, 4) ? 40 : 5); unsigned ik = (unsigned)rng.below(kind != USET ? 4 : 3);
					OM::withRange(ys, ik, [&](auto f, auto l) { m.insert(f, l); });
					OS::withRange(ys, ik, [&](auto f, auto l) { st.insert(f, l); });
					R.step(fmt("insr iter=%u %s %s", ik, cn, pairsStr(ys).c_str()), OM::state(m), OS::state(st));
				}
				else if (op < 82) { auto ys = someItems(3); OM::insertList(m, ys); OS::insertList(st, ys); R.step(fmt("insl %s %s", cn, pairsStr(ys).c_str()), OM::state(m), OS::state(st)); }
				else if (op < 84) { auto ys = someItems(3); OM::assignList(m, ys); OS::assignList(st, ys); R.step(fmt("asl %s %s", cn, pairsStr(ys).c_str()), OM::state(m), OS::state(st)); }
				else if (op < 85) {
					unsigned how = (unsigned)rng.below(12);
					if (rng.chance(1, 3)) { m.clear(); st.clear(); R.step(fmt("clear %s", cn), OM::state(m), OS::state(st)); }
					// (a key that is absent: whether the mapped object is constructed at all for a present key is unspecified - libstdc++ does, momo does not)
					else if (kind != USET && rng.chance(1, 2)) { int fk = freshKey++; c.stats.count("api.emplace_mapped_ctor_throws"); R.step(fmt("insthrow%u %s %d", how % 4, cn, fk), OM::insThrow(m, how, fk), OS::insThrow(st, how, fk)); }
					else {
						// the table allocates only when it grows: fresh keys are emplaced with the NEXT allocation failing until one call throws
						for (unsigned attempt = 0; attempt < 48 && !R.diverged; ++attempt) {
							int fk = freshKey++;
							std::string before = OM::state(m);
							bool threw = OM::insAllocFail(m, how, fk, v, 0);
							bool faultReached = ledger().fired;
							std::string opn = fmt("insallocfail%u %s %d %d", how % 3, cn, fk, v);
							R.note(opn, threw ? "E:bad_alloc" : "inserted");
							c.stats.count(threw ? "api.emplace_alloc_fault_thrown" : "api.emplace_alloc_fault_not_reached");
							if (threw) { R.inv(OM::state(m) == before, opn, "bad_alloc from emplace changed the container: " + before + " -> " + OM::state(m)); break; }
							OS::insAllocFail(st, how, fk, v, -1);
							// the fault fired but the call succeeded: the table was overloaded instead of grown (HashSetSettings::overloadIfCannotGrow) - once is enough
							// and is grown at once by one ordinary insertion, so that the load-factor statements of [unord.req] hold again
							if (faultReached) {
								c.stats.count("api.emplace_alloc_fault_overloaded_instead");
								int gk = freshKey++;
								R.step(fmt("ins1 %s %d %d (growing the overloaded table)", cn, gk, 0), OM::ins(m, 1, false, false, gk, 0), OS::ins(st, 1, false, false, gk, 0));
								break;
							}
						}
					}
				}
				else {
					if constexpr (kind != UMMAP) {
						// ---- bucket interface, load factors, rehash / reserve (documented as not implemented for unordered_multimap)
						unsigned w = (unsigned)rng.below(10);
						if (w < 3) {
							std::string opn = fmt("buckets %s", cn);
							std::string a = bucketInvariants(m, typename OM::GetP()), b = bucketInvariants(st, typename OS::GetP());
							R.note(opn, a.empty() ? fmt("ok bc=%zu", (size_t)m.bucket_count()) : a);
							if (!b.empty()) R.inv(false, opn, "ORACLE: libstdc++ itself violates: " + b);
							R.inv(a.empty(), opn, a);
							c.stats.count(m.bucket_count() > 64 ? "api.buckets_checked_gt64" : "api.buckets_checked_le64");
						}
						else if (w < 5) {
							size_t bn = rng.chance(1, 4) ? 0 : (size_t)rng.below(4 * n + 40);
							std::string opn = fmt("rehash %s %zu", cn, bn);
							m.rehash(bn); st.rehash(bn);
							R.note(opn, fmt("bc=%zu", (size_t)m.bucket_count()));
							if (m.bucket_count() == 0 && m.empty() && bn > 0) {
								// open finding F33, second entry point: a container without bucket array (it never held an element);
								// rehash(n) with floor(2^k * max_load_factor()) == 0
								// (n <= 2 with z = 0.25, ...) calls Reserve(0), which allocates nothing: bucket_count() stays 0 < n
								c.stats.count("api.rehash_bucket_count_zero");
								if (!g_f33RehashReported) { g_f33RehashReported = true; c.fail("C06 api/%s known-F33 rehash-bucket-count-zero: empty container without bucket array, max_load_factor() = %g: after rehash(%zu) bucket_count() = 0 < n (std: bucket_count() >= n; libstdc++ %zu)", tag.c_str(), (double)m.max_load_factor(), bn, (size_t)st.bucket_count()); }
							}
							else R.inv(m.bucket_count() >= bn, opn, fmt("after rehash(%zu) bucket_count() = %zu < n", bn, (size_t)m.bucket_count()));
							R.inv((float)m.size() <= m.max_load_factor() * (float)m.bucket_count() * 1.0001f, opn, fmt("after rehash(%zu) bucket_count() %zu < size() %zu / max_load_factor() %g", bn, (size_t)m.bucket_count(), (size_t)m.size(), (double)m.max_load_factor()));
							std::string a = bucketInvariants(m, typename OM::GetP()); R.inv(a.empty(), opn, a);
						}
						else if (w < 7) {
							// reserve(n) = rehash(ceil(n / max_load_factor())), and no rehash while size() <= n
							size_t want = n + (size_t)rng.below(50);
							std::string opn = fmt("reserve %s %zu", cn, want);
							m.reserve(want); st.reserve(want);
							size_t bc0 = m.bucket_count(), sbc0 = st.bucket_count();
							R.note(opn, fmt("bc=%zu", bc0));
							R.inv((float)bc0 * m.max_load_factor() * 1.0001f >= (float)want, opn, fmt("after reserve(%zu) bucket_count() %zu * max_load_factor() %g < n", want, bc0, (double)m.max_load_factor()));
							bool changed = false, schanged = false;
							while (m.size() < want && !R.diverged) {
								int fk = freshKey++;
								R.step(fmt("ins1 %s %d %d (filling up to the reserved size)", cn, fk, 0), OM::ins(m, 1, false, false, fk, 0), OS::ins(st, 1, false, false, fk, 0));
								if (m.bucket_count() != bc0) changed = true;
								if (st.bucket_count() != sbc0) schanged = true;
							}
							// (libstdc++ itself sometimes re-buckets here for tiny tables with a fractional load factor: counted, not judged)
							if (schanged) c.stats.count("api.reserve_then_fill_libstdcxx_rebucketed");
							R.inv(!changed, opn, fmt("bucket_count() changed from %zu to %zu while size() <= reserved %zu (a rehash)", bc0, (size_t)m.bucket_count(), want));
							c.stats.count("api.reserve_then_fill");
						}
						else if (w < 9) {
							// max_load_factor(z): the table is rebuilt; libstdc++ gets the same call
							float z = rng.chance(1, 3) ? 1.0f : (0.25f + (float)rng.below(12) * 0.25f);
							if (z > (float)M::nested_container_type::bucketMaxItemCount) z = (float)M::nested_container_type::bucketMaxItemCount;
							std::string opn = fmt("mlf %s %g", cn, (double)z);
							m.max_load_factor(z); st.max_load_factor(z);
							R.step(opn, fmt("mlf=%g", (double)m.max_load_factor()), fmt("mlf=%g", (double)st.max_load_factor()));
							std::string a = bucketInvariants(m, typename OM::GetP()); R.inv(a.empty(), opn, a);
							c.stats.count("api.max_load_factor_set");
						}
						else {
							// outside momo's accepted interval: std::out_of_range is momo's documented answer; nothing may change
							float z = rng.chance(1, 2) ? -1.0f : (float)M::nested_container_type::bucketMaxItemCount + 1.5f;
							std::string opn = fmt("mlf_bad %s %g", cn, (double)z);
							float before = m.max_load_factor(); std::string s0 = OM::state(m);
							bool threw = false;
							try { m.max_load_factor(z); } catch (const std::out_of_range&) { threw = true; }
							R.note(opn, threw ? "E:out_of_range" : "accepted");
							if (threw) R.inv(m.max_load_factor() == before && OM::state(m) == s0, opn, "threw out_of_range but changed the container");
							c.stats.count(threw ? "api.max_load_factor_refused" : "api.max_load_factor_out_of_interval_accepted");
						}
					}
				}
				if (R.diverged) break;
				std::string ca = pairsStr(OM::sorted(ma)), cb = pairsStr(OM::sorted(mb));
				if (ca != pairsStr(OS::sorted(sa)) || cb != pairsStr(OS::sorted(sb))) {
					R.inv(false, "contents", fmt("contents differ: momo a [%s] b [%s], libstdc++ a [%s] b [%s]", ca.c_str(), cb.c_str(), pairsStr(OS::sorted(sa)).c_str(), pairsStr(OS::sorted(sb)).c_str()));
					break;
				}
				if (ma.size() != sa.size() || ma.empty() != sa.empty()) R.inv(false, "size", "size() / empty() differ");
				// ledger: unordered_multimap stores each of duplicate keys once (documented), so only the mapped objects are counted there
				long expect = (long)(ma.size() + mb.size() + sa.size() + sb.size());
				if ((kind != UMMAP && cc().liveKeys != expect) || (kind != USET && cc().liveVals != expect))
					R.inv(false, "ledger", fmt("%ld keys / %ld mapped objects alive, %ld elements stored in the four containers", cc().liveKeys, cc().liveVals, expect));
			}
			if (!R.diverged) c.stats.nontrivial(fmt("api_%s run=%u range=%d target=%zu hash=%s", tag.c_str(), run, range, target, hashFamName(hc().fam)));
			if (run < 1) c.stats.sample(fmt("api_%s: %s", tag.c_str(), R.tail().substr(0, 300).c_str()));
		}
		if (cc().liveKeys != 0 || cc().liveVals != 0) { c.fail("C06 api/%s: %ld keys / %ld mapped objects alive after all containers were destroyed; last calls: %s", tag.c_str(), cc().liveKeys, cc().liveVals, R.tail().c_str()); cc() = CountedCtl(); }
	}
}

static void deductionUnordered(Ctx& c)
{
	std::vector<int> ks = { 5, 1, 9, 1 };
	std::vector<std::pair<int, int>> ps = { { 5, 50 }, { 1, 10 }, { 9, 90 }, { 1, 11 } };
	typedef std::hash<int> H;
#if VF_OPEN
#define VF_US momo::stdish::unordered_set_open
#define VF_UM momo::stdish::unordered_map_open
#define VF_UMM momo::stdish::unordered_multimap_open
#else
#define VF_US momo::stdish::unordered_set
#define VF_UM momo::stdish::unordered_map
#define VF_UMM momo::stdish::unordered_multimap
#endif
	VF_US s1(ks.begin(), ks.end());
	static_assert(std::is_same<decltype(s1), VF_US<int>>::value, "unordered_set(It, It)");
	VF_US s2(ks.begin(), ks.end(), 16, H());
	static_assert(std::is_same<decltype(s2), VF_US<int, H>>::value, "unordered_set(It, It, n, Hash)");
	VF_US s3(ks.begin(), ks.end(), 16, H(), std::equal_to<int>());
	static_assert(std::is_same<decltype(s3), VF_US<int, H, std::equal_to<int>>>::value, "unordered_set(It, It, n, Hash, Eq)");
	VF_US s4({ 3, 1, 2, 3 });
	static_assert(std::is_same<decltype(s4), VF_US<int>>::value, "unordered_set(il)");
	VF_US s5({ 3, 1, 2, 3 }, 16, H());
	static_assert(std::is_same<decltype(s5), VF_US<int, H>>::value, "unordered_set(il, n, Hash)");
	VF_UM m1(ps.begin(), ps.end());
	static_assert(std::is_same<decltype(m1), VF_UM<int, int>>::value, "unordered_map(It, It)");
	VF_UM m2(ps.begin(), ps.end(), 16, H());
	static_assert(std::is_same<decltype(m2), VF_UM<int, int, H>>::value, "unordered_map(It, It, n, Hash)");
	VF_UM m3({ std::pair<const int, int>(2, 20), std::pair<const int, int>(1, 10) });
	static_assert(std::is_same<decltype(m3), VF_UM<int, int>>::value, "unordered_map(il)");
	VF_UMM mm1(ps.begin(), ps.end());
	static_assert(std::is_same<decltype(mm1), VF_UMM<int, int>>::value, "unordered_multimap(It, It)");
	VF_UMM mm2(ps.begin(), ps.end(), 16, H());
	static_assert(std::is_same<decltype(mm2), VF_UMM<int, int, H>>::value, "unordered_multimap(It, It, n, Hash)");
	VF_UMM mm3({ std::pair<const int, int>(2, 20), std::pair<const int, int>(2, 21) });
	static_assert(std::is_same<decltype(mm3), VF_UMM<int, int>>::value, "unordered_multimap(il)");
#undef VF_US
#undef VF_UM
#undef VF_UMM
	auto seq = [](const auto& cont) {
		std::vector<P> v;
		for (auto it = cont.begin(); it != cont.end(); ++it) { if constexpr (std::is_same<typename std::decay<decltype(cont)>::type::key_type, typename std::decay<decltype(cont)>::type::value_type>::value) v.push_back(P(*it, 0)); else v.push_back(P(it->first, it->second)); }
		std::sort(v.begin(), v.end()); return seqStr(v);
	};
	auto expect = [&](const char* what, const std::string& got, const std::string& want) {
		c.stats.evaluations++;
		if (got != want) c.fail("C06 api/deduction %s: contents [%s], std container built the same way holds [%s]", what, got.c_str(), want.c_str());
	};
	expect("unordered_set(It,It)", seq(s1), seq(std::unordered_set<int>(ks.begin(), ks.end())));
	expect("unordered_set(It,It,n,H)", seq(s2), seq(std::unordered_set<int>(ks.begin(), ks.end())));
	expect("unordered_set(It,It,n,H,E)", seq(s3), seq(std::unordered_set<int>(ks.begin(), ks.end())));
	expect("unordered_set{il}", seq(s4), seq(std::unordered_set<int>{ 3, 1, 2, 3 }));
	expect("unordered_set(il,n,H)", seq(s5), seq(std::unordered_set<int>{ 3, 1, 2, 3 }));
	expect("unordered_map(It,It)", seq(m1), seq(std::unordered_map<int, int>(ps.begin(), ps.end())));
	expect("unordered_map(It,It,n,H)", seq(m2), seq(std::unordered_map<int, int>(ps.begin(), ps.end())));
	expect("unordered_map{il}", seq(m3), seq(std::unordered_map<int, int>{ { 2, 20 }, { 1, 10 } }));
	expect("unordered_multimap(It,It)", seq(mm1), seq(std::unordered_multimap<int, int>(ps.begin(), ps.end())));
	expect("unordered_multimap(It,It,n,H)", seq(mm2), seq(std::unordered_multimap<int, int>(ps.begin(), ps.end())));
	expect("unordered_multimap{il}", seq(mm3), seq(std::unordered_multimap<int, int>{ { 2, 20 }, { 2, 21 } }));
	c.stats.count("api.deduction_guides_unordered", 11);
}

static void runUnorderedAll(Ctx& c, Rng& rng)
{
	unsigned runs = c.thorough ? 160 : 30, ops = c.thorough ? 600 : 400;
	{
		typedef SA<CKey, true, true, true> A;
#if VF_OPEN
		typedef momo::stdish::unordered_set_open<CKey, HashCK, EqCK, A> M;
#else
		typedef momo::stdish::unordered_set<CKey, HashCK, EqCK, A> M;
#endif
		typedef std::unordered_set<CKey, HashCK, EqCK, A> S;
		runUnorderedApi<M, S, USET>(c, rng, "uset", runs, ops);
	}
	{
		typedef SA<MV, true, true, true> A;
#if VF_OPEN
		typedef momo::stdish::unordered_map_open<CKey, CVal, HashCK, EqCK, A> M;
#else
		typedef momo::stdish::unordered_map<CKey, CVal, HashCK, EqCK, A> M;
#endif
		typedef std::unordered_map<CKey, CVal, HashCK, EqCK, A> S;
		runUnorderedApi<M, S, UMAP>(c, rng, "umap", runs, ops);
	}
	{
		typedef SA<MV, true, true, true> A;
#if VF_OPEN
		typedef momo::stdish::unordered_multimap_open<CKey, CVal, HashCK, EqCK, A> M;
#else
		typedef momo::stdish::unordered_multimap<CKey, CVal, HashCK, EqCK, A> M;
#endif
		typedef std::unordered_multimap<CKey, CVal, HashCK, EqCK, A> S;
		runUnorderedApi<M, S, UMMAP>(c, rng, "ummap", runs, ops);
	}
	deductionUnordered(c);
}
#endif // VF_PART == 2
