// C20 correspondence harness (std::forward_list, plain std::list), part 2: std::list / std::forward_list with momo's pool allocator against twins with
// std::allocator and against the Lean model (allocator level and container level).  See c20_alloc.h / c20_world.h.
#include "c20_world.h"

using namespace c20;

int main(int argc, char** argv)
{
	Ctx c = parseArgs(argc, argv);
	Rng rng(c.seed * 0x1000 + 25);
	arena().init(c); arena().rng = &rng; installCrashReporter();
	const unsigned steps = c.thorough ? 1500 : 500;
	const unsigned rounds = c.thorough ? 12 : 4;
	for (unsigned round = 0; round < rounds; ++round) {
		std::string r = fmt("r%u_", round);
		runTraced<KFwd<int>, Cfg<32, 0>>(c, rng, r + "fwd_int_a", steps);
		runTraced<KFwd<int>, Cfg<6, 16>>(c, rng, r + "fwd_int_b", steps);
		runTraced<KFwd<std::string>, Cfg<7, 1>>(c, rng, r + "fwd_str_a", steps);
		runTraced<KFwd<Big>, Cfg<1, 2>>(c, rng, r + "fwd_big_a", steps);
		// the momo allocator itself, without the reporting shell (default parameters and two others)
		runPlain<KList<std::string>, Cfg<4, 0>>(c, rng, r + "list_str", steps);
		runPlain<KFwd<int>, Cfg<1, 16>>(c, rng, r + "fwd_int", steps);
	}
	dumpTracerStats(c);
	return c.finish();
}
